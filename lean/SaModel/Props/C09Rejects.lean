import SaModel.Props.C09Nec
import SaModel.Lemmas.C09Denote
import SaModel.Props.C09Gen
/-
C09, rejection: 'a JSON value that does not denote a valid schema is rejected with an error' as ONE statement against the
explicit decidable predicate `denotesSchema : JVal → Bool` of `Spec/SchemaDenote.lean` (written from the documentation
of the format: top-level forms, required / optional keys and their kinds, strategy names, duplicate strategy, metadata
values, children, and — for the field that results — the explicit validity predicate `validField`: strategy admissible
for the type, `Time32`/`Time64` units, no negative sizes, dictionary key / value types, map entries, unsupported types).

* `C09_rejects` — for EVERY JSON value: `denotesSchema j = false → parseSchema j` is an error, and
  `denotesSchema j = true → parseSchema j = ok s` with `s` the schema the value denotes.
* `C09_reader_denotation` — the same as one equation: `(parseSchema j).toOption = denoteSchema j`.

What `denotesSchema` does NOT restate independently: the reading of the `data_type` STRING next to the children is
`Dsl.readType` itself (the type-name grammar); its behaviour is pinned down by `dsl_roundtrip`, `C09_spellings`,
`C09_rejects_arity` and, against the source, by `gen_reader_arity` / `gen_reader_rejects` (no name outside the table
for all strings) — `denotes_unknown_name` below carries that over.
-/
namespace SaModel.Props.C09
open SaModel SaModel.Dsl SaModel.SchemaJson

/-- the reader computes exactly the denotation, for every JSON value -/
theorem C09_reader_denotation (j : JVal) : (parseSchema j).toOption = denoteSchema j :=
  parseSchema_denote j

/-- **C09, rejection (all JSON values).**  A value that does not denote a valid schema is rejected with an error; a
value that does is accepted, as the schema it denotes. -/
theorem C09_rejects (j : JVal) :
    (denotesSchema j = false → ∃ e, parseSchema j = .error e) ∧
    (denotesSchema j = true → ∃ s, parseSchema j = .ok s ∧ denoteSchema j = some s) := by
  have h := parseSchema_denote j
  simp only [denotesSchema, parseSchema]
  cases hp : parseSchemaWith false j with
  | error e =>
    simp only [hp, Except.toOption] at h
    simp [← h]
  | ok s =>
    simp only [hp, Except.toOption] at h
    simp [← h]

/-- and what is accepted is a list of fields in `SchemaOK` -/
theorem C09_denoted_in_domain (j : JVal) (s : List Field) (h : denoteSchema j = some s) : ∀ f ∈ s, SchemaOK f := by
  rw [← parseSchema_denote] at h
  exact C09_reader_sound j s (ok_of_toOption h)

/-! ## what does not denote a schema — the clauses of the predicate, for all inputs -/

/-- neither a list nor an object at the top -/
theorem denotes_toplevel (j : JVal) (h1 : ∀ vs, j ≠ .arr vs) (h2 : ∀ o, j ≠ .obj o) : denotesSchema j = false := by
  cases j with
  | arr vs => exact absurd rfl (h1 vs)
  | obj o => exact absurd rfl (h2 o)
  | _ => rfl

/-- a field whose strategy is given twice -/
theorem denotes_duplicate_strategy (name ty : String) (nl : Bool) (s : Strategy) (md : Metadata) (cs : List Field)
    (h : hasKey md STRATEGY_KEY = true) : fieldDenotes name ty nl (some s) md cs = none := by
  simp [fieldDenotes, h]

/-- a field whose type string is not read as a type: unknown name, wrong number of arguments or children, bad unit,
number out of range, malformed text -/
theorem denotes_unreadable_type (name ty : String) (nl : Bool) (st : Option Strategy) (md : Metadata) (cs : List Field)
    (h : (readType ty.toList cs).isOk = false) : fieldDenotes name ty nl st md cs = none := by
  unfold fieldDenotes
  split
  · rfl
  · cases hr : readType ty.toList cs with
    | error e => rfl
    | ok dt => simp [hr, R.isOk] at h

/-- a field whose type string parses to a term the reader table found in deserialize.rs does not list — any name, all
strings (through `gen_reader_rejects`) -/
theorem denotes_unknown_name (name ty : String) (nl : Bool) (st : Option Strategy) (md : Metadata) (cs : List Field)
    (n : Text) (q : Bool) (args : Terms) (ht : Term.fromStr ty.toList = .ok (.mk n q args))
    (hl : TypeNameTable.lookupReader Generated.TypeNames.readerArms (String.ofList n) args.toList.length = none) :
    fieldDenotes name ty nl st md cs = none := by
  apply denotes_unreadable_type
  have := C09Gen.gen_reader_rejects n q args cs hl
  simp only [readType, buildDataType, buildDataTypeWith]
  unfold Term.fromStr at ht
  rw [ht]
  exact this

/-- a field that is not a valid schema (strategy not admissible for the type, `Time32`/`Time64` unit mismatch, negative
size, dictionary with other key / value types, map entries not a two-field struct) -/
theorem denotes_invalid (name ty : String) (nl : Bool) (st : Option Strategy) (md : Metadata) (cs : List Field)
    (dt : DataType) (hr : readType ty.toList cs = .ok dt)
    (hv : validField (.mk name dt (normNullable dt nl) (withStrategy md st)) = false) :
    fieldDenotes name ty nl st md cs = none := by
  unfold fieldDenotes
  split
  · rfl
  · simp [hr, hv]

/-! ## non-vacuity: the predicate on concrete values -/

example : denotesSchema (.arr (.cons (printField esc0 exampleField) .nil)) = true := by decide +kernel
example : denotesSchema (.obj (.cons "fields" (.arr (.cons (leafJ "I8") .nil)) .nil)) = true := by decide +kernel
/-- wrong child arity, unknown type name, bad unit, invalid / duplicate strategy, `Time32`/`Time64` unit mismatch, negative
sizes, top level neither list nor object with `fields`, missing / ill-typed keys -/
example : ∀ v ∈ [
    JVal.null, .num 3, .str "I8", .obj .nil, .obj (.cons "fields" (.num 1) .nil),
    .arr (.cons (withChildren "List" .nil) .nil),
    .arr (.cons (withChildren "Dictionary" (.cons (leafJ "I8") .nil)) .nil),
    .arr (.cons (leafJ "Int") .nil), .arr (.cons (leafJ "Timestamp(Seconds, None)") .nil),
    .arr (.cons (leafJ "Time32(Nanosecond)") .nil), .arr (.cons (leafJ "Time64(Second)") .nil),
    .arr (.cons (leafJ "FixedSizeBinary(-1)") .nil), .arr (.cons (withChildren "FixedSizeList(-2)" (.cons (leafJ "I8") .nil)) .nil),
    .arr (.cons (.obj (.cons "name" (.str "x") (.cons "data_type" (.str "I8") (.cons "strategy" (.str "Foo") .nil)))) .nil),
    .arr (.cons (.obj (.cons "name" (.str "x") (.cons "data_type" (.str "I8") (.cons "strategy" (.str "MapAsStruct") .nil)))) .nil),
    .arr (.cons (.obj (.cons "name" (.str "x") (.cons "data_type" (.str "Struct") (.cons "strategy" (.str "MapAsStruct")
      (.cons "metadata" (.obj (.cons "SERDE_ARROW:strategy" (.str "MapAsStruct") .nil)) .nil))))) .nil),
    .arr (.cons (.obj (.cons "name" (.str "x") .nil)) .nil),
    .arr (.cons (.obj (.cons "name" (.num 1) (.cons "data_type" (.str "I8") .nil))) .nil)],
    denotesSchema v = false := by
  decide +kernel
example : fieldDenotes "x" "Interval(YearMonth)" false none [] [] = none :=
  denotes_unknown_name _ _ _ _ _ _ "Interval".toList false (.cons (.mk "YearMonth".toList false .nil) .nil)
    (by decide +kernel) (by decide +kernel)
example : ∃ e, parseSchema (.arr (.cons (leafJ "Time32(Nanosecond)") .nil)) = .error e :=
  (C09_rejects _).1 (by decide +kernel)

end SaModel.Props.C09
