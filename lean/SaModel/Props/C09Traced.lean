import SaModel.Props.C09
import SaModel.Lemmas.C09TracedTy
import SaModel.Props.C06
import SaModel.Trace.TracerPinned
/-
C09, the quantifier "for all schemas the crate can TRACE": every schema the tracer returns lies in `SchemaOK`
(`validField && reprField`, Spec/SchemaOK.lean), so the JSON round-trip theorem `C09_schema_roundtrip` applies to it.

  C09_from_type_in_domain      every schema `from_type` returns — ALL type descriptions, ALL options (budget, every flag),
                               both codes; overwrites in the domain
  C09_from_type_json_roundtrip … survives `to_value` / `from_value` unchanged
  C09_from_samples_in_domain   every schema `from_samples` returns — ALL sample collections (any nesting, every serde
                               constructor), ALL options (`allow_null_fields` included), repaired code; overwrites in the
                               domain
  C09_from_samples_json_roundtrip
  C09_unseen_position_outside_pinned
                               the defect repaired by repo fix 5168cf7 (finding C09-traced-unseen-null): before it, under
                               `allow_null_fields`, a position no sample reached (the element of a list that was always empty)
                               was traced as a NON-nullable `Null` field; `from_value` of the written form makes it nullable
                               (`into_field`: `Null` ⇒ nullable), so that traced schema did not survive the JSON form
                               unchanged (it came back with `nullable = true` at that position; no error)
  C09_unseen_position_survives the same samples on the repaired code: `element` is traced nullable and the schema survives
Hypothesis `OwOK o`: the fields given as overwrites are themselves in the domain (an overwrite replaces the traced field
as given — `C08_overwrite` —; `TracingOptions::overwrite` validates it with `from_value`, which lets sorted maps and sparse
unions through when it is given a marrow / arrow field object).
Lemmas: SaModel/Lemmas/C09Traced.lean (`to_field_schemaOK`: the fields of every tracer satisfying the reachable-state
invariant `C07.WF`), SaModel/Lemmas/C09TracedTy.lean (`mapping_schemaOK`: the documented mapping `Spec.mapping`, and
`fromType_spec` = `C08_from_type`).
-/
namespace SaModel.Props.C09
open SaModel SaModel.Dsl SaModel.SchemaJson SaModel.Trace SaModel.Lemmas.C09T

/-- the overwrites of the tracing options are fields of the round-trip domain -/
abbrev OverwritesInDomain (o : Options) : Prop := OwOK o

theorem overwritesInDomain_nil (o : Options) (h : o.overwrites = []) : OverwritesInDomain o := by
  intro kv hkv; rw [h] at hkv; cases hkv

/-- **C09, traced schemas (`from_type`).**  Every field of every schema `from_type` returns lies in `SchemaOK`. -/
theorem C09_from_type_in_domain (c : Code) (o : Options) (how : OverwritesInDomain o) (ty : Ty) (fields : List Field)
    (h : fromType c o ty = .ok fields) : ∀ f ∈ fields, SchemaOK f :=
  fromType_schemaOK c o how ty fields h

/-- … so it survives its serde / JSON form unchanged -/
theorem C09_from_type_json_roundtrip (esc : Char → Bool) (c : Code) (o : Options) (how : OverwritesInDomain o) (ty : Ty)
    (fields : List Field) (h : fromType c o ty = .ok fields) : (printSchema esc fields >>= parseSchema) = .ok fields :=
  C09_schema_roundtrip esc fields (C09_from_type_in_domain c o how ty fields h)

/-- **C09, traced schemas (`from_samples`).**  Every field of every schema `from_samples` returns lies in `SchemaOK`
(every option, `allow_null_fields` included: every `Null` field is emitted nullable — repo fix 5168cf7; the code before it
is `C09_unseen_position_outside_pinned`). -/
theorem C09_from_samples_in_domain (o : Options) (how : OverwritesInDomain o)
    (xs : List SVal) (fields : List Field) (h : fromSamples .fixed o xs = .ok fields) : ∀ f ∈ fields, SchemaOK f := by
  simp only [fromSamples] at h
  obtain ⟨t, ht, h⟩ := Lemmas.C06.bind_ok'.mp h
  have hw : Lemmas.C07.WF o t :=
    Lemmas.C07.absorbAll_wf o (Lemmas.C06.wf7_new o "$" "$") (Props.C06.fromSamplesTracer_absorbAll ht)
  exact to_schema_schemaOK o how t hw fields h

theorem C09_from_samples_json_roundtrip (esc : Char → Bool) (o : Options) (how : OverwritesInDomain o)
    (xs : List SVal) (fields : List Field) (h : fromSamples .fixed o xs = .ok fields) :
    (printSchema esc fields >>= parseSchema) = .ok fields :=
  C09_schema_roundtrip esc fields (C09_from_samples_in_domain o how xs fields h)

/-- the samples `[{a: []}]` -/
def wEmptyList : List SVal := [.record "R" (.cons "a" 0 (.seq .nil) .nil)]

/-- **The pinned defect (C09-traced-unseen-null, repaired by 5168cf7).**  Before the repair, under `allow_null_fields`, the
samples `[{a: []}]` traced `a` as `LargeList(element: Null, NOT nullable)` (the element position was never reached:
`UnknownTracer::to_field` kept its unset nullable flag, whereas a `Null` that WAS seen is always emitted nullable).  That
schema is valid but outside `SchemaOK`, and its JSON form is read back — without an error — with `element` nullable. -/
theorem C09_unseen_position_outside_pinned :
    let traced : List Field := [.mk "a" (.largeList (.mk "element" .null false [])) false []]
    let back : List Field := [.mk "a" (.largeList (.mk "element" .null true [])) false []]
    fromSamplesUnseenPinned { allow_null_fields := true } wEmptyList = .ok traced ∧
      traced.all validField = true ∧ traced.all schemaOK = false ∧
      (printSchema (fun _ => false) traced >>= parseSchema) = .ok back := by
  decide +kernel

/-- … and the repaired code on the same samples: `element` is traced nullable, the schema lies in the domain and survives
its JSON form (an instance of `C09_from_samples_json_roundtrip` that NEEDS `allow_null_fields`: without the option these
samples are refused) -/
theorem C09_unseen_position_survives :
    let traced : List Field := [.mk "a" (.largeList (.mk "element" .null true [])) false []]
    fromSamples .fixed { allow_null_fields := true } wEmptyList = .ok traced ∧ traced.all schemaOK = true ∧
      (printSchema (fun _ => false) traced >>= parseSchema) = .ok traced ∧
      (fromSamples .fixed {} wEmptyList).isOk = false := by
  decide +kernel

/-! non-vacuity: a type with every container kind (tuple, list, option, enum with all four variant kinds, map, strings as
dictionaries) and a sample collection with nested records, options, lists and date-like strings are traced, the schemas are
not empty and the theorems apply -/
def exTy : Ty :=
  .struct "S" (.cons "a" (.option (.vec .string)) (.cons "t" (.tuple (.cons (.int .u8) (.cons .bool .nil)))
    (.cons "e" (.enum "E" (.unit "A" (.newtype "B" (.int .i64) (.tuple "C" (.cons .f32 (.cons .string .nil))
      (.struct "D" (.cons "x" .bytes .nil) .nil))))) (.cons "m" (.map .string (.int .i32)) .nil))))

def exOpts : Options := { map_as_struct := false, string_dictionary_encoding := true, allow_null_fields := true }

example : ∃ fields, fromType .fixed exOpts exTy = .ok fields ∧ fields.length = 4 ∧
    (printSchema (fun _ => false) fields >>= parseSchema) = .ok fields := by
  have h : (fromType .fixed exOpts exTy).isOk = true := by decide +kernel
  cases hf : fromType .fixed exOpts exTy with
  | error e => rw [hf] at h; cases h
  | ok fields =>
    have hl : (match fromType .fixed exOpts exTy with | .ok l => l.length | .error _ => 0) = 4 := by decide +kernel
    rw [hf] at hl
    exact ⟨fields, rfl, hl, C09_from_type_json_roundtrip _ .fixed exOpts (overwritesInDomain_nil _ rfl) exTy fields hf⟩

def exSamples : List SVal :=
  [.record "R" (.cons "d" 0 (.str "2020-01-01T00:00:00Z") (.cons "o" 0 (.some (.record "I" (.cons "x" 0 (.int .i32 1) .nil)))
     (.cons "l" 0 (.seq (.cons (.f64 0) .nil)) .nil))),
   .record "R" (.cons "d" 0 (.str "2020-01-01T00:00:00Z") (.cons "o" 0 .none (.cons "l" 0 (.seq .nil) .nil)))]

example : ∃ fields, fromSamples .fixed { guess_dates := true } exSamples = .ok fields ∧ fields.length = 3 ∧
    (printSchema (fun _ => false) fields >>= parseSchema) = .ok fields := by
  have h : (fromSamples .fixed { guess_dates := true } exSamples).isOk = true := by decide +kernel
  cases hf : fromSamples .fixed { guess_dates := true } exSamples with
  | error e => rw [hf] at h; cases h
  | ok fields =>
    have hl : (match fromSamples .fixed { guess_dates := true } exSamples with | .ok l => l.length | .error _ => 0) = 3 := by
      decide +kernel
    rw [hf] at hl
    exact ⟨fields, rfl, hl, C09_from_samples_json_roundtrip _ _ (overwritesInDomain_nil _ rfl) exSamples fields hf⟩

/-- an overwrite in the domain (a time zone spelled "Utc") is traced as given and the schema survives -/
example :
    let ow : Field := .mk "a" (.timestamp .millisecond (some "Utc")) true []
    let o : Options := ({} : Options).overwrite "a" ow
    OverwritesInDomain o ∧ fromType .fixed o (.struct "S" (.cons "a" (.int .i64) .nil)) = .ok [ow] := by
  refine ⟨?_, by decide +kernel⟩
  intro kv hkv
  simp [Options.overwrite] at hkv
  subst hkv
  decide +kernel

end SaModel.Props.C09
