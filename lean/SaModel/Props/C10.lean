import SaModel.Props.C01Obs
import SaModel.Props.C10Front
/-
C10 — ArrayBuilder: each build returns exactly the rows pushed since the last one.

A history is any sequence of `push r` / `extend rs` / `viaSerializer rs` / `build` operations on one `ArrayBuilder`.
* `take_is_fresh`: after ANY history the builder that `take` leaves behind is literally the builder
  `OuterSequenceBuilder::new(schema)` returned (paths, validity presence, offsets `[0]`, empty name cache, struct
  `next/seen`, union `current_offset`, dictionary index — equality of model states).  No invariant needed.
* `batches`: at build k the root holds exactly the rows added since build k-1 (R1: one row per record, all
  columns at that length; with R2: the rows are `interpRow` of those records), and it continues from the fresh
  builder.  By induction over the history (`batches_gen`, generic in the state invariant), from R1 for determined states
  under the WEAK state invariant (`Build.push_appends_det`, the hidden-rows refinement of Props/C01Obs.lean: NO `Safe`
  hypothesis) and `take_is_fresh`.  `batches_strict`: for `Safe` schemas the states are moreover strictly well formed (`WFB`;
  false without `Safe`).
The statements about the ARRAYS each build returns (`C10_histories`, `C10_chunking_irrelevant`, `C10_build_is_fresh`) are in
Props/C10Arrays.lean: every build is physically the one-shot `toMarrow` of its batch, hence decodes by `C01.C01_build_decode'` (Props/C01Obs.lean; no `Safe`).
-/
namespace SaModel.Props.C10
open SaModel SaModel.Build SaModel.Spec

/-- operations on an `ArrayBuilder` -/
inductive Op where
  /-- `ArrayBuilder::push(&record)` -/
  | push (x : SVal)
  /-- `ArrayBuilder::extend(&records)` -/
  | extend (x : SVal)
  /-- `records.serialize(Serializer::new(&mut builder))` (serializer.rs) -/
  | viaSerializer (x : SVal)
  /-- `build_arrays` / `to_arrow` / `to_record_batch` … -/
  | build

/-- run a history; every `build` records the root state it saw and the arrays it returned -/
def run (ext : Ext) : B → List Op → R (List (B × List Arr) × B)
  | root, [] => .ok ([], root)
  | root, .push x :: ops => do
    let r ← push ext root x
    run ext r ops
  | root, .extend x :: ops => do
    let r ← extend ext root x
    run ext r ops
  | root, .viaSerializer x :: ops => do
    let r ← serializeWith ext root x
    run ext r ops
  | root, .build :: ops => do
    let (arrs, rest) ← buildArrays ext root
    let (outs, fin) ← run ext rest ops
    pure ((root, arrs) :: outs, fin)

/-- the records an `extend` argument denotes (a sequence / tuple / tuple struct behind `Some` / newtype layers) -/
def extRows : SVal → Option (List SVal)
  | .some v => extRows v
  | .newtypeStruct _ v => extRows v
  | .seq xs => some xs.toList
  | .tuple xs => some xs.toList
  | .tupleStruct _ xs => some xs.toList
  | _ => none

/-- the records a `Serializer` argument denotes (a sequence / tuple / tuple struct / tuple variant behind newtype
struct / newtype variant layers) -/
def serRows : SVal → Option (List SVal)
  | .newtypeStruct _ v => serRows v
  | .newtypeVariant _ _ _ v => serRows v
  | .seq xs => some xs.toList
  | .tuple xs => some xs.toList
  | .tupleStruct _ xs => some xs.toList
  | .tupleVariant _ _ _ xs => some xs.toList
  | _ => none

def Op.rows : Op → List SVal
  | .push x => [x]
  | .extend x => (extRows x).getD []
  | .viaSerializer x => (serRows x).getD []
  | .build => []

/-- the batches of a history: the rows added between consecutive builds (`pending`: rows added so far since
the last build) -/
def batchesFrom (pending : List SVal) : List Op → List (List SVal)
  | [] => []
  | .build :: ops => pending :: batchesFrom [] ops
  | .push x :: ops => batchesFrom (pending ++ [x]) ops
  | .extend x :: ops => batchesFrom (pending ++ (extRows x).getD []) ops
  | .viaSerializer x :: ops => batchesFrom (pending ++ (serRows x).getD []) ops

/-! ### `take` -/

theorem pushAll_eq_foldlM (ext : Ext) : ∀ (xs : SVals) (root : B),
    extend.pushAll ext root xs = xs.toList.foldlM (push ext) root
  | .nil, root => rfl
  | .cons x rest, root => by
    simp only [extend.pushAll, SVals.toList, List.foldlM]
    cases push ext root x with
    | error e => rfl
    | ok r => exact pushAll_eq_foldlM ext rest r

/-- `extend` on a non-nullable root is a fold of `push` over the denoted records -/
theorem extend_spec (ext : Ext) : ∀ (x : SVal) (p : String) (len : Nat) (fs : BL) (cached next seen) (r : B),
    extend ext (.struct p len none fs cached next seen) x = .ok r →
    ∃ rows, extRows x = some rows ∧ rows.foldlM (push ext) (.struct p len none fs cached next seen) = .ok r
  | .some v, p, len, fs, cached, next, seen, r, h => by
    simp only [extend] at h; simpa [extRows] using extend_spec ext v p len fs cached next seen r h
  | .newtypeStruct _ v, p, len, fs, cached, next, seen, r, h => by
    simp only [extend] at h; simpa [extRows] using extend_spec ext v p len fs cached next seen r h
  | .seq xs, p, len, fs, cached, next, seen, r, h => by
    simp only [extend, pushAll_eq_foldlM] at h; exact ⟨_, rfl, h⟩
  | .tuple xs, p, len, fs, cached, next, seen, r, h => by
    simp only [extend, pushAll_eq_foldlM] at h; exact ⟨_, rfl, h⟩
  | .tupleStruct _ xs, p, len, fs, cached, next, seen, r, h => by
    simp only [extend, pushAll_eq_foldlM] at h; exact ⟨_, rfl, h⟩
  | .none, p, len, fs, cached, next, seen, r, h => by
    simp [extend, pushNone, ctx_ok, setValidity, fail, bind, Except.bind] at h
  | .unit, p, len, fs, cached, next, seen, r, h => by
    simp [extend, pushNone, ctx_ok, setValidity, fail, bind, Except.bind] at h
  | .bool _, _, _, _, _, _, _, _, h => by simp [extend, ctx_ok, notSupported, fail] at h
  | .int _ _, _, _, _, _, _, _, _, h => by simp [extend, ctx_ok, notSupported, fail] at h
  | .f32 _, _, _, _, _, _, _, _, h => by simp [extend, ctx_ok, notSupported, fail] at h
  | .f64 _, _, _, _, _, _, _, _, h => by simp [extend, ctx_ok, notSupported, fail] at h
  | .char _, _, _, _, _, _, _, _, h => by simp [extend, ctx_ok, notSupported, fail] at h
  | .str _, _, _, _, _, _, _, _, h => by simp [extend, ctx_ok, notSupported, fail] at h
  | .bytes _, _, _, _, _, _, _, _, h => by simp [extend, ctx_ok, notSupported, fail] at h
  | .unitStruct _, p, len, fs, cached, next, seen, r, h => by
    simp [extend, pushNone, ctx_ok, setValidity, fail, bind, Except.bind] at h
  | .record _ _, _, _, _, _, _, _, _, h => by simp [extend, ctx_ok, notSupported, fail] at h
  | .map _, _, _, _, _, _, _, _, h => by simp [extend, ctx_ok, notSupported, fail] at h
  | .mapRaw _, _, _, _, _, _, _, _, h => by simp [extend, ctx_ok, notSupported, fail] at h
  | .unitVariant _ _ _, _, _, _, _, _, _, _, h => by simp [extend, ctx_ok, notSupported, fail] at h
  | .newtypeVariant _ _ _ _, _, _, _, _, _, _, _, h => by simp [extend, ctx_ok, notSupported, fail] at h
  | .tupleVariant _ _ _ _, _, _, _, _, _, _, _, h => by simp [extend, ctx_ok, notSupported, fail] at h
  | .structVariant _ _ _ _, _, _, _, _, _, _, _, h => by simp [extend, ctx_ok, notSupported, fail] at h

/-- the `Serializer` front end is a fold of `push` over the denoted records (any root) -/
theorem serializeWith_spec (ext : Ext) : ∀ (x : SVal) (root r : B), serializeWith ext root x = .ok r →
    ∃ rows, serRows x = some rows ∧ rows.foldlM (push ext) root = .ok r
  | .newtypeStruct _ v, root, r, h => by
    simp only [serializeWith] at h; simpa [serRows] using serializeWith_spec ext v root r h
  | .newtypeVariant _ _ _ v, root, r, h => by
    simp only [serializeWith] at h; simpa [serRows] using serializeWith_spec ext v root r h
  | .seq xs, root, r, h => by simp only [serializeWith, pushAll_eq_foldlM] at h; exact ⟨_, rfl, h⟩
  | .tuple xs, root, r, h => by simp only [serializeWith, pushAll_eq_foldlM] at h; exact ⟨_, rfl, h⟩
  | .tupleStruct _ xs, root, r, h => by simp only [serializeWith, pushAll_eq_foldlM] at h; exact ⟨_, rfl, h⟩
  | .tupleVariant _ _ _ xs, root, r, h => by simp only [serializeWith, pushAll_eq_foldlM] at h; exact ⟨_, rfl, h⟩
  | .none, _, _, h => by simp [serializeWith, fail] at h
  | .unit, _, _, h => by simp [serializeWith, fail] at h
  | .some _, _, _, h => by simp [serializeWith, fail] at h
  | .bool _, _, _, h => by simp [serializeWith, fail] at h
  | .int _ _, _, _, h => by simp [serializeWith, fail] at h
  | .f32 _, _, _, h => by simp [serializeWith, fail] at h
  | .f64 _, _, _, h => by simp [serializeWith, fail] at h
  | .char _, _, _, h => by simp [serializeWith, fail] at h
  | .str _, _, _, h => by simp [serializeWith, fail] at h
  | .bytes _, _, _, h => by simp [serializeWith, fail] at h
  | .unitStruct _, _, _, h => by simp [serializeWith, fail] at h
  | .record _ _, _, _, h => by simp [serializeWith, fail] at h
  | .map _, _, _, h => by simp [serializeWith, fail] at h
  | .mapRaw _, _, _, h => by simp [serializeWith, fail] at h
  | .unitVariant _ _ _, _, _, h => by simp [serializeWith, fail] at h
  | .structVariant _ _ _ _, _, _, h => by simp [serializeWith, fail] at h

theorem foldlM_push_takeRest (ext : Ext) : ∀ (rows : List SVal) (b b' : B),
    rows.foldlM (push ext) b = .ok b' → takeRest b' = takeRest b
  | [], b, b', h => by simp [List.foldlM, pure, Except.pure] at h; subst h; rfl
  | x :: rest, b, b', h => by
    simp only [List.foldlM] at h
    obtain ⟨b1, h1, h⟩ := (bind_ok _ _ _).1 h
    rw [foldlM_push_takeRest ext rest b1 b' h, push_takeRest ext x b b1 h1]

/-- the builder of a reachable history state is a non-nullable struct -/
theorem root_struct (root : B) {p : String} {bl : BL} {c : List (Option (String × Nat))} {s : List Bool}
    (h : takeRest root = .struct p 0 (newValidity false) bl c 0 s) :
    ∃ p len fs cached next seen, root = .struct p len none fs cached next seen :=
  C01.runRows_rows.struct_of_takeRest root h

theorem newRoot_struct {fields : List Field} {r0 : B} (h : newRoot fields = .ok r0) :
    ∃ p bl c s, r0 = .struct p 0 (newValidity false) bl c 0 s := by
  simp only [newRoot] at h
  obtain ⟨bl, _, h⟩ := (bind_ok _ _ _).1 h
  unfold mkStruct at h
  split at h
  · simp [fail] at h
  · cases h; exact ⟨_, _, _, _, rfl⟩

theorem buildArrays_rest {ext : Ext} {root rest : B} {arrs : List Arr} (h : buildArrays ext root = .ok (arrs, rest)) :
    rest = takeRest root := by
  unfold buildArrays at h
  split at h
  · obtain ⟨cols, _, h⟩ := (bind_ok _ _ _).1 h
    cases h; rfl
  · simp [panic] at h

/-- **take_is_fresh.** Whatever was pushed, extended and built before: what `take` leaves behind — in
particular the builder every `build` continues with — is literally the fresh builder of the schema. -/
theorem take_is_fresh (ext : Ext) (fields : List Field) (r0 : B) (h0 : newRoot fields = .ok r0) :
    ∀ (ops : List Op) (root : B) (outs : List (B × List Arr)) (fin : B), takeRest root = r0 →
      run ext root ops = .ok (outs, fin) →
      takeRest fin = r0 ∧ ∀ out ∈ outs, takeRest out.1 = r0 ∧ buildArrays ext out.1 = .ok (out.2, r0)
  | [], root, outs, fin, ht, h => by
    simp [run] at h; obtain ⟨rfl, rfl⟩ := h
    exact ⟨ht, by simp⟩
  | .push x :: ops, root, outs, fin, ht, h => by
    simp only [run] at h
    obtain ⟨r, h1, h⟩ := (bind_ok _ _ _).1 h
    exact take_is_fresh ext fields r0 h0 ops r outs fin (by rw [push_takeRest ext x root r h1, ht]) h
  | .extend x :: ops, root, outs, fin, ht, h => by
    simp only [run] at h
    obtain ⟨r, h1, h'⟩ := (bind_ok _ _ _).1 h
    obtain ⟨p, bl, c, s, hr0⟩ := newRoot_struct h0
    obtain ⟨p', len, fs, cached, next, seen, hroot⟩ := root_struct root (ht.trans hr0)
    rw [hroot] at h1
    obtain ⟨rows, _, hf⟩ := extend_spec ext x _ _ _ _ _ _ r h1
    exact take_is_fresh ext fields _ h0 ops r outs fin
      (by rw [foldlM_push_takeRest ext rows _ r hf, ← hroot, ht]) h'
  | .viaSerializer x :: ops, root, outs, fin, ht, h => by
    simp only [run] at h
    obtain ⟨r, h1, h'⟩ := (bind_ok _ _ _).1 h
    obtain ⟨rows, _, hf⟩ := serializeWith_spec ext x root r h1
    exact take_is_fresh ext fields r0 h0 ops r outs fin (by rw [foldlM_push_takeRest ext rows _ r hf, ht]) h'
  | .build :: ops, root, outs, fin, ht, h => by
    simp only [run] at h
    obtain ⟨⟨arrs, rest⟩, h1, h⟩ := (bind_ok _ _ _).1 h
    obtain ⟨⟨outs', fin'⟩, h2, h⟩ := (bind_ok _ _ _).1 h
    cases h
    have hr := buildArrays_rest h1
    subst hr
    have ht' : takeRest (takeRest root) = r0 := by rw [C10Front.takeRest_idem, ht]
    obtain ⟨g1, g2⟩ := take_is_fresh ext fields r0 h0 ops (takeRest root) outs' fin' ht' h2
    refine ⟨g1, ?_⟩
    intro out hout
    rcases List.mem_cons.1 hout with rfl | hout
    · exact ⟨ht, by rw [← ht]; exact h1⟩
    · exact g2 out hout

/-- the fresh builder itself is a fixed point: a history starts where every build restarts -/
theorem take_fresh_root (fields : List Field) (r0 : B) (h0 : newRoot fields = .ok r0) : takeRest r0 = r0 :=
  (newRoot_fresh h0).2.2

/-! ### batches -/

/-- what a build sees, relative to the rows of its batch; `I`: the state invariant carried through the history,
`Q x lv`: "lv is the row record x denotes" -/
structure Holds (I : B → Prop) (r0 : B) (Q : SVal → LVal → Prop) (root : B) (rows : List SVal) : Prop where
  inv : I root
  take : takeRest root = r0
  rows : All2 (fun lv x => Q x lv) (dec root) rows

/-- all records of a history satisfy `okx` -/
def OpsOK (okx : SVal → Prop) (ops : List Op) : Prop := ∀ op ∈ ops, ∀ x ∈ op.rows, okx x

section
variable (ext : Ext) (I : B → Prop) (r0 : B) (Q : SVal → LVal → Prop) (okx : SVal → Prop)
variable (hstep : ∀ (b b' : B) (x : SVal), I b → takeRest b = r0 → okx x → push ext b x = .ok b' →
  I b' ∧ ∃ lv, dec b' = dec b ++ [lv] ∧ Q x lv)
include hstep

theorem holds_push {root r : B} {pending : List SVal} {x : SVal} (hh : Holds I r0 Q root pending)
    (hraw : okx x) (h : push ext root x = .ok r) : Holds I r0 Q r (pending ++ [x]) := by
  obtain ⟨hi, lv, hd, hq⟩ := hstep root r x hh.inv hh.take hraw h
  exact ⟨hi, by rw [push_takeRest ext x root r h, hh.take], by
    rw [hd]; exact All2.append hh.rows (All2.cons hq All2.nil)⟩

theorem holds_fold : ∀ (rows : List SVal) {root r : B} {pending : List SVal}, Holds I r0 Q root pending →
    (∀ x ∈ rows, okx x) → rows.foldlM (push ext) root = .ok r → Holds I r0 Q r (pending ++ rows)
  | [], root, r, pending, hh, _, h => by
    simp [List.foldlM, pure, Except.pure] at h; subst h; simpa using hh
  | x :: rest, root, r, pending, hh, hraw, h => by
    simp only [List.foldlM] at h
    obtain ⟨b1, h1, h⟩ := (bind_ok _ _ _).1 h
    have := holds_fold rest (holds_push ext I r0 Q okx hstep hh (hraw x (by simp)) h1) (fun y hy => hraw y (by simp [hy])) h
    simpa using this

/-- the generic induction over a history: an invariant `I` of the fresh builder that every accepted push keeps (together
with "the push appends one row `lv` with `Q x lv`") holds of every state a build sees, whose rows are related by `Q` to
the rows of its batch; every build continues from the fresh builder -/
theorem batches_gen (fields : List Field) (h0 : newRoot fields = .ok r0) (hI0 : I r0) :
    ∀ (ops : List Op) (root : B) (pending : List SVal) (outs : List (B × List Arr)) (fin : B),
      Holds I r0 Q root pending → OpsOK okx ops → run ext root ops = .ok (outs, fin) →
      All2 (fun (out : B × List Arr) rows => Holds I r0 Q out.1 rows ∧ buildArrays ext out.1 = .ok (out.2, r0))
        outs (batchesFrom pending ops)
  | [], root, pending, outs, fin, _, _, h => by
    simp [run] at h; obtain ⟨rfl, rfl⟩ := h
    exact All2.nil
  | .push x :: ops, root, pending, outs, fin, hh, hraw, h => by
    simp only [run] at h
    obtain ⟨r, h1, h⟩ := (bind_ok _ _ _).1 h
    have hx : okx x := hraw (.push x) (by simp) x (by simp [Op.rows])
    exact batches_gen fields h0 hI0 ops r _ outs fin (holds_push ext I r0 Q okx hstep hh hx h1)
      (fun op hop => hraw op (by simp [hop])) h
  | .extend x :: ops, root, pending, outs, fin, hh, hraw, h => by
    simp only [run] at h
    obtain ⟨r, h1, h'⟩ := (bind_ok _ _ _).1 h
    obtain ⟨p, bl, c, s, hr0⟩ := newRoot_struct h0
    obtain ⟨p', len, fs, cached, next, seen, hroot⟩ := root_struct root (hh.take.trans hr0)
    rw [hroot] at h1
    obtain ⟨rows, hrows, hf⟩ := extend_spec ext x _ _ _ _ _ _ r h1
    rw [← hroot] at hf
    have hx : ∀ y ∈ rows, okx y := by
      intro y hy
      exact hraw (.extend x) (by simp) y (by simp [Op.rows, hrows, hy])
    have := holds_fold ext I r0 Q okx hstep rows hh hx hf
    simp only [batchesFrom, hrows, Option.getD_some]
    exact batches_gen fields h0 hI0 ops r _ outs fin this (fun op hop => hraw op (by simp [hop])) h'
  | .viaSerializer x :: ops, root, pending, outs, fin, hh, hraw, h => by
    simp only [run] at h
    obtain ⟨r, h1, h'⟩ := (bind_ok _ _ _).1 h
    obtain ⟨rows, hrows, hf⟩ := serializeWith_spec ext x root r h1
    have hx : ∀ y ∈ rows, okx y := by
      intro y hy
      exact hraw (.viaSerializer x) (by simp) y (by simp [Op.rows, hrows, hy])
    have := holds_fold ext I r0 Q okx hstep rows hh hx hf
    simp only [batchesFrom, hrows, Option.getD_some]
    exact batches_gen fields h0 hI0 ops r _ outs fin this (fun op hop => hraw op (by simp [hop])) h'
  | .build :: ops, root, pending, outs, fin, hh, hraw, h => by
    simp only [run] at h
    obtain ⟨⟨arrs, rest⟩, h1, h⟩ := (bind_ok _ _ _).1 h
    obtain ⟨⟨outs', fin'⟩, h2, h⟩ := (bind_ok _ _ _).1 h
    cases h
    have hr := buildArrays_rest h1
    subst hr
    have hfresh := newRoot_fresh h0
    have hrest : takeRest root = r0 := hh.take
    have hh' : Holds I r0 Q (takeRest root) [] := by
      rw [hrest]
      exact ⟨hI0, hfresh.2.2, by rw [hfresh.2.1]; exact All2.nil⟩
    simp only [batchesFrom]
    refine All2.cons ⟨hh, by rw [← hrest]; exact h1⟩ ?_
    exact batches_gen fields h0 hI0 ops (takeRest root) [] outs' fin' hh' (fun op hop => hraw op (by simp [hop])) h2
end

/-- the state invariant of the history theorems: the WEAK state invariant of the hidden-rows refinement (`WFH`: the
invariant `WFB` with the dictionary-key clause weakened to what the builders maintain), `NoDictKey` (holds of every builder
`build_builder` constructs) and `Det` (no row of the ROOT is undetermined: the root is a non-nullable struct all of whose
rows were pushed).  No `Safe`. -/
def HistInv (b : B) : Prop := WFH b ∧ NoDictKey b ∧ Det b

theorem histInv_fresh {fields : List Field} {r0 : B} (h0 : newRoot fields = .ok r0) : HistInv r0 :=
  ⟨WFH_of_WFB _ (newRoot_fresh h0).1, Build.newRoot_NoDictKey h0, Det_of_WFB (newRoot_fresh h0).1⟩

/-- **batches (R1 level).** In any history over ANY schema `build_builder` accepts — records of ANY shape, raw key/value
call streams included (a Map builder refuses the non-alternating ones, repo fix eafdf15: no hypothesis on the
records), NO `Safe` hypothesis (dictionaries with non-nullable keys below nullable structs / fixed-size lists included) —
build k sees a root that satisfies the weak state invariant, is determined, and holds exactly as many rows as were added
since build k-1 (each column at that length, `C01.runRows_rows'`); it returns `finishFields` of that state, and the builder
continues from the fresh builder of the schema.  (For `Safe` schemas the states are moreover strictly well formed:
`batches_strict`.) -/
theorem batches (ext : Ext) (fields : List Field) (r0 : B) (h0 : newRoot fields = .ok r0)
    (ops : List Op) (outs : List (B × List Arr)) (fin : B)
    (h : run ext r0 ops = .ok (outs, fin)) :
    All2 (fun (out : B × List Arr) rows =>
        WFH out.1 ∧ Det out.1 ∧ (dec out.1).length = rows.length ∧ buildArrays ext out.1 = .ok (out.2, r0))
      outs (batchesFrom [] ops) := by
  have hfresh := newRoot_fresh h0
  have := batches_gen ext HistInv r0 (fun _ _ => True) (fun _ => True) (by
    intro b b' x ⟨hw, hn, hdt⟩ _ _ hp
    obtain ⟨hw', hn', hd', lv, hd, _⟩ := Build.push_appends_det ext x b b' hw hn hdt hp
    exact ⟨⟨hw', hn', hd'⟩, lv, hd, trivial⟩) fields h0 (histInv_fresh h0) ops r0 [] outs fin
    ⟨histInv_fresh h0, hfresh.2.2, by rw [hfresh.2.1]; exact All2.nil⟩ (fun _ _ _ _ => trivial) h
  refine All2.imp ?_ this
  intro out rows ⟨hh, hb⟩
  exact ⟨hh.inv.1, hh.inv.2.2, All2.length hh.rows, hb⟩

/-- **batches (content).** For covered schemas and records whose raw call streams alternate (`hraw`; `hnar`: the
sentinel bound of `C01.push_interp'`, needed only when some record contains a raw stream) — NO `Safe` hypothesis: build k
sees a determined root whose rows are exactly `interpRow` of the records added since build k-1, in order (a 0-row build
sees no rows), and returns `finishFields` of that state; the builder continues from the fresh builder. -/
theorem batches_interp (ext : Ext) (fields : List Field) (r0 : B) (hc : fields.all coveredF = true)
    (h0 : newRoot fields = .ok r0)
    (ops : List Op) (hraw : OpsOK (fun x => structStreamsAlternate x = true) ops)
    (hnar : OpsOK (fun x => noRaw x = true) ops ∨ narrowRoot fields = true)
    (outs : List (B × List Arr)) (fin : B)
    (h : run ext r0 ops = .ok (outs, fin)) :
    All2 (fun (out : B × List Arr) rows =>
        WFH out.1 ∧ Det out.1 ∧ All2 (fun lv x => interpRow ext fields x = .ok lv) (dec out.1) rows ∧
        buildArrays ext out.1 = .ok (out.2, r0))
      outs (batchesFrom [] ops) := by
  have hfresh := newRoot_fresh h0
  have hshape := newRoot_shape hc h0
  have hcomb : OpsOK (fun x => structStreamsAlternate x = true ∧ (noRaw x = true ∨ narrowRoot fields = true)) ops :=
    fun op ho x hx => ⟨hraw op ho x hx, hnar.imp (fun h => h op ho x hx) id⟩
  have := batches_gen ext HistInv r0 (fun x lv => interpRow ext fields x = .ok lv)
    (fun x => structStreamsAlternate x = true ∧ (noRaw x = true ∨ narrowRoot fields = true))
    (by
    intro b b' x ⟨hw, hn, hdt⟩ ht hraw hp
    have hsh : Shape b (.struct (Fields.ofList fields)) false [] :=
      Shape.of_takeRest (ht.trans hfresh.2.2.symm) hshape
    obtain ⟨hw', hn', hd', _, lv, hd, hi⟩ := C01.push_interp_det ext x b b' _ _ _ hraw.1 hraw.2 hw hn hdt hsh hp
    exact ⟨⟨hw', hn', hd'⟩, lv, hd, hi⟩) fields h0 (histInv_fresh h0) ops r0 [] outs fin
    ⟨histInv_fresh h0, hfresh.2.2, by rw [hfresh.2.1]; exact All2.nil⟩ hcomb h
  refine All2.imp ?_ this
  intro out rows ⟨hh, hb⟩
  exact ⟨hh.inv.1, hh.inv.2.2, hh.rows, hb⟩

/-- **the strict invariant along histories, for `Safe` schemas.**  What still carries `Safe`: the STRICT state invariant
`WFB` (every dictionary key designates a value) of the states the builds see — it is FALSE without `Safe`
(`C01.exUnsafeAfter1_not_WFB`: a placeholder key below a null while the dictionary is empty; `C01.dict_placeholder_unstable`),
which is why `batches` / `batches_interp` speak about `WFH` and `Det`. -/
theorem batches_strict (ext : Ext) (fields : List Field) (r0 : B) (h0 : newRoot fields = .ok r0) (hsafe : Safe r0)
    (ops : List Op) (outs : List (B × List Arr)) (fin : B)
    (h : run ext r0 ops = .ok (outs, fin)) :
    All2 (fun (out : B × List Arr) (_ : List SVal) => WFB out.1 ∧ Safe out.1) outs (batchesFrom [] ops) := by
  have hfresh := newRoot_fresh h0
  have := batches_gen ext (fun b => WFB b ∧ Safe b) r0 (fun _ _ => True) (fun _ => True) (by
    intro b b' x ⟨hw, hs⟩ _ _ hp
    obtain ⟨hw', hs', lv, hd⟩ := C01.push_appends ext x b b' hw hs hp
    exact ⟨⟨hw', hs'⟩, lv, hd, trivial⟩) fields h0 ⟨hfresh.1, hsafe⟩ ops r0 [] outs fin
    ⟨⟨hfresh.1, hsafe⟩, hfresh.2.2, by rw [hfresh.2.1]; exact All2.nil⟩ (fun _ _ _ _ => trivial) h
  exact All2.imp (fun out rows ⟨hh, _⟩ => hh.inv) this

/-! ### non-vacuity -/

/-- two batches and an empty build over a dictionary column (per-batch state): the second build does not see
the first batch, the third sees nothing -/
example : (do
      let r0 ← newRoot [.mk "d" (.dictionary .uint8 .utf8) false []]
      let (outs, _) ← run {} r0 [.push (.record "R" (.cons "d" 0 (.str "x") .nil)), .build,
        .extend (.seq (.cons (.record "R" (.cons "d" 0 (.str "y") .nil)) (.cons (.record "R" (.cons "d" 0 (.str "y") .nil)) .nil))),
        .build, .build, .viaSerializer (.tuple (.cons (.record "R" (.cons "d" 0 (.str "z") .nil)) .nil)), .build]
      pure (outs.map fun o => decRoot o.1) : R (List (List (List LVal)))) =
    .ok [[[.str [120]]], [[.str [121], .str [121]]], [[]], [[.str [122]]]] := by decide +kernel

example : batchesFrom [] [Op.push .unit, .build, .extend (.seq (.cons .none (.cons .unit .nil))), .build, .build] =
    [[.unit], [.none, .unit], []] := by decide

/-! ### non-vacuity: a history over a schema OUTSIDE `Safe`

Schema `Props.C01.exUnsafeFields` = `{s: Struct{d: Dictionary(UInt8, Utf8)}?}` (a dictionary with non-nullable keys below
a nullable struct, `C01.exUnsafe_not_safe`); history: push `s = None`, push `s = {d: "a"}`, build, push `s = None`,
build — the records of `C01.exUnsafeRows`. -/

/-- the fresh builder of the schema (literal form, cf. `C01.exUnsafe_not_safe`) -/
def exUnsafeRoot0 : B :=
  .struct "$" 0 none
    (.cons (.struct "$.s" 0 (some [])
        (.cons (.dictionary "$.s.d" (.leaf "$.s.d.key" (.int .u8) none []) (.bytes "$.s.d.value" .utf8 none [0] []) [])
          ⟨"d", false, []⟩ .nil) [none] 0 [false]) ⟨"s", true, []⟩ .nil) [none] 0 [false]

theorem exUnsafeNew : newRoot C01.exUnsafeFields = .ok exUnsafeRoot0 := by decide

theorem exUnsafeRoot0_not_safe : ¬ Safe exUnsafeRoot0 := C01.exUnsafe_not_safe _ exUnsafeNew

def exUnsafeOps : List Op :=
  [.push (.record "R" (.cons "s" 0 .none .nil)),
   .push (.record "R" (.cons "s" 0 (.some (.record "S" (.cons "d" 0 (.str "a") .nil))) .nil)),
   .build,
   .push (.record "R" (.cons "s" 0 .none .nil)),
   .build]

/-- the batches of the history are the records of `C01.exUnsafeRows`: the first two, then the third -/
example : batchesFrom [] exUnsafeOps = [C01.exUnsafeRows.take 2, C01.exUnsafeRows.drop 2] := by decide

theorem exUnsafeRunOk : (run {} exUnsafeRoot0 exUnsafeOps).isOk = true := by decide +kernel

/-- `batches_interp` applies to the history with every hypothesis discharged (the schema is outside `Safe`:
`exUnsafeRoot0_not_safe`) -/
example : ∀ outs fin, run {} exUnsafeRoot0 exUnsafeOps = .ok (outs, fin) →
    All2 (fun (out : B × List Arr) rows =>
        WFH out.1 ∧ Det out.1 ∧ All2 (fun lv x => interpRow {} C01.exUnsafeFields x = .ok lv) (dec out.1) rows ∧
        buildArrays {} out.1 = .ok (out.2, exUnsafeRoot0))
      outs (batchesFrom [] exUnsafeOps) := by
  intro outs fin h
  refine batches_interp {} C01.exUnsafeFields exUnsafeRoot0 (by decide) exUnsafeNew exUnsafeOps ?_ (Or.inl ?_) outs fin h
  · unfold OpsOK; decide
  · unfold OpsOK; decide

/-- what the two builds really see: the first the rows null, {d: "a"} (the dictionary child holds the placeholder key
below the null), the second the single row null -/
example : (do
      let (outs, _) ← run {} exUnsafeRoot0 exUnsafeOps
      pure (outs.map fun o => decRoot o.1) : R (List (List (List LVal)))) =
    .ok [[[.null, .struct (.cons "d" (.str [97]) .nil)]], [[.null]]] := by decide +kernel

end SaModel.Props.C10
