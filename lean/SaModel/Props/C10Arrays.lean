import SaModel.Props.C10
/-
C10 — ArrayBuilder histories, the statements about the ARRAYS every build returns.

Props/C10.lean speaks about the builder STATE a build sees (`take_is_fresh`, `batches`, `batches_interp`).  Here the
state statements are turned into the statements the property literally makes:

  run_oneShot              the state build k sees IS the state `runRows ext fields (batch k)` reaches from a fresh builder,
                           and the arrays build k returns ARE (physically, as `Arr`s) the arrays of the one-shot
                           `toMarrow ext fields (batch k)`.  No hypothesis on schema or rows.
  C10_histories            `outs.length = number of builds`, and the arrays of build k decode (`Spec.decodeAll`), column by
                           column, to exactly `(batch k).map (interpRow ext fields)`; a 0-row build decodes to empty columns.
                           Hypotheses: those of `C01.C01_build_decode'` (no `Safe`).
  C10_chunking_irrelevant  two histories with the same batches return physically equal arrays (and see equal states), and
                           end in the same builder state when the rows after the last build agree as well.
  C10_build_is_fresh       what follows a build in a history is literally a history of a fresh builder: same arrays,
                           same final state.
-/
namespace SaModel.Props.C10
open SaModel SaModel.Build SaModel.Spec

/-! ### counting builds, the rows after the last build -/

def Op.isBuild : Op → Bool
  | .build => true
  | _ => false

/-- the number of `build` operations of a history -/
def builds (ops : List Op) : Nat := (ops.filter Op.isBuild).length

theorem batchesFrom_length : ∀ (ops : List Op) (pending : List SVal), (batchesFrom pending ops).length = builds ops
  | [], _ => rfl
  | .build :: ops, pending => by
    show (batchesFrom [] ops).length + 1 = ((Op.build :: ops).filter Op.isBuild).length
    rw [batchesFrom_length ops []]
    simp [builds, List.filter_cons, Op.isBuild]
  | .push x :: ops, pending => by
    simpa [batchesFrom, builds, Op.isBuild] using batchesFrom_length ops _
  | .extend x :: ops, pending => by
    simpa [batchesFrom, builds, Op.isBuild] using batchesFrom_length ops _
  | .viaSerializer x :: ops, pending => by
    simpa [batchesFrom, builds, Op.isBuild] using batchesFrom_length ops _

/-- the rows added after the last build of a history (what the builder still holds at the end) -/
def trailing (pending : List SVal) : List Op → List SVal
  | [] => pending
  | .build :: ops => trailing [] ops
  | .push x :: ops => trailing (pending ++ [x]) ops
  | .extend x :: ops => trailing (pending ++ (extRows x).getD []) ops
  | .viaSerializer x :: ops => trailing (pending ++ (serRows x).getD []) ops

/-- every record of every batch comes from the pending rows or from an operation of the history -/
theorem mem_batchesFrom (okx : SVal → Prop) : ∀ (ops : List Op) (pending : List SVal),
    (∀ x ∈ pending, okx x) → OpsOK okx ops → ∀ rows ∈ batchesFrom pending ops, ∀ x ∈ rows, okx x
  | [], _, _, _, rows, hr => by simp [batchesFrom] at hr
  | .build :: ops, pending, hp, ho, rows, hr => by
    simp only [batchesFrom, List.mem_cons] at hr
    rcases hr with rfl | hr
    · exact hp
    · exact mem_batchesFrom okx ops [] (by simp) (fun op hop => ho op (by simp [hop])) rows hr
  | .push x :: ops, pending, hp, ho, rows, hr => by
    simp only [batchesFrom] at hr
    refine mem_batchesFrom okx ops _ ?_ (fun op hop => ho op (by simp [hop])) rows hr
    intro y hy
    rcases List.mem_append.1 hy with hy | hy
    · exact hp y hy
    · exact ho (.push x) (by simp) y (by simpa [Op.rows] using hy)
  | .extend x :: ops, pending, hp, ho, rows, hr => by
    simp only [batchesFrom] at hr
    refine mem_batchesFrom okx ops _ ?_ (fun op hop => ho op (by simp [hop])) rows hr
    intro y hy
    rcases List.mem_append.1 hy with hy | hy
    · exact hp y hy
    · exact ho (.extend x) (by simp) y (by simpa [Op.rows] using hy)
  | .viaSerializer x :: ops, pending, hp, ho, rows, hr => by
    simp only [batchesFrom] at hr
    refine mem_batchesFrom okx ops _ ?_ (fun op hop => ho op (by simp [hop])) rows hr
    intro y hy
    rcases List.mem_append.1 hy with hy | hy
    · exact hp y hy
    · exact ho (.viaSerializer x) (by simp) y (by simpa [Op.rows] using hy)

/-! ### every build is the one-shot conversion of its batch -/

theorem foldlM_push_append (ext : Ext) : ∀ (l1 l2 : List SVal) (a b c : B),
    l1.foldlM (push ext) a = .ok b → l2.foldlM (push ext) b = .ok c → (l1 ++ l2).foldlM (push ext) a = .ok c
  | [], l2, a, b, c, h1, h2 => by
    simp [List.foldlM, pure, Except.pure] at h1; subst h1; simpa using h2
  | x :: l1, l2, a, b, c, h1, h2 => by
    simp only [List.foldlM, List.cons_append] at h1 ⊢
    obtain ⟨a1, ha, h1⟩ := (bind_ok _ _ _).1 h1
    rw [ha]
    exact foldlM_push_append ext l1 l2 a1 b c h1 h2

/-- the state-level core: along any history from a fresh builder, the root that build k sees is the fold of `push`
over batch k FROM THE FRESH BUILDER, `buildArrays` of it leaves the fresh builder, and the final state is the fold over
the rows after the last build.  (`pending`: the rows added since the last build, `root` the state they led to.) -/
theorem run_folds (ext : Ext) (fields : List Field) (r0 : B) (h0 : newRoot fields = .ok r0) :
    ∀ (ops : List Op) (root : B) (pending : List SVal) (outs : List (B × List Arr)) (fin : B),
      pending.foldlM (push ext) r0 = .ok root → run ext root ops = .ok (outs, fin) →
      All2 (fun (out : B × List Arr) rows =>
          rows.foldlM (push ext) r0 = .ok out.1 ∧ buildArrays ext out.1 = .ok (out.2, r0))
        outs (batchesFrom pending ops) ∧
      (trailing pending ops).foldlM (push ext) r0 = .ok fin
  | [], root, pending, outs, fin, hp, h => by
    simp [run] at h; obtain ⟨rfl, rfl⟩ := h
    exact ⟨All2.nil, hp⟩
  | .push x :: ops, root, pending, outs, fin, hp, h => by
    simp only [run] at h
    obtain ⟨r, h1, h⟩ := (bind_ok _ _ _).1 h
    have hx : [x].foldlM (push ext) root = .ok r := by
      simp only [List.foldlM, h1, bind, Except.bind]; rfl
    exact run_folds ext fields r0 h0 ops r _ outs fin (foldlM_push_append ext _ _ _ _ _ hp hx) h
  | .extend x :: ops, root, pending, outs, fin, hp, h => by
    simp only [run] at h
    obtain ⟨r, h1, h'⟩ := (bind_ok _ _ _).1 h
    have ht : takeRest root = r0 := by
      rw [foldlM_push_takeRest ext pending r0 root hp]; exact take_fresh_root fields r0 h0
    obtain ⟨p, bl, c, s, hr0⟩ := newRoot_struct h0
    obtain ⟨p', len, fs, cached, next, seen, hroot⟩ := root_struct root (ht.trans hr0)
    rw [hroot] at h1
    obtain ⟨rows, hrows, hf⟩ := extend_spec ext x _ _ _ _ _ _ r h1
    rw [← hroot] at hf
    simp only [batchesFrom, trailing, hrows, Option.getD_some]
    exact run_folds ext fields r0 h0 ops r _ outs fin (foldlM_push_append ext _ _ _ _ _ hp hf) h'
  | .viaSerializer x :: ops, root, pending, outs, fin, hp, h => by
    simp only [run] at h
    obtain ⟨r, h1, h'⟩ := (bind_ok _ _ _).1 h
    obtain ⟨rows, hrows, hf⟩ := serializeWith_spec ext x root r h1
    simp only [batchesFrom, trailing, hrows, Option.getD_some]
    exact run_folds ext fields r0 h0 ops r _ outs fin (foldlM_push_append ext _ _ _ _ _ hp hf) h'
  | .build :: ops, root, pending, outs, fin, hp, h => by
    simp only [run] at h
    obtain ⟨⟨arrs, rest⟩, h1, h⟩ := (bind_ok _ _ _).1 h
    obtain ⟨⟨outs', fin'⟩, h2, h⟩ := (bind_ok _ _ _).1 h
    cases h
    have ht : takeRest root = r0 := by
      rw [foldlM_push_takeRest ext pending r0 root hp]; exact take_fresh_root fields r0 h0
    have hr := buildArrays_rest h1
    rw [ht] at hr
    subst hr
    obtain ⟨g1, g2⟩ := run_folds ext fields rest h0 ops rest [] outs' fin' rfl h2
    simp only [batchesFrom, trailing]
    exact ⟨All2.cons ⟨hp, h1⟩ g1, g2⟩

theorem runRows_of_fold {ext : Ext} {fields : List Field} {r0 root : B} {rows : List SVal}
    (h0 : newRoot fields = .ok r0) (hf : rows.foldlM (push ext) r0 = .ok root) : runRows ext fields rows = .ok root := by
  simp only [runRows, h0, bind, Except.bind]; exact hf

theorem toMarrow_of_fold {ext : Ext} {fields : List Field} {r0 root rest : B} {rows : List SVal} {arrs : List Arr}
    (h0 : newRoot fields = .ok r0) (hf : rows.foldlM (push ext) r0 = .ok root)
    (hb : buildArrays ext root = .ok (arrs, rest)) : toMarrow ext fields rows = .ok arrs := by
  simp only [toMarrow, h0, bind, Except.bind]
  rw [hf]
  dsimp only
  rw [hb]
  rfl

/-- **every build is the one-shot conversion of its batch.**  Along any history from a fresh builder — however the
rows were added — the root state build k sees is exactly the state `runRows ext fields (batch k)` reaches, and the
arrays build k returns are PHYSICALLY the arrays `toMarrow ext fields (batch k)` (the one-shot `to_marrow`) returns.
No hypothesis on the schema or the rows. -/
theorem run_oneShot (ext : Ext) (fields : List Field) (r0 : B) (h0 : newRoot fields = .ok r0)
    (ops : List Op) (outs : List (B × List Arr)) (fin : B) (h : run ext r0 ops = .ok (outs, fin)) :
    All2 (fun (out : B × List Arr) rows =>
        runRows ext fields rows = .ok out.1 ∧ toMarrow ext fields rows = .ok out.2)
      outs (batchesFrom [] ops) ∧
    runRows ext fields (trailing [] ops) = .ok fin := by
  obtain ⟨g1, g2⟩ := run_folds ext fields r0 h0 ops r0 [] outs fin rfl h
  refine ⟨All2.imp ?_ g1, runRows_of_fold h0 g2⟩
  intro out rows ⟨hf, hb⟩
  exact ⟨runRows_of_fold h0 hf, toMarrow_of_fold h0 hf hb⟩

/-! ### `C10_histories` -/

/-- "the arrays `arrs` decode, column by column, to exactly the documented rows of `rows`" — the conclusion of
`C01.C01_build_decode'`: one array per field; `cols` (one column per field, named after it, `rows.length` slots each) is
what the arrays decode to by the Arrow reading rules; and the documented value of record `i` is the struct whose `j`-th
field is slot `i` of column `j`. -/
def DecodesTo (ext : Ext) (fields : List Field) (arrs : List Arr) (rows : List SVal) : Prop :=
  arrs.length = fields.length ∧
  ∃ cols : List (String × List LVal),
    arrs.map decodeAll = cols.map (fun c => c.2.map .ok) ∧
    cols.map (·.1) = fields.map (·.name) ∧
    (∀ c ∈ cols, c.2.length = rows.length) ∧
    ∀ (i : Nat) (hi : i < rows.length),
      interpRow ext fields rows[i] = .ok (.struct (LFields.ofList (cols.map fun c => (c.1, c.2.getD i .null))))

/-- row-wise reading of `DecodesTo`: the list of documented rows IS the transposition of the decoded columns -/
theorem DecodesTo.rows_eq {ext : Ext} {fields : List Field} {arrs : List Arr} {rows : List SVal}
    (h : DecodesTo ext fields arrs rows) :
    ∃ cols : List (String × List LVal), arrs.map decodeAll = cols.map (fun c => c.2.map .ok) ∧
      rows.map (interpRow ext fields) = (List.range rows.length).map fun i =>
        .ok (.struct (LFields.ofList (cols.map fun c => (c.1, c.2.getD i .null)))) := by
  obtain ⟨_, cols, h1, _, _, h4⟩ := h
  refine ⟨cols, h1, ?_⟩
  apply List.ext_getElem
  · simp
  · intro i hi1 hi2
    simp only [List.length_map] at hi1
    simp only [List.getElem_map, List.getElem_range]
    exact h4 i hi1

/-- a 0-row build decodes to empty columns, one per field -/
theorem DecodesTo.empty {ext : Ext} {fields : List Field} {arrs : List Arr} (h : DecodesTo ext fields arrs []) :
    arrs.map decodeAll = fields.map fun _ => [] := by
  obtain ⟨_, cols, h1, h2, h3, _⟩ := h
  rw [h1]
  have hl : cols.length = fields.length := by simpa using congrArg List.length h2
  apply List.ext_getElem
  · simpa using hl
  · intro i hi1 hi2
    simp only [List.length_map] at hi1
    simp only [List.getElem_map]
    have := h3 cols[i] (List.getElem_mem hi1)
    simp only [List.length_nil, List.length_eq_zero_iff] at this
    rw [this]; rfl

/-- **C10 (histories).**  For every history `ops` of push / extend / serialize-through-`Serializer` / build operations on
the builder of `fields` (any length, zero-row and repeated builds included): when the history succeeds, it returned one
result per `build`, and the arrays of build `k` decode (`Spec.decodeAll`: the Arrow reading rules, slot by slot), column
by column, to exactly the documented rows `interpRow ext fields` of batch `k` — the records added since build `k-1`, in
order, however they were added.  (A 0-row build decodes to empty columns: `DecodesTo.empty`.)
Hypotheses: exactly those of `C01.C01_build_decode'` (`SchemaOKF`, `coveredF` — NO `Safe`: the hidden-rows refinement;
records whose raw call streams alternate, `structStreamsAlternate`; the sentinel bound `narrowRoot` when some record contains
a raw stream). -/
theorem C10_histories (ext : Ext) (fields : List Field) (r0 : B) (h0 : newRoot fields = .ok r0)
    (hschema : ∀ f ∈ fields, Lemmas.C03.SchemaOKF f)
    (hcov : fields.all Build.coveredF = true)
    (ops : List Op) (hraw : OpsOK (fun x => structStreamsAlternate x = true) ops)
    (hnar : OpsOK (fun x => noRaw x = true) ops ∨ narrowRoot fields = true)
    (outs : List (B × List Arr)) (fin : B) (h : run ext r0 ops = .ok (outs, fin)) :
    outs.length = builds ops ∧ (batchesFrom [] ops).length = builds ops ∧
    ∀ (k : Nat) (h1 : k < outs.length) (h2 : k < (batchesFrom [] ops).length),
      DecodesTo ext fields outs[k].2 (batchesFrom [] ops)[k] := by
  obtain ⟨hall, _⟩ := run_oneShot ext fields r0 h0 ops outs fin h
  obtain ⟨hl, hg⟩ := Props.C03.All2_get hall
  refine ⟨by rw [hl, batchesFrom_length], batchesFrom_length ops [], ?_⟩
  intro k h1 h2
  obtain ⟨_, hm⟩ := hg k h1 h2
  have hrows : ∀ x ∈ (batchesFrom [] ops)[k], structStreamsAlternate x = true :=
    mem_batchesFrom (fun x => structStreamsAlternate x = true) ops [] (by simp) hraw _ (List.getElem_mem h2)
  have hnar' : (∀ x ∈ (batchesFrom [] ops)[k], noRaw x = true) ∨ narrowRoot fields = true :=
    hnar.imp (fun hno => mem_batchesFrom (fun x => noRaw x = true) ops [] (by simp) hno _ (List.getElem_mem h2)) id
  exact C01.C01_build_decode' ext fields _ _ hschema hcov hrows hnar' hm

/-- **every build returns well-formed arrays of its batch's length** (C03 along histories): the arrays of build `k` are
well-formed Arrow arrays of the declared fields (`Spec.WF`: structurally valid AND of exactly the field's data
type), one per field, each of exactly `(batch k).length` rows.
Hypotheses: those of `C01.C03_wf'` — `hplain`: no metadata on a Map's entries field (known finding
C03-map-entries-metadata); `hsafe` is `Safe r0 ∨ coveredF` (decidable on the schema; excluded: a dictionary with
NON-nullable keys and a value type other than Utf8 / LargeUtf8 below a nullable struct / fixed-size list). -/
theorem C10_builds_wf (ext : Ext) (fields : List Field) (r0 : B) (h0 : newRoot fields = .ok r0)
    (hschema : ∀ f ∈ fields, Lemmas.C03.SchemaOKF f)
    (hplain : ∀ f ∈ fields, Lemmas.C03.PlainF f)
    (hsafe : Safe r0 ∨ fields.all Build.coveredF = true) (hext : Lemmas.C03.ExtOK ext)
    (ops : List Op) (hrows : OpsOK Lemmas.C03.SValOK ops)
    (outs : List (B × List Arr)) (fin : B) (h : run ext r0 ops = .ok (outs, fin)) :
    ∀ (k : Nat) (h1 : k < outs.length) (h2 : k < (batchesFrom [] ops).length),
      outs[k].2.length = fields.length ∧
      ∀ (j : Nat) (f : Field) (a : Arr), fields[j]? = some f → outs[k].2[j]? = some a →
        WF f a = true ∧ (decodeAll a).length = (batchesFrom [] ops)[k].length := by
  obtain ⟨hall, _⟩ := run_oneShot ext fields r0 h0 ops outs fin h
  obtain ⟨_, hg⟩ := Props.C03.All2_get hall
  intro k h1 h2
  obtain ⟨_, hm⟩ := hg k h1 h2
  exact Props.C01.C03_wf' ext fields _ _ hschema hplain
    (hsafe.imp (fun hs root0 hr => by rw [h0] at hr; cases hr; exact hs) id) hext
    (mem_batchesFrom Lemmas.C03.SValOK ops [] (by simp) hrows _ (List.getElem_mem h2)) hm

/-! ### `C10_chunking_irrelevant` -/

theorem All2_functional {α β} {R : α → β → Prop} (hfun : ∀ a a' b, R a b → R a' b → a = a') :
    ∀ {l1 l1' : List α} {l2 : List β}, All2 R l1 l2 → All2 R l1' l2 → l1 = l1'
  | [], [], [], _, _ => rfl
  | _ :: _, _ :: _, _ :: _, .cons h t, .cons h' t' => by
    rw [hfun _ _ _ h h', All2_functional hfun t t']
  | [], _ :: _, _, h, h' => by cases h; cases h'
  | _ :: _, [], _, h, h' => by cases h'; cases h

/-- **C10 (chunking is irrelevant).**  Two histories on builders of the same schema whose batches agree — the same
rows between consecutive builds, split in any way into `push`, `extend` (chunks of any sizes) and `Serializer` calls —
return PHYSICALLY equal arrays at every build (equality of `Arr`s: buffers, bitmaps, offsets, hidden slots), from equal
builder states; each of them is the one-shot `toMarrow ext fields (batch k)`.  If the rows after the last build agree as
well, the two builders end in the same state.  No hypothesis on the schema or the rows. -/
theorem C10_chunking_irrelevant (ext : Ext) (fields : List Field) (r0 : B) (h0 : newRoot fields = .ok r0)
    (ops ops' : List Op) (outs outs' : List (B × List Arr)) (fin fin' : B)
    (hb : batchesFrom [] ops = batchesFrom [] ops')
    (h : run ext r0 ops = .ok (outs, fin)) (h' : run ext r0 ops' = .ok (outs', fin')) :
    outs = outs' ∧
    All2 (fun (out : B × List Arr) rows => toMarrow ext fields rows = .ok out.2) outs (batchesFrom [] ops) ∧
    (trailing [] ops = trailing [] ops' → fin = fin') := by
  obtain ⟨g1, g2⟩ := run_oneShot ext fields r0 h0 ops outs fin h
  obtain ⟨g1', g2'⟩ := run_oneShot ext fields r0 h0 ops' outs' fin' h'
  rw [← hb] at g1'
  refine ⟨All2_functional ?_ g1 g1', All2.imp (fun _ _ h => h.2) g1, ?_⟩
  · intro a a' rows ⟨ha1, ha2⟩ ⟨hb1, hb2⟩
    rw [ha1] at hb1; rw [ha2] at hb2
    exact Prod.ext (Except.ok.inj hb1) (Except.ok.inj hb2)
  · intro ht
    rw [ht, g2'] at g2
    cases g2; rfl

/-- the arrays alone (what a caller observes) -/
theorem C10_chunking_arrays (ext : Ext) (fields : List Field) (r0 : B) (h0 : newRoot fields = .ok r0)
    (ops ops' : List Op) (outs outs' : List (B × List Arr)) (fin fin' : B)
    (hb : batchesFrom [] ops = batchesFrom [] ops')
    (h : run ext r0 ops = .ok (outs, fin)) (h' : run ext r0 ops' = .ok (outs', fin')) :
    outs.map (·.2) = outs'.map (·.2) := by
  rw [(C10_chunking_irrelevant ext fields r0 h0 ops ops' outs outs' fin fin' hb h h').1]

/-! ### `C10_build_is_fresh` -/

theorem run_append (ext : Ext) : ∀ (ops1 ops2 : List Op) (root : B),
    run ext root (ops1 ++ ops2) = (do
      let (o1, mid) ← run ext root ops1
      let (o2, fin) ← run ext mid ops2
      pure (o1 ++ o2, fin))
  | [], ops2, root => by
    simp only [List.nil_append, run, bind, Except.bind]
    cases run ext root ops2 with
    | error e => rfl
    | ok p => rfl
  | .push x :: ops1, ops2, root => by
    simp only [List.cons_append, run, bind, Except.bind]
    cases push ext root x with
    | error e => rfl
    | ok r => exact run_append ext ops1 ops2 r
  | .extend x :: ops1, ops2, root => by
    simp only [List.cons_append, run, bind, Except.bind]
    cases extend ext root x with
    | error e => rfl
    | ok r => exact run_append ext ops1 ops2 r
  | .viaSerializer x :: ops1, ops2, root => by
    simp only [List.cons_append, run, bind, Except.bind]
    cases serializeWith ext root x with
    | error e => rfl
    | ok r => exact run_append ext ops1 ops2 r
  | .build :: ops1, ops2, root => by
    simp only [List.cons_append, run, bind, Except.bind]
    cases buildArrays ext root with
    | error e => rfl
    | ok p =>
      obtain ⟨arrs, rest⟩ := p
      dsimp only
      rw [run_append ext ops1 ops2 rest]
      simp only [bind, Except.bind]
      cases run ext rest ops1 with
      | error e => rfl
      | ok q =>
        obtain ⟨o1, mid⟩ := q
        simp only [pure, Except.pure]
        cases run ext mid ops2 with
        | error e => rfl
        | ok q2 => rfl

theorem trailing_build : ∀ (ops : List Op) (pending : List SVal), trailing pending (ops ++ [Op.build]) = []
  | [], _ => rfl
  | .build :: ops, _ => by simp only [List.cons_append, trailing]; exact trailing_build ops _
  | .push _ :: ops, _ => by simp only [List.cons_append, trailing]; exact trailing_build ops _
  | .extend _ :: ops, _ => by simp only [List.cons_append, trailing]; exact trailing_build ops _
  | .viaSerializer _ :: ops, _ => by simp only [List.cons_append, trailing]; exact trailing_build ops _

/-- **C10 (a build leaves a fresh builder), at the level of what is returned.**  Split a successful history at any of
its builds: the part up to and including that build ends in literally the fresh builder `r0`, and the rest of the
history returns exactly what the SAME operations return on a freshly constructed builder — physically the same arrays
at every later build, from the same states, ending in the same state.  In particular the next build of some rows
returns physically the arrays a fresh builder returns for those rows.  No hypothesis on the schema or the rows. -/
theorem C10_build_is_fresh (ext : Ext) (fields : List Field) (r0 : B) (h0 : newRoot fields = .ok r0)
    (ops1 ops2 : List Op) (outs : List (B × List Arr)) (fin : B)
    (h : run ext r0 (ops1 ++ .build :: ops2) = .ok (outs, fin)) :
    ∃ outs1 outs2, run ext r0 (ops1 ++ [.build]) = .ok (outs1, r0) ∧ run ext r0 ops2 = .ok (outs2, fin) ∧
      outs = outs1 ++ outs2 := by
  have e : ops1 ++ Op.build :: ops2 = (ops1 ++ [.build]) ++ ops2 := by simp
  rw [e, run_append] at h
  obtain ⟨⟨o1, mid⟩, ha, h⟩ := (bind_ok _ _ _).1 h
  obtain ⟨⟨o2, fin2⟩, hb, h⟩ := (bind_ok _ _ _).1 h
  cases h
  have hmid : mid = r0 := by
    obtain ⟨_, g2⟩ := run_folds ext fields r0 h0 (ops1 ++ [.build]) r0 [] o1 mid rfl ha
    have ht : trailing [] (ops1 ++ [Op.build]) = [] := trailing_build ops1 []
    rw [ht] at g2
    simp [List.foldlM, pure, Except.pure] at g2
    exact g2.symm
  subst hmid
  exact ⟨o1, o2, ha, hb, rfl⟩

/-- the same, for the rows: after ANY successful history ending in a build, building `rows` next (added in any way)
returns physically the arrays of the one-shot conversion on a fresh builder -/
theorem C10_next_build_oneShot (ext : Ext) (fields : List Field) (r0 : B) (h0 : newRoot fields = .ok r0)
    (ops1 ops2 : List Op) (outs : List (B × List Arr)) (fin : B)
    (h : run ext r0 (ops1 ++ .build :: ops2) = .ok (outs, fin)) :
    ∃ outs1 outs2, outs = outs1 ++ outs2 ∧ outs1.length = builds ops1 + 1 ∧
      All2 (fun (out : B × List Arr) rows => toMarrow ext fields rows = .ok out.2) outs2 (batchesFrom [] ops2) := by
  obtain ⟨o1, o2, ha, hb, rfl⟩ := C10_build_is_fresh ext fields r0 h0 ops1 ops2 outs fin h
  refine ⟨o1, o2, rfl, ?_, All2.imp (fun _ _ h => h.2) (run_oneShot ext fields r0 h0 ops2 o2 fin hb).1⟩
  have := All2.length (run_oneShot ext fields r0 h0 _ o1 r0 ha).1
  rw [this, batchesFrom_length]
  simp only [builds, List.filter_append, List.length_append]
  rfl

/-! ### non-vacuity -/

/-- the schema and history of the examples: a dictionary column (per-batch state) and a nullable list; two batches and
an empty build, the rows added through all three front ends -/
def exFields : List Field :=
  [.mk "d" (.dictionary .uint8 .utf8) false [], .mk "l" (.list (.mk "element" .int8 false [])) true []]

def exRec (s : String) (xs : List Int) : SVal :=
  .record "R" (.cons "d" 0 (.str s) (.cons "l" 1 (.seq (SVals.ofList (xs.map (.int .i8)))) .nil))

def exOps : List Op :=
  [.push (exRec "x" [1]), .extend (.seq (.cons (exRec "y" []) (.cons (exRec "x" [2, 3]) .nil))), .build,
   .build, .viaSerializer (.tuple (.cons (exRec "z" []) .nil)), .push (.record "R" (.cons "d" 0 (.str "z") .nil)), .build]

/-- the same batches, chunked differently -/
def exOps' : List Op :=
  [.viaSerializer (.seq (.cons (exRec "x" [1]) (.cons (exRec "y" []) .nil))), .push (exRec "x" [2, 3]), .build,
   .extend (.seq .nil), .build,
   .extend (.tupleStruct "T" (.cons (exRec "z" []) (.cons (.record "R" (.cons "d" 0 (.str "z") .nil)) .nil))), .build]

def exRoot0 : B :=
  .struct "$" 0 none
    (.cons (.dictionary "$.d" (.leaf "$.d.key" (.int .u8) none []) (.bytes "$.d.value" .utf8 none [0] []) [])
      ⟨"d", false, []⟩
      (.cons (.list "$.l" false ⟨"element", false, []⟩ (some []) [0] (.leaf "$.l.element" (.int .i8) none []))
        ⟨"l", true, []⟩ .nil))
    [none, none] 0 [false, false]

theorem exNew : newRoot exFields = .ok exRoot0 := by decide

theorem exRunOk : (run {} exRoot0 exOps).isOk = true ∧ (run {} exRoot0 exOps').isOk = true := by
  constructor <;> decide +kernel

example : batchesFrom [] exOps = batchesFrom [] exOps' ∧ builds exOps = 3 ∧ (batchesFrom [] exOps).map List.length = [3, 0, 2] := by
  decide

/-- `C10_histories` applies to the example with every hypothesis discharged -/
example : ∀ outs fin, run {} exRoot0 exOps = .ok (outs, fin) → outs.length = 3 ∧
    ∀ (k : Nat) (h1 : k < outs.length) (h2 : k < (batchesFrom [] exOps).length),
      DecodesTo {} exFields outs[k].2 (batchesFrom [] exOps)[k] := by
  intro outs fin h
  have := C10_histories {} exFields exRoot0 exNew
    (by simp [exFields, Lemmas.C03.SchemaOKF, Lemmas.C03.SchemaOK])
    (by decide) exOps (by unfold OpsOK; decide)
    (Or.inl (by unfold OpsOK; decide)) outs fin h
  exact ⟨this.1, this.2.2⟩

/-- what the three builds of the example decode to: batch 0 has the dictionary values x, y, x (keys 0, 1, 0), the empty
build has empty columns, batch 2 starts a NEW dictionary (z is key 0 again) and its absent list is null -/
example : (do
      let (outs, _) ← run {} exRoot0 exOps
      pure (outs.map fun o => o.2.map decodeAll) : R (List (List (List (R LVal))))) =
    .ok [[[.ok (.str [120]), .ok (.str [121]), .ok (.str [120])],
          [.ok (.list (.cons (.int 1) .nil)), .ok (.list .nil), .ok (.list (.cons (.int 2) (.cons (.int 3) .nil)))]],
         [[], []],
         [[.ok (.str [122]), .ok (.str [122])], [.ok (.list .nil), .ok .null]]] := by decide +kernel

/-- `C10_histories` on the history of Props/C10.lean over the schema OUTSIDE `Safe` (`exUnsafeRoot0_not_safe`: a dictionary
with non-nullable keys below a nullable struct; records `None`, `{d: "a"}`, build, `None`, build): every hypothesis
discharged -/
example : ∀ outs fin, run {} exUnsafeRoot0 exUnsafeOps = .ok (outs, fin) → outs.length = 2 ∧
    ∀ (k : Nat) (h1 : k < outs.length) (h2 : k < (batchesFrom [] exUnsafeOps).length),
      DecodesTo {} C01.exUnsafeFields outs[k].2 (batchesFrom [] exUnsafeOps)[k] := by
  intro outs fin h
  have := C10_histories {} C01.exUnsafeFields exUnsafeRoot0 exUnsafeNew
    (by simp [C01.exUnsafeFields, Lemmas.C03.SchemaOKF, Lemmas.C03.SchemaOK, Lemmas.C03.SchemaOKFs])
    (by decide) exUnsafeOps (by unfold OpsOK; decide)
    (Or.inl (by unfold OpsOK; decide)) outs fin h
  exact ⟨this.1, this.2.2⟩

end SaModel.Props.C10
