import SaModel.Props.C10Arrays
import SaModel.Build.Guarded
/-
C10 — ArrayBuilder histories WITH FAILING OPERATIONS.

Props/C10.lean and Props/C10Arrays.lean speak about histories in which every operation succeeds (`run … = .ok …`).  The
unrepaired crate went on USING the partial record a failed `push` leaves in the nested builders (finding
C10-use-after-failed-push: the next `push` succeeded, `to_marrow` returned a struct with children of unequal length,
`to_arrow2` panicked).  The repaired `ArrayBuilder` carries a poisoned flag (`SaModel/Build/Guarded.lean`: `pushG`,
`extendG`, `serializeWithG`, `buildArraysG`, state `G = Option B`).  Here a history is ANY list of operations, every
operation yields its outcome and the history goes on after a failing one (`runG`):

  after_failure_refuses     once an operation has failed inside the builder, EVERY later operation of the history fails
                            (no addition is accepted, no build returns arrays) and the builder stays refused
  build_ok_oneShot          a build that succeeds returns PHYSICALLY the arrays of the one-shot `toMarrow` of the rows of
                            the additions since the previous build, and no operation failed inside the builder before it:
                            every earlier operation succeeded, or was a value the `Serializer` wrapper refuses before it
                            reaches the builder (not a collection: the builder is untouched, nothing was added)
  okRows_eq_trailing        these rows are literally "the rows of the additions that SUCCEEDED since the previous
                            SUCCESSFUL build"
  C10_histories_with_failures / C10_builds_wf_with_failures
                            the decoded content / the well-formedness of every successful build (hypotheses of
                            `C01_build_decode'` / `C03_wf'`)
  runG_of_run               the statements about `run` are about the same machine: a history that `run` completes is completed by
                            `runG` with every outcome `ok`, the same arrays and the same final builder
No hypothesis on schema or rows in the physical statements.
-/
namespace SaModel.Props.C10
open SaModel SaModel.Build SaModel.Spec

/-- what one operation yields: `.ok none` an addition, `.ok (some arrays)` a build, `.error _` a refusal -/
abbrev Outcome := R (Option (List Arr))

/-- one operation on the builder with its poisoned flag: the outcome and the builder it leaves -/
def stepG (ext : Ext) (g : G) : Op → Outcome × G
  | .push x => ((pushG ext g x).1.map fun _ => none, (pushG ext g x).2)
  | .extend x => ((extendG ext g x).1.map fun _ => none, (extendG ext g x).2)
  | .viaSerializer x => ((serializeWithG ext g x).1.map fun _ => none, (serializeWithG ext g x).2)
  | .build => ((buildArraysG ext g).1.map some, (buildArraysG ext g).2)

/-- run a history: EVERY operation yields its outcome, the history goes on after a failing one -/
def runG (ext : Ext) : G → List Op → List Outcome × G
  | g, [] => ([], g)
  | g, op :: ops => ((stepG ext g op).1 :: (runG ext (stepG ext g op).2 ops).1, (runG ext (stepG ext g op).2 ops).2)

/-- a value the `Serializer` wrapper refuses before it reaches the builder -/
def Op.shapeRefused : Op → Bool
  | .viaSerializer x => !reachesBuilder x
  | _ => false

theorem runG_length (ext : Ext) : ∀ (ops : List Op) (g : G), (runG ext g ops).1.length = ops.length
  | [], _ => rfl
  | op :: ops, g => by simp [runG, runG_length ext ops]

/-! ### after a failure -/

theorem serializeWithG_none (ext : Ext) : ∀ (x : SVal), ∃ msg, serializeWithG ext none x = (fail msg, none)
  | .newtypeStruct _ v => by simpa [serializeWithG] using serializeWithG_none ext v
  | .newtypeVariant _ _ _ v => by simpa [serializeWithG] using serializeWithG_none ext v
  | .seq _ => ⟨_, rfl⟩
  | .tuple _ => ⟨_, rfl⟩
  | .tupleStruct _ _ => ⟨_, rfl⟩
  | .tupleVariant _ _ _ _ => ⟨_, rfl⟩
  | .none => ⟨_, rfl⟩
  | .unit => ⟨_, rfl⟩
  | .some _ => ⟨_, rfl⟩
  | .bool _ => ⟨_, rfl⟩
  | .int _ _ => ⟨_, rfl⟩
  | .f32 _ => ⟨_, rfl⟩
  | .f64 _ => ⟨_, rfl⟩
  | .char _ => ⟨_, rfl⟩
  | .str _ => ⟨_, rfl⟩
  | .bytes _ => ⟨_, rfl⟩
  | .unitStruct _ => ⟨_, rfl⟩
  | .record _ _ => ⟨_, rfl⟩
  | .map _ => ⟨_, rfl⟩
  | .mapRaw _ => ⟨_, rfl⟩
  | .unitVariant _ _ _ => ⟨_, rfl⟩
  | .structVariant _ _ _ _ => ⟨_, rfl⟩

/-- on a poisoned builder every operation fails — with an error, not a panic — and leaves it poisoned -/
theorem stepG_none (ext : Ext) : ∀ (op : Op), ∃ msg, stepG ext none op = (fail msg, none)
  | .push x => ⟨_, rfl⟩
  | .extend x => ⟨_, rfl⟩
  | .build => ⟨_, rfl⟩
  | .viaSerializer x => by
    obtain ⟨e, he⟩ := serializeWithG_none ext x
    exact ⟨e, by simp [stepG, he, Except.map, fail]⟩

/-- **after a failure every operation is refused.**  On a builder in which an operation has failed (`none`: the
poisoned flag is set) every later operation of ANY history fails — no addition is accepted, no build returns arrays — and
the builder stays refused; each of them fails with an ERROR (`fail msg`), none unwinds. -/
theorem after_failure_refuses (ext : Ext) : ∀ (ops : List Op),
    (runG ext none ops).2 = none ∧ ∀ o ∈ (runG ext none ops).1, ∃ msg, o = fail msg
  | [] => ⟨rfl, by simp [runG]⟩
  | op :: ops => by
    obtain ⟨e, he⟩ := stepG_none ext op
    obtain ⟨h1, h2⟩ := after_failure_refuses ext ops
    simp only [runG, he]
    refine ⟨h1, ?_⟩
    intro o ho
    rcases List.mem_cons.1 ho with rfl | ho
    · exact ⟨e, rfl⟩
    · exact h2 o ho

/-! ### one step on a usable builder -/

theorem pushG_some (ext : Ext) (b : B) (x : SVal) :
    pushG ext (some b) x = match push ext b x with
      | .ok b' => (.ok (), some b')
      | .error e => (.error e, none) := by
  simp only [pushG, guarded]
  cases push ext b x <;> rfl

theorem extendG_some (ext : Ext) (b : B) (x : SVal) :
    extendG ext (some b) x = match extend ext b x with
      | .ok b' => (.ok (), some b')
      | .error e => (.error e, none) := by
  simp only [extendG, guarded]
  cases extend ext b x <;> rfl

theorem buildArraysG_some (ext : Ext) (b : B) :
    buildArraysG ext (some b) = match buildArrays ext b with
      | .ok (arrs, rest) => (.ok arrs, some rest)
      | .error e => (.error e, none) := by
  simp only [buildArraysG, guarded]
  cases buildArrays ext b with
  | error e => rfl
  | ok p => rfl

theorem pushAllG_some (ext : Ext) : ∀ (xs : SVals) (b : B),
    pushAllG ext (some b) xs = match extend.pushAll ext b xs with
      | .ok b' => (.ok (), some b')
      | .error e => (.error e, none)
  | .nil, b => rfl
  | .cons x rest, b => by
    simp only [pushAllG, pushG_some, extend.pushAll]
    cases push ext b x with
    | error e => rfl
    | ok b' => exact pushAllG_some ext rest b'

theorem reachesBuilder_iff : ∀ (x : SVal), reachesBuilder x = (serRows x).isSome
  | .newtypeStruct _ v => by simpa [reachesBuilder, serRows] using reachesBuilder_iff v
  | .newtypeVariant _ _ _ v => by simpa [reachesBuilder, serRows] using reachesBuilder_iff v
  | .seq _ => rfl
  | .tuple _ => rfl
  | .tupleStruct _ _ => rfl
  | .tupleVariant _ _ _ _ => rfl
  | .none => rfl
  | .unit => rfl
  | .some _ => rfl
  | .bool _ => rfl
  | .int _ _ => rfl
  | .f32 _ => rfl
  | .f64 _ => rfl
  | .char _ => rfl
  | .str _ => rfl
  | .bytes _ => rfl
  | .unitStruct _ => rfl
  | .record _ _ => rfl
  | .map _ => rfl
  | .mapRaw _ => rfl
  | .unitVariant _ _ _ => rfl
  | .structVariant _ _ _ _ => rfl

/-- a collection behind newtype layers: the wrapper is the unguarded `serializeWith`, poisoning on failure -/
theorem serializeWithG_reaches (ext : Ext) : ∀ (x : SVal) (b : B), reachesBuilder x = true →
    serializeWithG ext (some b) x = match serializeWith ext b x with
      | .ok b' => (.ok (), some b')
      | .error e => (.error e, none)
  | .newtypeStruct _ v, b, h => by
    simpa [serializeWithG, serializeWith] using serializeWithG_reaches ext v b (by simpa [reachesBuilder] using h)
  | .newtypeVariant _ _ _ v, b, h => by
    simpa [serializeWithG, serializeWith] using serializeWithG_reaches ext v b (by simpa [reachesBuilder] using h)
  | .seq xs, b, _ => by simp only [serializeWithG, serializeWith, pushAllG_some]
  | .tuple xs, b, _ => by simp only [serializeWithG, serializeWith, pushAllG_some]
  | .tupleStruct _ xs, b, _ => by simp only [serializeWithG, serializeWith, pushAllG_some]
  | .tupleVariant _ _ _ xs, b, _ => by simp only [serializeWithG, serializeWith, pushAllG_some]
  | .none, _, h => by simp [reachesBuilder] at h
  | .unit, _, h => by simp [reachesBuilder] at h
  | .some _, _, h => by simp [reachesBuilder] at h
  | .bool _, _, h => by simp [reachesBuilder] at h
  | .int _ _, _, h => by simp [reachesBuilder] at h
  | .f32 _, _, h => by simp [reachesBuilder] at h
  | .f64 _, _, h => by simp [reachesBuilder] at h
  | .char _, _, h => by simp [reachesBuilder] at h
  | .str _, _, h => by simp [reachesBuilder] at h
  | .bytes _, _, h => by simp [reachesBuilder] at h
  | .unitStruct _, _, h => by simp [reachesBuilder] at h
  | .record _ _, _, h => by simp [reachesBuilder] at h
  | .map _, _, h => by simp [reachesBuilder] at h
  | .mapRaw _, _, h => by simp [reachesBuilder] at h
  | .unitVariant _ _ _, _, h => by simp [reachesBuilder] at h
  | .structVariant _ _ _ _, _, h => by simp [reachesBuilder] at h

/-- any other value: refused by the wrapper, the builder (poisoned or not) stays as it was -/
theorem serializeWithG_refused (ext : Ext) : ∀ (x : SVal) (g : G), reachesBuilder x = false →
    ∃ msg, serializeWithG ext g x = (fail msg, g)
  | .newtypeStruct _ v, g, h => by
    simpa [serializeWithG] using serializeWithG_refused ext v g (by simpa [reachesBuilder] using h)
  | .newtypeVariant _ _ _ v, g, h => by
    simpa [serializeWithG] using serializeWithG_refused ext v g (by simpa [reachesBuilder] using h)
  | .seq _, _, h => by simp [reachesBuilder] at h
  | .tuple _, _, h => by simp [reachesBuilder] at h
  | .tupleStruct _ _, _, h => by simp [reachesBuilder] at h
  | .tupleVariant _ _ _ _, _, h => by simp [reachesBuilder] at h
  | .none, _, _ => ⟨_, rfl⟩
  | .unit, _, _ => ⟨_, rfl⟩
  | .some _, _, _ => ⟨_, rfl⟩
  | .bool _, _, _ => ⟨_, rfl⟩
  | .int _ _, _, _ => ⟨_, rfl⟩
  | .f32 _, _, _ => ⟨_, rfl⟩
  | .f64 _, _, _ => ⟨_, rfl⟩
  | .char _, _, _ => ⟨_, rfl⟩
  | .str _, _, _ => ⟨_, rfl⟩
  | .bytes _, _, _ => ⟨_, rfl⟩
  | .unitStruct _, _, _ => ⟨_, rfl⟩
  | .record _ _, _, _ => ⟨_, rfl⟩
  | .map _, _, _ => ⟨_, rfl⟩
  | .mapRaw _, _, _ => ⟨_, rfl⟩
  | .unitVariant _ _ _, _, _ => ⟨_, rfl⟩
  | .structVariant _ _ _ _, _, _ => ⟨_, rfl⟩

/-- the rows pending after an operation that did not poison the builder -/
def pendingAfter (pending : List SVal) : Op → List SVal
  | .build => []
  | op => pending ++ op.rows

theorem trailing_cons (pending : List SVal) (op : Op) (ops : List Op) :
    trailing pending (op :: ops) = trailing (pendingAfter pending op) ops := by
  cases op <;> rfl

/-- **one step.**  From a state reached by pushing `pending` onto the fresh builder, an operation either poisons the
builder, or leaves the state reached by pushing `pendingAfter pending op` onto the fresh builder — and then it succeeded,
or it was refused by the `Serializer` wrapper before reaching the builder (and added nothing).  A build that succeeds
returns the one-shot arrays of `pending`. -/
theorem step_inv (ext : Ext) (fields : List Field) (r0 : B) (h0 : newRoot fields = .ok r0)
    (root : B) (pending : List SVal) (hp : pending.foldlM (push ext) r0 = .ok root) (op : Op) :
    (stepG ext (some root) op).2 = none ∨
    ∃ root', (stepG ext (some root) op).2 = some root' ∧
      (pendingAfter pending op).foldlM (push ext) r0 = .ok root' ∧
      ((stepG ext (some root) op).1.isOk = true ∨ op.shapeRefused = true) ∧
      ∀ arrs, (stepG ext (some root) op).1 = .ok (some arrs) → toMarrow ext fields pending = .ok arrs := by
  have ht : takeRest root = r0 := by
    rw [foldlM_push_takeRest ext pending r0 root hp]; exact take_fresh_root fields r0 h0
  cases op with
  | push x =>
    simp only [stepG, pushG_some]
    cases h1 : push ext root x with
    | error e => exact Or.inl rfl
    | ok r =>
      refine Or.inr ⟨r, rfl, ?_, Or.inl rfl, ?_⟩
      · have hx : [x].foldlM (push ext) root = .ok r := by
          simp only [List.foldlM, h1, bind, Except.bind]; rfl
        exact foldlM_push_append ext _ _ _ _ _ hp hx
      · intro arrs h; simp [Except.map] at h
  | extend x =>
    simp only [stepG, extendG_some]
    cases h1 : extend ext root x with
    | error e => exact Or.inl rfl
    | ok r =>
      obtain ⟨p, bl, c, s, hr0⟩ := newRoot_struct h0
      obtain ⟨p', len, fs, cached, next, seen, hroot⟩ := root_struct root (ht.trans hr0)
      rw [hroot] at h1
      obtain ⟨rows, hrows, hf⟩ := extend_spec ext x _ _ _ _ _ _ r h1
      rw [← hroot] at hf
      refine Or.inr ⟨r, rfl, ?_, Or.inl rfl, ?_⟩
      · simp only [pendingAfter, Op.rows, hrows, Option.getD_some]
        exact foldlM_push_append ext _ _ _ _ _ hp hf
      · intro arrs h; simp [Except.map] at h
  | viaSerializer x =>
    cases hrb : reachesBuilder x with
    | true =>
      simp only [stepG, serializeWithG_reaches ext x root hrb]
      cases h1 : serializeWith ext root x with
      | error e => exact Or.inl rfl
      | ok r =>
        obtain ⟨rows, hrows, hf⟩ := serializeWith_spec ext x root r h1
        refine Or.inr ⟨r, rfl, ?_, Or.inl rfl, ?_⟩
        · simp only [pendingAfter, Op.rows, hrows, Option.getD_some]
          exact foldlM_push_append ext _ _ _ _ _ hp hf
        · intro arrs h; simp [Except.map] at h
    | false =>
      obtain ⟨e, he⟩ := serializeWithG_refused ext x (some root) hrb
      have hnone : serRows x = none := by
        have := reachesBuilder_iff x
        rw [hrb] at this
        cases hs : serRows x with
        | none => rfl
        | some r => rw [hs] at this; simp at this
      refine Or.inr ⟨root, by simp [stepG, he], ?_, Or.inr (by simp [Op.shapeRefused, hrb]), ?_⟩
      · simpa [pendingAfter, Op.rows, hnone] using hp
      · intro arrs h; simp [stepG, he, Except.map, fail] at h
  | build =>
    simp only [stepG, buildArraysG_some]
    cases h1 : buildArrays ext root with
    | error e => exact Or.inl rfl
    | ok p =>
      obtain ⟨arrs, rest⟩ := p
      have hr := buildArrays_rest h1
      rw [ht] at hr
      subst hr
      refine Or.inr ⟨rest, rfl, rfl, Or.inl rfl, ?_⟩
      intro arrs' h
      simp only [Except.map, Except.ok.injEq, Option.some.injEq] at h
      subst h
      exact toMarrow_of_fold h0 hp h1

/-! ### every successful build -/

/-- the induction behind `build_ok_oneShot` (`pending`: the rows added since the last build, `root` the state they led to) -/
theorem runG_folds (ext : Ext) (fields : List Field) (r0 : B) (h0 : newRoot fields = .ok r0) :
    ∀ (ops : List Op) (root : B) (pending : List SVal), pending.foldlM (push ext) r0 = .ok root →
    ∀ (i : Nat) (arrs : List Arr), ops[i]? = some .build → (runG ext (some root) ops).1[i]? = some (.ok (some arrs)) →
      toMarrow ext fields (trailing pending (ops.take i)) = .ok arrs ∧
      ∀ j, j < i → ∃ op o, ops[j]? = some op ∧ (runG ext (some root) ops).1[j]? = some o ∧
        (o.isOk = true ∨ op.shapeRefused = true)
  | [], _, _, _, i, _, hop, _ => by simp at hop
  | op :: ops, root, pending, hp, 0, arrs, hop, ho => by
    simp only [List.getElem?_cons_zero, Option.some.injEq] at hop
    subst hop
    simp only [runG, List.getElem?_cons_zero, Option.some.injEq] at ho
    rcases step_inv ext fields r0 h0 root pending hp .build with h | ⟨root', _, _, _, h4⟩
    · -- a build that poisons the builder has failed
      simp only [stepG, buildArraysG_some] at h ho
      cases h1 : buildArrays ext root with
      | error e => simp [h1, Except.map] at ho
      | ok p => simp [h1] at h
    · exact ⟨by simpa [trailing] using h4 arrs ho, by intro j hj; omega⟩
  | op :: ops, root, pending, hp, i + 1, arrs, hop, ho => by
    simp only [List.getElem?_cons_succ] at hop
    simp only [runG, List.getElem?_cons_succ] at ho
    rcases step_inv ext fields r0 h0 root pending hp op with h | ⟨root', h1, h2, h3, _⟩
    · -- poisoned: nothing later succeeds
      rw [h] at ho
      obtain ⟨_, hall⟩ := after_failure_refuses ext ops
      obtain ⟨e, he⟩ := hall _ (List.mem_of_getElem? ho)
      simp [fail] at he
    · rw [h1] at ho
      obtain ⟨g1, g2⟩ := runG_folds ext fields r0 h0 ops root' _ h2 i arrs hop ho
      refine ⟨by simpa [List.take_succ_cons, trailing_cons] using g1, ?_⟩
      intro j hj
      cases j with
      | zero => exact ⟨op, _, by simp, by simp [runG], h3⟩
      | succ j =>
        obtain ⟨op', o, ha, hb, hc⟩ := g2 j (by omega)
        exact ⟨op', o, by simpa using ha, by simpa [runG, h1] using hb, hc⟩

/-- **C10 with failing operations: every build that succeeds is the one-shot conversion of its batch, and it succeeds
only if no operation failed inside the builder before it.**  Any history `ops` on the builder of `fields` — operations may
fail, the history goes on: if operation `i` is a build and returns arrays, then
  * the arrays are PHYSICALLY those of the one-shot `toMarrow ext fields rows`, `rows` = the rows of the additions between the
    previous build and this one, in order (`trailing [] (ops.take i)`), and
  * every earlier operation succeeded, or was a value the `Serializer` wrapper refuses before it reaches the builder
    (it added nothing).  In particular every earlier build succeeded, so "the previous build" is "the previous successful
    build" and the additions in between all succeeded (`okRows_eq_trailing`).
No hypothesis on the schema or the rows. -/
theorem build_ok_oneShot (ext : Ext) (fields : List Field) (r0 : B) (h0 : newRoot fields = .ok r0)
    (ops : List Op) (i : Nat) (arrs : List Arr) (hop : ops[i]? = some .build)
    (ho : (runG ext (some r0) ops).1[i]? = some (.ok (some arrs))) :
    toMarrow ext fields (trailing [] (ops.take i)) = .ok arrs ∧
    ∀ j, j < i → ∃ op o, ops[j]? = some op ∧ (runG ext (some r0) ops).1[j]? = some o ∧
      (o.isOk = true ∨ op.shapeRefused = true) :=
  runG_folds ext fields r0 h0 ops r0 [] rfl i arrs hop ho

/-- the rows of the additions that SUCCEEDED since the last SUCCESSFUL build, read off the operations and their outcomes -/
def okRows (pending : List SVal) : List (Op × Outcome) → List SVal
  | [] => pending
  | (.build, .ok _) :: rest => okRows [] rest
  | (op, .ok _) :: rest => okRows (pending ++ op.rows) rest
  | (_, .error _) :: rest => okRows pending rest

/-- when every operation succeeded or was refused by the wrapper, the rows since the last build are the rows of the
successful additions since the last successful build -/
theorem okRows_eq_trailing : ∀ (l : List (Op × Outcome)) (pending : List SVal),
    (∀ p ∈ l, p.2.isOk = true ∨ p.1.shapeRefused = true) → okRows pending l = trailing pending (l.map (·.1))
  | [], _, _ => rfl
  | (op, .ok v) :: rest, pending, h => by
    have ih := fun pd => okRows_eq_trailing rest pd (fun p hp => h p (List.mem_cons_of_mem _ hp))
    cases op <;> simp [okRows, trailing, Op.rows, ih]
  | (op, .error e) :: rest, pending, h => by
    have ih := fun pd => okRows_eq_trailing rest pd (fun p hp => h p (List.mem_cons_of_mem _ hp))
    have hs : op.shapeRefused = true := by
      rcases h (op, .error e) (by simp) with h | h
      · simp [R.isOk] at h
      · exact h
    cases op with
    | viaSerializer x =>
      have hnone : serRows x = none := by
        have := reachesBuilder_iff x
        simp only [Op.shapeRefused, Bool.not_eq_true', ] at hs
        rw [hs] at this
        cases hs' : serRows x with
        | none => rfl
        | some r => rw [hs'] at this; simp at this
      simp [okRows, trailing, hnone, ih]
    | push x => simp [Op.shapeRefused] at hs
    | extend x => simp [Op.shapeRefused] at hs
    | build => simp [Op.shapeRefused] at hs

/-- before a build that succeeds, "the rows of the additions that succeeded since the previous successful build" (read off
the outcomes) are the rows of the additions since the previous build -/
theorem okRows_before_ok_build (ext : Ext) (fields : List Field) (r0 : B) (h0 : newRoot fields = .ok r0)
    (ops : List Op) (i : Nat) (arrs : List Arr) (hop : ops[i]? = some .build)
    (ho : (runG ext (some r0) ops).1[i]? = some (.ok (some arrs))) :
    okRows [] ((ops.zip (runG ext (some r0) ops).1).take i) = trailing [] (ops.take i) := by
  obtain ⟨_, h2⟩ := build_ok_oneShot ext fields r0 h0 ops i arrs hop ho
  have hlen := runG_length ext ops (some r0)
  have hi : i < ops.length := by
    rcases Nat.lt_or_ge i ops.length with h | h
    · exact h
    · rw [List.getElem?_eq_none h] at hop; cases hop
  rw [okRows_eq_trailing]
  · rw [List.map_take, List.map_fst_zip (by omega)]
  · intro p hp
    obtain ⟨j, hj, hpj⟩ := List.getElem_of_mem hp
    simp only [List.length_take, List.length_zip] at hj
    obtain ⟨op, o, ha, hb, hc⟩ := h2 j (by omega)
    have : p = (op, o) := by
      rw [← hpj, List.getElem_take, List.getElem_zip]
      have ha' : ops[j]'(by omega) = op := by
        rw [List.getElem?_eq_getElem (by omega)] at ha; exact Option.some.inj ha
      have hb' : (runG ext (some r0) ops).1[j]'(by omega) = o := by
        rw [List.getElem?_eq_getElem (by omega)] at hb; exact Option.some.inj hb
      rw [ha', hb']
    subst this
    exact hc

/-- `build_ok_oneShot`, the rows named by the OUTCOMES: a successful build returns exactly the rows of the additions that
succeeded since the previous successful build -/
theorem build_ok_okRows (ext : Ext) (fields : List Field) (r0 : B) (h0 : newRoot fields = .ok r0)
    (ops : List Op) (i : Nat) (arrs : List Arr) (hop : ops[i]? = some .build)
    (ho : (runG ext (some r0) ops).1[i]? = some (.ok (some arrs))) :
    toMarrow ext fields (okRows [] ((ops.zip (runG ext (some r0) ops).1).take i)) = .ok arrs := by
  rw [okRows_before_ok_build ext fields r0 h0 ops i arrs hop ho]
  exact (build_ok_oneShot ext fields r0 h0 ops i arrs hop ho).1

/-- a build succeeds only if NO operation before it failed inside the builder: an earlier failed `push`, `extend`,
`build`, or a `Serializer` call that failed in one of its records, makes every later build fail -/
theorem build_fails_after_failure (ext : Ext) (fields : List Field) (r0 : B) (h0 : newRoot fields = .ok r0)
    (ops : List Op) (i j : Nat) (hj : j < i) (op : Op) (e : Fail) (hopj : ops[j]? = some op)
    (hfail : (runG ext (some r0) ops).1[j]? = some (.error e)) (hin : op.shapeRefused = false)
    (hop : ops[i]? = some .build) : ∃ e', (runG ext (some r0) ops).1[i]? = some (.error e') := by
  have hlen := runG_length ext ops (some r0)
  have hi : i < (runG ext (some r0) ops).1.length := by
    rcases Nat.lt_or_ge i ops.length with h | h
    · omega
    · rw [List.getElem?_eq_none h] at hop; cases hop
  cases hout : (runG ext (some r0) ops).1[i] with
  | error e' => exact ⟨e', by rw [List.getElem?_eq_getElem hi, hout]⟩
  | ok v =>
    exfalso
    have hb : ∃ arrs, v = some arrs := by
      -- a build never yields the outcome of an addition
      have : ∀ (ops : List Op) (g : G) (i : Nat) (v : Option (List Arr)), ops[i]? = some .build →
          (runG ext g ops).1[i]? = some (.ok v) → ∃ arrs, v = some arrs := by
        intro ops
        induction ops with
        | nil => intro g i v h; simp at h
        | cons op ops ih =>
          intro g i v h1 h2
          cases i with
          | zero =>
            simp only [List.getElem?_cons_zero, Option.some.injEq] at h1
            subst h1
            simp only [runG, List.getElem?_cons_zero, Option.some.injEq, stepG] at h2
            cases hb : (buildArraysG ext g).1 with
            | error e => rw [hb] at h2; simp [Except.map] at h2
            | ok a => rw [hb] at h2; simp only [Except.map, Except.ok.injEq] at h2; exact ⟨a, h2.symm⟩
          | succ i =>
            simp only [List.getElem?_cons_succ] at h1
            simp only [runG, List.getElem?_cons_succ] at h2
            exact ih _ i v h1 h2
      exact this ops (some r0) i v hop (by rw [List.getElem?_eq_getElem hi, hout])
    obtain ⟨arrs, rfl⟩ := hb
    obtain ⟨_, h2⟩ := build_ok_oneShot ext fields r0 h0 ops i arrs hop (by rw [List.getElem?_eq_getElem hi, hout])
    obtain ⟨op', o, ha, hb', hc⟩ := h2 j hj
    rw [hopj] at ha
    rw [hfail] at hb'
    cases ha; cases hb'
    rcases hc with hc | hc
    · simp [R.isOk] at hc
    · rw [hin] at hc; cases hc

/-! ### what the arrays of a successful build mean -/

theorem mem_trailing (okx : SVal → Prop) : ∀ (ops : List Op) (pending : List SVal),
    (∀ x ∈ pending, okx x) → OpsOK okx ops → ∀ x ∈ trailing pending ops, okx x
  | [], _, hp, _, x, hx => hp x hx
  | op :: ops, pending, hp, ho, x, hx => by
    rw [trailing_cons] at hx
    refine mem_trailing okx ops _ ?_ (fun op' hop => ho op' (List.mem_cons_of_mem _ hop)) x hx
    intro y hy
    cases op with
    | build => simp [pendingAfter] at hy
    | push z =>
      rcases List.mem_append.1 hy with hy | hy
      · exact hp y hy
      · exact ho (.push z) (by simp) y hy
    | extend z =>
      rcases List.mem_append.1 hy with hy | hy
      · exact hp y hy
      · exact ho (.extend z) (by simp) y hy
    | viaSerializer z =>
      rcases List.mem_append.1 hy with hy | hy
      · exact hp y hy
      · exact ho (.viaSerializer z) (by simp) y hy

theorem OpsOK_take {okx : SVal → Prop} {ops : List Op} (h : OpsOK okx ops) (i : Nat) : OpsOK okx (ops.take i) :=
  fun op hop => h op (List.mem_of_mem_take hop)

/-- **C10 (histories with failing operations), decoded content.**  Every build of ANY history that succeeds — whatever
failed or was refused before — returns arrays that decode (`Spec.decodeAll`), column by column, to exactly the documented
rows `interpRow ext fields` of the records added by the successful additions since the previous successful build
(`DecodesTo`).  Hypotheses: those of `C01.C01_build_decode'`, as in `C10_histories`. -/
theorem C10_histories_with_failures (ext : Ext) (fields : List Field) (r0 : B) (h0 : newRoot fields = .ok r0)
    (hschema : ∀ f ∈ fields, Lemmas.C03.SchemaOKF f)
    (hcov : fields.all Build.coveredF = true)
    (ops : List Op) (hraw : OpsOK (fun x => structStreamsAlternate x = true) ops)
    (hnar : OpsOK (fun x => noRaw x = true) ops ∨ narrowRoot fields = true)
    (i : Nat) (arrs : List Arr) (hop : ops[i]? = some .build)
    (ho : (runG ext (some r0) ops).1[i]? = some (.ok (some arrs))) :
    DecodesTo ext fields arrs (okRows [] ((ops.zip (runG ext (some r0) ops).1).take i)) ∧
    okRows [] ((ops.zip (runG ext (some r0) ops).1).take i) = trailing [] (ops.take i) := by
  have h1 := (build_ok_oneShot ext fields r0 h0 ops i arrs hop ho).1
  have heq := okRows_before_ok_build ext fields r0 h0 ops i arrs hop ho
  refine ⟨?_, heq⟩
  rw [heq]
  have hrows : ∀ x ∈ trailing [] (ops.take i), structStreamsAlternate x = true :=
    mem_trailing (fun x => structStreamsAlternate x = true) _ [] (by simp) (OpsOK_take hraw i)
  have hnar' : (∀ x ∈ trailing [] (ops.take i), noRaw x = true) ∨ narrowRoot fields = true :=
    hnar.imp (fun hno => mem_trailing (fun x => noRaw x = true) _ [] (by simp) (OpsOK_take hno i)) id
  exact C01.C01_build_decode' ext fields _ _ hschema hcov hrows hnar' h1

/-- **C03 along histories with failing operations**: every build that succeeds returns well-formed arrays of the declared
fields (`Spec.WF`: structurally valid AND of exactly the field's data type), one per field, each of exactly as
many rows as were added successfully since the previous successful build.  Hypotheses: those of `C01.C03_wf'` (incl.
`hplain`: no metadata on a Map's entries field, known finding C03-map-entries-metadata), as in `C10_builds_wf`. -/
theorem C10_builds_wf_with_failures (ext : Ext) (fields : List Field) (r0 : B) (h0 : newRoot fields = .ok r0)
    (hschema : ∀ f ∈ fields, Lemmas.C03.SchemaOKF f)
    (hplain : ∀ f ∈ fields, Lemmas.C03.PlainF f)
    (hsafe : Safe r0 ∨ fields.all Build.coveredF = true) (hext : Lemmas.C03.ExtOK ext)
    (ops : List Op) (hrows : OpsOK Lemmas.C03.SValOK ops)
    (i : Nat) (arrs : List Arr) (hop : ops[i]? = some .build)
    (ho : (runG ext (some r0) ops).1[i]? = some (.ok (some arrs))) :
    arrs.length = fields.length ∧
    ∀ (j : Nat) (f : Field) (a : Arr), fields[j]? = some f → arrs[j]? = some a →
      WF f a = true ∧ (decodeAll a).length = (trailing [] (ops.take i)).length := by
  have h1 := (build_ok_oneShot ext fields r0 h0 ops i arrs hop ho).1
  exact Props.C01.C03_wf' ext fields _ _ hschema hplain
    (hsafe.imp (fun hs root0 hr => by rw [h0] at hr; cases hr; exact hs) id) hext
    (mem_trailing Lemmas.C03.SValOK _ [] (by simp) (OpsOK_take hrows i)) h1

/-! ### the statements about `run` are about the same machine -/

/-- a history that `run` (Props/C10.lean: every operation succeeds) completes is completed by `runG` with every outcome
`ok`, the builds returning the same arrays, in the same final builder: `run_oneShot`, `C10_histories`,
`C10_chunking_irrelevant`, `C10_build_is_fresh`, `take_is_fresh` are statements about the successful histories of `runG` -/
theorem runG_of_run (ext : Ext) : ∀ (ops : List Op) (root : B) (outs : List (B × List Arr)) (fin : B),
    run ext root ops = .ok (outs, fin) →
    (runG ext (some root) ops).2 = some fin ∧
    (∀ o ∈ (runG ext (some root) ops).1, o.isOk = true) ∧
    (runG ext (some root) ops).1.filterMap (fun o => match o with | .ok (some a) => some a | _ => none) = outs.map (·.2)
  | [], root, outs, fin, h => by
    simp [run] at h; obtain ⟨rfl, rfl⟩ := h
    simp [runG]
  | .push x :: ops, root, outs, fin, h => by
    simp only [run] at h
    obtain ⟨r, h1, h⟩ := (bind_ok _ _ _).1 h
    obtain ⟨g1, g2, g3⟩ := runG_of_run ext ops r outs fin h
    simp only [runG, stepG, pushG_some, h1, Except.map]
    refine ⟨g1, ?_, by simpa using g3⟩
    intro o ho
    rcases List.mem_cons.1 ho with rfl | ho
    · rfl
    · exact g2 o ho
  | .extend x :: ops, root, outs, fin, h => by
    simp only [run] at h
    obtain ⟨r, h1, h⟩ := (bind_ok _ _ _).1 h
    obtain ⟨g1, g2, g3⟩ := runG_of_run ext ops r outs fin h
    simp only [runG, stepG, extendG_some, h1, Except.map]
    refine ⟨g1, ?_, by simpa using g3⟩
    intro o ho
    rcases List.mem_cons.1 ho with rfl | ho
    · rfl
    · exact g2 o ho
  | .viaSerializer x :: ops, root, outs, fin, h => by
    simp only [run] at h
    obtain ⟨r, h1, h⟩ := (bind_ok _ _ _).1 h
    obtain ⟨g1, g2, g3⟩ := runG_of_run ext ops r outs fin h
    obtain ⟨rows, hrows, _⟩ := serializeWith_spec ext x root r h1
    have hrb : reachesBuilder x = true := by rw [reachesBuilder_iff, hrows]; rfl
    simp only [runG, stepG, serializeWithG_reaches ext x root hrb, h1, Except.map]
    refine ⟨g1, ?_, by simpa using g3⟩
    intro o ho
    rcases List.mem_cons.1 ho with rfl | ho
    · rfl
    · exact g2 o ho
  | .build :: ops, root, outs, fin, h => by
    simp only [run] at h
    obtain ⟨⟨arrs, rest⟩, h1, h⟩ := (bind_ok _ _ _).1 h
    obtain ⟨⟨outs', fin'⟩, h2, h⟩ := (bind_ok _ _ _).1 h
    cases h
    obtain ⟨g1, g2, g3⟩ := runG_of_run ext ops rest outs' _ h2
    simp only [runG, stepG, buildArraysG_some, h1, Except.map]
    refine ⟨g1, ?_, by simpa using g3⟩
    intro o ho
    rcases List.mem_cons.1 ho with rfl | ho
    · rfl
    · exact g2 o ho

/-! ### non-vacuity: the history of Props/C10Arrays.lean with a record the builder refuses in the middle -/

section examples

/-- `exOps` up to its first build, then a record whose list holds a string (refused by the `Int8` element builder AFTER
the dictionary column has taken its value), more additions and a build, a value the wrapper refuses, and a last build -/
def exFailOps : List Op :=
  [.push (exRec "x" [1]), .build,
   .push (.record "R" (.cons "d" 0 (.str "y") (.cons "l" 0 (.seq (.cons (.str "no") .nil)) .nil))),
   .push (exRec "z" []), .viaSerializer (.bool true), .extend (.seq .nil), .build]

/-- the first build succeeds; the refused record fails; EVERYTHING after it fails, the last build included -/
example : (runG {} (some exRoot0) exFailOps).1.map (·.cls) = ["ok", "ok", "err", "err", "err", "err", "err"] ∧
    (runG {} (some exRoot0) exFailOps).2 = none := by decide +kernel

/-- `build_ok_oneShot` applies to the build that succeeded -/
example : ∀ arrs, (runG {} (some exRoot0) exFailOps).1[1]? = some (.ok (some arrs)) →
    toMarrow {} exFields [exRec "x" [1]] = .ok arrs := fun arrs h =>
  (build_ok_oneShot {} exFields exRoot0 exNew exFailOps 1 arrs rfl h).1

/-- `C10_histories_with_failures` and `C10_builds_wf_with_failures` apply to it with every hypothesis discharged: the
arrays of the successful build decode to the documented rows of the one record pushed before it and are well formed -/
example : ∀ arrs, (runG {} (some exRoot0) exFailOps).1[1]? = some (.ok (some arrs)) →
    DecodesTo {} exFields arrs [exRec "x" [1]] ∧ arrs.length = exFields.length := by
  intro arrs h
  obtain ⟨h1, h2⟩ := C10_histories_with_failures {} exFields exRoot0 exNew
    (by simp [exFields, Lemmas.C03.SchemaOKF, Lemmas.C03.SchemaOK]) (by decide) exFailOps
    (by unfold OpsOK; decide) (Or.inl (by unfold OpsOK; decide)) 1 arrs rfl h
  rw [h2] at h1
  exact ⟨h1, h1.1⟩

/-- `build_fails_after_failure`: the push at position 2 failed inside the builder, so the build at position 6 fails -/
example : ∃ e', (runG {} (some exRoot0) exFailOps).1[6]? = some (.error e') := by
  have h : ∃ e, (runG {} (some exRoot0) exFailOps).1[2]? = some (.error e) := by
    have : ((runG {} (some exRoot0) exFailOps).1[2]?.map (·.isOk)) = some false := by decide +kernel
    cases hv : (runG {} (some exRoot0) exFailOps).1[2]? with
    | none => rw [hv] at this; cases this
    | some o =>
      cases o with
      | ok v => rw [hv] at this; cases this
      | error e => exact ⟨e, rfl⟩
  obtain ⟨e, he⟩ := h
  exact build_fails_after_failure {} exFields exRoot0 exNew exFailOps 6 2 (by decide) _ e rfl he rfl rfl

/-- a value the `Serializer` wrapper refuses does NOT poison the builder: the build after it succeeds with the row pushed
before it -/
example : ((runG {} (some exRoot0) [.push (exRec "x" [1]), .viaSerializer (.bool true), .build]).1.map (·.cls) =
    ["ok", "err", "ok"]) := by decide +kernel

end examples

end SaModel.Props.C10
