import SaModel.Build.Dec
/-
C10 — ArrayBuilder: each build returns exactly the rows pushed since the last one (front-end part).
What `take` leaves behind holds no rows, for every builder state whatsoever (no invariant needed), and taking
twice is the same as taking once.  The history theorem (`batches`) lives in Props/C10.lean.
-/
namespace SaModel.Props.C10Front
open SaModel SaModel.Build

theorem maskNull_nil (v : Validity) : maskNull (v.map fun _ => []) [] = [] := by
  cases v <;> simp [maskNull]

mutual
/-- after `take`, a builder holds no rows — whatever state it was in -/
theorem dec_takeRest : ∀ (b : B), dec (takeRest b) = []
  | .null _ _ => by simp [takeRest, dec]
  | .unknownVariant _ => by simp [takeRest, dec]
  | .leaf _ _ v _ => by simp [takeRest, dec, maskNull_nil]
  | .bytes _ _ v _ _ => by simp [takeRest, dec, pairs, maskNull_nil]
  | .bytesView _ _ v _ _ => by simp [takeRest, dec, maskNull_nil]
  | .fixedSizeBinary _ _ _ v _ _ => by simp [takeRest, dec, maskNull_nil]
  | .list _ _ _ v _ _ => by simp [takeRest, dec, pairs, maskNull_nil]
  | .fixedSizeList _ _ _ _ v _ _ => by simp [takeRest, dec, maskNull_nil]
  | .map _ _ v _ _ _ => by simp [takeRest, dec, pairs, maskNull_nil]
  | .struct _ _ v _ _ _ _ => by simp [takeRest, dec, maskNull_nil]
  | .dictionary _ idx _ _ => by simp [takeRest, dec, dec_takeRest idx]
  | .union _ _ _ _ _ => by simp [takeRest, dec]
end

mutual
/-- `take` is idempotent on the part that stays behind -/
theorem takeRest_idem : ∀ (b : B), takeRest (takeRest b) = takeRest b
  | .null _ _ => by simp [takeRest]
  | .unknownVariant _ => by simp [takeRest]
  | .leaf _ _ v _ => by cases v <;> simp [takeRest]
  | .bytes _ _ v _ _ => by cases v <;> simp [takeRest]
  | .bytesView _ _ v _ _ => by cases v <;> simp [takeRest]
  | .fixedSizeBinary _ _ _ v _ _ => by cases v <;> simp [takeRest]
  | .list _ _ _ v _ el => by cases v <;> simp [takeRest, takeRest_idem el]
  | .fixedSizeList _ _ _ _ v _ el => by cases v <;> simp [takeRest, takeRest_idem el]
  | .map _ _ v _ ks vs => by cases v <;> simp [takeRest, takeRest_idem ks, takeRest_idem vs]
  | .struct _ _ v fs _ _ _ => by cases v <;> simp [takeRest, takeRestAll_idem fs]
  | .dictionary _ idx vals _ => by simp [takeRest, takeRest_idem idx, takeRest_idem vals]
  | .union _ fs _ _ _ => by simp [takeRest, takeRestAll_idem fs]
theorem takeRestAll_idem : ∀ (fs : BL), takeRestAll (takeRestAll fs) = takeRestAll fs
  | .nil => by simp [takeRestAll]
  | .cons b _ r => by simp [takeRestAll, takeRest_idem b, takeRestAll_idem r]
end

/-- the columns of the root after a build are all empty -/
theorem decCols_takeRestAll : ∀ (fs : BL), (decCols (takeRestAll fs)).all (fun c => c.2.isEmpty) = true
  | .nil => by simp [takeRestAll, decCols]
  | .cons b _ r => by simp [takeRestAll, decCols, dec_takeRest b, decCols_takeRestAll r]

example : dec (takeRest (.leaf "$.a" (.int .i32) (some [true, false]) [4, 0])) = [] := by decide

end SaModel.Props.C10Front
