import SaModel.Props.C10
import SaModel.Props.C01Obs
/-
C10 — the state-level history theorems of Props/C10.lean WITHOUT `Safe` (the "hidden rows" refinement, Props/C01Obs.lean).

`batches` / `batches_interp` of Props/C10.lean assume `Safe r0` (no dictionary with non-nullable keys below a nullable
struct / fixed-size list).  Here the invariant carried through a history is the weak one: `HoldsH` = `WFH` (weak state
invariant) + `NoDictKey` (holds of every builder `build_builder` constructs) + `Det` (no row of the ROOT is undetermined:
the root is a non-nullable struct all of whose rows were pushed) + `takeRest root = r0` + the rows.
  * `holds_pushH`, `holds_foldH`, `batches_genH`: the generic induction over a history (`Build.push_appends_det` keeps
    `WFH`/`NoDictKey`/`Det` through a push; after a build the builder is the fresh one, strictly well formed);
  * `batches'`: `batches` without `hsafe`;
  * `batches_interp'`: `batches_interp` without `hsafe` (content step: `Props.C01.push_interp_det`);
  * a worked instance on the schema `Props.C01.exUnsafeFields`, which is OUTSIDE `Safe`.
-/
namespace SaModel.Props.C10
open SaModel SaModel.Build SaModel.Spec

/-- what a build sees, relative to the rows of its batch, under the weak invariant; `Q x lv`: "lv is the row record x
denotes" -/
structure HoldsH (r0 : B) (Q : SVal → LVal → Prop) (root : B) (rows : List SVal) : Prop where
  wf : WFH root
  nd : NoDictKey root
  det : Det root
  take : takeRest root = r0
  rows : All2 (fun lv x => Q x lv) (dec root) rows

section
variable (ext : Ext) (r0 : B) (Q : SVal → LVal → Prop) (okx : SVal → Prop)
variable (hstep : ∀ (b b' : B) (x : SVal), WFH b → NoDictKey b → Det b → takeRest b = r0 → okx x → push ext b x = .ok b' →
  ∃ lv, dec b' = dec b ++ [lv] ∧ Q x lv)
include hstep

theorem holds_pushH {root r : B} {pending : List SVal} {x : SVal} (hh : HoldsH r0 Q root pending)
    (hraw : okx x) (h : push ext root x = .ok r) : HoldsH r0 Q r (pending ++ [x]) := by
  obtain ⟨lv, hd, hq⟩ := hstep root r x hh.wf hh.nd hh.det hh.take hraw h
  obtain ⟨hw, hn, hdt, _⟩ := Build.push_appends_det ext x root r hh.wf hh.nd hh.det h
  exact ⟨hw, hn, hdt, by rw [push_takeRest ext x root r h, hh.take], by
    rw [hd]; exact All2.append hh.rows (All2.cons hq All2.nil)⟩

theorem holds_foldH : ∀ (rows : List SVal) {root r : B} {pending : List SVal}, HoldsH r0 Q root pending →
    (∀ x ∈ rows, okx x) → rows.foldlM (push ext) root = .ok r → HoldsH r0 Q r (pending ++ rows)
  | [], root, r, pending, hh, _, h => by
    simp [List.foldlM, pure, Except.pure] at h; subst h; simpa using hh
  | x :: rest, root, r, pending, hh, hraw, h => by
    simp only [List.foldlM] at h
    obtain ⟨b1, h1, h⟩ := (bind_ok _ _ _).1 h
    have := holds_foldH rest (holds_pushH ext r0 Q okx hstep hh (hraw x (by simp)) h1) (fun y hy => hraw y (by simp [hy])) h
    simpa using this

theorem batches_genH (fields : List Field) (h0 : newRoot fields = .ok r0) :
    ∀ (ops : List Op) (root : B) (pending : List SVal) (outs : List (B × List Arr)) (fin : B),
      HoldsH r0 Q root pending → OpsOK okx ops → run ext root ops = .ok (outs, fin) →
      All2 (fun (out : B × List Arr) rows => HoldsH r0 Q out.1 rows ∧ buildArrays ext out.1 = .ok (out.2, r0))
        outs (batchesFrom pending ops)
  | [], root, pending, outs, fin, _, _, h => by
    simp [run] at h; obtain ⟨rfl, rfl⟩ := h
    exact All2.nil
  | .push x :: ops, root, pending, outs, fin, hh, hraw, h => by
    simp only [run] at h
    obtain ⟨r, h1, h⟩ := (bind_ok _ _ _).1 h
    have hx : okx x := hraw (.push x) (by simp) x (by simp [Op.rows])
    exact batches_genH fields h0 ops r _ outs fin (holds_pushH ext r0 Q okx hstep hh hx h1)
      (fun op hop => hraw op (by simp [hop])) h
  | .extend x :: ops, root, pending, outs, fin, hh, hraw, h => by
    simp only [run] at h
    obtain ⟨r, h1, h'⟩ := (bind_ok _ _ _).1 h
    obtain ⟨p, bl, c, s, hr0⟩ := newRoot_struct h0
    obtain ⟨p', len, fs, cached, next, seen, hroot⟩ := root_struct root (hh.take.trans hr0)
    rw [hroot] at h1
    obtain ⟨rows, hrows, hf⟩ := extend_spec ext x _ _ _ _ _ _ r h1
    rw [← hroot] at hf
    have hx : ∀ y ∈ rows, okx y := by
      intro y hy
      exact hraw (.extend x) (by simp) y (by simp [Op.rows, hrows, hy])
    have := holds_foldH ext r0 Q okx hstep rows hh hx hf
    simp only [batchesFrom, hrows, Option.getD_some]
    exact batches_genH fields h0 ops r _ outs fin this (fun op hop => hraw op (by simp [hop])) h'
  | .viaSerializer x :: ops, root, pending, outs, fin, hh, hraw, h => by
    simp only [run] at h
    obtain ⟨r, h1, h'⟩ := (bind_ok _ _ _).1 h
    obtain ⟨rows, hrows, hf⟩ := serializeWith_spec ext x root r h1
    have hx : ∀ y ∈ rows, okx y := by
      intro y hy
      exact hraw (.viaSerializer x) (by simp) y (by simp [Op.rows, hrows, hy])
    have := holds_foldH ext r0 Q okx hstep rows hh hx hf
    simp only [batchesFrom, hrows, Option.getD_some]
    exact batches_genH fields h0 ops r _ outs fin this (fun op hop => hraw op (by simp [hop])) h'
  | .build :: ops, root, pending, outs, fin, hh, hraw, h => by
    simp only [run] at h
    obtain ⟨⟨arrs, rest⟩, h1, h⟩ := (bind_ok _ _ _).1 h
    obtain ⟨⟨outs', fin'⟩, h2, h⟩ := (bind_ok _ _ _).1 h
    cases h
    have hr := buildArrays_rest h1
    subst hr
    have hfresh := newRoot_fresh h0
    have hrest : takeRest root = r0 := hh.take
    have hh' : HoldsH r0 Q (takeRest root) [] := by
      rw [hrest]
      exact ⟨WFH_of_WFB _ hfresh.1, Build.newRoot_NoDictKey h0, Det_of_WFB hfresh.1, hfresh.2.2,
        by rw [hfresh.2.1]; exact All2.nil⟩
    simp only [batchesFrom]
    refine All2.cons ⟨hh, by rw [← hrest]; exact h1⟩ ?_
    exact batches_genH fields h0 ops (takeRest root) [] outs' fin' hh' (fun op hop => hraw op (by simp [hop])) h2
end

/-- the fresh builder of a schema satisfies the weak history invariant with no rows -/
theorem holdsH_fresh {fields : List Field} {r0 : B} (h0 : newRoot fields = .ok r0) (Q : SVal → LVal → Prop) :
    HoldsH r0 Q r0 [] := by
  have hfresh := newRoot_fresh h0
  exact ⟨WFH_of_WFB _ hfresh.1, Build.newRoot_NoDictKey h0, Det_of_WFB hfresh.1, hfresh.2.2,
    by rw [hfresh.2.1]; exact All2.nil⟩

/-- **batches (R1 level), no `Safe`.** In any history over ANY schema `build_builder` accepts — records of any shape —
build k sees a root that satisfies the weak state invariant, is determined, and holds exactly as many rows as were
added since build k-1; it returns `finishFields` of that state, and the builder continues from the fresh builder of
the schema. -/
theorem batches' (ext : Ext) (fields : List Field) (r0 : B) (h0 : newRoot fields = .ok r0)
    (ops : List Op) (outs : List (B × List Arr)) (fin : B)
    (h : run ext r0 ops = .ok (outs, fin)) :
    All2 (fun (out : B × List Arr) rows =>
        WFH out.1 ∧ Det out.1 ∧ (dec out.1).length = rows.length ∧ buildArrays ext out.1 = .ok (out.2, r0))
      outs (batchesFrom [] ops) := by
  have := batches_genH ext r0 (fun _ _ => True) (fun _ => True) (by
    intro b b' x hw hn hdt _ _ hp
    obtain ⟨_, _, _, lv, hd, _⟩ := Build.push_appends_det ext x b b' hw hn hdt hp
    exact ⟨lv, hd, trivial⟩) fields h0 ops r0 [] outs fin (holdsH_fresh h0 _) (fun _ _ _ _ => trivial) h
  refine All2.imp ?_ this
  intro out rows ⟨hh, hb⟩
  exact ⟨hh.wf, hh.det, All2.length hh.rows, hb⟩

/-- **batches (content), no `Safe`.** For covered schemas and records whose raw call streams alternate (`hraw`; `hnar`:
the sentinel bound, needed only when some record contains a raw stream): build k sees a determined root whose rows are
exactly `interpRow` of the records added since build k-1, in order, and returns `finishFields` of that state; the
builder continues from the fresh builder. -/
theorem batches_interp' (ext : Ext) (fields : List Field) (r0 : B) (hc : fields.all coveredF = true)
    (h0 : newRoot fields = .ok r0)
    (ops : List Op) (hraw : OpsOK (fun x => structStreamsAlternate x = true) ops)
    (hnar : OpsOK (fun x => noRaw x = true) ops ∨ narrowRoot fields = true)
    (outs : List (B × List Arr)) (fin : B)
    (h : run ext r0 ops = .ok (outs, fin)) :
    All2 (fun (out : B × List Arr) rows =>
        WFH out.1 ∧ Det out.1 ∧ All2 (fun lv x => interpRow ext fields x = .ok lv) (dec out.1) rows ∧
        buildArrays ext out.1 = .ok (out.2, r0))
      outs (batchesFrom [] ops) := by
  have hfresh := newRoot_fresh h0
  have hshape := newRoot_shape hc h0
  have hcomb : OpsOK (fun x => structStreamsAlternate x = true ∧ (noRaw x = true ∨ narrowRoot fields = true)) ops :=
    fun op ho x hx => ⟨hraw op ho x hx, hnar.imp (fun h => h op ho x hx) id⟩
  have := batches_genH ext r0 (fun x lv => interpRow ext fields x = .ok lv)
    (fun x => structStreamsAlternate x = true ∧ (noRaw x = true ∨ narrowRoot fields = true))
    (by
    intro b b' x hw hn hdt ht hraw hp
    have hsh : Shape b (.struct (Fields.ofList fields)) false [] :=
      Shape.of_takeRest (ht.trans hfresh.2.2.symm) hshape
    obtain ⟨_, _, _, _, lv, hd, hi⟩ := C01.push_interp_det ext x b b' _ _ _ hraw.1 hraw.2 hw hn hdt hsh hp
    exact ⟨lv, hd, hi⟩) fields h0 ops r0 [] outs fin (holdsH_fresh h0 _) hcomb h
  refine All2.imp ?_ this
  intro out rows ⟨hh, hb⟩
  exact ⟨hh.wf, hh.det, hh.rows, hb⟩

/-! ### non-vacuity: a history over a schema OUTSIDE `Safe`

Schema `Props.C01.exUnsafeFields` = `{s: Struct{d: Dictionary(UInt8, Utf8)}?}` (a dictionary with non-nullable keys below
a nullable struct, `C01.exUnsafe_not_safe`); history: push `s = None`, push `s = {d: "a"}`, build, push `s = None`,
build — the records of `C01.exUnsafeRows`. -/

/-- the fresh builder of the schema (literal form, cf. `C01.exUnsafe_not_safe`) -/
def exUnsafeRoot0 : B :=
  .struct "$" 0 none
    (.cons (.struct "$.s" 0 (some [])
        (.cons (.dictionary "$.s.d" (.leaf "$.s.d.key" (.int .u8) none []) (.bytes "$.s.d.value" .utf8 none [0] []) [])
          ⟨"d", false, []⟩ .nil) [none] 0 [false]) ⟨"s", true, []⟩ .nil) [none] 0 [false]

theorem exUnsafeNew : newRoot C01.exUnsafeFields = .ok exUnsafeRoot0 := by decide

theorem exUnsafeRoot0_not_safe : ¬ Safe exUnsafeRoot0 := C01.exUnsafe_not_safe _ exUnsafeNew

def exUnsafeOps : List Op :=
  [.push (.record "R" (.cons "s" 0 .none .nil)),
   .push (.record "R" (.cons "s" 0 (.some (.record "S" (.cons "d" 0 (.str "a") .nil))) .nil)),
   .build,
   .push (.record "R" (.cons "s" 0 .none .nil)),
   .build]

/-- the batches of the history are the records of `C01.exUnsafeRows`: the first two, then the third -/
example : batchesFrom [] exUnsafeOps = [C01.exUnsafeRows.take 2, C01.exUnsafeRows.drop 2] := by decide

theorem exUnsafeRunOk : (run {} exUnsafeRoot0 exUnsafeOps).isOk = true := by decide +kernel

/-- `batches_interp'` applies to the history with every hypothesis discharged (the old `batches_interp` does not:
`exUnsafeRoot0_not_safe`) -/
example : ∀ outs fin, run {} exUnsafeRoot0 exUnsafeOps = .ok (outs, fin) →
    All2 (fun (out : B × List Arr) rows =>
        WFH out.1 ∧ Det out.1 ∧ All2 (fun lv x => interpRow {} C01.exUnsafeFields x = .ok lv) (dec out.1) rows ∧
        buildArrays {} out.1 = .ok (out.2, exUnsafeRoot0))
      outs (batchesFrom [] exUnsafeOps) := by
  intro outs fin h
  refine batches_interp' {} C01.exUnsafeFields exUnsafeRoot0 (by decide) exUnsafeNew exUnsafeOps ?_ (Or.inl ?_) outs fin h
  · unfold OpsOK; decide
  · unfold OpsOK; decide

/-- what the two builds really see: the first the rows null, {d: "a"} (the dictionary child holds the placeholder key
below the null), the second the single row null -/
example : (do
      let (outs, _) ← run {} exUnsafeRoot0 exUnsafeOps
      pure (outs.map fun o => decRoot o.1) : R (List (List (List LVal)))) =
    .ok [[[.null, .struct (.cons "d" (.str [97]) .nil)]], [[.null]]] := by decide +kernel

end SaModel.Props.C10
