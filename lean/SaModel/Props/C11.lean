import SaModel.Props.C01Obs
import SaModel.Props.C11Front
import SaModel.Build.Wrappers
/-
C11 — how a record is presented does not change the arrays.

* `presentation_independent`: the row a push appends depends on the value only through the documented mapping
  `Spec.interpDT` — which matches record fields by NAME.  Corollary of R2' for determined states (`C01.push_interp_det`, the
  hidden-rows refinement of Props/C01Obs.lean: weak state invariant, NO `Safe`).  Any two
  presentations with the same `interpDT` (struct / map / tuple, any field order, extra fields, `Some`/newtype
  layers, integer widths …) leave the builder with the same logical rows.
* `record_as_map`: a struct presentation and the map presentation with the same keys have the same `interpDT`.
* `record_as_tuple`: a tuple in schema order means what the struct presentation with the schema's names means.
* `record_perm`: permuting the fields of a struct presentation does not change `interpDT` (on the ok side).
* `absent_nullable_is_null`, `absent_required_is_error`, `duplicate_is_error`.
* `Item` / `Items` (Build/Wrappers.lean): `item_is_record`, `items_is_seq_of_records`, `item_interp_record`, `item_row`.
* the statements about the ARRAYS (`C11_presentations`, …) are in Props/C11Arrays.lean.
* `extra_field_ignored`: a field no schema field is named after is ignored.
* the positional fast path of `FieldLookup::lookup` is sound for every cache state: `C11Front.lookup_sound`
  (used by the R1/R2 proofs for `serialize_struct_field`), so interleaving differently laid-out record types
  cannot misroute a field.
-/
namespace SaModel.Props.C11
open SaModel SaModel.Build SaModel.Spec

/-- **Presentation independence.** Two values with the same documented meaning at the builder's field, both
accepted: the builder ends up with the same logical rows.  State hypotheses: the WEAK state invariant `WFH`, `NoDictKey`
(holds of every builder `build_builder` constructs) and `Det` (no row is undetermined) — all three hold of every strictly
well-formed state (`WFH_of_WFB`, `Det_of_WFB`; so the stronger `WFB b`, `Safe b` imply them) and of the root of
`to_marrow` after every record, for EVERY schema: no `Safe`. -/
theorem presentation_independent (ext : Ext) (x y : SVal) (b bx bY : B) (dt : DataType) (n : Bool) (md : Metadata)
    (hx : noRaw x = true) (hy : noRaw y = true) (hwf : WFH b) (hnd : NoDictKey b) (hdet : Det b)
    (hshape : Shape b dt n md) (hsame : interpDT ext dt n md x = interpDT ext dt n md y)
    (h1 : push ext b x = .ok bx) (h2 : push ext b y = .ok bY) : dec bx = dec bY := by
  obtain ⟨_, _, _, _, lv1, hd1, hi1⟩ :=
    C01.push_interp_det ext x b bx dt n md (noRaw_ssa x hx) (Or.inl hx) hwf hnd hdet hshape h1
  obtain ⟨_, _, _, _, lv2, hd2, hi2⟩ :=
    C01.push_interp_det ext y b bY dt n md (noRaw_ssa y hy) (Or.inl hy) hwf hnd hdet hshape h2
  rw [hsame, hi2] at hi1
  cases hi1
  rw [hd1, hd2]

/-- the same for whole batches through the front end (no `Safe`).  Schema predicate: the WEAK `coveredWF` of R3'
(Lemmas/C01NewShape.lean) — it also admits `Dictionary(integer, V)` with a value builder that refuses strings;
`fields.all coveredF` implies it (`all_coveredWF_of_coveredF`). -/
theorem runRows_presentation_independent (ext : Ext) (fields : List Field) (rows1 rows2 : List SVal) (root0 r1 r2 : B)
    (hc : fields.all coveredWF = true) (h0 : newRoot fields = .ok root0)
    (hraw1 : ∀ x ∈ rows1, noRaw x = true) (hraw2 : ∀ x ∈ rows2, noRaw x = true)
    (hsame : rows1.map (interpRow ext fields) = rows2.map (interpRow ext fields))
    (h1 : runRows ext fields rows1 = .ok r1) (h2 : runRows ext fields rows2 = .ok r2) : dec r1 = dec r2 := by
  obtain ⟨a1, _, _⟩ := C01.runRows_interp' ext fields rows1 root0 r1 hc h0 (fun x hx => noRaw_ssa x (hraw1 x hx)) (Or.inl hraw1) h1
  obtain ⟨a2, _, _⟩ := C01.runRows_interp' ext fields rows2 root0 r2 hc h0 (fun x hx => noRaw_ssa x (hraw2 x hx)) (Or.inl hraw2) h2
  exact go _ _ _ _ a1 a2 hsame
where
  go : ∀ (l1 : List LVal) (rows1 : List SVal) (l2 : List LVal) (rows2 : List SVal),
      All2 (fun lv x => interpRow ext fields x = .ok lv) l1 rows1 →
      All2 (fun lv x => interpRow ext fields x = .ok lv) l2 rows2 →
      rows1.map (interpRow ext fields) = rows2.map (interpRow ext fields) → l1 = l2
    | [], [], [], [], _, _, _ => rfl
    | a :: l1, x :: r1, b :: l2, y :: r2, .cons h1 t1, .cons h2 t2, hs => by
      simp only [List.map_cons, List.cons.injEq] at hs
      rw [h1, h2] at hs
      have := hs.1; cases this
      rw [go l1 r1 l2 r2 t1 t2 hs.2]
    | [], [], _ :: _, _ :: _, _, _, hs => by simp at hs
    | _ :: _, _ :: _, [], [], _, _, hs => by simp at hs

/-- non-vacuity on a schema `coveredF` excludes: a nullable `Dictionary(Int32, Int64)` column (`coveredWF`, not
`coveredF`), the record `{d: None}` as a struct and as a map — both accepted, same documented row, same rows held -/
example : [Field.mk "d" (.dictionary .int32 .int64) true []].all coveredF = false ∧
    ∃ r1 r2, runRows {} [.mk "d" (.dictionary .int32 .int64) true []] [.record "R" (.cons "d" 0 .none .nil)] = .ok r1 ∧
      runRows {} [.mk "d" (.dictionary .int32 .int64) true []] [.map (.cons (.str "d") .none .nil)] = .ok r2 ∧
      dec r1 = dec r2 := by
  refine ⟨by decide, ?_⟩
  have k0 : (newRoot [.mk "d" (.dictionary .int32 .int64) true []]).isOk = true := by decide +kernel
  have k1 : (runRows {} [.mk "d" (.dictionary .int32 .int64) true []] [.record "R" (.cons "d" 0 .none .nil)]).isOk = true := by
    decide +kernel
  have k2 : (runRows {} [.mk "d" (.dictionary .int32 .int64) true []] [.map (.cons (.str "d") .none .nil)]).isOk = true := by
    decide +kernel
  cases h0 : newRoot [.mk "d" (.dictionary .int32 .int64) true []] with
  | error e => rw [h0] at k0; cases k0
  | ok root0 =>
  cases h1 : runRows {} [.mk "d" (.dictionary .int32 .int64) true []] [.record "R" (.cons "d" 0 .none .nil)] with
  | error e => rw [h1] at k1; cases k1
  | ok r1 =>
  cases h2 : runRows {} [.mk "d" (.dictionary .int32 .int64) true []] [.map (.cons (.str "d") .none .nil)] with
  | error e => rw [h2] at k2; cases k2
  | ok r2 =>
    exact ⟨r1, r2, rfl, rfl, runRows_presentation_independent {} _ _ _ root0 r1 r2 (by decide) h0 (by decide) (by decide)
      (by decide +kernel) h1 h2⟩

/-! ### struct presentation = map presentation -/

/-- the map presentation of a struct presentation: string keys, same values, same order -/
def asEntries : SFields → SEntries
  | .nil => .nil
  | .cons key _ v rest => .cons (.str key) v (asEntries rest)

theorem keysAreStrings_asEntries : ∀ (fs : SFields), keysAreStrings (asEntries fs) = .ok ()
  | .nil => by simp [asEntries, keysAreStrings, specKey_eq, normErr_ok, normErr_error]
  | .cons key al v rest => by
    simp [asEntries, keysAreStrings, specKey_eq, normErr_ok, normErr_error, keyStr, bind, Except.bind, keysAreStrings_asEntries rest]

theorem interpByKey_asEntries (ext : Ext) (name : String) (dt : DataType) (n : Bool) (md : Metadata) :
    ∀ (fs : SFields), interpByKey ext name dt n md (asEntries fs) = interpByName ext name dt n md fs
  | .nil => by simp [asEntries, interpByKey, keyOf_eq, interpByName]
  | .cons key al v rest => by
    simp only [asEntries, interpByKey, keyOf_eq, interpByName, interpByKey_asEntries ext name dt n md rest, keyStr,
      Except.toOption]
    have : (some key == some name) = (key == name) := by simp
    simp only [this]

/-- **struct ≃ map**: `#[derive(Serialize)] struct` and a map with the same (string) keys mean the same row -/
theorem record_as_map (ext : Ext) (sfs : Fields) (n : Bool) (md : Metadata) (nm : String) (fs : SFields) :
    interpDT ext (.struct sfs) n md (.map (asEntries fs)) = interpDT ext (.struct sfs) n md (.record nm fs) := by
  simp only [interpDT, isUnknownVariant, Bool.false_eq_true, if_false, keysAreStrings_asEntries, bind, Except.bind]
  congr 1
  funext f
  exact interpByKey_asEntries ext f.name f.dataType f.nullable f.metadata fs

/-! ### field order, extra fields -/

/-- a field whose key is not the name of any schema field does not matter -/
theorem extra_field_ignored (ext : Ext) (sfs : Fields) (n : Bool) (md : Metadata) (nm key : String) (al : Nat)
    (v : SVal) (rest : SFields) (hkey : ∀ f ∈ sfs.toList, f.name ≠ key) :
    interpDT ext (.struct sfs) n md (.record nm (.cons key al v rest)) = interpDT ext (.struct sfs) n md (.record nm rest) := by
  simp only [interpDT, isUnknownVariant, Bool.false_eq_true, if_false, structOf]
  congr 1
  apply mapM_congr
  intro f hf
  have : (key == f.name) = false := by
    have := hkey f hf
    simp [Ne.symm this]
  simp only [interpByName, this, bind, Except.bind]
  cases interpByName ext f.name f.dataType f.nullable f.metadata rest <;> rfl
where
  mapM_congr {α β} {g1 g2 : α → R β} : ∀ {l : List α}, (∀ a ∈ l, g1 a = g2 a) → l.mapM g1 = l.mapM g2
    | [], _ => rfl
    | a :: l, h => by
      rw [List.mapM_cons, List.mapM_cons, h a (by simp), mapM_congr (fun b hb => h b (by simp [hb]))]

/-! ### field order -/

theorem interpByName_perm (ext : Ext) (name : String) (dt : DataType) (n : Bool) (md : Metadata) :
    ∀ {l1 l2 : List (String × Nat × SVal)}, l1.Perm l2 → ∀ found1,
      interpByName ext name dt n md (SFields.ofList l1) = .ok found1 →
      ∃ found2, interpByName ext name dt n md (SFields.ofList l2) = .ok found2 ∧ found1.Perm found2 := by
  intro l1 l2 hp
  induction hp with
  | nil => intro found1 h; exact ⟨found1, h, List.Perm.refl _⟩
  | cons x hp ih =>
    obtain ⟨key, al, v⟩ := x
    intro found1 h
    simp only [SFields.ofList, interpByName] at h ⊢
    obtain ⟨vs1, h1, h⟩ := (bind_ok _ _ _).1 h
    obtain ⟨vs2, h2, hperm⟩ := ih vs1 h1
    rw [h2]
    simp only [bind, Except.bind]
    split at h
    · rename_i hk
      obtain ⟨w, hw, h⟩ := (bind_ok _ _ _).1 h
      cases h
      simp only [hk, if_true, hw]
      exact ⟨w :: vs2, rfl, List.Perm.cons w hperm⟩
    · rename_i hk
      cases h
      simp only [hk]
      exact ⟨vs2, rfl, hperm⟩
  | swap x y l =>
    obtain ⟨k1, a1, v1⟩ := x
    obtain ⟨k2, a2, v2⟩ := y
    intro found1 h
    simp only [SFields.ofList, interpByName] at h ⊢
    obtain ⟨vs', h', h⟩ := (bind_ok _ _ _).1 h
    obtain ⟨vs, h0, h'⟩ := (bind_ok _ _ _).1 h'
    rw [h0]
    simp only [bind, Except.bind]
    by_cases hk1 : (k1 == name) = true <;> by_cases hk2 : (k2 == name) = true <;>
      simp only [hk1, hk2, if_true, Bool.false_eq_true, if_false] at h h' ⊢
    · obtain ⟨w1, hw1, h'⟩ := (bind_ok _ _ _).1 h'
      cases h'
      obtain ⟨w2, hw2, h⟩ := (bind_ok _ _ _).1 h
      cases h
      simp only [hw1, hw2, bind, Except.bind]
      exact ⟨_, rfl, List.Perm.swap _ _ _⟩
    · obtain ⟨w1, hw1, h'⟩ := (bind_ok _ _ _).1 h'
      cases h'
      cases h
      simp only [hw1, bind, Except.bind]
      exact ⟨_, rfl, List.Perm.refl _⟩
    · cases h'
      obtain ⟨w2, hw2, h⟩ := (bind_ok _ _ _).1 h
      cases h
      simp only [hw2, bind, Except.bind]
      exact ⟨_, rfl, List.Perm.refl _⟩
    · cases h'; cases h
      exact ⟨_, rfl, List.Perm.refl _⟩
  | trans _ _ ih1 ih2 =>
    intro found1 h
    obtain ⟨f2, h2, p2⟩ := ih1 found1 h
    obtain ⟨f3, h3, p3⟩ := ih2 f2 h2
    exact ⟨f3, h3, p2.trans p3⟩

theorem pickOne_perm {name : String} {nullable : Bool} {dt : DataType} {md : Metadata} {f1 f2 : List LVal} {v : LVal}
    (hp : f1.Perm f2) (h : pickOne name nullable dt md f1 = .ok v) : pickOne name nullable dt md f2 = .ok v := by
  match f1, hp, h with
  | [], hp, h => rw [List.nil_perm.1 hp] at *; exact h
  | [a], hp, h => rw [← List.singleton_perm.1 hp]; exact h
  | _ :: _ :: _, _, h => simp [pickOne, fail] at h

theorem mapM_imp {α β} {g1 g2 : α → R β} : ∀ {l : List α} {vs : List β},
    (∀ a ∈ l, ∀ v, g1 a = .ok v → g2 a = .ok v) → l.mapM g1 = .ok vs → l.mapM g2 = .ok vs
  | [], _, _, h => h
  | a :: l, vs, himp, h => by
    rw [List.mapM_cons] at h ⊢
    obtain ⟨b, hb, h⟩ := (bind_ok _ _ _).1 h
    obtain ⟨bs, hbs, h⟩ := (bind_ok _ _ _).1 h
    rw [himp a (by simp) b hb, mapM_imp (fun a' ha' => himp a' (by simp [ha'])) hbs]
    exact h

/-- **field order is irrelevant**: a struct presentation with its fields in any other order (any permutation,
including of duplicated and of extra fields) means the same row -/
theorem record_perm (ext : Ext) (sfs : Fields) (n : Bool) (md : Metadata) (nm nm' : String)
    (l1 l2 : List (String × Nat × SVal)) (hp : l1.Perm l2) (lv : LVal)
    (h : interpDT ext (.struct sfs) n md (.record nm (SFields.ofList l1)) = .ok lv) :
    interpDT ext (.struct sfs) n md (.record nm' (SFields.ofList l2)) = .ok lv := by
  simp only [interpDT, isUnknownVariant, Bool.false_eq_true, if_false, structOf] at h ⊢
  obtain ⟨vals, hv, h⟩ := (bind_ok _ _ _).1 h
  rw [mapM_imp ?_ hv]
  · exact h
  · intro f _ v hf
    obtain ⟨found1, h1, hf⟩ := (bind_ok _ _ _).1 hf
    obtain ⟨w, hw, hf⟩ := (bind_ok _ _ _).1 hf
    obtain ⟨found2, h2, hperm⟩ := interpByName_perm ext f.name f.dataType f.nullable f.metadata hp found1 h1
    rw [h2]
    simp only [bind, Except.bind]
    rw [pickOne_perm hperm hw]
    exact hf

/-! ### absent fields, fields given twice -/

def SFields.keys : SFields → List String
  | .nil => []
  | .cons k _ _ r => k :: SFields.keys r

/-- how many entries of a struct presentation carry the key `name` -/
def SFields.count (name : String) : SFields → Nat
  | .nil => 0
  | .cons k _ _ r => (if k == name then 1 else 0) + SFields.count name r

theorem interpByName_length (ext : Ext) (name : String) (dt : DataType) (n : Bool) (md : Metadata) :
    ∀ (fs : SFields) (found : List LVal), interpByName ext name dt n md fs = .ok found → found.length = SFields.count name fs
  | .nil, found, h => by simp [interpByName] at h; subst h; rfl
  | .cons k al v r, found, h => by
    simp only [interpByName] at h
    obtain ⟨vs, hvs, h⟩ := (bind_ok _ _ _).1 h
    have ih := interpByName_length ext name dt n md r vs hvs
    by_cases hk : (k == name) = true
    · simp only [hk, if_true] at h
      obtain ⟨w, _, h⟩ := (bind_ok _ _ _).1 h
      cases h
      simp [SFields.count, hk, ih]; omega
    · simp only [hk, Bool.false_eq_true, if_false] at h
      cases h
      simp [SFields.count, hk, ih]

theorem mapM_error_of_mem {α β} {g : α → R β} : ∀ {l : List α} {a : α}, a ∈ l → (∃ e, g a = .error e) →
    ∃ e, l.mapM g = .error e
  | b :: l, a, hmem, he => by
    rw [List.mapM_cons]
    cases hb : g b with
    | error e => exact ⟨e, rfl⟩
    | ok vb =>
      rcases List.mem_cons.1 hmem with rfl | hmem
      · obtain ⟨e, he⟩ := he; rw [he] at hb; cases hb
      · obtain ⟨e, he'⟩ := mapM_error_of_mem hmem he
        exact ⟨e, by simp [he', bind, Except.bind]⟩

/-- a struct presentation is undefined (has no documented value) as soon as ONE schema field's candidates are refused -/
theorem record_error_of_field (ext : Ext) (sfs : Fields) (n : Bool) (md : Metadata) (nm : String) (fs : SFields)
    (f : Field) (hf : f ∈ sfs.toList)
    (hbad : ∀ found, interpByName ext f.name f.dataType f.nullable f.metadata fs = .ok found →
      ∃ e, pickOne f.name f.nullable f.dataType f.metadata found = .error e) :
    ∃ e, interpDT ext (.struct sfs) n md (.record nm fs) = .error e := by
  simp only [interpDT, isUnknownVariant, Bool.false_eq_true, if_false, structOf]
  obtain ⟨e, he⟩ := mapM_error_of_mem (g := fun f => do
      let found ← interpByName ext f.name f.dataType f.nullable f.metadata fs
      let v ← pickOne f.name f.nullable f.dataType f.metadata found
      pure (f.name, v)) hf (by
    cases hfound : interpByName ext f.name f.dataType f.nullable f.metadata fs with
    | error e => exact ⟨e, by simp [bind, Except.bind]⟩
    | ok found =>
      obtain ⟨e, he⟩ := hbad found hfound
      exact ⟨e, by simp [he, bind, Except.bind]⟩)
  exact ⟨e, by rw [he]; rfl⟩

/-- **an absent non-nullable field is an error**: no documented value, whatever else the record holds -/
theorem absent_required_is_error (ext : Ext) (sfs : Fields) (n : Bool) (md : Metadata) (nm : String) (fs : SFields)
    (f : Field) (hf : f ∈ sfs.toList) (hreq : f.nullable = false) (habs : SFields.count f.name fs = 0) :
    ∃ e, interpDT ext (.struct sfs) n md (.record nm fs) = .error e := by
  apply record_error_of_field ext sfs n md nm fs f hf
  intro found hfound
  have hl := interpByName_length ext _ _ _ _ fs found hfound
  rw [habs] at hl
  have : found = [] := List.length_eq_zero_iff.1 hl
  subst this
  exact ⟨_, by simp only [pickOne, hreq]; rfl⟩

/-- **a field given twice is an error** (nullable or not, equal values or not) -/
theorem duplicate_is_error (ext : Ext) (sfs : Fields) (n : Bool) (md : Metadata) (nm : String) (fs : SFields)
    (f : Field) (hf : f ∈ sfs.toList) (hdup : 2 ≤ SFields.count f.name fs) :
    ∃ e, interpDT ext (.struct sfs) n md (.record nm fs) = .error e := by
  apply record_error_of_field ext sfs n md nm fs f hf
  intro found hfound
  have hl := interpByName_length ext _ _ _ _ fs found hfound
  match found, hl with
  | [], hl => simp at hl; omega
  | [_], hl => simp at hl; omega
  | _ :: _ :: _, _ => exact ⟨_, rfl⟩

theorem interpByName_absent (ext : Ext) (name : String) (dt : DataType) (n : Bool) (md : Metadata) :
    ∀ (fs : SFields), SFields.count name fs = 0 → interpByName ext name dt n md fs = .ok []
  | .nil, _ => rfl
  | .cons k al v r, h => by
    simp only [SFields.count] at h
    have hk : (k == name) = false := by
      cases hk : (k == name) with
      | false => rfl
      | true => simp [hk] at h
    simp only [interpByName, hk, interpByName_absent ext name dt n md r (by simp [hk] at h; exact h), bind, Except.bind]
    rfl

/-- **an absent nullable field is null**: leaving a field out and giving it as an explicit `None` (or unit) mean the
same record — for every schema in which the fields of that name are nullable -/
theorem absent_nullable_is_null (ext : Ext) (sfs : Fields) (n : Bool) (md : Metadata) (nm key : String) (al : Nat)
    (rest : SFields) (hnull : ∀ f ∈ sfs.toList, f.name = key → f.nullable = true) (habs : SFields.count key rest = 0) :
    interpDT ext (.struct sfs) n md (.record nm (.cons key al .none rest)) =
      interpDT ext (.struct sfs) n md (.record nm rest) := by
  simp only [interpDT, isUnknownVariant, Bool.false_eq_true, if_false, structOf]
  congr 1
  apply extra_field_ignored.mapM_congr
  intro f hf
  by_cases hk : f.name = key
  · have hn := hnull f hf hk
    subst hk
    simp only [interpByName, interpByName_absent ext _ _ _ _ rest habs, beq_self_eq_true, if_true, interpDT, bind,
      Except.bind, pure, Except.pure]
    cases hi : interpNull f.dataType f.nullable f.metadata with
    | error e => rw [hn] at hi; simp [pickOne, hn, hi]
    | ok v => rw [hn] at hi; simp [pickOne, hn, hi]
  · have : (key == f.name) = false := by simpa using Ne.symm hk
    simp only [interpByName, this, bind, Except.bind]
    cases interpByName ext f.name f.dataType f.nullable f.metadata rest <;> rfl

/-! ### tuple in schema order = struct presentation -/

/-- the struct presentation of a positional record: the schema's field names, in schema order, paired with the values
(a shorter tuple leaves the last fields out, surplus elements are dropped) -/
def asRecordFields : List String → List SVal → SFields
  | n :: ns, v :: vs => .cons n 0 v (asRecordFields ns vs)
  | _, _ => .nil

theorem interpByName_asRecordFields_absent (ext : Ext) (name : String) (dt : DataType) (n : Bool) (md : Metadata) :
    ∀ (names : List String) (vs : List SVal), name ∉ names →
      interpByName ext name dt n md (asRecordFields names vs) = .ok []
  | [], _, _ => by simp [asRecordFields, interpByName]
  | _ :: _, [], _ => by simp [asRecordFields, interpByName]
  | n0 :: ns, v :: vs, h => by
    simp only [List.mem_cons, not_or] at h
    have hne : (n0 == name) = false := by simpa using Ne.symm h.1
    simp only [asRecordFields, interpByName, interpByName_asRecordFields_absent ext name dt n md ns vs h.2, hne,
      bind, Except.bind]
    rfl

/-- position `k` of a tuple is what the struct presentation gives for the `k`-th field name (distinct names) -/
theorem interpByName_asRecordFields (ext : Ext) (name : String) (dt : DataType) (n : Bool) (md : Metadata) :
    ∀ (names : List String) (vs : List SVal) (k : Nat), names.Nodup → names[k]? = some name →
      interpByName ext name dt n md (asRecordFields names vs) = interpNth ext dt n md k (SVals.ofList vs)
  | [], _, _, _, h => by simp at h
  | _ :: _, [], _, _, _ => by simp [asRecordFields, interpByName, SVals.ofList, interpNth]
  | n0 :: ns, v :: vs, 0, hnd, h => by
    simp only [List.getElem?_cons_zero, Option.some.injEq] at h
    subst h
    have habs := interpByName_asRecordFields_absent ext n0 dt n md ns vs (List.nodup_cons.1 hnd).1
    simp only [asRecordFields, interpByName, habs, SVals.ofList, interpNth, beq_self_eq_true, if_true, bind, Except.bind]
  | n0 :: ns, v :: vs, k + 1, hnd, h => by
    simp only [List.getElem?_cons_succ] at h
    have hmem : name ∈ ns := List.mem_of_getElem? h
    have hne : (n0 == name) = false := by
      have : n0 ≠ name := fun e => (List.nodup_cons.1 hnd).1 (e ▸ hmem)
      simpa using this
    simp only [asRecordFields, interpByName, SVals.ofList, interpNth, hne,
      interpByName_asRecordFields ext name dt n md ns vs k (List.nodup_cons.1 hnd).2 h, bind, Except.bind]
    cases interpNth ext dt n md k (SVals.ofList vs) <;> rfl

/-- **tuple ≃ struct**: a record presented as a tuple (or tuple struct) in schema order means exactly what the struct
presentation with the schema's field names means (schema field names distinct — `build_builder` refuses duplicates) -/
theorem record_as_tuple (ext : Ext) (sfs : Fields) (n : Bool) (md : Metadata) (nm : String) (vs : List SVal)
    (hnd : (sfs.toList.map Field.name).Nodup) :
    interpDT ext (.struct sfs) n md (.tuple (SVals.ofList vs)) =
      interpDT ext (.struct sfs) n md (.record nm (asRecordFields (sfs.toList.map Field.name) vs)) := by
  simp only [interpDT, isUnknownVariant, Bool.false_eq_true, if_false, structOf]
  congr 1
  apply extra_field_ignored.mapM_congr
  intro f hf
  obtain ⟨j, hj, rfl⟩ := List.getElem_of_mem hf
  have hget : (sfs.toList.map Field.name)[j]? = some sfs.toList[j].name := by
    rw [List.getElem?_map, List.getElem?_eq_getElem hj]; rfl
  rw [C11Front.indexOfName_of_get _ hnd _ j hget, Option.getD_some,
    interpByName_asRecordFields ext _ _ _ _ _ vs j hnd hget]

theorem record_as_tupleStruct (ext : Ext) (sfs : Fields) (n : Bool) (md : Metadata) (nm tn : String) (vs : List SVal)
    (hnd : (sfs.toList.map Field.name).Nodup) :
    interpDT ext (.struct sfs) n md (.tupleStruct tn (SVals.ofList vs)) =
      interpDT ext (.struct sfs) n md (.record nm (asRecordFields (sfs.toList.map Field.name) vs)) := by
  rw [← record_as_tuple ext sfs n md nm vs hnd]
  simp only [interpDT]

/-! ### `Item` / `Items` (serde_arrow/src/internal/utils/mod.rs:17-153)

The two wrappers have hand-written `Serialize` impls; they are modelled call by call in Build/Wrappers.lean
(`Build.serItem`, `Build.serItems`).  Everything the builder (and the specification) sees of them is that value, so "behave exactly like a one-field record named `item`" is the
definitional unfolding `item_is_record` / `items_is_seq_of_records`, and the consequences are the presentation theorems
applied to it.  (Array-level corollaries: Props/C11Arrays.lean.) -/

/-- **`Item(v)` IS the one-field record named `item`** (what `#[derive(Serialize)] struct Item { item: T }` issues) -/
theorem item_is_record (al : Nat) (v : SVal) : serItem al v = .record "Item" (.cons "item" al v .nil) := rfl

/-- **`Items(vs)` IS the sequence of those records**, in order -/
theorem items_is_seq_of_records (al : Nat) (vs : List SVal) :
    serItems al vs = .seq (SVals.ofList (vs.map fun v => .record "Item" (.cons "item" al v .nil))) := rfl

/-- neither the struct's type name nor the address of the static `"item"` matter: `Item(v)` means what ANY one-field
record `R { item: v }` means … -/
theorem item_interp_record (ext : Ext) (sfs : Fields) (n : Bool) (md : Metadata) (al al' : Nat) (nm : String) (v : SVal) :
    interpDT ext (.struct sfs) n md (serItem al v) = interpDT ext (.struct sfs) n md (.record nm (.cons "item" al' v .nil)) := by
  simp only [serItem, interpDT, interpByName]

/-- … and what the map `{"item": v}` means -/
theorem item_interp_map (ext : Ext) (sfs : Fields) (n : Bool) (md : Metadata) (al : Nat) (v : SVal) :
    interpDT ext (.struct sfs) n md (serItem al v) = interpDT ext (.struct sfs) n md (.map (.cons (.str "item") v .nil)) :=
  (record_as_map ext sfs n md "Item" (.cons "item" al v .nil)).symm

/-- against the schema `[item: dt]` (what `SchemaLike::from_type::<Item<T>>` traces), `Item(v)` is the row whose single
column `item` holds the documented value of `v` -/
theorem item_row (ext : Ext) (dt : DataType) (n : Bool) (md : Metadata) (al : Nat) (v : SVal) :
    interpRow ext [.mk "item" dt n md] (serItem al v) =
      (do let lv ← interpDT ext dt n md v; pure (.struct (.cons "item" lv .nil))) := by
  simp only [interpRow, serItem, interpDT, isUnknownVariant, Bool.false_eq_true, if_false, structOf, Fields.toList_ofList,
    List.mapM_cons, List.mapM_nil, interpByName, Field.name, Field.dataType, Field.nullable, Field.metadata,
    beq_self_eq_true, if_true, bind, Except.bind, pure, Except.pure]
  cases interpDT ext dt n md v with
  | error e => rfl
  | ok lv => simp [pickOne, LFields.ofList]

theorem noRaw_serItem (al : Nat) (v : SVal) : noRaw (serItem al v) = noRaw v := by
  simp [serItem, noRaw, noRawf]

/-! ### non-vacuity -/

example : interpDT {} (.struct (.cons (.mk "a" .int32 false []) (.cons (.mk "b" .utf8 true []) .nil))) false []
      (.record "R" (.cons "b" 1 (.str "x") (.cons "zzz" 2 .unit (.cons "a" 0 (.int .i8 2) .nil)))) =
    .ok (.struct (.cons "a" (.int 2) (.cons "b" (.str [120]) .nil))) := by decide +kernel

example : asRecordFields ["a", "b"] [.int .i8 2, .str "x", .unit] = .cons "a" 0 (.int .i8 2) (.cons "b" 0 (.str "x") .nil) := rfl

example : asEntries (.cons "a" 0 (.int .i8 2) .nil) = .cons (.str "a") (.int .i8 2) .nil := rfl

/-- `Items(&[7u8, 9u8])` as the builder sees it, and what its second element means against `[item: Int32]` -/
example : serItems 0 [.int .u8 7, .int .u8 9] =
    .seq (.cons (.record "Item" (.cons "item" 0 (.int .u8 7) .nil)) (.cons (.record "Item" (.cons "item" 0 (.int .u8 9) .nil)) .nil)) := rfl

example : interpRow {} [.mk "item" .int32 false []] (serItem 0 (.int .u8 9)) = .ok (.struct (.cons "item" (.int 9) .nil)) := by
  decide +kernel

end SaModel.Props.C11
