import SaModel.Props.C11Arrays
import SaModel.Props.C01CompleteObs
/-
C11 — ACCEPTANCE does not depend on how a record is presented.

`C11Arrays.C11_presentations` needs both presentations to be accepted.  With the completeness theorems of
Props/C01CompleteObs.lean (`toMarrow_complete'`: completeness on the weak state invariant, NO `Safe` hypothesis) acceptance itself is characterised by the logical batch:

  toMarrow_ok_iff               under the capacity bound, `to_marrow` accepts a batch IFF every record has a documented
                                value (`Spec.interpRow` is defined) — a condition on the logical rows only.
  C11_presentations_accept_iff  two presentations of one logical batch, EACH within the capacity bound, are accepted or
                                refused TOGETHER.
  C11_presentations_success     if one presentation is accepted, every other presentation that fits the capacity bound
                                (`hcap2` only) is accepted too, and the arrays decode identically.  (Physical equality:
                                Props/C11Physical.lean.)
Hypotheses of all three: `SchemaOKF`, `coveredF`, `newRoot fields = ok root0`, `totalFs`, `typedFs`, `noRaw` records, the
capacity bound(s); no `Safe`.

The capacity bound is stated for EACH presentation (`Σ vsize ≤ room root0`): `vsize` counts serde calls and bytes, and a
map presentation, a struct presentation with extra fields, a `Some(..)` layer … of one record have different sizes.
`room root0` of a fresh root is `2^31 - 1` capped by the free keys of every dictionary column (`small_NoCap`).
-/
namespace SaModel.Props.C11
open SaModel SaModel.Build SaModel.Spec

/-- **acceptance is a property of the logical batch.**  Under the hypotheses of `C01.toMarrow_complete'` (covered,
`totalFs`, `typedFs` schema — no `Safe`; `noRaw` records; the records fit into the head room of the fresh root):
`to_marrow` succeeds IFF every record has a documented value. -/
theorem toMarrow_ok_iff (ext : Ext) (fields : List Field) (rows : List SVal) (root0 : B)
    (hschema : ∀ f ∈ fields, Lemmas.C03.SchemaOKF f)
    (hc : fields.all coveredF = true) (h0 : newRoot fields = .ok root0)
    (htot : totalFs (Fields.ofList fields) = true)
    (htyped : Lemmas.C03.typedFs (Fields.ofList fields) = true)
    (hraw : ∀ x ∈ rows, noRaw x = true)
    (hcap : (rows.map (vsize ext)).sum ≤ room root0) :
    (∃ arrs, toMarrow ext fields rows = .ok arrs) ↔ ∀ x ∈ rows, ∃ lv, interpRow ext fields x = .ok lv := by
  constructor
  · rintro ⟨arrs, h⟩ x hx
    obtain ⟨_, cols, _, _, _, hr⟩ := C01.C01_build_decode' ext fields rows arrs hschema hc
      (fun x hx => noRaw_ssa x (hraw x hx)) (Or.inl hraw) h
    obtain ⟨i, hi, rfl⟩ := List.getElem_of_mem hx
    exact ⟨_, hr i hi⟩
  · intro hall
    exact C01.toMarrow_complete' ext fields rows root0 hc h0 htot htyped
      (fun r hr => ⟨hraw r hr, hall r hr⟩) hcap

theorem mem_map_eq {α β} {f : α → β} {l1 l2 : List α} (h : l1.map f = l2.map f) :
    ∀ y ∈ l2, ∃ x ∈ l1, f x = f y := by
  intro y hy
  have : f y ∈ l1.map f := by rw [h]; exact List.mem_map_of_mem hy
  obtain ⟨x, hx, e⟩ := List.mem_map.1 this
  exact ⟨x, hx, e⟩

/-- **C11 (acceptance is presentation independent).**  Two batches that are the same logical batch (record by record
the same documented value `interpRow`), each within the capacity of the fresh root: `to_marrow` accepts both or refuses
both. -/
theorem C11_presentations_accept_iff (ext : Ext) (fields : List Field) (rows1 rows2 : List SVal) (root0 : B)
    (hschema : ∀ f ∈ fields, Lemmas.C03.SchemaOKF f)
    (hc : fields.all coveredF = true) (h0 : newRoot fields = .ok root0)
    (htot : totalFs (Fields.ofList fields) = true)
    (htyped : Lemmas.C03.typedFs (Fields.ofList fields) = true)
    (hraw1 : ∀ x ∈ rows1, noRaw x = true) (hraw2 : ∀ x ∈ rows2, noRaw x = true)
    (hsame : rows1.map (interpRow ext fields) = rows2.map (interpRow ext fields))
    (hcap1 : (rows1.map (vsize ext)).sum ≤ room root0) (hcap2 : (rows2.map (vsize ext)).sum ≤ room root0) :
    (∃ arrs1, toMarrow ext fields rows1 = .ok arrs1) ↔ (∃ arrs2, toMarrow ext fields rows2 = .ok arrs2) := by
  rw [toMarrow_ok_iff ext fields rows1 root0 hschema hc h0 htot htyped hraw1 hcap1,
    toMarrow_ok_iff ext fields rows2 root0 hschema hc h0 htot htyped hraw2 hcap2]
  constructor
  · intro h y hy
    obtain ⟨x, hx, e⟩ := mem_map_eq hsame y hy
    obtain ⟨lv, hlv⟩ := h x hx
    exact ⟨lv, by rw [← e]; exact hlv⟩
  · intro h y hy
    obtain ⟨x, hx, e⟩ := mem_map_eq hsame.symm y hy
    obtain ⟨lv, hlv⟩ := h x hx
    exact ⟨lv, by rw [← e]; exact hlv⟩

/-- **C11 (acceptance and arrays).**  If one presentation of a logical batch is accepted, so is every other presentation
that fits (`hcap2`), and the arrays decode to the same columns.  No completeness hypothesis: it is
`C01.toMarrow_complete'`. -/
theorem C11_presentations_success (ext : Ext) (fields : List Field) (rows1 rows2 : List SVal) (root0 : B) (arrs1 : List Arr)
    (hschema : ∀ f ∈ fields, Lemmas.C03.SchemaOKF f)
    (hc : fields.all coveredF = true) (h0 : newRoot fields = .ok root0)
    (htot : totalFs (Fields.ofList fields) = true)
    (htyped : Lemmas.C03.typedFs (Fields.ofList fields) = true)
    (hraw1 : ∀ x ∈ rows1, noRaw x = true) (hraw2 : ∀ x ∈ rows2, noRaw x = true)
    (hsame : rows1.map (interpRow ext fields) = rows2.map (interpRow ext fields))
    (hcap2 : (rows2.map (vsize ext)).sum ≤ room root0)
    (h1 : toMarrow ext fields rows1 = .ok arrs1) :
    ∃ arrs2, toMarrow ext fields rows2 = .ok arrs2 ∧ arrs1.map decodeAll = arrs2.map decodeAll := by
  obtain ⟨_, cols, _, _, _, hr⟩ := C01.C01_build_decode' ext fields rows1 arrs1 hschema hc (fun x hx => noRaw_ssa x (hraw1 x hx)) (Or.inl hraw1) h1
  have hok : ∀ y ∈ rows2, noRaw y = true ∧ ∃ lv, interpRow ext fields y = .ok lv := by
    intro y hy
    obtain ⟨x, hx, e⟩ := mem_map_eq hsame y hy
    obtain ⟨i, hi, rfl⟩ := List.getElem_of_mem hx
    exact ⟨hraw2 y hy, _, by rw [← e]; exact hr i hi⟩
  obtain ⟨arrs2, h2⟩ := C01.toMarrow_complete' ext fields rows2 root0 hc h0 htot htyped hok hcap2
  exact ⟨arrs2, h2, C11_presentations ext fields rows1 rows2 arrs1 arrs2 hschema hc (RawRows.of_noRaw hraw1) (RawRows.of_noRaw hraw2) hsame h1 h2⟩

/-! ### non-vacuity -/

theorem exRoot : newRoot exFields = .ok (.struct "$" 0 none
    (.cons (.leaf "$.a" (.int .i32) none []) ⟨"a", false, []⟩
      (.cons (.bytes "$.b" .utf8 (some []) [0] []) ⟨"b", true, []⟩ .nil)) [none, none] 0 [false, false]) := by decide

/-- the struct / map+tuple presentations of `C11Arrays.exRows1/2` (different `vsize`: 9 and 10): every hypothesis of
`C11_presentations_accept_iff` holds, and both sides of the equivalence are true -/
example : ((∃ arrs1, toMarrow {} exFields exRows1 = .ok arrs1) ↔ (∃ arrs2, toMarrow {} exFields exRows2 = .ok arrs2)) ∧
    (exRows1.map (vsize {})).sum ≠ (exRows2.map (vsize {})).sum ∧ (toMarrow {} exFields exRows1).isOk = true :=
  ⟨C11_presentations_accept_iff {} exFields exRows1 exRows2 _ exSchema (by decide) exRoot
    (by decide) (by decide) (by decide) (by decide) exSame (by decide +kernel) (by decide +kernel),
   by decide +kernel, exOk.1⟩

/-- … and a logical batch that is refused in both presentations (required field `a` absent): both sides false -/
example : ((∃ arrs1, toMarrow {} exFields [.record "R" (.cons "b" 1 (.str "x") .nil)] = .ok arrs1) ↔
      (∃ arrs2, toMarrow {} exFields [.map (.cons (.str "b") (.str "x") .nil)] = .ok arrs2)) ∧
    (toMarrow {} exFields [.map (.cons (.str "b") (.str "x") .nil)]).isOk = false :=
  ⟨C11_presentations_accept_iff {} exFields _ _ _ exSchema (by decide) exRoot
    (by decide) (by decide) (by decide) (by decide)
    (by
      simp only [List.map_cons, List.map_nil, List.cons.injEq, and_true]
      exact (record_as_map {} _ false [] "R" (.cons "b" 1 (.str "x") .nil)).symm)
    (by decide +kernel) (by decide +kernel),
   by decide +kernel⟩

/-- `C11_presentations_success` on the schema OUTSIDE `Safe` of Props/C01Obs.lean (`C01.exUnsafe_not_safe`): the batch
null, {d: "a"}, null as structs is accepted (`C01.exUnsafeOk`), hence so is its presentation as maps / an absent nullable
field, with the same decoded columns — every hypothesis discharged -/
example : ∀ arrs1, toMarrow {} C01.exUnsafeFields C01.exUnsafeRows = .ok arrs1 →
    ∃ arrs2, toMarrow {} C01.exUnsafeFields
        [.map .nil, .map (.cons (.str "s") (.map (.cons (.str "d") (.str "a") .nil)) .nil), .record "Q" .nil] = .ok arrs2 ∧
      arrs1.map decodeAll = arrs2.map decodeAll := by
  intro arrs1 h1
  refine C11_presentations_success {} _ _ _ _ arrs1 ?_ (by decide) C01.exUnsafeNewRoot_eq (by decide) (by decide)
    (by decide) (by decide) (by decide +kernel) (by decide +kernel) h1
  simp [C01.exUnsafeFields, Lemmas.C03.SchemaOKF, Lemmas.C03.SchemaOK, Lemmas.C03.SchemaOKFs]

end SaModel.Props.C11
