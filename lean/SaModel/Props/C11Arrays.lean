import SaModel.Props.C11
import SaModel.Props.C10Arrays
/-
C11 — how a record is presented does not change the arrays: the statements about the ARRAYS.

Props/C11.lean proves presentation independence of the builder state (`dec`).  Composed with the end-to-end theorem
`C01.C01_build_decode'` (no `Safe`) (the arrays `toMarrow` returns decode, slot by slot, to `interpRow` of the records):

  C11_presentations                   two batches with the same documented rows (`interpRow`, which matches records by
                                      NAME), both accepted: the returned arrays decode identically, column by column.
  (acceptance itself is presentation independent: Props/C11Accept.lean `C11_presentations_success`,
   `C11_presentations_accept_iff`; physical equality of the arrays: Props/C11Physical.lean)
  C11_histories_presentations         the same along ArrayBuilder histories (through C10).
  items_*                             `Items(vs)` through `to_marrow` / `extend` / `Serializer` = the batch of one-field
                                      records named `item`; its arrays decode like those of any other presentation of
                                      these records (other struct name, maps `{"item": v}`, …).
-/
namespace SaModel.Props.C11
open SaModel SaModel.Build SaModel.Spec

theorem LFields.ofList_inj : ∀ {l1 l2 : List (String × LVal)}, LFields.ofList l1 = LFields.ofList l2 → l1 = l2
  | [], [], _ => rfl
  | [], (_, _) :: _, h => by simp [LFields.ofList] at h
  | (_, _) :: _, [], h => by simp [LFields.ofList] at h
  | (n1, v1) :: r1, (n2, v2) :: r2, h => by
    simp only [LFields.ofList, LFields.cons.injEq] at h
    obtain ⟨rfl, rfl, h⟩ := h
    rw [LFields.ofList_inj h]

/-- columns of equal height with the same names and the same rows are the same columns -/
theorem cols_ext (n : Nat) : ∀ (c1 c2 : List (String × List LVal)),
    (∀ c ∈ c1, c.2.length = n) → (∀ c ∈ c2, c.2.length = n) → c1.map (·.1) = c2.map (·.1) →
    (∀ i, i < n → (c1.map fun c => (c.1, c.2.getD i LVal.null)) = c2.map fun c => (c.1, c.2.getD i LVal.null)) → c1 = c2
  | [], [], _, _, _, _ => rfl
  | [], _ :: _, _, _, h, _ => by simp at h
  | _ :: _, [], _, _, h, _ => by simp at h
  | a :: r1, b :: r2, h1, h2, hn, hr => by
    simp only [List.map_cons, List.cons.injEq] at hn
    have hla := h1 a (by simp)
    have hlb := h2 b (by simp)
    have hab : a.2 = b.2 := by
      apply List.ext_getElem (by rw [hla, hlb])
      intro i hi1 hi2
      have := hr i (by rw [← hla]; exact hi1)
      simp only [List.map_cons, List.cons.injEq, Prod.mk.injEq] at this
      have e := this.1.2
      simpa [List.getD, List.getElem?_eq_getElem hi1, List.getElem?_eq_getElem hi2] using e
    have htl := cols_ext n r1 r2 (fun c hc => h1 c (by simp [hc])) (fun c hc => h2 c (by simp [hc])) hn.2
      (fun i hi => by
        have := hr i hi
        simp only [List.map_cons, List.cons.injEq] at this
        exact this.2)
    rw [htl, Prod.ext hn.1 hab]

/-- two batches with the same documented rows: what their arrays decode to is the same (from the conclusion of
`C01_build_decode'` for each) -/
theorem DecodesTo_unique {ext : Ext} {fields : List Field} {arrs1 arrs2 : List Arr} {rows1 rows2 : List SVal}
    (hsame : rows1.map (interpRow ext fields) = rows2.map (interpRow ext fields))
    (h1 : C10.DecodesTo ext fields arrs1 rows1) (h2 : C10.DecodesTo ext fields arrs2 rows2) :
    arrs1.map decodeAll = arrs2.map decodeAll := by
  obtain ⟨_, cols1, a1, n1, l1, r1⟩ := h1
  obtain ⟨_, cols2, a2, n2, l2, r2⟩ := h2
  have hlen : rows1.length = rows2.length := by simpa using congrArg List.length hsame
  have : cols1 = cols2 := by
    apply cols_ext rows1.length cols1 cols2 l1 (fun c hc => by rw [l2 c hc, hlen]) (by rw [n1, n2])
    intro i hi
    have hi2 : i < rows2.length := by omega
    have e1 := r1 i hi
    have e2 := r2 i hi2
    have e : interpRow ext fields rows1[i] = interpRow ext fields rows2[i] := by
      have := congrArg (fun l => l[i]?) hsame
      simpa [List.getElem?_map, List.getElem?_eq_getElem hi, List.getElem?_eq_getElem hi2] using this
    rw [e, e2] at e1
    simp only [Except.ok.injEq, LVal.struct.injEq] at e1
    exact (LFields.ofList_inj e1).symm
  rw [a1, a2, this]

/-- **C11 (presentation independence of the arrays).**  Two batches `rows1`, `rows2` that are the same logical batch —
record by record the same documented value `interpRow ext fields` (records matched by NAME whatever the presentation:
struct / map with string keys / tuple in schema order, any field order, extra fields, absent nullable field vs explicit
`None`, `Some`/newtype layers, integer widths …: `record_as_map`, `record_perm`, `extra_field_ignored`) — and both
accepted by `to_marrow`: the returned arrays decode (`Spec.decodeAll`, the Arrow reading rules) to the same columns.
Hypotheses: those of `C01.C01_build_decode'` (no `Safe`) (`RawRows`: its two hypotheses on the records — raw call streams alternate;
the sentinel bound when a record contains a raw stream). -/
theorem C11_presentations (ext : Ext) (fields : List Field) (rows1 rows2 : List SVal) (arrs1 arrs2 : List Arr)
    (hschema : ∀ f ∈ fields, Lemmas.C03.SchemaOKF f)
    (hcov : fields.all Build.coveredF = true)
    (hraw1 : RawRows fields rows1) (hraw2 : RawRows fields rows2)
    (hsame : rows1.map (interpRow ext fields) = rows2.map (interpRow ext fields))
    (h1 : toMarrow ext fields rows1 = .ok arrs1) (h2 : toMarrow ext fields rows2 = .ok arrs2) :
    arrs1.map decodeAll = arrs2.map decodeAll :=
  DecodesTo_unique hsame (C01.C01_build_decode' ext fields rows1 arrs1 hschema hcov hraw1.1 hraw1.2 h1)
    (C01.C01_build_decode' ext fields rows2 arrs2 hschema hcov hraw2.1 hraw2.2 h2)

/-- the hypothesis of `C11_presentations` in index form: same number of records, record `i` means the same -/
theorem same_rows_of_index (ext : Ext) (fields : List Field) (rows1 rows2 : List SVal) (hlen : rows1.length = rows2.length)
    (h : ∀ (i : Nat) (h1 : i < rows1.length) (h2 : i < rows2.length),
      interpRow ext fields rows1[i] = interpRow ext fields rows2[i]) :
    rows1.map (interpRow ext fields) = rows2.map (interpRow ext fields) := by
  apply List.ext_getElem (by simpa using hlen)
  intro i h1 h2
  simp only [List.length_map] at h1 h2
  simp only [List.getElem_map]
  exact h i h1 h2

/-! ### neighbours -/

theorem slot_of_cols (n i : Nat) (hi : i < n) (cols : List (String × List LVal)) (hl : ∀ c ∈ cols, c.2.length = n) :
    (cols.map fun c => c.2.map (Except.ok (ε := Fail))).map (·[i]?) =
      (cols.map fun c => (c.1, c.2.getD i LVal.null)).map (fun p => some (.ok p.2)) := by
  simp only [List.map_map]
  apply List.map_congr_left
  intro c hc
  have h : i < c.2.length := by rw [hl c hc]; exact hi
  simp [List.getD, List.getElem?_eq_getElem h]

/-- **neighbours are not disturbed.**  What a record contributes to the arrays — slot `i` of every column — is a
function of its own documented value only: take two accepted batches (any sizes, any mix of differently shaped and
differently presented records around) in which record `i` of the first and record `j` of the second mean the same;
then slot `i` of the first batch's arrays decodes, column by column, like slot `j` of the second's. -/
theorem C11_neighbours_undisturbed (ext : Ext) (fields : List Field) (rows1 rows2 : List SVal) (arrs1 arrs2 : List Arr)
    (hschema : ∀ f ∈ fields, Lemmas.C03.SchemaOKF f)
    (hcov : fields.all Build.coveredF = true)
    (hraw1 : RawRows fields rows1) (hraw2 : RawRows fields rows2)
    (h1 : toMarrow ext fields rows1 = .ok arrs1) (h2 : toMarrow ext fields rows2 = .ok arrs2)
    (i j : Nat) (hi : i < rows1.length) (hj : j < rows2.length)
    (hsame : interpRow ext fields rows1[i] = interpRow ext fields rows2[j]) :
    (arrs1.map decodeAll).map (·[i]?) = (arrs2.map decodeAll).map (·[j]?) := by
  obtain ⟨_, cols1, a1, _, l1, r1⟩ := C01.C01_build_decode' ext fields rows1 arrs1 hschema hcov hraw1.1 hraw1.2 h1
  obtain ⟨_, cols2, a2, _, l2, r2⟩ := C01.C01_build_decode' ext fields rows2 arrs2 hschema hcov hraw2.1 hraw2.2 h2
  rw [a1, a2, slot_of_cols _ i hi cols1 l1, slot_of_cols _ j hj cols2 l2]
  have e1 := r1 i hi
  rw [hsame, r2 j hj] at e1
  simp only [Except.ok.injEq, LVal.struct.injEq] at e1
  rw [LFields.ofList_inj e1]

/-! ### where the documented mapping is undefined, the conversion is refused -/

/-- **no documented value ⇒ refused.**  If some record of a batch has no documented value (`interpRow` is an error:
an absent non-nullable field, a field given twice, a value the column cannot hold, …), `to_marrow` does not succeed —
in any presentation.  (Contrapositive of the soundness half of `C01_build_decode'`.) -/
theorem C11_undefined_refused (ext : Ext) (fields : List Field) (rows : List SVal)
    (hschema : ∀ f ∈ fields, Lemmas.C03.SchemaOKF f)
    (hcov : fields.all Build.coveredF = true)
    (hraw : RawRows fields rows)
    (x : SVal) (hx : x ∈ rows) (e : Fail) (hbad : interpRow ext fields x = .error e) :
    ∀ arrs, toMarrow ext fields rows ≠ .ok arrs := by
  intro arrs h
  obtain ⟨_, cols, _, _, _, hr⟩ := C01.C01_build_decode' ext fields rows arrs hschema hcov hraw.1 hraw.2 h
  obtain ⟨i, hi, rfl⟩ := List.getElem_of_mem hx
  rw [hr i hi] at hbad
  cases hbad

/-- a record that leaves out a non-nullable column, or gives a column twice, is refused by `to_marrow` (root level;
the same at any nesting depth through `interpDT`, `absent_required_is_error` / `duplicate_is_error`) -/
theorem C11_missing_or_duplicate_refused (ext : Ext) (fields : List Field) (rows : List SVal)
    (hschema : ∀ f ∈ fields, Lemmas.C03.SchemaOKF f)
    (hcov : fields.all Build.coveredF = true)
    (hraw : RawRows fields rows)
    (nm : String) (fs : SFields) (hx : SVal.record nm fs ∈ rows) (f : Field) (hf : f ∈ fields)
    (hbad : (f.nullable = false ∧ SFields.count f.name fs = 0) ∨ 2 ≤ SFields.count f.name fs) :
    ∀ arrs, toMarrow ext fields rows ≠ .ok arrs := by
  have hf' : f ∈ (Fields.ofList fields).toList := by rw [Fields.toList_ofList]; exact hf
  have : ∃ e, interpRow ext fields (.record nm fs) = .error e := by
    rcases hbad with ⟨h1, h2⟩ | h
    · exact absent_required_is_error ext _ false [] nm fs f hf' h1 h2
    · exact duplicate_is_error ext _ false [] nm fs f hf' h
  obtain ⟨e, he⟩ := this
  exact C11_undefined_refused ext fields rows hschema hcov hraw _ hx e he

/-! ### along ArrayBuilder histories -/

/-- **C11 along histories.**  Two histories on builders of the same schema whose batches are, batch by batch and record
by record, the same logical rows (in whatever presentation, added through whatever front end): every build of the one
returns arrays that decode exactly like the arrays of the corresponding build of the other. -/
theorem C11_histories_presentations (ext : Ext) (fields : List Field) (r0 : B) (h0 : newRoot fields = .ok r0)
    (hschema : ∀ f ∈ fields, Lemmas.C03.SchemaOKF f)
    (hcov : fields.all Build.coveredF = true)
    (ops ops' : List C10.Op) (hraw : C10.OpsOK (fun x => structStreamsAlternate x = true) ops)
    (hnar : C10.OpsOK (fun x => noRaw x = true) ops ∨ narrowRoot fields = true)
    (hraw' : C10.OpsOK (fun x => structStreamsAlternate x = true) ops')
    (hnar' : C10.OpsOK (fun x => noRaw x = true) ops' ∨ narrowRoot fields = true)
    (hsame : (C10.batchesFrom [] ops).map (·.map (interpRow ext fields)) =
      (C10.batchesFrom [] ops').map (·.map (interpRow ext fields)))
    (outs outs' : List (B × List Arr)) (fin fin' : B)
    (h : C10.run ext r0 ops = .ok (outs, fin)) (h' : C10.run ext r0 ops' = .ok (outs', fin')) :
    outs.map (·.2.map decodeAll) = outs'.map (·.2.map decodeAll) := by
  obtain ⟨l1, b1, d1⟩ := C10.C10_histories ext fields r0 h0 hschema hcov ops hraw hnar outs fin h
  obtain ⟨l2, b2, d2⟩ := C10.C10_histories ext fields r0 h0 hschema hcov ops' hraw' hnar' outs' fin' h'
  have hb : (C10.batchesFrom [] ops).length = (C10.batchesFrom [] ops').length := by
    simpa using congrArg List.length hsame
  apply List.ext_getElem (by simp only [List.length_map]; omega)
  intro k hk1 hk2
  simp only [List.length_map] at hk1 hk2
  simp only [List.getElem_map]
  have e := congrArg (fun l => l[k]?) hsame
  simp only [List.getElem?_map, List.getElem?_eq_getElem (show k < (C10.batchesFrom [] ops).length by omega),
    List.getElem?_eq_getElem (show k < (C10.batchesFrom [] ops').length by omega), Option.map_some,
    Option.some.injEq] at e
  exact DecodesTo_unique e (d1 k hk1 (by omega)) (d2 k hk2 (by omega))

/-! ### `Items` through the three front ends -/

/-- `ArrayBuilder::extend(&Items(vs))` and `to_marrow(&fields, &Items(vs))`: the records an `extend` argument denotes
are the `Item(v)` records, in order … -/
theorem items_extRows (al : Nat) (vs : List SVal) : C10.extRows (serItems al vs) = some (vs.map (serItem al)) := by
  simp [serItems, C10.extRows]

/-- … the same through `Serializer::new(&mut builder)` -/
theorem items_serRows (al : Nat) (vs : List SVal) : C10.serRows (serItems al vs) = some (vs.map (serItem al)) := by
  simp [serItems, C10.serRows]

/-- **`Items(vs)` behaves exactly like a batch of one-field records named `item`.**  Whatever `rows` are — records of any
other struct type with the one field `item`, maps `{"item": v}`, … — as long as record by record they mean what `Item(v)`
means: the arrays `to_marrow` returns for `Items(vs)` decode like the arrays it returns for `rows`. -/
theorem items_arrays (ext : Ext) (fields : List Field) (al : Nat) (vs rows : List SVal) (arrs1 arrs2 : List Arr)
    (hschema : ∀ f ∈ fields, Lemmas.C03.SchemaOKF f)
    (hcov : fields.all Build.coveredF = true)
    (hraw1 : RawRows fields (vs.map (serItem al))) (hraw2 : RawRows fields rows)
    (hsame : (vs.map (serItem al)).map (interpRow ext fields) = rows.map (interpRow ext fields))
    (h1 : toMarrow ext fields (vs.map (serItem al)) = .ok arrs1) (h2 : toMarrow ext fields rows = .ok arrs2) :
    arrs1.map decodeAll = arrs2.map decodeAll :=
  C11_presentations ext fields _ rows arrs1 arrs2 hschema hcov hraw1 hraw2 hsame h1 h2

/-- instances of `hsame`: the records `nm { item: v }` of any struct type, and the maps `{"item": v}` -/
theorem items_same_as_records (ext : Ext) (fields : List Field) (al al' : Nat) (nm : String) (vs : List SVal) :
    (vs.map (serItem al)).map (interpRow ext fields) =
      (vs.map fun v => SVal.record nm (.cons "item" al' v .nil)).map (interpRow ext fields) := by
  simp only [List.map_map]
  apply List.map_congr_left
  intro v _
  exact item_interp_record ext _ false [] al al' nm v

theorem items_same_as_maps (ext : Ext) (fields : List Field) (al : Nat) (vs : List SVal) :
    (vs.map (serItem al)).map (interpRow ext fields) =
      (vs.map fun v => SVal.map (.cons (.str "item") v .nil)).map (interpRow ext fields) := by
  simp only [List.map_map]
  apply List.map_congr_left
  intro v _
  exact item_interp_map ext _ false [] al v

/-! ### non-vacuity -/

def exFields : List Field := [.mk "a" .int32 false [], .mk "b" .utf8 true []]

/-- one logical batch, two presentations: structs (second record without the nullable field, first with an extra one) /
a map with the keys in the other order and a tuple in schema order with an explicit `None` -/
def exRows1 : List SVal :=
  [.record "R" (.cons "a" 0 (.int .i32 1) (.cons "zzz" 2 .unit (.cons "b" 1 (.str "x") .nil))),
   .record "R" (.cons "a" 0 (.int .i32 2) .nil)]
def exRows2 : List SVal :=
  [.map (.cons (.str "b") (.some (.str "x")) (.cons (.str "a") (.int .u8 1) .nil)),
   .tuple (.cons (.int .i64 2) (.cons .none .nil))]

theorem exSame : exRows1.map (interpRow {} exFields) = exRows2.map (interpRow {} exFields) := by decide +kernel

theorem exOk : (toMarrow {} exFields exRows1).isOk = true ∧ (toMarrow {} exFields exRows2).isOk = true := by
  constructor <;> decide +kernel

theorem exSchema : ∀ f ∈ exFields, Lemmas.C03.SchemaOKF f := by simp [exFields, Lemmas.C03.SchemaOKF, Lemmas.C03.SchemaOK]
/-- `C11_presentations` applies with every hypothesis discharged -/
example : ∀ arrs1 arrs2, toMarrow {} exFields exRows1 = .ok arrs1 → toMarrow {} exFields exRows2 = .ok arrs2 →
    arrs1.map decodeAll = arrs2.map decodeAll := fun arrs1 arrs2 h1 h2 =>
  C11_presentations {} exFields exRows1 exRows2 arrs1 arrs2 exSchema (by decide) (RawRows.of_noRaw (by decide))
    (RawRows.of_noRaw (by decide)) exSame h1 h2

/-- `C11_neighbours_undisturbed`: the second record of the struct batch alone, as a tuple: slot 1 there = slot 0 here -/
example : ∀ arrs1 arrs2, toMarrow {} exFields exRows1 = .ok arrs1 →
    toMarrow {} exFields [.tuple (.cons (.int .i64 2) (.cons .none .nil))] = .ok arrs2 →
    (arrs1.map decodeAll).map (·[1]?) = (arrs2.map decodeAll).map (·[0]?) := fun arrs1 arrs2 h1 h2 =>
  C11_neighbours_undisturbed {} exFields exRows1 _ arrs1 arrs2 exSchema (by decide) (RawRows.of_noRaw (by decide))
    (RawRows.of_noRaw (by decide)) h1 h2 1 0 (by decide) (by decide) (by decide +kernel)

/-- absent required field `a` / field `b` given twice: no documented value, refused -/
example : (∃ e, interpRow {} exFields (.record "R" (.cons "b" 1 (.str "x") .nil)) = .error e) ∧
    (∃ e, interpRow {} exFields (.record "R" (.cons "b" 1 .none (.cons "a" 0 (.int .i32 1) (.cons "b" 1 .none .nil)))) = .error e) ∧
    (toMarrow {} exFields [.record "R" (.cons "b" 1 (.str "x") .nil)]).isOk = false ∧
    (toMarrow {} exFields [.record "R" (.cons "b" 1 .none (.cons "a" 0 (.int .i32 1) (.cons "b" 1 .none .nil)))]).isOk = false :=
  ⟨absent_required_is_error {} _ false [] "R" _ (.mk "a" .int32 false []) (by simp [exFields, Fields.ofList, Fields.toList]) rfl rfl,
   duplicate_is_error {} _ false [] "R" _ (.mk "b" .utf8 true []) (by simp [exFields, Fields.ofList, Fields.toList]) (by decide),
   by decide +kernel, by decide +kernel⟩

/-- `Items([7u8, 9u8])` against `[item: Int32]`: accepted, and the column decodes to 7, 9 -/
example : (toMarrow {} [.mk "item" .int32 false []] ([SVal.int .u8 7, .int .u8 9].map (serItem 0))).map (·.map decodeAll) =
    .ok [[.ok (.int 7), .ok (.int 9)]] := by decide +kernel

/-- non-vacuity, on the schema OUTSIDE `Safe` of Props/C01Obs.lean: the same logical batch (null, {d: "a"}, null) as
structs and as maps / an absent nullable field -/
example : ∀ arrs1 arrs2, toMarrow {} C01.exUnsafeFields C01.exUnsafeRows = .ok arrs1 →
    toMarrow {} C01.exUnsafeFields
      [.map .nil, .map (.cons (.str "s") (.map (.cons (.str "d") (.str "a") .nil)) .nil), .record "Q" .nil] = .ok arrs2 →
    arrs1.map decodeAll = arrs2.map decodeAll := by
  intro arrs1 arrs2 h1 h2
  refine C11_presentations {} _ _ _ arrs1 arrs2 ?_ (by decide) (RawRows.of_noRaw (by decide))
    (RawRows.of_noRaw (by decide)) (by decide +kernel) h1 h2
  simp [C01.exUnsafeFields, Lemmas.C03.SchemaOKF, Lemmas.C03.SchemaOK, Lemmas.C03.SchemaOKFs]

end SaModel.Props.C11
