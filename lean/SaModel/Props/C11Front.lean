import SaModel.Build.Inv
/-
C11 — how a record is presented does not change the arrays: the field-name cache.
`FieldLookup::lookup(guess, key)` consults a cache keyed by the ADDRESS of the `&'static str` before it falls
back to the by-name index.  For EVERY cache state satisfying `CacheInv` (an entry at position j is a name whose
content is field j's name) the result is the by-name index, and `CacheInv` is preserved — so any interleaving of
record types with equal field names at different addresses, in any field order, resolves every field by name.
-/
namespace SaModel.Props.C11Front
open SaModel SaModel.Build

theorem indexOfName_go_spec (key : String) : ∀ (ns : List String) (k : Nat) (j : Nat),
    indexOfName.go key ns k = some j → k ≤ j ∧ ns[j - k]? = some key ∧ ∀ (i : Nat), i < j - k → ns[i]? ≠ some key := by
  intro ns
  induction ns with
  | nil => intro k j h; simp [indexOfName.go] at h
  | cons n rest ih =>
    intro k j h
    simp only [indexOfName.go] at h
    by_cases hn : (n == key) = true
    · simp only [hn, if_true] at h
      cases h
      refine ⟨Nat.le_refl _, ?_, ?_⟩
      · simp only [Nat.sub_self, List.getElem?_cons_zero]; rw [beq_iff_eq] at hn; rw [hn]
      · intro i hi; omega
    · simp only [hn] at h
      obtain ⟨h1, h2, h3⟩ := ih (k + 1) j h
      refine ⟨by omega, ?_, ?_⟩
      · have : j - k = (j - (k + 1)) + 1 := by omega
        rw [this, List.getElem?_cons_succ]; exact h2
      · intro i hi
        cases i with
        | zero =>
          simp only [List.getElem?_cons_zero]
          intro hc; cases hc; exact hn (by simp)
        | succ i =>
          rw [List.getElem?_cons_succ]; exact h3 i (by omega)

theorem indexOfName_go_none (key : String) : ∀ (ns : List String) (k : Nat),
    indexOfName.go key ns k = none → ∀ (i : Nat), ns[i]? ≠ some key := by
  intro ns
  induction ns with
  | nil => intro k _ i; simp
  | cons n rest ih =>
    intro k h i
    simp only [indexOfName.go] at h
    by_cases hn : (n == key) = true
    · simp [hn] at h
    · simp only [hn] at h
      cases i with
      | zero => simp only [List.getElem?_cons_zero]; intro hc; cases hc; exact hn (by simp)
      | succ i => rw [List.getElem?_cons_succ]; exact ih (k + 1) h i

/-- `index.get(key)`: the position of the field called `key`, if any -/
theorem indexOfName_some (names : List String) (key : String) (j : Nat) (h : indexOfName names key = some j) :
    names[j]? = some key := by
  have := indexOfName_go_spec key names 0 j h
  simpa using this.2.1

/-- with distinct field names (refused otherwise when the builder is created) the index is THE position -/
theorem indexOfName_of_get (names : List String) (hnd : names.Nodup) (key : String) (j : Nat)
    (h : names[j]? = some key) : indexOfName names key = some j := by
  cases hi : indexOfName names key with
  | none => exact absurd h (indexOfName_go_none key names 0 hi j)
  | some i =>
    have hi' := indexOfName_some names key i hi
    have hj : j < names.length := by
      rcases Nat.lt_or_ge j names.length with hlt | hge
      · exact hlt
      · rw [List.getElem?_eq_none_iff.mpr hge] at h; cases h
    have hil : i < names.length := by
      rcases Nat.lt_or_ge i names.length with hlt | hge
      · exact hlt
      · rw [List.getElem?_eq_none_iff.mpr hge] at hi'; cases hi'
    rw [List.getElem?_eq_getElem hj] at h
    rw [List.getElem?_eq_getElem hil] at hi'
    have : names[i] = names[j] := by
      injection h with h; injection hi' with hi'; rw [h, hi']
    have := (List.getElem_inj (h₀ := hil) (h₁ := hj) hnd).mp this
    rw [this]

/-- **`lookup` is sound for every cache state**: the positional fast path and the by-name path agree -/
theorem lookup_sound (names : List String) (cached : List (Option (String × Nat))) (guess : Nat) (key : String × Nat)
    (hnd : names.Nodup) (hc : CacheInv names cached) :
    (lookup names cached guess key).1 = indexOfName names key.1 ∧ CacheInv names (lookup names cached guess key).2 := by
  unfold lookup
  by_cases hg : (cached[guess]? == some (some key)) = true
  · simp only [hg, if_true]
    refine ⟨?_, hc⟩
    have hg' : cached[guess]? = some (some key) := by simpa using hg
    have := hc.2 guess key hg'
    exact (indexOfName_of_get names hnd key.1 guess this).symm
  · have hg' : (cached[guess]? == some (some key)) = false := by simpa using hg
    rw [hg']
    simp only [Bool.false_eq_true, if_false]
    cases hi : indexOfName names key.1 with
    | none => exact ⟨rfl, hc⟩
    | some idx =>
      refine ⟨rfl, ?_⟩
      by_cases he : (cached[idx]? == some none) = true
      · -- the empty slot `idx` is filled with this key
        simp only [he, if_true]
        refine ⟨by simp [hc.1], ?_⟩
        intro j k hj
        by_cases hji : idx = j
        · subst hji
          have hlt : idx < cached.length := by
            rcases Nat.lt_or_ge idx cached.length with h | h
            · exact h
            · have : cached[idx]? = none := List.getElem?_eq_none_iff.mpr h
              rw [this] at he; simp at he
          rw [List.getElem?_set_self hlt] at hj
          injection hj with hj; injection hj with hj
          subst hj
          exact indexOfName_some names key.1 idx hi
        · rw [List.getElem?_set_ne hji] at hj
          exact hc.2 j k hj
      · simp only [he]
        exact hc

/-- the fresh cache of a new (or just taken) builder satisfies the invariant -/
theorem cacheInv_fresh (names : List String) : CacheInv names (List.replicate names.length none) := by
  refine ⟨by simp, ?_⟩
  intro j key h
  rw [List.getElem?_replicate] at h
  split at h <;> cases h

/-- unknown names are ignored: `lookup` reports `none` exactly when no field has that name -/
theorem lookup_unknown (names : List String) (cached : List (Option (String × Nat))) (guess : Nat) (key : String × Nat)
    (hnd : names.Nodup) (hc : CacheInv names cached) (h : ∀ (i : Nat), names[i]? ≠ some key.1) :
    (lookup names cached guess key).1 = none := by
  rw [(lookup_sound names cached guess key hnd hc).1]
  cases hi : indexOfName names key.1 with
  | none => rfl
  | some j => exact absurd (indexOfName_some names key.1 j hi) (h j)

/-! non-vacuity: two record types with the same field names at different addresses, interleaved -/
example : (lookup ["a", "b"] [some ("a", 0), none] 0 ("a", 1)).1 = some 0 := by decide
example : (lookup ["a", "b"] [some ("a", 0), none] 0 ("b", 1)) = (some 1, [some ("a", 0), some ("b", 1)]) := by decide
example : CacheInv ["a", "b"] [some ("a", 0), none] := ⟨rfl, by
  intro j key h
  match j with
  | 0 => simp at h; subst h; rfl
  | 1 => simp at h
  | j + 2 => simp at h⟩

end SaModel.Props.C11Front
