import SaModel.Lemmas.C11PhysPush
import SaModel.Props.C11Arrays
/-
C11 — how a record is presented does not change the arrays: PHYSICAL equality.

`C11Arrays.C11_presentations` gives equality of what the arrays decode to.  Here: the arrays themselves (`Arr`: validity
bitmaps, offsets, value and data buffers, view descriptors, dictionary keys and values, union type ids and offsets,
children — including the bytes below null slots) are equal.

  push_determined                 the builder state after a push is a function of the state before and of the DOCUMENTED
                                  value of the pushed value (`Spec.interpDT`) — up to `erase`, the presentation dependent
                                  scratch state that never reaches an array (`finish_erase`): the struct builder's name
                                  cache, `next` and `seen` flags, `current_n` of a fixed-size binary builder.
  push_presentation_physical      two presentations of one logical value, pushed onto states equal up to `erase`, leave
                                  states equal up to `erase`.
  hidden_slots_depend             … and the erased parts DO depend on the presentation (witnesses, `decide`).
  runRows_presentation_physical   the same for whole batches.
  C11_presentations_physical      `to_marrow` of two presentations of one logical batch returns the SAME arrays.
  C11_histories_physical          the same for every build of two `ArrayBuilder` histories (through C10).
  items_arrays_physical           `Items(vs)` = the batch of one-field records named `item`, at array level, physically
                                  (`items_as_records_physical`, `items_as_maps_physical`).

Family by family (`Lemmas/C11PhysScalar.lean`, `C11PhysSeq.lean`, `C11PhysStruct.lean`, `C11PhysPush.lean`): leaf kinds
(the stored integer is a function of the logical value), strings / binaries / views (bytes and offsets), fixed-size
binaries, lists and fixed-size lists (offsets by element count; `serialize_bytes` = sequence of `u8`), maps, structs
under the three record disciplines in any field order (per child: exactly the one value addressed to it, `null` when
absent), unions (type id, dense offset, per-variant counter), dictionaries (the key assigned to a string depends on
the index, i.e. on the order of first occurrence of the LOGICAL strings).  No family stores presentation dependent
bytes in an array.
-/
namespace SaModel.Props.C11
open SaModel SaModel.Build SaModel.Spec

/-- **the state after a push is determined by the documented value.**  For every left inverse `un` of `strBytes`
(one exists: `exists_unstr`; the dictionary builder keeps strings, the documented value their UTF-8 bytes):
`erase b' = pushL un lv (erase b)` where `lv = interpDT … x` — the right-hand side does not mention `x`.  State
hypotheses: the WEAK state invariant `WFH` and `NoDictKey` of the hidden-rows refinement (Props/C01Obs.lean) — they hold of
every state reached from a builder `build_builder` constructs, for EVERY schema, and are implied by the stronger
`WFB`, `Safe` (`WFH_of_WFB`, `NoDictKey_of_Safe`): no `Safe`.  (Also the slots hidden below a null are determined by the
documented values: the placeholder key 0 of a non-nullable-key dictionary is part of `pushL`.) -/
theorem push_determined (ext : Ext) (un : Bytes → String) (hun : ∀ s, un (strBytes s) = s)
    (x : SVal) (b b' : B) (dt : DataType) (n : Bool) (md : Metadata)
    (hraw : noRaw x = true) (hwf : WFH b) (hnd : NoDictKey b) (hshape : Shape b dt n md) (h : push ext b x = .ok b') :
    ∃ lv, interpDT ext dt n md x = .ok lv ∧ erase b' = pushL un lv (erase b) := by
  obtain ⟨_, _, _, lv, _, hi⟩ := C01.push_interp' ext x b b' dt n md (noRaw_ssa x hraw) (Or.inl hraw) hwf hnd hshape h
  exact ⟨lv, hi, (push_phys ext un hun x b b' dt n md lv hraw hwf hnd hshape h hi).symm⟩

/-- **presentation independence of the physical state.**  Two values with the same documented meaning at the builder's
field, pushed onto two states that agree up to `erase` (e.g. the same state; or the states two presentations of the
preceding records have left): the resulting states agree up to `erase`. -/
theorem push_presentation_physical (ext : Ext) (x y : SVal) (b1 b2 b1' b2' : B) (dt : DataType) (n : Bool) (md : Metadata)
    (hx : noRaw x = true) (hy : noRaw y = true) (hwf1 : WFH b1) (hwf2 : WFH b2) (hs1 : NoDictKey b1) (hs2 : NoDictKey b2)
    (hsh1 : Shape b1 dt n md) (hsh2 : Shape b2 dt n md) (he : erase b1 = erase b2)
    (hsame : interpDT ext dt n md x = interpDT ext dt n md y)
    (h1 : push ext b1 x = .ok b1') (h2 : push ext b2 y = .ok b2') : erase b1' = erase b2' := by
  obtain ⟨un, hun⟩ := exists_unstr
  obtain ⟨lv1, hi1, e1⟩ := push_determined ext un hun x b1 b1' dt n md hx hwf1 hs1 hsh1 h1
  obtain ⟨lv2, hi2, e2⟩ := push_determined ext un hun y b2 b2' dt n md hy hwf2 hs2 hsh2 h2
  rw [hsame, hi2] at hi1
  cases hi1
  rw [e1, e2, he]

/-- what reaches an array does not see the erased parts -/
theorem finish_physical (ext : Ext) (b1 b2 : B) (he : erase b1 = erase b2) : finish ext b1 = finish ext b2 := by
  rw [← finish_erase ext b1, ← finish_erase ext b2, he]

/-- whole batches, from states equal up to `erase` -/
theorem foldl_presentation_physical (ext : Ext) (dt : DataType) (n : Bool) (md : Metadata) :
    ∀ (rows1 rows2 : List SVal) (b1 b2 r1 r2 : B), WFH b1 → WFH b2 → NoDictKey b1 → NoDictKey b2 → Shape b1 dt n md → Shape b2 dt n md →
    erase b1 = erase b2 → (∀ x ∈ rows1, noRaw x = true) → (∀ x ∈ rows2, noRaw x = true) →
    rows1.map (interpDT ext dt n md) = rows2.map (interpDT ext dt n md) →
    rows1.foldlM (push ext) b1 = .ok r1 → rows2.foldlM (push ext) b2 = .ok r2 → erase r1 = erase r2
  | [], [], b1, b2, r1, r2, _, _, _, _, _, _, he, _, _, _, h1, h2 => by
    cases h1; cases h2; exact he
  | [], _ :: _, _, _, _, _, _, _, _, _, _, _, _, _, _, hs, _, _ => by simp at hs
  | _ :: _, [], _, _, _, _, _, _, _, _, _, _, _, _, _, hs, _, _ => by simp at hs
  | x :: rows1, y :: rows2, b1, b2, r1, r2, hw1, hw2, hs1, hs2, hsh1, hsh2, he, hr1, hr2, hs, h1, h2 => by
    rw [List.foldlM_cons] at h1 h2
    obtain ⟨c1, hc1, h1⟩ := (bind_ok _ _ _).1 h1
    obtain ⟨c2, hc2, h2⟩ := (bind_ok _ _ _).1 h2
    simp only [List.map_cons, List.cons.injEq] at hs
    have hx := hr1 x (by simp)
    have hy := hr2 y (by simp)
    obtain ⟨hw1', hs1', hsh1', _⟩ := C01.push_interp' ext x b1 c1 dt n md (noRaw_ssa x hx) (Or.inl hx) hw1 hs1 hsh1 hc1
    obtain ⟨hw2', hs2', hsh2', _⟩ := C01.push_interp' ext y b2 c2 dt n md (noRaw_ssa y hy) (Or.inl hy) hw2 hs2 hsh2 hc2
    exact foldl_presentation_physical ext dt n md rows1 rows2 c1 c2 r1 r2 hw1' hw2' hs1' hs2' hsh1' hsh2'
      (push_presentation_physical ext x y b1 b2 c1 c2 dt n md hx hy hw1 hw2 hs1 hs2 hsh1 hsh2 he hs.1 hc1 hc2)
      (fun z hz => hr1 z (by simp [hz])) (fun z hz => hr2 z (by simp [hz])) hs.2 h1 h2

/-- the builder states two presentations of one logical batch leave behind agree up to `erase` -/
theorem runRows_presentation_physical (ext : Ext) (fields : List Field) (rows1 rows2 : List SVal) (root0 r1 r2 : B)
    (hc : fields.all coveredF = true) (h0 : newRoot fields = .ok root0)
    (hraw1 : ∀ x ∈ rows1, noRaw x = true) (hraw2 : ∀ x ∈ rows2, noRaw x = true)
    (hsame : rows1.map (interpRow ext fields) = rows2.map (interpRow ext fields))
    (h1 : runRows ext fields rows1 = .ok r1) (h2 : runRows ext fields rows2 = .ok r2) : erase r1 = erase r2 := by
  have hw0 := Build.WFH_of_WFB _ (newRoot_fresh h0).1
  have hsafe := Build.newRoot_NoDictKey h0
  have hsh := newRoot_shape hc h0
  simp only [runRows, h0] at h1 h2
  exact foldl_presentation_physical ext _ false [] rows1 rows2 root0 root0 r1 r2 hw0 hw0 hsafe hsafe hsh hsh rfl hraw1 hraw2
    hsame h1 h2

/-- `build_arrays` does not see the erased parts -/
theorem buildArrays_physical (ext : Ext) (r1 r2 : B) (he : erase r1 = erase r2) (a1 a2 : List Arr × B)
    (h1 : buildArrays ext r1 = .ok a1) (h2 : buildArrays ext r2 = .ok a2) : a1.1 = a2.1 := by
  cases r1 <;> simp only [buildArrays, panic] at h1 <;> try cases h1
  cases r2 <;> simp only [buildArrays, panic] at h2 <;> try cases h2
  rename_i p1 len1 v1 fs1 c1 n1 s1 p2 len2 v2 fs2 c2 n2 s2
  simp only [erase, B.struct.injEq] at he
  have hf : finishFields ext fs1 = finishFields ext fs2 := by
    rw [← finishFields_erase ext fs1, ← finishFields_erase ext fs2, he.2.2.2.1]
  obtain ⟨cols1, hc1, h1⟩ := (bind_ok _ _ _).1 h1
  obtain ⟨cols2, hc2, h2⟩ := (bind_ok _ _ _).1 h2
  cases h1; cases h2
  rw [hf, hc2] at hc1
  cases hc1
  rfl

/-- **C11 (presentation independence of the arrays, physical).**  Two batches that are the same logical batch — record by
record the same documented value `interpRow` (records matched by NAME whatever the presentation: struct / map with
string keys / tuple in schema order, any field order, extra fields, absent nullable field vs explicit `None`, `Some` /
newtype layers, integer widths, bytes vs sequences of `u8`, …) — both accepted by `to_marrow`: the returned arrays
are EQUAL, buffer by buffer.  NO `Safe` hypothesis (dictionaries with non-nullable keys below nullable structs included:
also the slots hidden below a null agree).  (Acceptance of one implies acceptance of the other: `C11Accept.C11_presentations_success`.) -/
theorem C11_presentations_physical (ext : Ext) (fields : List Field) (rows1 rows2 : List SVal) (arrs1 arrs2 : List Arr)
    (hcov : fields.all Build.coveredF = true)
    (hraw1 : ∀ x ∈ rows1, noRaw x = true) (hraw2 : ∀ x ∈ rows2, noRaw x = true)
    (hsame : rows1.map (interpRow ext fields) = rows2.map (interpRow ext fields))
    (h1 : toMarrow ext fields rows1 = .ok arrs1) (h2 : toMarrow ext fields rows2 = .ok arrs2) : arrs1 = arrs2 := by
  rw [Props.C03.toMarrow_eq] at h1 h2
  obtain ⟨r1, hr1, h1⟩ := (bind_ok _ _ _).1 h1
  obtain ⟨r2, hr2, h2⟩ := (bind_ok _ _ _).1 h2
  obtain ⟨a1, ha1, h1⟩ := (bind_ok _ _ _).1 h1
  obtain ⟨a2, ha2, h2⟩ := (bind_ok _ _ _).1 h2
  cases h1; cases h2
  cases h0 : newRoot fields with
  | error e => simp [runRows, h0, bind, Except.bind] at hr1
  | ok root0 =>
    exact buildArrays_physical ext r1 r2
      (runRows_presentation_physical ext fields rows1 rows2 root0 r1 r2 hcov h0 hraw1 hraw2 hsame hr1 hr2)
      a1 a2 ha1 ha2

/-- **C11 along histories, physical.**  Two histories (push / extend / `Serializer` / build, any chunking of the rows
within a batch) on builders of the same schema whose batches are, batch by batch and record by record, the same logical
rows in whatever presentation: every build of the one returns the SAME arrays as the corresponding build of the
other.  (Each build returns physically the arrays of the one-shot conversion of its batch: `C10.run_oneShot`.) -/
theorem C11_histories_physical (ext : Ext) (fields : List Field) (r0 : B) (h0 : newRoot fields = .ok r0)
    (hcov : fields.all Build.coveredF = true)
    (ops ops' : List C10.Op) (hraw : C10.OpsOK (fun x => noRaw x = true) ops)
    (hraw' : C10.OpsOK (fun x => noRaw x = true) ops')
    (hsame : (C10.batchesFrom [] ops).map (·.map (interpRow ext fields)) =
      (C10.batchesFrom [] ops').map (·.map (interpRow ext fields)))
    (outs outs' : List (B × List Arr)) (fin fin' : B)
    (h : C10.run ext r0 ops = .ok (outs, fin)) (h' : C10.run ext r0 ops' = .ok (outs', fin')) :
    outs.map (·.2) = outs'.map (·.2) := by
  obtain ⟨l1, g1⟩ := Props.C03.All2_get (C10.run_oneShot ext fields r0 h0 ops outs fin h).1
  obtain ⟨l2, g2⟩ := Props.C03.All2_get (C10.run_oneShot ext fields r0 h0 ops' outs' fin' h').1
  have hb : (C10.batchesFrom [] ops).length = (C10.batchesFrom [] ops').length := by
    simpa using congrArg List.length hsame
  apply List.ext_getElem (by simp only [List.length_map]; omega)
  intro k hk1 hk2
  simp only [List.length_map] at hk1 hk2
  simp only [List.getElem_map]
  have e := congrArg (fun l => l[k]?) hsame
  simp only [List.getElem?_map, List.getElem?_eq_getElem (show k < (C10.batchesFrom [] ops).length by omega),
    List.getElem?_eq_getElem (show k < (C10.batchesFrom [] ops').length by omega), Option.map_some,
    Option.some.injEq] at e
  exact C11_presentations_physical ext fields _ _ _ _ hcov
    (C10.mem_batchesFrom (fun x => noRaw x = true) ops [] (by simp) hraw _ (List.getElem_mem (by omega)))
    (C10.mem_batchesFrom (fun x => noRaw x = true) ops' [] (by simp) hraw' _ (List.getElem_mem (by omega)))
    e (g1 k hk1 (by omega)).2 (g2 k hk2 (by omega)).2

/-- **`Items(vs)` behaves exactly like a batch of one-field records named `item`** — physically: whatever `rows` are
(records of any other struct type with the one field `item`, maps `{"item": v}`, …), as long as record by record they
mean what `Item(v)` means (`items_same_as_records`, `items_same_as_maps`), `to_marrow` returns the same arrays for
`Items(vs)` and for `rows`.  Through `extend` / `Serializer`: `items_extRows`, `items_serRows`. -/
theorem items_arrays_physical (ext : Ext) (fields : List Field) (al : Nat) (vs rows : List SVal) (arrs1 arrs2 : List Arr)
    (hcov : fields.all Build.coveredF = true)
    (hraw1 : ∀ v ∈ vs, noRaw v = true) (hraw2 : ∀ x ∈ rows, noRaw x = true)
    (hsame : (vs.map (serItem al)).map (interpRow ext fields) = rows.map (interpRow ext fields))
    (h1 : toMarrow ext fields (vs.map (serItem al)) = .ok arrs1) (h2 : toMarrow ext fields rows = .ok arrs2) :
    arrs1 = arrs2 :=
  C11_presentations_physical ext fields _ rows arrs1 arrs2 hcov
    (by
      intro x hx
      obtain ⟨v, hv, rfl⟩ := List.mem_map.1 hx
      rw [noRaw_serItem]; exact hraw1 v hv)
    hraw2 hsame h1 h2

/-- `Items(vs)` and the explicit one-field records `nm { item: v }` of any struct type: the same arrays -/
theorem items_as_records_physical (ext : Ext) (fields : List Field) (al al' : Nat) (nm : String) (vs : List SVal)
    (arrs1 arrs2 : List Arr) (hcov : fields.all Build.coveredF = true)
    (hraw : ∀ v ∈ vs, noRaw v = true)
    (h1 : toMarrow ext fields (vs.map (serItem al)) = .ok arrs1)
    (h2 : toMarrow ext fields (vs.map fun v => SVal.record nm (.cons "item" al' v .nil)) = .ok arrs2) : arrs1 = arrs2 :=
  items_arrays_physical ext fields al vs _ arrs1 arrs2 hcov hraw
    (by
      intro x hx
      obtain ⟨v, hv, rfl⟩ := List.mem_map.1 hx
      simpa [noRaw, noRawf] using hraw v hv)
    (items_same_as_records ext fields al al' nm vs) h1 h2

/-- `Items(vs)` and the maps `{"item": v}`: the same arrays -/
theorem items_as_maps_physical (ext : Ext) (fields : List Field) (al : Nat) (vs : List SVal)
    (arrs1 arrs2 : List Arr) (hcov : fields.all Build.coveredF = true)
    (hraw : ∀ v ∈ vs, noRaw v = true)
    (h1 : toMarrow ext fields (vs.map (serItem al)) = .ok arrs1)
    (h2 : toMarrow ext fields (vs.map fun v => SVal.map (.cons (.str "item") v .nil)) = .ok arrs2) : arrs1 = arrs2 :=
  items_arrays_physical ext fields al vs _ arrs1 arrs2 hcov hraw
    (by
      intro x hx
      obtain ⟨v, hv, rfl⟩ := List.mem_map.1 hx
      simpa [noRaw, noRawe] using hraw v hv)
    (items_same_as_maps ext fields al vs) h1 h2

/-! ### the erased parts do depend on the presentation -/

/-- a `FixedSizeBinary(2)` builder: the bytes `[1, 2]` as `serialize_bytes` and as a sequence of `u8` leave different
`current_n` (0 / 2) — and a struct builder `{a: Int32}`: a struct record and a map record leave different name caches
and `next` (the struct presentation fills the cache; the map presentation leaves `next = UNKNOWN_KEY`).  The states
agree after `erase`. -/
theorem hidden_slots_depend :
    (push {} (.fixedSizeBinary "$.f" 2 0 none [] 0) (.bytes [1, 2]) ≠
      push {} (.fixedSizeBinary "$.f" 2 0 none [] 0) (.seq (.cons (.int .u8 1) (.cons (.int .u8 2) .nil)))) ∧
    ((push {} (.fixedSizeBinary "$.f" 2 0 none [] 0) (.bytes [1, 2])).map erase =
      (push {} (.fixedSizeBinary "$.f" 2 0 none [] 0) (.seq (.cons (.int .u8 1) (.cons (.int .u8 2) .nil)))).map erase) ∧
    (push {} (.struct "$" 0 none (.cons (.leaf "$.a" (.int .i32) none []) ⟨"a", false, []⟩ .nil) [none] 0 [false])
        (.record "R" (.cons "a" 7 (.int .i32 1) .nil)) ≠
      push {} (.struct "$" 0 none (.cons (.leaf "$.a" (.int .i32) none []) ⟨"a", false, []⟩ .nil) [none] 0 [false])
        (.map (.cons (.str "a") (.int .i32 1) .nil))) ∧
    ((push {} (.struct "$" 0 none (.cons (.leaf "$.a" (.int .i32) none []) ⟨"a", false, []⟩ .nil) [none] 0 [false])
        (.record "R" (.cons "a" 7 (.int .i32 1) .nil))).map erase =
      (push {} (.struct "$" 0 none (.cons (.leaf "$.a" (.int .i32) none []) ⟨"a", false, []⟩ .nil) [none] 0 [false])
        (.map (.cons (.str "a") (.int .i32 1) .nil))).map erase) := by
  refine ⟨by decide +kernel, by decide +kernel, by decide +kernel, by decide +kernel⟩

/-! ### non-vacuity -/

/-- `C11_presentations_physical` applies to the two presentations of `C11Arrays.exRows1/2` (structs with an extra field
and an absent nullable field / a map with the keys in the other order and a tuple with an explicit `None`, other integer
widths) with every hypothesis discharged: the arrays are equal -/
example : ∀ arrs1 arrs2, toMarrow {} exFields exRows1 = .ok arrs1 → toMarrow {} exFields exRows2 = .ok arrs2 →
    arrs1 = arrs2 := fun arrs1 arrs2 h1 h2 =>
  C11_presentations_physical {} exFields exRows1 exRows2 arrs1 arrs2 (by decide) (by decide) (by decide)
    exSame h1 h2

/-- … and both are accepted (`exOk`), so the statement is about actual arrays -/
example : toMarrow {} exFields exRows1 = toMarrow {} exFields exRows2 ∧ (toMarrow {} exFields exRows1).isOk = true :=
  ⟨by decide +kernel, exOk.1⟩

/-- `push_presentation_physical` on a nested state: `{"k": [1, 2]}` as a struct with `i8` elements and as a map with a
tuple of `i64` elements, onto a builder of `Struct{k: List<Int32>}` -/
def exNested : B := .struct "$.s" 0 none
  (.cons (.list "$.s.k" false ⟨"element", false, []⟩ none [0] (.leaf "$.s.k.element" (.int .i32) none [])) ⟨"k", false, []⟩ .nil)
  [none] 0 [false]

theorem exNested_wf : WFB exNested := by
  have hv : ∀ n, VLen none n := fun n bits h => by cases h
  simp only [exNested, WFB, WFL]
  refine ⟨hv _, ⟨⟨?_, hv _, hv _⟩, by decide, trivial⟩, rfl, by decide, rfl, ?_⟩
  · exact ⟨rfl, rfl, by simp⟩
  · intro j key hj
    cases j <;> simp at hj

theorem exNested_shape : Shape exNested (.struct (.cons (.mk "k" (.list (.mk "element" .int32 false [])) false []) .nil)) false [] := by
  simp only [exNested, Shape, ShapeL]
  exact ⟨rfl, _, rfl, rfl, rfl, ⟨rfl, _, _, _, _, rfl, rfl, rfl⟩, trivial⟩

example : ∀ b1 b2,
    push {} exNested (.record "S" (.cons "k" 3 (.seq (.cons (.int .i8 1) (.cons (.int .i8 2) .nil))) .nil)) = .ok b1 →
    push {} exNested (.map (.cons (.str "k") (.tuple (.cons (.int .i64 1) (.cons (.int .i64 2) .nil))) .nil)) = .ok b2 →
    erase b1 = erase b2 := fun b1 b2 h1 h2 =>
  push_presentation_physical {} _ _ exNested exNested b1 b2 _ false []
    (by decide) (by decide) (Build.WFH_of_WFB _ exNested_wf) (Build.WFH_of_WFB _ exNested_wf)
    (by simp [exNested, NoDictKey, NoDictKeyL]) (by simp [exNested, NoDictKey, NoDictKeyL])
    exNested_shape exNested_shape rfl (by decide +kernel) h1 h2

/-- both pushes succeed, with different scratch state -/
example : (push {} exNested (.record "S" (.cons "k" 3 (.seq (.cons (.int .i8 1) (.cons (.int .i8 2) .nil))) .nil))).isOk = true ∧
    (push {} exNested (.map (.cons (.str "k") (.tuple (.cons (.int .i64 1) (.cons (.int .i64 2) .nil))) .nil))).isOk = true ∧
    push {} exNested (.record "S" (.cons "k" 3 (.seq (.cons (.int .i8 1) (.cons (.int .i8 2) .nil))) .nil)) ≠
      push {} exNested (.map (.cons (.str "k") (.tuple (.cons (.int .i64 1) (.cons (.int .i64 2) .nil))) .nil)) := by
  refine ⟨by decide +kernel, by decide +kernel, by decide +kernel⟩

/-- `C11_histories_physical`: a dictionary column and a nullable list column (`C10.exFields`); one history pushes the
record as a map with the keys in the other order and the list as a tuple of `i64`, the other extends by a sequence
holding the struct presentation — every hypothesis discharged, both histories succeed -/
def exOpsP : List C10.Op :=
  [.push (.map (.cons (.str "l") (.tuple (.cons (.int .i64 1) .nil)) (.cons (.str "d") (.some (.str "x")) .nil))), .build]
def exOpsQ : List C10.Op := [.extend (.seq (.cons (C10.exRec "x" [1]) .nil)), .build]

example : (∀ outs outs' fin fin', C10.run {} C10.exRoot0 exOpsP = .ok (outs, fin) → C10.run {} C10.exRoot0 exOpsQ = .ok (outs', fin') →
      outs.map (·.2) = outs'.map (·.2)) ∧
    (C10.run {} C10.exRoot0 exOpsP).isOk = true ∧ (C10.run {} C10.exRoot0 exOpsQ).isOk = true :=
  ⟨fun outs outs' fin fin' h h' =>
    C11_histories_physical {} C10.exFields C10.exRoot0 C10.exNew (by decide) exOpsP exOpsQ (by unfold C10.OpsOK; decide) (by unfold C10.OpsOK; decide)
      (by decide +kernel) outs outs' fin fin' h h',
   by decide +kernel, by decide +kernel⟩

/-- `Items([7u8, 9u8])` and the maps `{"item": 7}`, `{"item": 9}` against `[item: Int32]`: the same arrays -/
example : ∀ arrs1 arrs2, toMarrow {} [.mk "item" .int32 false []] ([SVal.int .u8 7, .int .u8 9].map (serItem 0)) = .ok arrs1 →
    toMarrow {} [.mk "item" .int32 false []] ([SVal.int .u8 7, .int .u8 9].map fun v => SVal.map (.cons (.str "item") v .nil)) = .ok arrs2 →
    arrs1 = arrs2 := fun arrs1 arrs2 h1 h2 =>
  items_as_maps_physical {} _ 0 _ arrs1 arrs2 (by decide) (by decide) h1 h2

/-- `C11_presentations_physical` on the schema OUTSIDE `Safe` of Props/C01Obs.lean (`C01.exUnsafe_not_safe`: a dictionary with
non-nullable keys below a nullable struct): the batch null, {d: "a"}, null as structs and as maps / an absent nullable field —
every hypothesis discharged, the arrays are equal, the placeholder keys hidden below the nulls included -/
example : ∀ arrs1 arrs2, toMarrow {} C01.exUnsafeFields C01.exUnsafeRows = .ok arrs1 →
    toMarrow {} C01.exUnsafeFields
      [.map .nil, .map (.cons (.str "s") (.map (.cons (.str "d") (.str "a") .nil)) .nil), .record "Q" .nil] = .ok arrs2 →
    arrs1 = arrs2 := fun arrs1 arrs2 h1 h2 =>
  C11_presentations_physical {} C01.exUnsafeFields _ _ arrs1 arrs2 (by decide) (by decide) (by decide) (by decide +kernel) h1 h2

end SaModel.Props.C11
