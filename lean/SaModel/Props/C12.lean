import SaModel.Lemmas.C12Decode
import SaModel.Lemmas.C12Struct
import SaModel.Lemmas.C12Read
import SaModel.Lemmas.C12Batch
import SaModel.Lemmas.C12WF
import SaModel.Props.C02
import SaModel.Props.C13
/-
C12 — deserializing a slice equals slicing the deserialized values.
Property theorems only (helpers: SaModel/Lemmas/C12*.lean).  `sliceView` (SaModel/Read/Slice.lean) models arrow's
`slice` + marrow's view conversion; `Spec.decodeAt` are the Arrow reading rules; `readAny` is the reader model (C02).

The theorems hold for EVERY array (every constructor incl. FixedSizeList and sparse Union, any nesting).  Hypotheses:
the window bounds, and `sliceable a` — the decidable well-formedness `slice` itself relies on: children that are
sliced ALONG WITH the parent are at least as long as the parent says (Struct children ≥ len, FixedSizeList child ≥ len·n,
sparse-Union children ≥ number of rows).  It is genuinely needed (`sliceable_needed` below) and implied by Arrow validity.
-/
namespace SaModel.Props.C12
open SaModel SaModel.Read SaModel.Spec SaModel.Lemmas.C12

/-- the key bit lemma: a bitmap whose bit offset was advanced by `o`, read at `i`, is the original bitmap read at
`o + i` — windows may start anywhere inside a byte -/
theorem getBit_shift (b : Bits) (o i : Nat) : getBit (shiftBits b o) i = getBit b (o + i) :=
  Lemmas.C12.getBit_shift b o i

theorem withValidity_shift (v : Option Bits) (o i : Nat) (p : R LVal) :
    withValidity (shiftV v o) i p = withValidity v (o + i) p :=
  Lemmas.C12.withValidity_shift v o i p

/-- the length of a slice (all types) -/
theorem lenOf_slice (a : Arr) (o l : Nat) (h : o + l ≤ lenOf a) : lenOf (sliceView a o l) = l :=
  Lemmas.C12.lenOf_slice a o l h

/-! ### decoding commutes with slicing -/

/-- `C12_slice`, slot-wise: reading slot `i` of the slice is reading slot `o + i` of the whole array — for every leaf
type, Struct (children sliced recursively), List / LargeList / Map / dense Union (children untouched, addressed by
absolute offsets), FixedSizeList (child sliced to (o·n, l·n)), sparse Union (children sliced) and Dictionary (keys
sliced), nested to any depth. -/
theorem decodeAt_slice (a : Arr) (o l i : Nat) (hi : i < l) (h : o + l ≤ lenOf a) (hs : sliceable a = true) :
    decodeAt (sliceView a o l) i = decodeAt a (o + i) :=
  Lemmas.C12.decodeAt_slice a o l i hi h hs

/-- hence the decoded rows of the slice are the window of the decoded rows of the whole array -/
theorem decodeAt_slice_rows (a : Arr) (o l : Nat) (h : o + l ≤ lenOf a) (hs : sliceable a = true) :
    (List.range l).map (decodeAt (sliceView a o l)) = (List.range l).map (fun i => decodeAt a (o + i)) := by
  apply List.map_congr_left
  intro i hi
  exact decodeAt_slice a o l i (List.mem_range.mp hi) h hs

/-- `sliceable` cannot be dropped: a Struct of 2 rows whose child has only 1 row (invalid Arrow). `slice(0, 2)` relabels
the child as 2 rows long, so row 1 of the slice decodes while row 1 of the array is out of range. -/
theorem sliceable_needed :
    let a : Arr := .struct 2 none (.cons ⟨"c", false, []⟩ (.struct 1 none .nil) .nil)
    sliceable a = false ∧ 0 + 2 ≤ lenOf a ∧ decodeAt (sliceView a 0 2) 1 ≠ decodeAt a (0 + 1) := by decide

/-- `sliceable` is implied by Arrow validity as spelled out for C03 (`Spec.WF`, which C03 `C03_wf` proves of every array
the crate's builders return): every such array may be sliced with any window inside its bounds -/
theorem WF_sliceable (f : Field) (a : Arr) (h : WF f a = true) : sliceable a = true :=
  Lemmas.C12.WF_sliceable f a h

/-! ### slices of slices -/

/-- slicing twice IS slicing once by the composed window: the two views are equal field for field (bit offsets add,
windows of windows are windows, FixedSizeList / Struct / sparse-Union children recursively).  Structural: no hypothesis
on the array, only that the second window lies inside the first. -/
theorem sliceView_sliceView (a : Arr) (o1 l1 o2 l2 : Nat) (h : o2 + l2 ≤ l1) :
    sliceView (sliceView a o1 l1) o2 l2 = sliceView a (o1 + o2) l2 :=
  sliceView_sliceView' a o1 l1 o2 l2 h

/-- a slice (inside the bounds) of a well-formed view is well-formed: chains of slices stay inside the theorems -/
theorem sliceable_slice (a : Arr) (o l : Nat) (h : o + l ≤ lenOf a) (hs : sliceable a = true) :
    sliceable (sliceView a o l) = true :=
  Lemmas.C12.sliceable_slice a o l h hs

/-- slices of slices read as the corresponding window of the original array -/
theorem slice_slice (a : Arr) (o1 l1 o2 l2 i : Nat) (hi : i < l2) (h2 : o2 + l2 ≤ l1) (h1 : o1 + l1 ≤ lenOf a)
    (hs : sliceable a = true) :
    decodeAt (sliceView (sliceView a o1 l1) o2 l2) i = decodeAt a (o1 + o2 + i) := by
  rw [sliceView_sliceView a o1 l1 o2 l2 h2, decodeAt_slice a (o1 + o2) l2 i hi (by omega) hs]

/-! ### the readers -/

/-- slicing never touches the type skeleton (names, integer widths, variant tables) -/
theorem toD_slice (a : Arr) (o l : Nat) (lv : LVal) : toD (sliceView a o l) lv = toD a lv :=
  Lemmas.C12.toD_slice a o l lv

/-- a reader can be built on the slice whenever it can be built on the array (`ArrayDeserializer::new`) -/
theorem new_slice (a : Arr) (o l : Nat) (h : o + l ≤ lenOf a) (hs : sliceable a = true)
    (hn : new Fixes.all a = .ok ()) : new Fixes.all (sliceView a o l) = .ok () :=
  Lemmas.C12.new_slice Fixes.all a o l h hs hn

/-- hence (C02) the readers agree: `deserialize_any` of slot `i` of the slice = of slot `o + i` of the whole array.
Besides the window and `sliceable`, the hypotheses are those of C02 `read_any_decode` ON THE WHOLE ARRAY ONLY (slot
`o + i` has a defined Arrow reading, the reader can be built, lengths fit Rust's `usize`, strings are UTF-8); everything
about the slice (`new`, `physical`, the type skeleton) is derived. -/
theorem read_slice (a : Arr) (o l i : Nat) (lv : LVal) (hi : i < l) (h : o + l ≤ lenOf a)
    (hs : sliceable a = true) (hd : decodeAt a (o + i) = .ok lv)
    (hn : new Fixes.all a = .ok ()) (hp : physical a = true) (hu : utf8Ok lv = true) :
    readAny Fixes.all (sliceView a o l) i = readAny Fixes.all a (o + i) := by
  rw [SaModel.Props.C02.read_any_decode _ _ lv (by rw [decodeAt_slice a o l i hi h hs]; exact hd)
      (new_slice a o l h hs hn) (physical_slice a o l h hs hp) hu,
    SaModel.Props.C02.read_any_decode a (o + i) lv hd hn hp hu, toD_slice]

/-- sparse unions: the Arrow-level statement (`decodeAt_slice`) covers them, but the crate never reads one — building
the reader fails (`enum_deserializer.rs`: "Only dense unions are supported"), before and after slicing alike -/
theorem new_sparse_union_fails (types : List Int) (fs : ArrUFields) (o l : Nat) :
    new Fixes.all (.union types none fs) = fail "Only dense unions are supported" ∧
    new Fixes.all (sliceView (.union types none fs) o l) = fail "Only dense unions are supported" := by
  simp only [sliceView, Lemmas.C12.new_sparse_union_fails, and_self]

/-! ### record batches: `RecordBatch::slice(o, l)` slices every column with the one window

`Deserializer::new` (Access.lean `new`, C13) checks the columns' lengths and builds the root reader `batch len cols`;
`get(i)` (Access.lean `getIdx`) hands record `i` to it. -/

/-- the Arrow-level form: record `i` of the sliced batch decodes as record `o + i` of the whole batch -/
theorem batch_decodeAt_slice (cols : ArrFields) (len o l i : Nat) (hi : i < l) (h : o + l ≤ len)
    (hs : sliceableFields cols len = true) :
    decodeAt (batch l (sliceFields cols o l)) i = decodeAt (batch len cols) (o + i) :=
  decodeAt_slice (batch len cols) o l i hi h hs

/-- the reader form.  If `Deserializer::new` accepted the whole batch with `len` records (`hctor`) and the columns are
well-formed, then for every window `o + l ≤ len`: the constructor accepts the sliced batch and reports `l` records,
`get i` (i < l) on the slice and `get (o + i)` on the whole batch both hand out a record, and reading them
(`deserialize_any`) gives the same result.  `hd … hu`: the C02 hypotheses on the WHOLE batch only. -/
theorem batch_read_slice (cols : ArrFields) (len o l i : Nat) (lv : LVal)
    (hctor : Access.new true cols.length (colLens cols) = .ok len)
    (hi : i < l) (h : o + l ≤ len) (hs : sliceableCols cols = true)
    (hd : decodeAt (batch len cols) (o + i) = .ok lv)
    (hn : newFields Fixes.all cols = .ok ()) (hp : physicalFields cols = true) (hu : utf8Ok lv = true) :
    Access.new true (sliceFields cols o l).length (colLens (sliceFields cols o l)) = .ok l ∧
    Access.getIdx l i = some i ∧ Access.getIdx len (o + i) = some (o + i) ∧
    readAny Fixes.all (batch l (sliceFields cols o l)) i = readAny Fixes.all (batch len cols) (o + i) := by
  obtain ⟨hlen, hall, hnil⟩ := (SaModel.Props.C13.ctor_checks _ _ _).mp hctor
  have hsf : sliceableFields cols len = true := sliceableFields_of_cols Fixes.all cols len hall hn hs
  refine ⟨?_, ?_, ?_, ?_⟩
  · rw [SaModel.Props.C13.ctor_checks]
    refine ⟨by rw [colLens_length], colLens_slice Fixes.all cols len o l h hsf hn, ?_⟩
    intro hnil'
    cases cols with
    | nil => have := hnil rfl; omega
    | cons _ _ _ => simp [sliceFields, colLens] at hnil'
  · rw [SaModel.Props.C13.get_eq]; simp only [hi, if_true]
  · rw [SaModel.Props.C13.get_eq]; simp only [show o + i < len by omega, if_true]
  · exact read_slice (batch len cols) o l i lv hi h hsf hd hn hp hu

/-- the one-column record reader the `slice` suite drives (`Reader.record`, `Deserializer::from_marrow(&[field], &[view])`)
is the one-column batch: the record reader over the sliced column is the slice of the record reader over the column -/
theorem record_slice (fm : FieldMeta) (col : Arr) (o l : Nat) (h : o + l ≤ lenOf col) (hs : sliceable col = true)
    (hn : new Fixes.all col = .ok ()) :
    record fm (sliceView col o l) = sliceView (record fm col) o l := by
  simp only [record, sliceView, sliceFields, shiftV, vlen_eq_lenOf Fixes.all _ (new_slice col o l h hs hn), lenOf_slice col o l h]

/-! ### non-vacuity -/

/-- a window that starts inside a bitmap byte, on a nullable list of nullable ints -/
example :
    let a : Arr := .list false (some ⟨[0b10110101, 0b1], 0⟩) [0, 1, 1, 3, 3, 4, 6, 6, 7, 9] ⟨"element", true, []⟩
      (.prim .int32 (some ⟨[0b11011011, 0b1], 0⟩) [1, 2, 3, 4, 5, 6, 7, 8, 9])
    sliceable a = true ∧
    (List.range 4).map (decodeAt (sliceView a 3 4)) = (List.range 4).map (fun i => decodeAt a (3 + i)) := by decide

/-- FixedSizeList(2) of nullable Struct{nullable int8, FixedSizeList(3) of bool}: 5 rows (one null), child of 10, grand
child of 30; the window (1, 3) starts inside the parent's, the child's (bit 2) and the grandchild's (bit 6) bitmap bytes;
every row decodes to a non-error value and the rows differ -/
def fslExample : Arr :=
  .fixedSizeList 5 (some ⟨[0b11011], 0⟩) 2 ⟨"element", true, []⟩
    (.struct 10 (some ⟨[0b11101111, 0b11], 0⟩)
      (.cons ⟨"x", true, []⟩ (.prim .int8 (some ⟨[0b01111011, 0b11], 0⟩) [0, 1, 2, 3, 4, 5, 6, 7, 8, 9])
      (.cons ⟨"y", false, []⟩ (.fixedSizeList 10 none 3 ⟨"element", false, []⟩
          (.boolean 30 none ⟨[0b10010110, 0b01101001, 0b11110000, 0b00101101], 0⟩)) .nil)))

example : sliceable fslExample = true ∧ 1 + 3 ≤ lenOf fslExample ∧
    ((List.range 5).map (decodeAt fslExample)).all (·.isOk) = true ∧
    decodeAt fslExample 1 ≠ decodeAt fslExample 3 ∧ decodeAt fslExample 2 = .ok .null ∧
    (List.range 3).map (decodeAt (sliceView fslExample 1 3)) = (List.range 3).map (fun i => decodeAt fslExample (1 + i)) ∧
    sliceView (sliceView fslExample 1 3) 1 2 = sliceView fslExample 2 2 := by decide

/-- the example is a valid Arrow array of its field in the sense of C03 -/
example : WF (.mk "c" (.fixedSizeList (.mk "element" (.struct (.cons (.mk "x" .int8 true [])
    (.cons (.mk "y" (.fixedSizeList (.mk "element" .boolean false []) 3) false []) .nil))) true []) 2) true []) fslExample = true := by
  decide

/-- the reader on the same example: all hypotheses of `read_slice` hold for slot 1 + 2, and the read succeeds -/
example : readAny Fixes.all (sliceView fslExample 1 3) 2 = readAny Fixes.all fslExample (1 + 2) ∧
    (readAny Fixes.all fslExample (1 + 2)).isOk = true :=
  ⟨read_slice fslExample 1 3 2 _ (by decide) (by decide) (by decide) rfl (by decide) (by decide) (by decide), by decide⟩

/-- a sparse union {0: int32, 1: utf8} of 4 rows, window (1, 2) -/
def sparseExample : Arr :=
  .union [0, 1, 1, 0] none
    (.cons 0 ⟨"i", false, []⟩ (.prim .int32 none [10, 11, 12, 13])
    (.cons 1 ⟨"s", false, []⟩ (.bytes .utf8 none [0, 1, 2, 4, 4] [97, 98, 99, 100]) .nil))

example : sliceable sparseExample = true ∧ 1 + 2 ≤ lenOf sparseExample ∧
    decodeAt sparseExample 1 = .ok (.union 1 (.str [98])) ∧ decodeAt sparseExample 2 = .ok (.union 1 (.str [99, 100])) ∧
    (List.range 2).map (decodeAt (sliceView sparseExample 1 2)) = (List.range 2).map (fun i => decodeAt sparseExample (1 + i)) := by
  decide

/-- a record batch of two columns (nullable utf8, FixedSizeList(2) of int16), 3 records, window (1, 2) -/
def batchExample : ArrFields :=
  .cons ⟨"s", true, []⟩ (.bytes .utf8 (some ⟨[0b101], 0⟩) [0, 1, 1, 3] [97, 98, 99])
  (.cons ⟨"p", false, []⟩ (.fixedSizeList 3 none 2 ⟨"element", false, []⟩ (.prim .int16 none [1, 2, 3, 4, 5, 6])) .nil)

example : (Access.new true (sliceFields batchExample 1 2).length (colLens (sliceFields batchExample 1 2)) = .ok 2 ∧
    Access.getIdx 2 1 = some 1 ∧ Access.getIdx 3 (1 + 1) = some (1 + 1) ∧
    readAny Fixes.all (batch 2 (sliceFields batchExample 1 2)) 1 = readAny Fixes.all (batch 3 batchExample) (1 + 1)) ∧
    (readAny Fixes.all (batch 3 batchExample) (1 + 1)).isOk = true :=
  ⟨batch_read_slice batchExample 3 1 2 1 _ (by decide) (by decide) (by decide) (by decide) rfl (by decide) (by decide)
    (by decide), by decide⟩

end SaModel.Props.C12
