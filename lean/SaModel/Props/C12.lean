import SaModel.Read.Slice
import SaModel.Spec.DecodeAt
/-
C12 — deserializing a slice equals slicing the deserialized values.
Property theorems only.  `sliceView` (SaModel/Read/Slice.lean) models arrow's `slice` + marrow's view conversion.
-/
namespace SaModel.Props.C12
open SaModel SaModel.Read SaModel.Spec

/-- the key bit lemma: a bitmap whose bit offset was advanced by `o`, read at `i`, is the original bitmap read at
`o + i` — windows may start anywhere inside a byte -/
theorem getBit_shift (b : Bits) (o i : Nat) : getBit (shiftBits b o) i = getBit b (o + i) := by
  simp only [getBit, shiftBits]
  have : i + (b.offset + o) = o + i + b.offset := by omega
  rw [this]

theorem isValid_shift (v : Option Bits) (o i : Nat) : isValid (shiftV v o) i = isValid v (o + i) := by
  cases v
  · rfl
  · simp only [shiftV, isValid, getBit_shift]

theorem withValidity_shift (v : Option Bits) (o i : Nat) (p : R LVal) :
    withValidity (shiftV v o) i p = withValidity v (o + i) p := by
  simp only [withValidity, isValid_shift]

end SaModel.Props.C12
