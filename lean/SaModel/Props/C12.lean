import SaModel.Read.Slice
import SaModel.Spec.DecodeAt
import SaModel.Props.C02
/-
C12 — deserializing a slice equals slicing the deserialized values.
Property theorems only.  `sliceView` (SaModel/Read/Slice.lean) models arrow's `slice` + marrow's view conversion.
-/
namespace SaModel.Props.C12
open SaModel SaModel.Read SaModel.Spec

/-- the key bit lemma: a bitmap whose bit offset was advanced by `o`, read at `i`, is the original bitmap read at
`o + i` — windows may start anywhere inside a byte -/
theorem getBit_shift (b : Bits) (o i : Nat) : getBit (shiftBits b o) i = getBit b (o + i) := by
  simp only [getBit, shiftBits]
  have : i + (b.offset + o) = o + i + b.offset := by omega
  rw [this]

theorem isValid_shift (v : Option Bits) (o i : Nat) : isValid (shiftV v o) i = isValid v (o + i) := by
  cases v
  · rfl
  · simp only [shiftV, isValid, getBit_shift]

theorem withValidity_shift (v : Option Bits) (o i : Nat) (p : R LVal) :
    withValidity (shiftV v o) i p = withValidity v (o + i) p := by
  simp only [withValidity, isValid_shift]

/-! ### windows of lists -/

theorem window_length {α} (xs : List α) (o n : Nat) (h : o + n ≤ xs.length) : (window xs o n).length = n := by
  simp only [window, List.length_take, List.length_drop]; omega

theorem window_getD {α} (xs : List α) (o n i : Nat) (d : α) (hi : i < n) : (window xs o n).getD i d = xs.getD (o + i) d := by
  simp only [window, List.getD_eq_getElem?_getD, List.getElem?_take, hi, if_true, List.getElem?_drop]

theorem drop_take_window (data : Bytes) (a b c d : Nat) (h : c + d ≤ b) :
    ((window data a b).drop c).take d = (data.drop (a + c)).take d := by
  simp only [window]
  rw [List.drop_take, List.drop_drop, List.take_take]
  congr 1
  omega

/-! `sliceable`: which views `slice` may be applied to without looking at their contents: children that are sliced
along with the parent are at least as long as the parent says (Arrow validity; struct, fixed-size list, sparse union) -/
mutual
def sliceable : Arr → Bool
  | .struct len _ fs => sliceableFields fs len
  | .list _ _ _ _ _ => true
  | .fixedSizeList _ _ _ _ _ => false        -- not covered by `decodeAt_slice_partial` (child sliced to (o·n, l·n))
  | .dictionary ks _ => sliceable ks
  | .union types offs fs =>
    match offs with
    | some _ => true
    | none => false                          -- sparse unions: not covered by `decodeAt_slice_partial`
  | _ => true
def sliceableFields : ArrFields → Nat → Bool
  | .nil, _ => true
  | .cons _ a r, len => decide (len ≤ lenOf a) && sliceable a && sliceableFields r len
end

/-- the length of a slice -/
theorem lenOf_slice : ∀ (a : Arr) (o l : Nat), o + l ≤ lenOf a → lenOf (sliceView a o l) = l
  | .null _, _, _, _ => by simp [sliceView, lenOf]
  | .boolean _ _ _, _, _, _ => by simp [sliceView, lenOf]
  | .prim _ _ vals, o, l, h => by simp only [sliceView, lenOf] at h ⊢; exact window_length _ _ _ h
  | .time _ _ _ vals, o, l, h => by simp only [sliceView, lenOf] at h ⊢; exact window_length _ _ _ h
  | .timestamp _ _ _ vals, o, l, h => by simp only [sliceView, lenOf] at h ⊢; exact window_length _ _ _ h
  | .decimal128 _ _ _ vals, o, l, h => by simp only [sliceView, lenOf] at h ⊢; exact window_length _ _ _ h
  | .bytes _ _ offs _, o, l, h => by
    simp only [sliceView, lenOf] at h ⊢
    by_cases h0 : offs.length = 0
    · simp only [window, List.length_take, List.length_drop]; omega
    · rw [window_length _ _ _ (by omega)]; omega
  | .bytesView _ _ views _, o, l, h => by simp only [sliceView, lenOf] at h ⊢; exact window_length _ _ _ h
  | .fixedSizeBinary n _ data, o, l, h => by
    simp only [sliceView, lenOf] at h ⊢
    by_cases hn : n ≤ 0
    · simp only [hn, if_true] at h ⊢; omega
    · simp only [hn, if_false] at h ⊢
      have hpos : 0 < n.toNat := by omega
      have : (o + l) * n.toNat ≤ data.length := by
        have := Nat.mul_le_mul_right n.toNat h
        have := Nat.div_mul_le_self data.length n.toNat
        omega
      rw [window_length _ _ _ (by rw [Nat.add_mul] at this; omega)]
      exact Nat.mul_div_cancel l hpos
  | .struct _ _ _, _, _, _ => by simp [sliceView, lenOf]
  | .list _ _ offs _ _, o, l, h => by
    simp only [sliceView, lenOf] at h ⊢
    by_cases h0 : offs.length = 0
    · simp only [window, List.length_take, List.length_drop]; omega
    · rw [window_length _ _ _ (by omega)]; omega
  | .fixedSizeList _ _ _ _ _, _, _, _ => by simp [sliceView, lenOf]
  | .map _ offs _ _ _, o, l, h => by
    simp only [sliceView, lenOf] at h ⊢
    by_cases h0 : offs.length = 0
    · simp only [window, List.length_take, List.length_drop]; omega
    · rw [window_length _ _ _ (by omega)]; omega
  | .dictionary ks _, o, l, h => by
    simp only [sliceView, lenOf] at h ⊢
    exact lenOf_slice ks o l h
  | .union types offs _, o, l, h => by
    simp only [sliceView, lenOf] at h ⊢
    cases offs <;> simp only [lenOf] <;> exact window_length _ _ _ h

/-! ### decoding commutes with slicing -/

mutual
/-- `C12_slice`, slot-wise: reading slot `i` of the slice is reading slot `o + i` of the whole array — for every
leaf type, Struct (children sliced recursively), List / LargeList / Map / dense Union (children untouched, addressed
by absolute offsets) and Dictionary (keys sliced), nested to any depth.
PARTIAL: `sliceable` excludes FixedSizeList (child sliced to (o·n, l·n)) and sparse unions (children sliced);
for those the statement is validated by the `slice` suite only (driver check `sliceView` + decoded rows). -/
theorem decodeAt_slice_partial : ∀ (a : Arr) (o l i : Nat), i < l → o + l ≤ lenOf a → sliceable a = true →
    decodeAt (sliceView a o l) i = decodeAt a (o + i)
  | .null len, o, l, i, hi, h, _ => by
    simp only [lenOf] at h
    have : o + i < len := by omega
    simp only [sliceView, decodeAt, hi, this, if_true]
  | .boolean len v vals, o, l, i, hi, h, _ => by
    simp only [lenOf] at h
    have : o + i < len := by omega
    simp only [sliceView, decodeAt, hi, this, if_true, withValidity_shift, getBit_shift]
  | .prim ty v vals, o, l, i, hi, h, _ => by
    simp only [lenOf] at h
    have : o + i < vals.length := by omega
    simp only [sliceView, decodeAt, window_length _ _ _ h, hi, this, if_true, withValidity_shift, window_getD _ _ _ _ _ hi]
  | .time ty u v vals, o, l, i, hi, h, _ => by
    simp only [lenOf] at h
    have : o + i < vals.length := by omega
    simp only [sliceView, decodeAt, window_length _ _ _ h, hi, this, if_true, withValidity_shift, window_getD _ _ _ _ _ hi]
  | .timestamp u tz v vals, o, l, i, hi, h, _ => by
    simp only [lenOf] at h
    have : o + i < vals.length := by omega
    simp only [sliceView, decodeAt, window_length _ _ _ h, hi, this, if_true, withValidity_shift, window_getD _ _ _ _ _ hi]
  | .decimal128 p sc v vals, o, l, i, hi, h, _ => by
    simp only [lenOf] at h
    have : o + i < vals.length := by omega
    simp only [sliceView, decodeAt, window_length _ _ _ h, hi, this, if_true, withValidity_shift, window_getD _ _ _ _ _ hi]
  | .bytes ty v offs data, o, l, i, hi, h, _ => by
    simp only [lenOf] at h
    have hl : o + (l + 1) ≤ offs.length := by omega
    have h1 : o + i < offs.length - 1 := by omega
    have h2 : i < l + 1 - 1 := by omega
    simp only [sliceView, decodeAt, window_length _ _ _ hl, h1, h2, if_true, withValidity_shift,
      window_getD _ _ _ _ _ (show i < l + 1 by omega), window_getD _ _ _ _ _ (show i + 1 < l + 1 by omega), Nat.add_assoc]
  | .bytesView ty v views buffers, o, l, i, hi, h, _ => by
    simp only [lenOf] at h
    have : o + i < views.length := by omega
    simp only [sliceView, decodeAt, window_length _ _ _ h, hi, this, if_true, withValidity_shift, window_getD _ _ _ _ _ hi]
  | .fixedSizeBinary n v data, o, l, i, hi, h, _ => by
    simp only [lenOf] at h
    by_cases hn : n ≤ 0
    · simp only [hn, if_true] at h; omega
    · simp only [hn, if_false] at h
      have hpos : 0 < n.toNat := by omega
      have hmul : (o + l) * n.toNat ≤ data.length := by
        have := Nat.mul_le_mul_right n.toNat h
        have := Nat.div_mul_le_self data.length n.toNat
        omega
      have hw : o * n.toNat + l * n.toNat ≤ data.length := by rw [Nat.add_mul] at hmul; exact hmul
      have h1 : o + i < data.length / n.toNat := by omega
      have h2 : i < (l * n.toNat) / n.toNat := by rw [Nat.mul_div_cancel l hpos]; exact hi
      have h3 : i * n.toNat + n.toNat ≤ l * n.toNat := by
        have := Nat.mul_le_mul_right n.toNat (show i + 1 ≤ l by omega)
        rw [Nat.add_mul] at this; omega
      simp only [sliceView, decodeAt, hn, if_false, window_length _ _ _ hw, h1, h2, if_true, withValidity_shift,
        drop_take_window _ _ _ _ _ h3, Nat.add_mul]
  | .struct len v fs, o, l, i, hi, h, hs => by
    simp only [lenOf] at h
    simp only [sliceable] at hs
    have : o + i < len := by omega
    simp only [sliceView, decodeAt, hi, this, if_true, withValidity_shift, decodeFieldsAt_slice fs len o l i hi h hs]
  | .list lg v offs fm el, o, l, i, hi, h, _ => by
    simp only [lenOf] at h
    have hl : o + (l + 1) ≤ offs.length := by omega
    have h1 : o + i < offs.length - 1 := by omega
    have h2 : i < l + 1 - 1 := by omega
    simp only [sliceView, decodeAt, window_length _ _ _ hl, h1, h2, if_true, withValidity_shift,
      window_getD _ _ _ _ _ (show i < l + 1 by omega), window_getD _ _ _ _ _ (show i + 1 < l + 1 by omega), Nat.add_assoc]
  | .fixedSizeList _ _ _ _ _, _, _, _, _, _, hs => by simp [sliceable] at hs
  | .map v offs mm ks vs, o, l, i, hi, h, _ => by
    simp only [lenOf] at h
    have hl : o + (l + 1) ≤ offs.length := by omega
    have h1 : o + i < offs.length - 1 := by omega
    have h2 : i < l + 1 - 1 := by omega
    simp only [sliceView, decodeAt, window_length _ _ _ hl, h1, h2, if_true, withValidity_shift,
      window_getD _ _ _ _ _ (show i < l + 1 by omega), window_getD _ _ _ _ _ (show i + 1 < l + 1 by omega), Nat.add_assoc]
  | .dictionary ks vs, o, l, i, hi, h, hs => by
    simp only [lenOf] at h
    simp only [sliceable] at hs
    have : o + i < lenOf ks := by omega
    simp only [sliceView, decodeAt, lenOf_slice ks o l h, hi, this, if_true, decodeAt_slice_partial ks o l i hi h hs]
  | .union types offs fs, o, l, i, hi, h, hs => by
    simp only [lenOf] at h
    cases offs with
    | none => simp [sliceable] at hs
    | some ofs =>
      have h1 : o + i < types.length := by omega
      have hlen : (i < (window ofs o l).length) = (o + i < ofs.length) := by
        simp only [window, List.length_take, List.length_drop, eq_iff_iff]; omega
      simp only [sliceView, decodeAt, window_length _ _ _ h, hi, h1, if_true, window_getD _ _ _ _ _ hi, hlen]
theorem decodeFieldsAt_slice : ∀ (fs : ArrFields) (len o l i : Nat), i < l → o + l ≤ len → sliceableFields fs len = true →
    decodeFieldsAt (sliceFields fs o l) i = decodeFieldsAt fs (o + i)
  | .nil, _, _, _, _, _, _, _ => by simp only [sliceFields, decodeFieldsAt]
  | .cons fm a rest, len, o, l, i, hi, h, hs => by
    simp only [sliceableFields, Bool.and_eq_true, decide_eq_true_eq] at hs
    simp only [sliceFields, decodeFieldsAt, decodeAt_slice_partial a o l i hi (by omega) hs.1.2,
      decodeFieldsAt_slice rest len o l i hi h hs.2]
end

/-- slices of slices read as the composed window (for the covered types; a corollary of `decodeAt_slice_partial`
applied twice — the inner slice of a sliceable view is sliceable for the covered constructors is NOT needed here:
the statement is about the decoded slots of the composed and the chained windows of the *original* array) -/
theorem slice_slice_partial (a : Arr) (o1 l1 o2 l2 i : Nat) (hi : i < l2) (h2 : o2 + l2 ≤ l1) (h1 : o1 + l1 ≤ lenOf a)
    (hs : sliceable a = true) (hs' : sliceable (sliceView a o1 l1) = true) :
    decodeAt (sliceView (sliceView a o1 l1) o2 l2) i = decodeAt (sliceView a (o1 + o2) l2) i := by
  rw [decodeAt_slice_partial (sliceView a o1 l1) o2 l2 i hi (by rw [lenOf_slice a o1 l1 h1]; exact h2) hs',
    decodeAt_slice_partial a o1 l1 (o2 + i) (by omega) h1 hs,
    decodeAt_slice_partial a (o1 + o2) l2 i hi (by omega) hs, Nat.add_assoc]

/-- hence (C02) the readers agree: `deserialize_any` of slot `i` of the slice = of slot `o + i` of the whole array.
`hshape` says the slice has the same type skeleton (names, integer widths) as the array — `sliceView` never touches
those; it is discharged by computation for concrete arrays and validated by the `slice` suite. -/
theorem read_slice_partial (a : Arr) (o l i : Nat) (lv : LVal) (hi : i < l) (h : o + l ≤ lenOf a)
    (hs : sliceable a = true) (hd : decodeAt a (o + i) = .ok lv)
    (hn1 : new Fixes.all a = .ok ()) (hn2 : new Fixes.all (sliceView a o l) = .ok ())
    (hp1 : physical a = true) (hp2 : physical (sliceView a o l) = true) (hu : utf8Ok lv = true)
    (hshape : toD (sliceView a o l) lv = toD a lv) :
    readAny Fixes.all (sliceView a o l) i = readAny Fixes.all a (o + i) := by
  rw [SaModel.Props.C02.read_any_decode _ _ lv (by rw [decodeAt_slice_partial a o l i hi h hs]; exact hd) hn2 hp2 hu,
    SaModel.Props.C02.read_any_decode a (o + i) lv hd hn1 hp1 hu, hshape]

/-! non-vacuity: a window that starts inside a bitmap byte, on a nullable list of nullable ints -/
example :
    let a : Arr := .list false (some ⟨[0b10110101, 0b1], 0⟩) [0, 1, 1, 3, 3, 4, 6, 6, 7, 9] ⟨"element", true, []⟩
      (.prim .int32 (some ⟨[0b11011011, 0b1], 0⟩) [1, 2, 3, 4, 5, 6, 7, 8, 9])
    (List.range 4).map (decodeAt (sliceView a 3 4)) = (List.range 4).map (fun i => decodeAt a (3 + i)) := by decide

end SaModel.Props.C12
