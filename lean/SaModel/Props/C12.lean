import SaModel.Lemmas.C12Decode
import SaModel.Lemmas.C12Struct
import SaModel.Lemmas.C12Read
import SaModel.Lemmas.C12Batch
import SaModel.Lemmas.C12WF
import SaModel.Lemmas.C12TypedBulk
import SaModel.Props.C13
/-
C12 — deserializing a slice equals slicing the deserialized values.
Property theorems only (helpers: SaModel/Lemmas/C12*.lean).  `sliceView` (SaModel/Read/Slice.lean) models arrow's
`slice` + marrow's view conversion; `Spec.decodeAt` are the Arrow reading rules; `readAny` / `readAs` are the reader
model (C02): `deserialize_any` and the typed reads driven by a `Target`.

The theorems hold for EVERY array (every constructor incl. FixedSizeList and sparse Union, any nesting).  Hypotheses:
the window bounds, and `sliceable a` — the decidable well-formedness `slice` itself relies on: children that are
sliced ALONG WITH the parent are at least as long as the parent says (Struct children ≥ len, FixedSizeList child ≥ len·n,
sparse-Union children ≥ number of rows).  It is genuinely needed (`sliceable_needed` below) and implied by Arrow validity.
-/
namespace SaModel.Props.C12
open SaModel SaModel.Read SaModel.Spec SaModel.Lemmas.C12

/-- the key bit lemma: a bitmap whose bit offset was advanced by `o`, read at `i`, is the original bitmap read at
`o + i` — windows may start anywhere inside a byte -/
theorem getBit_shift (b : Bits) (o i : Nat) : getBit (shiftBits b o) i = getBit b (o + i) :=
  Lemmas.C12.getBit_shift b o i

theorem withValidity_shift (v : Option Bits) (o i : Nat) (p : R LVal) :
    withValidity (shiftV v o) i p = withValidity v (o + i) p :=
  Lemmas.C12.withValidity_shift v o i p

/-- the length of a slice (all types) -/
theorem lenOf_slice (a : Arr) (o l : Nat) (h : o + l ≤ lenOf a) : lenOf (sliceView a o l) = l :=
  Lemmas.C12.lenOf_slice a o l h

/-! ### decoding commutes with slicing -/

/-- `C12_slice`, slot-wise: reading slot `i` of the slice is reading slot `o + i` of the whole array — for every leaf
type, Struct (children sliced recursively), List / LargeList / Map / dense Union (children untouched, addressed by
absolute offsets), FixedSizeList (child sliced to (o·n, l·n)), sparse Union (children sliced) and Dictionary (keys
sliced), nested to any depth. -/
theorem decodeAt_slice (a : Arr) (o l i : Nat) (hi : i < l) (h : o + l ≤ lenOf a) (hs : sliceable a = true) :
    decodeAt (sliceView a o l) i = decodeAt a (o + i) :=
  Lemmas.C12.decodeAt_slice a o l i hi h hs

/-- hence the decoded rows of the slice are the window of the decoded rows of the whole array -/
theorem decodeAt_slice_rows (a : Arr) (o l : Nat) (h : o + l ≤ lenOf a) (hs : sliceable a = true) :
    (List.range l).map (decodeAt (sliceView a o l)) = (List.range l).map (fun i => decodeAt a (o + i)) := by
  apply List.map_congr_left
  intro i hi
  exact decodeAt_slice a o l i (List.mem_range.mp hi) h hs

/-- `sliceable` cannot be dropped: a Struct of 2 rows whose child has only 1 row (invalid Arrow). `slice(0, 2)` relabels
the child as 2 rows long, so row 1 of the slice decodes while row 1 of the array is out of range. -/
theorem sliceable_needed :
    let a : Arr := .struct 2 none (.cons ⟨"c", false, []⟩ (.struct 1 none .nil) .nil)
    sliceable a = false ∧ 0 + 2 ≤ lenOf a ∧ decodeAt (sliceView a 0 2) 1 ≠ decodeAt a (0 + 1) := by decide

/-- `sliceable` is implied by Arrow validity as spelled out for C03 (`Spec.WFS`, which C03 `C03_wfS` proves of every array
the crate's builders return): every such array may be sliced with any window inside its bounds -/
theorem WF_sliceable (f : Field) (a : Arr) (h : WFS f a = true) : sliceable a = true :=
  Lemmas.C12.WF_sliceable f a h

/-! ### slices of slices -/

/-- slicing twice IS slicing once by the composed window: the two views are equal field for field (bit offsets add,
windows of windows are windows, FixedSizeList / Struct / sparse-Union children recursively).  Structural: no hypothesis
on the array, only that the second window lies inside the first. -/
theorem sliceView_sliceView (a : Arr) (o1 l1 o2 l2 : Nat) (h : o2 + l2 ≤ l1) :
    sliceView (sliceView a o1 l1) o2 l2 = sliceView a (o1 + o2) l2 :=
  sliceView_sliceView' a o1 l1 o2 l2 h

/-- a slice (inside the bounds) of a well-formed view is well-formed: chains of slices stay inside the theorems -/
theorem sliceable_slice (a : Arr) (o l : Nat) (h : o + l ≤ lenOf a) (hs : sliceable a = true) :
    sliceable (sliceView a o l) = true :=
  Lemmas.C12.sliceable_slice a o l h hs

/-- `Spec.WFS` (C03) is the validity of BUILT arrays: bit offset 0, bitmaps of exactly ⌈len/8⌉ bytes, first offset 0,
last offset = child length.  A slice is a VIEW (bit offset `o`, offsets not rebased, buffers shared), so `Spec.WFS` is
not — and should not be — preserved by slicing; the view-level predicates that ARE preserved are `sliceable`
(`sliceable_slice`), `new … = ok` (`new_slice`) and `physical` (`physical_slice`), together `view_hyps_slice` below:
exactly the hypotheses of `decodeAt_slice` / `readAs_slice`, which `Spec.WFS` implies as far as `sliceable` goes
(`WF_sliceable`). -/
theorem WF_not_slice_invariant :
    let f : Field := .mk "c" .int32 true []
    let a : Arr := .prim .int32 (some ⟨[0b01], 0⟩) [1, 2]
    let g : Field := .mk "l" (.list (.mk "element" .int8 false [])) false []
    let b : Arr := .list false none [0, 1, 2] ⟨"element", false, []⟩ (.prim .int8 none [5, 6])
    WFS f a = true ∧ 1 + 1 ≤ lenOf a ∧ WFS f (sliceView a 1 1) = false ∧
    WFS g b = true ∧ 1 + 1 ≤ lenOf b ∧ WFS g (sliceView b 1 1) = false := by decide

/-- slices of slices read as the corresponding window of the original array -/
theorem slice_slice (a : Arr) (o1 l1 o2 l2 i : Nat) (hi : i < l2) (h2 : o2 + l2 ≤ l1) (h1 : o1 + l1 ≤ lenOf a)
    (hs : sliceable a = true) :
    decodeAt (sliceView (sliceView a o1 l1) o2 l2) i = decodeAt a (o1 + o2 + i) := by
  rw [sliceView_sliceView a o1 l1 o2 l2 h2, decodeAt_slice a (o1 + o2) l2 i hi (by omega) hs]

/-! ### the readers -/

/-- slicing never touches the type skeleton (names, integer widths, variant tables) -/
theorem toD_slice (a : Arr) (o l : Nat) (lv : LVal) : toD (sliceView a o l) lv = toD a lv :=
  Lemmas.C12.toD_slice a o l lv

/-- a reader can be built on the slice whenever it can be built on the array (`ArrayDeserializer::new`) -/
theorem new_slice (a : Arr) (o l : Nat) (h : o + l ≤ lenOf a) (hs : sliceable a = true)
    (hn : new Fixes.all a = .ok ()) : new Fixes.all (sliceView a o l) = .ok () :=
  Lemmas.C12.new_slice Fixes.all a o l h hs hn

/-- lengths stay representable (`physical`, C02: what Rust's `usize` guarantees and Lean's unbounded lists do not) -/
theorem physical_slice (a : Arr) (o l : Nat) (h : o + l ≤ lenOf a) (hs : sliceable a = true)
    (hp : physical a = true) : physical (sliceView a o l) = true :=
  Lemmas.C12.physical_slice a o l h hs hp

/-- the hypotheses of the reader theorems below are preserved by slicing (so they hold along chains of slices) -/
theorem view_hyps_slice (a : Arr) (o l : Nat) (h : o + l ≤ lenOf a) (hs : sliceable a = true)
    (hn : new Fixes.all a = .ok ()) (hp : physical a = true) :
    sliceable (sliceView a o l) = true ∧ new Fixes.all (sliceView a o l) = .ok () ∧ physical (sliceView a o l) = true :=
  ⟨sliceable_slice a o l h hs, new_slice a o l h hs hn, physical_slice a o l h hs hp⟩

/-! ### the typed reads (`deserialize_bool`, `…_i32`, `…_str`, `…_option`, `…_seq`, `…_tuple`, `…_map`, `…_struct`,
`…_enum`, …) and `deserialize_any`: EQUALITY OF OUTCOMES

Proved directly by recursion over the target (`Lemmas/C12Typed*.lean`: what each accessor looks at), not through C02:
the two reads agree whether they return a value, an `Err` or unwind — also where the slot has no defined Arrow reading,
where the target does not fit the column, where a string is not UTF-8.  Hypotheses, all decidable and all about the
WHOLE array: the window, `sliceable`, the reader could be built (`new`), lengths fit `usize` (`physical`). -/

mutual
theorem sliceP_all (fx : Fixes) : ∀ (t : Target), SliceP fx t
  | .any => sliceP_any fx
  | .ignored => sliceP_ignored fx
  | .unit => sliceP_unit fx
  | .unitStruct => sliceP_unitStruct fx
  | .bool => sliceP_bool fx
  | .int ty => sliceP_int fx ty
  | .f32 => sliceP_f32 fx
  | .f64 => sliceP_f64 fx
  | .char => sliceP_char fx
  | .string => sliceP_string fx
  | .str => sliceP_str fx
  | .bytes => sliceP_bytes fx
  | .byteBuf => sliceP_byteBuf fx
  | .option t => sliceP_option (sliceP_all fx t)
  | .newtype t => sliceP_newtype (sliceP_all fx t)
  | .seq t => sliceP_seq (sliceP_all fx t)
  | .tuple ts => sliceP_tuple (sliceP_targets fx ts)
  | .tupleStruct ts => sliceP_tupleStruct (sliceP_targets fx ts)
  | .map _ v => sliceP_map (sliceP_all fx v)
  | .struct tfs => sliceP_struct (sliceP_fields fx tfs)
  | .enum byIndex vs => sliceP_enum fx byIndex vs
theorem sliceP_targets (fx : Fixes) : ∀ (ts : Targets), AllT (SliceP fx) ts
  | .nil => by unfold AllT; trivial
  | .cons t r => by unfold AllT; exact ⟨sliceP_all fx t, sliceP_targets fx r⟩
theorem sliceP_fields (fx : Fixes) : ∀ (tfs : TFields), AllF (SliceP fx) tfs
  | .nil => by unfold AllF; trivial
  | .cons _ t r => by unfold AllF; exact ⟨sliceP_all fx t, sliceP_fields fx r⟩
end

/-- `C12_slice` for the typed reads: for EVERY target `t` (all 21 constructors, nested to any depth), reading `t` at
slot `i` of the slice has the same outcome as reading `t` at slot `o + i` of the whole array — the same value, the
same `Err`, the same unwind.  No hypothesis on the slot (it need not decode), on the target (it need not fit the
column) or on the strings (they need not be UTF-8). -/
theorem readAs_slice (t : Target) (a : Arr) (o l i : Nat) (hi : i < l) (h : o + l ≤ lenOf a)
    (hs : sliceable a = true) (hn : new Fixes.all a = .ok ()) (hp : physical a = true) :
    readAs Fixes.all t (sliceView a o l) i = readAs Fixes.all t a (o + i) :=
  sliceP_all Fixes.all t a o l i hi ⟨h, hs, hn, hp⟩

/-- the same for any combination of the `fix:` commits, in particular for the pinned tree (`Fixes.pinned`), where
reads can unwind: slicing does not move a panic either -/
theorem readAs_slice_fx (fx : Fixes) (t : Target) (a : Arr) (o l i : Nat) (hi : i < l) (h : o + l ≤ lenOf a)
    (hs : sliceable a = true) (hn : new fx a = .ok ()) (hp : physical a = true) :
    readAs fx t (sliceView a o l) i = readAs fx t a (o + i) :=
  sliceP_all fx t a o l i hi ⟨h, hs, hn, hp⟩

/-- `deserialize_any` of slot `i` of the slice = of slot `o + i` of the whole array, as outcomes; proved directly
(`readAny_slice`), not through C02 `read_any_decode`: the slot need not decode and its strings need not be UTF-8 -/
theorem read_slice (a : Arr) (o l i : Nat) (hi : i < l) (h : o + l ≤ lenOf a)
    (hs : sliceable a = true) (hn : new Fixes.all a = .ok ()) (hp : physical a = true) :
    readAny Fixes.all (sliceView a o l) i = readAny Fixes.all a (o + i) :=
  readAny_slice Fixes.all a o l i hi ⟨h, hs, hn, hp⟩

/-- slices of slices: the hypotheses need only hold of the original array -/
theorem readAs_slice_slice (t : Target) (a : Arr) (o1 l1 o2 l2 i : Nat) (hi : i < l2) (h2 : o2 + l2 ≤ l1)
    (h1 : o1 + l1 ≤ lenOf a) (hs : sliceable a = true) (hn : new Fixes.all a = .ok ()) (hp : physical a = true) :
    readAs Fixes.all t (sliceView (sliceView a o1 l1) o2 l2) i = readAs Fixes.all t a (o1 + o2 + i) := by
  rw [sliceView_sliceView a o1 l1 o2 l2 h2, readAs_slice t a (o1 + o2) l2 i hi (by omega) hs hn hp]

/-- the whole-slice read (`SeqAccess` loop over all `l` rows of the slice) is the loop over rows `o … o+l-1` of the
whole array; `readRange f s n` is `mapM f` over `s, …, s+n-1` (`readRange_eq_mapM`) -/
theorem readRange_slice (t : Target) (a : Arr) (o l : Nat) (h : o + l ≤ lenOf a)
    (hs : sliceable a = true) (hn : new Fixes.all a = .ok ()) (hp : physical a = true) :
    readRange (readAs Fixes.all t (sliceView a o l)) 0 l = readRange (readAs Fixes.all t a) o l := by
  apply readRange_congr
  intro j hj
  rw [Nat.zero_add]
  exact readAs_slice t a o l j hj h hs hn hp

/-- `new` of the whole array cannot be dropped: FixedSizeBinary(2) over 3 bytes (invalid Arrow; lenOf = 1).
`FixedSizeBinaryDeserializer::new` refuses the array ("not evenly divisible") but accepts its slice (0, 1), whose
data is the 2-byte window. -/
theorem new_needed :
    let a : Arr := .fixedSizeBinary 2 none [1, 2, 3]
    0 + 1 ≤ lenOf a ∧ sliceable a = true ∧ physical a = true ∧ new Fixes.all a ≠ .ok () ∧
    readAs Fixes.all .byteBuf (sliceView a 0 1) 0 ≠ readAs Fixes.all .byteBuf a (0 + 0) := by decide

/-- `physical` cannot be dropped either: a FixedSizeList(2) of 2^63 rows over a Null child of 2^64 slots (no Rust
`usize` holds that length).  Row 2^63 - 1 of the whole array fails the checked `(idx + 1) * n`; the same row is row 0
of the slice (2^63 - 1, 1), where the multiplication is `1 * 2`. -/
theorem physical_needed :
    let a : Arr := .fixedSizeList 9223372036854775808 none 2 ⟨"element", false, []⟩ (.null 18446744073709551616)
    9223372036854775807 + 1 ≤ lenOf a ∧ sliceable a = true ∧ new Fixes.all a = .ok () ∧ physical a = false ∧
    readAny Fixes.all (sliceView a 9223372036854775807 1) 0 ≠ readAny Fixes.all a (9223372036854775807 + 0) := by
  decide

/-- sparse unions: the Arrow-level statement (`decodeAt_slice`) covers them, but the crate never reads one — building
the reader fails (`enum_deserializer.rs`: "Only dense unions are supported"), before and after slicing alike -/
theorem new_sparse_union_fails (types : List Int) (fs : ArrUFields) (o l : Nat) :
    new Fixes.all (.union types none fs) = fail "Only dense unions are supported" ∧
    new Fixes.all (sliceView (.union types none fs) o l) = fail "Only dense unions are supported" := by
  simp only [sliceView, Lemmas.C12.new_sparse_union_fails, and_self]

/-! ### record batches: `RecordBatch::slice(o, l)` slices every column with the one window

`Deserializer::new` (Access.lean `new`, C13) checks the columns' lengths and builds the root reader `batch len cols`;
`get(i)` (Access.lean `getIdx`) hands record `i` to it. -/

/-- the Arrow-level form: record `i` of the sliced batch decodes as record `o + i` of the whole batch -/
theorem batch_decodeAt_slice (cols : ArrFields) (len o l i : Nat) (hi : i < l) (h : o + l ≤ len)
    (hs : sliceableFields cols len = true) :
    decodeAt (batch l (sliceFields cols o l)) i = decodeAt (batch len cols) (o + i) :=
  decodeAt_slice (batch len cols) o l i hi h hs

/-- what `Deserializer::new` does with the sliced batch: if it accepted the whole batch with `len` records and the
columns are well-formed, then for every window `o + l ≤ len` it accepts the sliced batch and reports `l` records, and
the root reader of the whole batch meets the hypotheses of `readAs_slice` -/
theorem batch_ctor_slice (cols : ArrFields) (len o l : Nat)
    (hctor : Access.new true cols.length (colLens cols) = .ok len) (h : o + l ≤ len)
    (hs : sliceableCols cols = true) (hn : newFields Fixes.all cols = .ok ()) :
    Access.new true (sliceFields cols o l).length (colLens (sliceFields cols o l)) = .ok l ∧
    sliceable (batch len cols) = true := by
  obtain ⟨hlen, hall, hnil⟩ := (SaModel.Props.C13.ctor_checks _ _ _).mp hctor
  have hsf : sliceableFields cols len = true := sliceableFields_of_cols Fixes.all cols len hall hn hs
  refine ⟨?_, hsf⟩
  rw [SaModel.Props.C13.ctor_checks]
  refine ⟨by rw [colLens_length], colLens_slice Fixes.all cols len o l h hsf hn, ?_⟩
  intro hnil'
  cases cols with
  | nil => have := hnil rfl; omega
  | cons _ _ _ => simp [sliceFields, colLens] at hnil'

/-- the reader form, one record.  If `Deserializer::new` accepted the whole batch with `len` records (`hctor`) and the
columns are well-formed, then for every window `o + l ≤ len`: the constructor accepts the sliced batch and reports `l`
records, `get i` (i < l) on the slice and `get (o + i)` on the whole batch both hand out a record, and reading them
with ANY target `t` (`T::deserialize(item)`; `t = .any` is `deserialize_any`) has the same outcome. -/
theorem batch_read_slice (t : Target) (cols : ArrFields) (len o l i : Nat)
    (hctor : Access.new true cols.length (colLens cols) = .ok len)
    (hi : i < l) (h : o + l ≤ len) (hs : sliceableCols cols = true)
    (hn : newFields Fixes.all cols = .ok ()) (hp : physicalFields cols = true) :
    Access.new true (sliceFields cols o l).length (colLens (sliceFields cols o l)) = .ok l ∧
    Access.getIdx l i = some i ∧ Access.getIdx len (o + i) = some (o + i) ∧
    readAs Fixes.all t (batch l (sliceFields cols o l)) i = readAs Fixes.all t (batch len cols) (o + i) := by
  obtain ⟨hc, hsf⟩ := batch_ctor_slice cols len o l hctor h hs hn
  refine ⟨hc, ?_, ?_, ?_⟩
  · rw [SaModel.Props.C13.get_eq]; simp only [hi, if_true]
  · rw [SaModel.Props.C13.get_eq]; simp only [show o + i < len by omega, if_true]
  · exact readAs_slice t (batch len cols) o l i hi h hsf hn hp

/-- the bulk form (`Vec<T>::deserialize(&deserializer)`, i.e. `from_record_batch` / `from_arrow`: `visit_seq` over
`DeserializerIterator`, which hands out the indices `Access.bulk`, C13).  Under the hypotheses of `batch_read_slice`:
the constructor accepts the sliced batch with `l` records, and reading ALL records of the sliced batch with target `t`
is reading the records `[o, o + l)` of the whole batch — the same list of values or the same first failure.  In
particular (second part) when the bulk read of the whole batch succeeds with `xs`, the bulk read of the sliced batch
succeeds with the window `[o, o + l)` of `xs`: deserializing the slice = slicing the deserialized values. -/
theorem batch_readAs_slice (t : Target) (cols : ArrFields) (len o l : Nat)
    (hctor : Access.new true cols.length (colLens cols) = .ok len)
    (h : o + l ≤ len) (hs : sliceableCols cols = true)
    (hn : newFields Fixes.all cols = .ok ()) (hp : physicalFields cols = true) :
    Access.new true (sliceFields cols o l).length (colLens (sliceFields cols o l)) = .ok l ∧
    (Access.bulk l).mapM (readAs Fixes.all t (batch l (sliceFields cols o l)))
      = (window (Access.bulk len) o l).mapM (readAs Fixes.all t (batch len cols)) ∧
    (∀ xs, (Access.bulk len).mapM (readAs Fixes.all t (batch len cols)) = .ok xs →
      (Access.bulk l).mapM (readAs Fixes.all t (batch l (sliceFields cols o l))) = .ok (window xs o l)) := by
  obtain ⟨hc, hsf⟩ := batch_ctor_slice cols len o l hctor h hs hn
  have key : (Access.bulk l).mapM (readAs Fixes.all t (batch l (sliceFields cols o l)))
      = (window (Access.bulk len) o l).mapM (readAs Fixes.all t (batch len cols)) := by
    rw [SaModel.Props.C13.bulk_eq_items, SaModel.Props.C13.bulk_eq_items, window_range len o l h,
      List.range_eq_range']
    apply mapM_range'_congr
    intro j hj
    rw [Nat.zero_add]
    exact readAs_slice t (batch len cols) o l j hj h hsf hn hp
  refine ⟨hc, key, ?_⟩
  intro xs hxs
  rw [key]
  exact mapM_ok_take _ _ _ l (mapM_ok_drop _ _ _ o hxs)

/-- the same in terms of the `SeqAccess` loop of the model -/
theorem batch_readRange_slice (t : Target) (cols : ArrFields) (len o l : Nat)
    (hctor : Access.new true cols.length (colLens cols) = .ok len)
    (h : o + l ≤ len) (hs : sliceableCols cols = true)
    (hn : newFields Fixes.all cols = .ok ()) (hp : physicalFields cols = true) :
    readRange (readAs Fixes.all t (batch l (sliceFields cols o l))) 0 l
      = readRange (readAs Fixes.all t (batch len cols)) o l :=
  readRange_slice t (batch len cols) o l h (batch_ctor_slice cols len o l hctor h hs hn).2 hn hp

/-- the one-column record reader the `slice` suite drives (`Reader.record`, `Deserializer::from_marrow(&[field], &[view])`)
is the one-column batch: the record reader over the sliced column is the slice of the record reader over the column -/
theorem record_slice (fm : FieldMeta) (col : Arr) (o l : Nat) (h : o + l ≤ lenOf col) (hs : sliceable col = true)
    (hn : new Fixes.all col = .ok ()) :
    record fm (sliceView col o l) = sliceView (record fm col) o l := by
  simp only [record, sliceView, sliceFields, shiftV, vlen_eq_lenOf Fixes.all _ (new_slice col o l h hs hn), lenOf_slice col o l h]

/-! ### non-vacuity -/

/-- a window that starts inside a bitmap byte, on a nullable list of nullable ints -/
example :
    let a : Arr := .list false (some ⟨[0b10110101, 0b1], 0⟩) [0, 1, 1, 3, 3, 4, 6, 6, 7, 9] ⟨"element", true, []⟩
      (.prim .int32 (some ⟨[0b11011011, 0b1], 0⟩) [1, 2, 3, 4, 5, 6, 7, 8, 9])
    sliceable a = true ∧
    (List.range 4).map (decodeAt (sliceView a 3 4)) = (List.range 4).map (fun i => decodeAt a (3 + i)) := by decide

/-- FixedSizeList(2) of nullable Struct{nullable int8, FixedSizeList(3) of bool}: 5 rows (one null), child of 10, grand
child of 30; the window (1, 3) starts inside the parent's, the child's (bit 2) and the grandchild's (bit 6) bitmap bytes;
every row decodes to a non-error value and the rows differ -/
def fslExample : Arr :=
  .fixedSizeList 5 (some ⟨[0b11011], 0⟩) 2 ⟨"element", true, []⟩
    (.struct 10 (some ⟨[0b11101111, 0b11], 0⟩)
      (.cons ⟨"x", true, []⟩ (.prim .int8 (some ⟨[0b01111011, 0b11], 0⟩) [0, 1, 2, 3, 4, 5, 6, 7, 8, 9])
      (.cons ⟨"y", false, []⟩ (.fixedSizeList 10 none 3 ⟨"element", false, []⟩
          (.boolean 30 none ⟨[0b10010110, 0b01101001, 0b11110000, 0b00101101], 0⟩)) .nil)))

example : sliceable fslExample = true ∧ 1 + 3 ≤ lenOf fslExample ∧
    ((List.range 5).map (decodeAt fslExample)).all (·.isOk) = true ∧
    decodeAt fslExample 1 ≠ decodeAt fslExample 3 ∧ decodeAt fslExample 2 = .ok .null ∧
    (List.range 3).map (decodeAt (sliceView fslExample 1 3)) = (List.range 3).map (fun i => decodeAt fslExample (1 + i)) ∧
    sliceView (sliceView fslExample 1 3) 1 2 = sliceView fslExample 2 2 := by decide

/-- the example is a valid Arrow array of its field in the sense of C03 -/
example : WFS (.mk "c" (.fixedSizeList (.mk "element" (.struct (.cons (.mk "x" .int8 true [])
    (.cons (.mk "y" (.fixedSizeList (.mk "element" .boolean false []) 3) false []) .nil))) true []) 2) true []) fslExample = true := by
  decide

/-- the reader on the same example: all hypotheses of `read_slice` hold for slot 1 + 2, and the read succeeds -/
example : readAny Fixes.all (sliceView fslExample 1 3) 2 = readAny Fixes.all fslExample (1 + 2) ∧
    (readAny Fixes.all fslExample (1 + 2)).isOk = true :=
  ⟨read_slice fslExample 1 3 2 (by decide) (by decide) (by decide) (by decide) (by decide), by decide⟩

/-- typed reads of the same example.  `fslTarget` = `Option<Vec<Option<(Option<i8>, Vec<bool>)>>>` (a tuple read over
the struct column): every row reads successfully (row 2 of the array is null, the others are not, the values differ).
`fslStrict` = `Vec<S>` with `struct S { x: i8, y: Vec<bool> }`: the read succeeds on row 0 and FAILS on row 1 (a null
`x` inside) — and fails the same way on the slice: `readAs_slice` is an equality of outcomes. -/
def fslTarget : Target :=
  .option (.seq (.option (.tuple (.cons (.option (.int .i8)) (.cons (.seq .bool) .nil)))))

def fslStrict : Target := .seq (.struct (.cons "x" (.int .i8) (.cons "y" (.seq .bool) .nil)))

example : (∀ i, i < 3 → readAs Fixes.all fslTarget (sliceView fslExample 1 3) i = readAs Fixes.all fslTarget fslExample (1 + i)) ∧
    ((List.range 5).map (readAs Fixes.all fslTarget fslExample)).all (·.isOk) = true ∧
    readAs Fixes.all fslTarget fslExample 2 = .ok .none ∧
    readAs Fixes.all fslTarget fslExample 1 ≠ readAs Fixes.all fslTarget fslExample 3 :=
  ⟨fun i hi => readAs_slice fslTarget fslExample 1 3 i hi (by decide) (by decide) (by decide) (by decide),
   by decide, by decide, by decide⟩

example : readAs Fixes.all fslStrict (sliceView fslExample 1 3) 0 = readAs Fixes.all fslStrict fslExample (1 + 0) ∧
    (readAs Fixes.all fslStrict fslExample (1 + 0)).isErr = true ∧
    (readAs Fixes.all fslStrict fslExample 0).isOk = true :=
  ⟨readAs_slice fslStrict fslExample 1 3 0 (by decide) (by decide) (by decide) (by decide) (by decide), by decide, by decide⟩

/-- the whole-slice loop on the same example -/
example : readRange (readAs Fixes.all fslTarget (sliceView fslExample 1 3)) 0 3
    = readRange (readAs Fixes.all fslTarget fslExample) 1 3 :=
  readRange_slice fslTarget fslExample 1 3 (by decide) (by decide) (by decide) (by decide)

/-- a sparse union {0: int32, 1: utf8} of 4 rows, window (1, 2) -/
def sparseExample : Arr :=
  .union [0, 1, 1, 0] none
    (.cons 0 ⟨"i", false, []⟩ (.prim .int32 none [10, 11, 12, 13])
    (.cons 1 ⟨"s", false, []⟩ (.bytes .utf8 none [0, 1, 2, 4, 4] [97, 98, 99, 100]) .nil))

example : sliceable sparseExample = true ∧ 1 + 2 ≤ lenOf sparseExample ∧
    decodeAt sparseExample 1 = .ok (.union 1 (.str [98])) ∧ decodeAt sparseExample 2 = .ok (.union 1 (.str [99, 100])) ∧
    (List.range 2).map (decodeAt (sliceView sparseExample 1 2)) = (List.range 2).map (fun i => decodeAt sparseExample (1 + i)) := by
  decide

/-- a record batch of two columns (nullable utf8, FixedSizeList(2) of int16), 3 records, window (1, 2) -/
def batchExample : ArrFields :=
  .cons ⟨"s", true, []⟩ (.bytes .utf8 (some ⟨[0b101], 0⟩) [0, 1, 1, 3] [97, 98, 99])
  (.cons ⟨"p", false, []⟩ (.fixedSizeList 3 none 2 ⟨"element", false, []⟩ (.prim .int16 none [1, 2, 3, 4, 5, 6])) .nil)

example : (Access.new true (sliceFields batchExample 1 2).length (colLens (sliceFields batchExample 1 2)) = .ok 2 ∧
    Access.getIdx 2 1 = some 1 ∧ Access.getIdx 3 (1 + 1) = some (1 + 1) ∧
    readAs Fixes.all .any (batch 2 (sliceFields batchExample 1 2)) 1 = readAs Fixes.all .any (batch 3 batchExample) (1 + 1)) ∧
    (readAs Fixes.all .any (batch 3 batchExample) (1 + 1)).isOk = true :=
  ⟨batch_read_slice .any batchExample 3 1 2 1 (by decide) (by decide) (by decide) (by decide) (by decide) (by decide),
    by decide⟩

/-- the bulk typed read of the same batch into `Vec<Rec>`, `struct Rec { s: Option<String>, p: (i16, i16) }`: the whole
batch reads successfully (3 distinct records, one with `s = None`), so the sliced batch reads as the window of those
records -/
def batchTarget : Target :=
  .struct (.cons "s" (.option .string) (.cons "p" (.seq (.int .i16)) .nil))

/-- the same record as a tuple `(Option<String>, Vec<i16>)` (used to show that the records differ) -/
def batchTuple : Target := .tuple (.cons (.option .string) (.cons (.seq (.int .i16)) .nil))

example : ((Access.bulk 3).mapM (readAs Fixes.all batchTarget (batch 3 batchExample))).isOk = true ∧
    (∀ xs, (Access.bulk 3).mapM (readAs Fixes.all batchTarget (batch 3 batchExample)) = .ok xs →
      (Access.bulk 2).mapM (readAs Fixes.all batchTarget (batch 2 (sliceFields batchExample 1 2))) = .ok (window xs 1 2)) ∧
    readAs Fixes.all batchTuple (batch 3 batchExample) 1 ≠ readAs Fixes.all batchTuple (batch 3 batchExample) 2 :=
  ⟨by decide,
   (batch_readAs_slice batchTarget batchExample 3 1 2 (by decide) (by decide) (by decide) (by decide) (by decide)).2.2,
   by decide⟩

end SaModel.Props.C12
