import SaModel.Props.C12
import SaModel.Read.Annot
import SaModel.Lemmas.C12AnnTyped
/-
C12, annotated reads — the ANNOTATED readers (`Read.readAnyA` / `Read.readAsA`, the model of C18: every typed entry point
of every reader is `try_(…).ctx(self)`) on a slice.  The annotation a reader writes is `rann p a = [("data_type", label),
("field", path)]`: no row index, and neither the label nor the path is touched by `slice`.  So the statements are exact
equalities of outcomes: the same value, the same unwind, the same `Err` WITH THE SAME ANNOTATIONS.
Property theorems only (helpers: SaModel/Lemmas/C12Ann*.lean).
-/
namespace SaModel.Props.C12
open SaModel SaModel.Read SaModel.Spec SaModel.Lemmas.C12

/-- `slice` does not change what a reader annotates (its path and `data_type`) -/
theorem rann_slice (p : String) (a : Arr) (o l : Nat) : rann p (sliceView a o l) = rann p a :=
  Lemmas.C12.rann_slice p a o l

mutual
theorem slicePA_all (af : AnnFixes) (fx : Fixes) : ∀ (t : Target), SlicePA af fx t
  | .any => slicePA_any af fx
  | .ignored => slicePA_ignored af fx
  | .unit => slicePA_unit af fx
  | .unitStruct => slicePA_unitStruct af fx
  | .bool => slicePA_bool af fx
  | .int ty => slicePA_int af fx ty
  | .f32 => slicePA_f32 af fx
  | .f64 => slicePA_f64 af fx
  | .char => slicePA_char af fx
  | .string => slicePA_string af fx
  | .str => slicePA_str af fx
  | .bytes => slicePA_bytes af fx
  | .byteBuf => slicePA_byteBuf af fx
  | .option t => slicePA_option (slicePA_all af fx t)
  | .newtype t => slicePA_newtype (slicePA_all af fx t)
  | .seq t => slicePA_seq (slicePA_all af fx t)
  | .tuple ts => slicePA_tuple (slicePA_targets af fx ts)
  | .tupleStruct ts => slicePA_tupleStruct (slicePA_targets af fx ts)
  | .map _ v => slicePA_map (slicePA_all af fx v)
  | .struct tfs => slicePA_struct (slicePA_fields af fx tfs)
  | .enum byIndex vs => slicePA_enum af fx byIndex vs
theorem slicePA_targets (af : AnnFixes) (fx : Fixes) : ∀ (ts : Targets), AllT (SlicePA af fx) ts
  | .nil => by unfold AllT; trivial
  | .cons t r => by unfold AllT; exact ⟨slicePA_all af fx t, slicePA_targets af fx r⟩
theorem slicePA_fields (af : AnnFixes) (fx : Fixes) : ∀ (tfs : TFields), AllF (SlicePA af fx) tfs
  | .nil => by unfold AllF; trivial
  | .cons _ t r => by unfold AllF; exact ⟨slicePA_all af fx t, slicePA_fields af fx r⟩
end

/-- `C12_slice` for the ANNOTATED typed reads: for every target `t`, every path `p` the reader was built at and both
states of the two C18 `fix:` commits (`af`), reading slot `i` of the slice has the same outcome as reading slot `o + i`
of the whole array — the same value, the same unwind, the same `Err` with the SAME annotations (`data_type`, `field`). -/
theorem readAsA_slice (af : AnnFixes) (p : String) (t : Target) (a : Arr) (o l i : Nat) (hi : i < l) (h : o + l ≤ lenOf a)
    (hs : sliceable a = true) (hn : new Fixes.all a = .ok ()) (hp : physical a = true) :
    readAsA af Fixes.all p t (sliceView a o l) i = readAsA af Fixes.all p t a (o + i) :=
  slicePA_all af Fixes.all t p a o l i hi ⟨h, hs, hn, hp⟩

/-- the same for any combination of the reader `fix:` commits, in particular the pinned tree -/
theorem readAsA_slice_fx (af : AnnFixes) (fx : Fixes) (p : String) (t : Target) (a : Arr) (o l i : Nat) (hi : i < l)
    (h : o + l ≤ lenOf a) (hs : sliceable a = true) (hn : new fx a = .ok ()) (hp : physical a = true) :
    readAsA af fx p t (sliceView a o l) i = readAsA af fx p t a (o + i) :=
  slicePA_all af fx t p a o l i hi ⟨h, hs, hn, hp⟩

/-- annotated `deserialize_any` (the trait default wrapped in `.ctx(self)`, recursively) -/
theorem readAnyA_slice (p : String) (a : Arr) (o l i : Nat) (hi : i < l) (h : o + l ≤ lenOf a)
    (hs : sliceable a = true) (hn : new Fixes.all a = .ok ()) (hp : physical a = true) :
    readAnyA Fixes.all p (sliceView a o l) i = readAnyA Fixes.all p a (o + i) :=
  Lemmas.C12.readAnyA_slice Fixes.all p a o l i hi ⟨h, hs, hn, hp⟩

theorem readAnyA_slice_fx (fx : Fixes) (p : String) (a : Arr) (o l i : Nat) (hi : i < l) (h : o + l ≤ lenOf a)
    (hs : sliceable a = true) (hn : new fx a = .ok ()) (hp : physical a = true) :
    readAnyA fx p (sliceView a o l) i = readAnyA fx p a (o + i) :=
  Lemmas.C12.readAnyA_slice fx p a o l i hi ⟨h, hs, hn, hp⟩

/-- slices of slices: the hypotheses need only hold of the original array -/
theorem readAsA_slice_slice (af : AnnFixes) (p : String) (t : Target) (a : Arr) (o1 l1 o2 l2 i : Nat) (hi : i < l2)
    (h2 : o2 + l2 ≤ l1) (h1 : o1 + l1 ≤ lenOf a) (hs : sliceable a = true) (hn : new Fixes.all a = .ok ())
    (hp : physical a = true) :
    readAsA af Fixes.all p t (sliceView (sliceView a o1 l1) o2 l2) i = readAsA af Fixes.all p t a (o1 + o2 + i) := by
  rw [sliceView_sliceView a o1 l1 o2 l2 h2, readAsA_slice af p t a (o1 + o2) l2 i hi (by omega) hs hn hp]

/-- the whole-slice `SeqAccess` loop -/
theorem readRangeA_slice (af : AnnFixes) (p : String) (t : Target) (a : Arr) (o l : Nat) (h : o + l ≤ lenOf a)
    (hs : sliceable a = true) (hn : new Fixes.all a = .ok ()) (hp : physical a = true) :
    readRange (readAsA af Fixes.all p t (sliceView a o l)) 0 l = readRange (readAsA af Fixes.all p t a) o l := by
  apply readRange_congr
  intro j hj
  rw [Nat.zero_add]
  exact readAsA_slice af p t a o l j hj h hs hn hp

/-! ### record batches -/

/-- one record of a sliced batch, read by the annotated root reader (built at any path `p`; `Deserializer::new` uses `$`) -/
theorem batch_readAsA_slice_item (af : AnnFixes) (p : String) (t : Target) (cols : ArrFields) (len o l i : Nat)
    (hctor : Access.new true cols.length (colLens cols) = .ok len)
    (hi : i < l) (h : o + l ≤ len) (hs : sliceableCols cols = true)
    (hn : newFields Fixes.all cols = .ok ()) (hp : physicalFields cols = true) :
    readAsA af Fixes.all p t (batch l (sliceFields cols o l)) i = readAsA af Fixes.all p t (batch len cols) (o + i) :=
  readAsA_slice af p t (batch len cols) o l i hi h (batch_ctor_slice cols len o l hctor h hs hn).2 hn hp

/-- the bulk form, under the hypotheses of `batch_readAs_slice`: reading ALL records of the sliced batch with the
annotated readers is reading records `[o, o + l)` of the whole batch — the same values or the same first failure with
the same annotations; and when the whole batch reads as `xs`, the sliced batch reads as the window of `xs` -/
theorem batch_readAsA_slice (af : AnnFixes) (p : String) (t : Target) (cols : ArrFields) (len o l : Nat)
    (hctor : Access.new true cols.length (colLens cols) = .ok len)
    (h : o + l ≤ len) (hs : sliceableCols cols = true)
    (hn : newFields Fixes.all cols = .ok ()) (hp : physicalFields cols = true) :
    Access.new true (sliceFields cols o l).length (colLens (sliceFields cols o l)) = .ok l ∧
    (Access.bulk l).mapM (readAsA af Fixes.all p t (batch l (sliceFields cols o l)))
      = (window (Access.bulk len) o l).mapM (readAsA af Fixes.all p t (batch len cols)) ∧
    (∀ xs, (Access.bulk len).mapM (readAsA af Fixes.all p t (batch len cols)) = .ok xs →
      (Access.bulk l).mapM (readAsA af Fixes.all p t (batch l (sliceFields cols o l))) = .ok (window xs o l)) := by
  obtain ⟨hc, hsf⟩ := batch_ctor_slice cols len o l hctor h hs hn
  have key : (Access.bulk l).mapM (readAsA af Fixes.all p t (batch l (sliceFields cols o l)))
      = (window (Access.bulk len) o l).mapM (readAsA af Fixes.all p t (batch len cols)) := by
    rw [SaModel.Props.C13.bulk_eq_items, SaModel.Props.C13.bulk_eq_items, window_range len o l h,
      List.range_eq_range']
    apply mapM_range'_congr
    intro j hj
    rw [Nat.zero_add]
    exact readAsA_slice af p t (batch len cols) o l j hj h hsf hn hp
  refine ⟨hc, key, ?_⟩
  intro xs hxs
  rw [key]
  exact mapM_ok_take _ _ _ l (mapM_ok_drop _ _ _ o hxs)

/-- the instance `Deserializer::new` builds: the root reader sits at `$` -/
theorem batch_readAsA_slice_root (af : AnnFixes) (t : Target) (cols : ArrFields) (len o l : Nat)
    (hctor : Access.new true cols.length (colLens cols) = .ok len)
    (h : o + l ≤ len) (hs : sliceableCols cols = true)
    (hn : newFields Fixes.all cols = .ok ()) (hp : physicalFields cols = true) :
    (Access.bulk l).mapM (readAsA af Fixes.all "$" t (batch l (sliceFields cols o l)))
      = (window (Access.bulk len) o l).mapM (readAsA af Fixes.all "$" t (batch len cols)) :=
  (batch_readAsA_slice af "$" t cols len o l hctor h hs hn hp).2.1

/-- the one-column record reader the `readann` / `slice` suites drive (`readRecordA`: `Deserializer::from_marrow(&[field],
&[view])`, `get(idx)`, `T::deserialize`): the record reader over the sliced column hands out record `i < l` exactly when
the one over the whole column hands out record `o + i`, with the same annotated outcome -/
theorem readRecordA_slice (af : AnnFixes) (t : Target) (fm : FieldMeta) (col : Arr) (o l i : Nat) (hi : i < l)
    (h : o + l ≤ lenOf col) (hs : sliceable col = true) (hm : strategyOk fm.metadata = .ok ())
    (hn : new Fixes.all col = .ok ()) (hp : physical col = true) :
    readRecordA af Fixes.all t fm (sliceView col o l) i = readRecordA af Fixes.all t fm col (o + i) := by
  have hv : vlen col = lenOf col := vlen_eq_lenOf Fixes.all col hn
  have hvs : vlen (sliceView col o l) = l := by
    rw [vlen_eq_lenOf Fixes.all _ (new_slice col o l h hs hn), lenOf_slice col o l h]
  have c1 : ¬ i ≥ l := by omega
  have c2 : ¬ o + i ≥ lenOf col := by omega
  have hr : new Fixes.all (record fm col) = .ok () := by
    simp only [record, new, newFields, hm, hn, bind, Except.bind]
  have hsr : sliceable (record fm col) = true := by
    simp only [record, sliceable, sliceableFields, hv, hs, Nat.le_refl, decide_true, Bool.and_self]
  have hpr : physical (record fm col) = true := by
    simp only [record, physical, physicalFields, hp, Bool.and_self]
  have hlr : o + l ≤ lenOf (record fm col) := by simp only [record, lenOf, hv]; exact h
  simp only [readRecordA, hvs, hv, c1, c2, if_false, record_slice fm col o l h hs hn,
    readAsA_slice af "$" t (record fm col) o l i hi hlr hsr hr hpr]

/-! ### non-vacuity -/

/-- `fslExample` / `fslStrict` of Props/C12.lean (`Vec<S>`, `struct S { x: i8, y: Vec<bool> }` over FixedSizeList(2) of
nullable Struct): row 1 holds a null `x`.  The annotated read fails with the annotations of the INNERMOST reader, the
Int8 reader at `$.element.x` — and the read of row 0 of the slice (1, 3) fails with exactly these annotations. -/
example :
    readAsA AnnFixes.all Fixes.all "$" fslStrict fslExample (1 + 0)
      = .error (.errCtx "Required value was not defined" [("data_type", "Int8"), ("field", "$.element.x")]) ∧
    readAsA AnnFixes.all Fixes.all "$" fslStrict (sliceView fslExample 1 3) 0
      = .error (.errCtx "Required value was not defined" [("data_type", "Int8"), ("field", "$.element.x")]) ∧
    (readAsA AnnFixes.all Fixes.all "$" fslStrict fslExample 0).isOk = true := by
  have e : readAsA AnnFixes.all Fixes.all "$" fslStrict fslExample (1 + 0)
      = .error (.errCtx "Required value was not defined" [("data_type", "Int8"), ("field", "$.element.x")]) := by decide
  refine ⟨e, ?_, by decide⟩
  rw [readAsA_slice AnnFixes.all "$" fslStrict fslExample 1 3 0 (by decide) (by decide) (by decide) (by decide) (by decide)]
  exact e

/-- the same on the pinned tree of the two C18 fixes (no `.ctx` on FixedSizeList / Enum) and along a chain of slices -/
example :
    readAsA AnnFixes.pinned Fixes.all "$" fslStrict (sliceView (sliceView fslExample 0 4) 1 3) 0
      = readAsA AnnFixes.pinned Fixes.all "$" fslStrict fslExample (0 + 1 + 0) ∧
    (readAsA AnnFixes.pinned Fixes.all "$" fslStrict fslExample (0 + 1 + 0)).ann
      = [("data_type", "Int8"), ("field", "$.element.x")] :=
  ⟨readAsA_slice_slice AnnFixes.pinned "$" fslStrict fslExample 0 4 1 3 0 (by decide) (by decide) (by decide) (by decide)
    (by decide) (by decide), by decide⟩

/-- annotated `deserialize_any` on the same example (a successful read) -/
example : readAnyA Fixes.all "$" (sliceView fslExample 1 3) 2 = readAnyA Fixes.all "$" fslExample (1 + 2) ∧
    (readAnyA Fixes.all "$" fslExample (1 + 2)).isOk = true :=
  ⟨readAnyA_slice "$" fslExample 1 3 2 (by decide) (by decide) (by decide) (by decide) (by decide), by decide⟩

/-- a nullable Map<Utf8, Int32> column of 4 rows (row 2 null); the entries' values are 1 | 2, 300 | – | 4 -/
def mapExample : Arr :=
  .map (some ⟨[0b1011], 0⟩) [0, 1, 3, 3, 4] ⟨"entries", false, ⟨"key", false, []⟩, ⟨"value", true, []⟩⟩
    (.bytes .utf8 none [0, 1, 2, 3, 4] [97, 98, 99, 100])
    (.prim .int32 (some ⟨[0b1111], 0⟩) [1, 2, 300, 4])

/-- `HashMap<String, i8>` -/
def mapTarget : Target := .map .string (.int .i8)

/-- a Map column (children NOT sliced) at offset 1: the second entry of row 1 holds the value 300, which does not fit
`i8`; the failure is annotated by the values reader (`$.entries.value`, Int32) — identically on the slice (1, 2) at row 0.
Rows 0 and 3 of the column read successfully. -/
example :
    readAsA AnnFixes.all Fixes.all "$" mapTarget mapExample (1 + 0)
      = .error (.errCtx "out of range integral type conversion attempted"
          [("data_type", "Int32"), ("field", "$.entries.value")]) ∧
    readAsA AnnFixes.all Fixes.all "$" mapTarget (sliceView mapExample 1 2) 0
      = .error (.errCtx "out of range integral type conversion attempted"
          [("data_type", "Int32"), ("field", "$.entries.value")]) ∧
    (readAsA AnnFixes.all Fixes.all "$" mapTarget mapExample 0).isOk = true ∧
    (readAsA AnnFixes.all Fixes.all "$" mapTarget mapExample 3).isOk = true := by
  have e : readAsA AnnFixes.all Fixes.all "$" mapTarget mapExample (1 + 0)
      = .error (.errCtx "out of range integral type conversion attempted"
          [("data_type", "Int32"), ("field", "$.entries.value")]) := by decide
  refine ⟨e, ?_, by decide, by decide⟩
  rw [readAsA_slice AnnFixes.all "$" mapTarget mapExample 1 2 0 (by decide) (by decide) (by decide) (by decide) (by decide)]
  exact e

/-- the record batch of Props/C12.lean read into `struct Rec { s: String, p: Vec<i16> }` (a non-optional `s`): record 1
has a null `s`, so the bulk read of the whole batch and of the window (1, 2) fail alike, annotated by the Utf8 reader at
`$.s`; and the one-column record reader (`readRecordA`) over `mapExample` -/
example :
    (Access.bulk 2).mapM (readAsA AnnFixes.all Fixes.all "$" (.struct (.cons "s" .string (.cons "p" (.seq (.int .i16)) .nil)))
        (batch 2 (sliceFields batchExample 1 2)))
      = (window (Access.bulk 3) 1 2).mapM (readAsA AnnFixes.all Fixes.all "$"
          (.struct (.cons "s" .string (.cons "p" (.seq (.int .i16)) .nil))) (batch 3 batchExample)) ∧
    (window (Access.bulk 3) 1 2).mapM (readAsA AnnFixes.all Fixes.all "$"
          (.struct (.cons "s" .string (.cons "p" (.seq (.int .i16)) .nil))) (batch 3 batchExample))
      = .error (.errCtx "Required value was not defined" [("data_type", "Utf8"), ("field", "$.s")]) ∧
    readRecordA AnnFixes.all Fixes.all (.tuple (.cons mapTarget .nil)) ⟨"m", true, []⟩ (sliceView mapExample 1 2) 0
      = readRecordA AnnFixes.all Fixes.all (.tuple (.cons mapTarget .nil)) ⟨"m", true, []⟩ mapExample (1 + 0) ∧
    readRecordA AnnFixes.all Fixes.all (.tuple (.cons mapTarget .nil)) ⟨"m", true, []⟩ mapExample (1 + 0)
      = some (.error (.errCtx "out of range integral type conversion attempted"
          [("data_type", "Int32"), ("field", "$.m.entries.value")])) :=
  ⟨batch_readAsA_slice_root AnnFixes.all _ batchExample 3 1 2 (by decide) (by decide) (by decide) (by decide) (by decide),
   by decide,
   readRecordA_slice AnnFixes.all _ _ mapExample 1 2 0 (by decide) (by decide) (by decide) (by decide) (by decide) (by decide),
   by decide⟩

end SaModel.Props.C12
