import SaModel.Props.C12
import SaModel.Props.C18
import SaModel.Lemmas.C12Out
/-
C12, reads OUTSIDE the window: what `readAs … (sliceView a o l) i` / `readAny … (sliceView a o l) i` do for `l ≤ i`.
A slice shares its buffers with the whole array (bitmaps: same bytes, bit offset += o; Utf8 / List / Map data and children
untouched), so a reader that looked at a shared buffer before checking the row against the slice's own length could hand
out a value (or the validity) of a row of the WHOLE array that lies outside the window.

Result (`readAs_out_of_window`, `readAny_out_of_window`): with the code that exists (`Fixes.all`) this never happens.
For EVERY array (no well-formedness hypothesis, the window may even stick out of the array), EVERY target and every
`l ≤ i` the read is an `Err` — a `fail` (`Fail.err msg`), never `ok`, never an unwind (`Fail.panic`).  No constructor and
no target is an exception: `Option<T>` (`is_some` checks the row first), `()` over Null, structs without fields — all fail.
In fact it is a statement about lengths, not slices (`readAs_beyond_len`: every read at `idx ≥ lenOf b` of any view `b`
fails), and `lenOf (sliceView a o l) ≤ l` (`lenOf_slice_le`).

It depends on exactly four of the eight reader `fix:` commits (`OutFixes`: bytesGet, fsbZero, structIdx, nullLen); on the
pinned tree each of them is a counterexample class (`pinned_*` below): Utf8 / Binary at `i = l` reads the SHARED validity
bitmap at bit `o + l` (`ok none` if that row of the whole array is null, an unwind `offsets[idx + 1]` if it is valid), the
Null reader and the typed Struct reads do not check the row at all (`ok`), FixedSizeBinary(0) unwinds in `% 0`.
-/
namespace SaModel.Props.C12
open SaModel SaModel.Read SaModel.Spec SaModel.Lemmas.C12

/-- the length of a slice never exceeds `l`, whatever the array and the window -/
theorem lenOf_slice_le (a : Arr) (o l : Nat) : lenOf (sliceView a o l) ≤ l := Lemmas.C12.lenOf_slice_le a o l

/-! ### beyond the length of any view -/

/-- every typed read at a row `idx ≥ lenOf b` of ANY view `b`, for ANY target: an `Err` (`fail`) — never a value, never an
unwind.  No hypothesis on `b`. -/
theorem readAs_beyond_len (t : Target) (b : Arr) (idx : Nat) (h : lenOf b ≤ idx) :
    ∃ msg, readAs Fixes.all t b idx = .error (.err msg) := readAs_beyond OutFixes.all t b idx h

/-- the same for every combination of the `fix:` commits that contains the four of `OutFixes` -/
theorem readAs_beyond_len_fx (fx : Fixes) (hb : fx.bytesGet = true) (hz : fx.fsbZero = true) (hs : fx.structIdx = true)
    (hn : fx.nullLen = true) (t : Target) (b : Arr) (idx : Nat) (h : lenOf b ≤ idx) :
    ∃ msg, readAs fx t b idx = .error (.err msg) := readAs_beyond ⟨hb, hz, hs, hn⟩ t b idx h

theorem readAny_beyond_len (b : Arr) (idx : Nat) (h : lenOf b ≤ idx) :
    ∃ msg, readAny Fixes.all b idx = .error (.err msg) := readAny_beyond OutFixes.all b idx h

/-- `is_some` beyond the length: an `Err` — the validity bitmap is not consulted -/
theorem isSome_beyond_len (b : Arr) (idx : Nat) (h : lenOf b ≤ idx) :
    ∃ msg, isSome Fixes.all b idx = .error (.err msg) := isSome_beyond OutFixes.all b idx h

/-! ### outside the window of a slice -/

/-- a typed read outside the window, `l ≤ i`: an `Err` (`fail`), for every target, every array, every window -/
theorem readAs_out_of_window (t : Target) (a : Arr) (o l i : Nat) (hi : l ≤ i) :
    ∃ msg, readAs Fixes.all t (sliceView a o l) i = .error (.err msg) :=
  readAs_beyond_len t _ i (Nat.le_trans (lenOf_slice_le a o l) hi)

theorem readAs_out_of_window_fx (fx : Fixes) (hb : fx.bytesGet = true) (hz : fx.fsbZero = true)
    (hs : fx.structIdx = true) (hn : fx.nullLen = true) (t : Target) (a : Arr) (o l i : Nat) (hi : l ≤ i) :
    ∃ msg, readAs fx t (sliceView a o l) i = .error (.err msg) :=
  readAs_beyond_len_fx fx hb hz hs hn t _ i (Nat.le_trans (lenOf_slice_le a o l) hi)

/-- `deserialize_any` outside the window: an `Err` (`fail`) -/
theorem readAny_out_of_window (a : Arr) (o l i : Nat) (hi : l ≤ i) :
    ∃ msg, readAny Fixes.all (sliceView a o l) i = .error (.err msg) :=
  readAny_beyond_len _ i (Nat.le_trans (lenOf_slice_le a o l) hi)

theorem isSome_out_of_window (a : Arr) (o l i : Nat) (hi : l ≤ i) :
    ∃ msg, isSome Fixes.all (sliceView a o l) i = .error (.err msg) :=
  isSome_beyond_len _ i (Nat.le_trans (lenOf_slice_le a o l) hi)

/-- spelled out: an out-of-window read never returns a value (in particular no value of the whole array, and not
`None` for an `Option` target either) and never unwinds -/
theorem readAs_out_of_window_never (t : Target) (a : Arr) (o l i : Nat) (hi : l ≤ i) :
    (∀ v, readAs Fixes.all t (sliceView a o l) i ≠ .ok v) ∧
    (∀ s, readAs Fixes.all t (sliceView a o l) i ≠ .error (.panic s)) ∧
    (readAs Fixes.all t (sliceView a o l) i).isErr = true := by
  obtain ⟨msg, h⟩ := readAs_out_of_window t a o l i hi
  rw [h]
  exact ⟨fun v h => (by cases h), fun s h => (by cases h), rfl⟩

/-- the ANNOTATED typed reads outside the window: the same `Err`, annotated by whichever reader raised it (or not at all
where no `.ctx` wrapper applies, e.g. FixedSizeList on the pinned tree of the C18 fixes) — through `eraseAnn_readAsA` (C18) -/
theorem readAsA_out_of_window (af : AnnFixes) (p : String) (t : Target) (a : Arr) (o l i : Nat) (hi : l ≤ i) :
    ∃ msg, readAsA af Fixes.all p t (sliceView a o l) i = .error (.err msg) ∨
      ∃ ann, readAsA af Fixes.all p t (sliceView a o l) i = .error (.errCtx msg ann) := by
  obtain ⟨msg, h⟩ := readAs_out_of_window t a o l i hi
  have he := SaModel.Props.C18.eraseAnn_readAsA af Fixes.all t p (sliceView a o l) i
  rw [h] at he
  refine ⟨msg, ?_⟩
  cases hr : readAsA af Fixes.all p t (sliceView a o l) i with
  | ok v => rw [hr] at he; cases he
  | error e =>
    rw [hr] at he
    cases e with
    | err m => simp only [eraseAnn] at he; cases he; exact Or.inl rfl
    | panic s => simp only [eraseAnn] at he; cases he
    | errCtx m ann => simp only [eraseAnn] at he; cases he; exact Or.inr ⟨ann, rfl⟩

/-- the record level never gets that far: `Deserializer::get(i)` of the one-column record reader over a slice hands out
no item for `l ≤ i` (`ViewExt::len` of a slice is at most `l`) — for every `Fixes` -/
theorem readRecord_out_of_window (fx : Fixes) (t : Target) (fm : FieldMeta) (col : Arr) (o l i : Nat) (hi : l ≤ i) :
    readRecord fx t fm (sliceView col o l) i = none ∧
    ∀ af, readRecordA af fx t fm (sliceView col o l) i = none := by
  have hv : vlen (sliceView col o l) ≤ lenOf (sliceView col o l) := by
    generalize sliceView col o l = b
    cases b with
    | dictionary ks vs => cases ks <;> simp only [vlen, lenOf] <;> omega
    | _ => simp only [vlen, lenOf] <;> exact Nat.le_refl _
  have c : i ≥ vlen (sliceView col o l) := Nat.le_trans hv (Nat.le_trans (lenOf_slice_le col o l) hi)
  simp only [readRecord, readRecordA, c, if_true, implies_true, and_self]

/-! ### non-vacuity, and the pinned tree: every one of the four fixes is needed -/

/-- a nullable Utf8 column "a", "b", null, null; `utf8Valid` is the same with rows 0–2 valid -/
def utf8Nulls : Arr := .bytes .utf8 (some ⟨[0b0011], 0⟩) [0, 1, 2, 3, 4] [97, 98, 99, 100]
def utf8Valid : Arr := .bytes .utf8 (some ⟨[0b0111], 0⟩) [0, 1, 2, 3, 4] [97, 98, 99, 100]

/-- with the code that exists: out of the window of `(0, 2)` — at `i = 2` (a row of the whole array!) and far out — an
`Err` for `Option<String>` too, although row 2 of the whole array is null / is "c"; inside the window the reads succeed -/
example :
    readAs Fixes.all (.option .string) (sliceView utf8Nulls 0 2) 2
      = .error (.err "Invalid access: tried to get element of array") ∧
    readAs Fixes.all (.option .string) (sliceView utf8Valid 0 2) 2
      = .error (.err "Invalid access: tried to get element of array") ∧
    readAny Fixes.all (sliceView utf8Valid 0 2) 100 = .error (.err "Invalid access: tried to get element of array") ∧
    readAs Fixes.all (.option .string) utf8Valid 2 = .ok (.some (.str .owned [99])) ∧
    readAs Fixes.all (.option .string) utf8Nulls 2 = .ok .none ∧
    (readAs Fixes.all (.option .string) (sliceView utf8Valid 0 2) 1).isOk = true := by decide

/-- the theorem on `fslExample`, window (1, 3), rows 3 and 4 (rows 4 and 5 of a 5-row array) -/
example : (readAs Fixes.all fslTarget (sliceView fslExample 1 3) 3).isErr = true ∧
    (readAs Fixes.all fslTarget fslExample (1 + 3)).isOk = true :=
  ⟨(readAs_out_of_window_never fslTarget fslExample 1 3 3 (by decide)).2.2, by decide⟩

/-- pinned tree, class 1 (`bytesGet`): `BytesView::get` accepts `idx = len`.  The SHARED validity bitmap is read at bit
`o + l`: row `o + l` of the whole array is null ⇒ the out-of-window read returns `None` (a value of the whole array); it
is valid ⇒ the read unwinds in `offsets[idx + 1]`.  Only that one fix missing has the same effect. -/
theorem pinned_bytes_out_of_window :
    readAs Fixes.pinned (.option .string) (sliceView utf8Nulls 0 2) 2 = .ok .none ∧
    readAny Fixes.pinned (sliceView utf8Nulls 0 2) 2 = .ok .none ∧
    readAny Fixes.pinned (sliceView utf8Valid 0 2) 2 = .error (.panic "BytesView::get: offsets[idx + 1]") ∧
    readAny { Fixes.all with bytesGet := false } (sliceView utf8Nulls 0 2) 2 = .ok .none := by decide

/-- pinned tree, class 2 (`nullLen`): the Null reader does not check the row — any index reads as `()` / `None` -/
theorem pinned_null_out_of_window :
    readAs Fixes.pinned .unit (sliceView (.null 5) 1 2) 7 = .ok .unit ∧
    readAs Fixes.pinned (.option .unit) (sliceView (.null 5) 1 2) 7 = .ok .none ∧
    readAny { Fixes.all with nullLen := false } (sliceView (.null 5) 1 2) 7 = .ok .none := by decide

/-- pinned tree, class 3 (`structIdx`): the typed Struct reads (`deserialize_struct` / `_tuple` / `_map`) do not check the
row; a struct without fields — or whose fields' readers do not check either — reads `ok` at any index -/
theorem pinned_struct_out_of_window :
    readAs Fixes.pinned (.struct .nil) (sliceView (.struct 5 none .nil) 1 2) 7 = .ok (.map .nil) ∧
    readAs { Fixes.all with structIdx := false } (.tuple .nil)
      (sliceView (.struct 5 none (.cons ⟨"x", false, []⟩ (.prim .int8 none [1, 2, 3, 4, 5]) .nil)) 1 2) 3 = .ok (.seq .nil) ∧
    (readAs Fixes.pinned (.struct (.cons "n" .unit .nil))
      (sliceView (.struct 5 none (.cons ⟨"n", false, []⟩ (.null 5) .nil)) 1 2) 3).isOk = true := by decide

/-- pinned tree, class 4 (`fsbZero`): FixedSizeBinary(0) — every read, in or out of the window, unwinds in `% 0`; with
the fix the out-of-window read is the `Err` of the theorem -/
theorem pinned_fsb_out_of_window :
    readAs Fixes.pinned (.seq (.int .u8)) (sliceView (.fixedSizeBinary 0 none []) 0 0) 0
      = .error (.panic "FixedSizeBinaryDeserializer::new: data.len() % 0") ∧
    readAs { Fixes.all with fsbZero := false } (.seq (.int .u8)) (sliceView (.fixedSizeBinary 0 none []) 0 0) 0
      = .error (.panic "FixedSizeBinaryDeserializer::new: data.len() % 0") ∧
    readAs Fixes.all (.seq (.int .u8)) (sliceView (.fixedSizeBinary 0 none []) 0 0) 0
      = .error (.err "Out of bounds access") := by decide

/-- the other four fixes are irrelevant: with only the four of `OutFixes` the out-of-window reads of the examples fail -/
example :
    let fx : Fixes := { Fixes.pinned with bytesGet := true, fsbZero := true, structIdx := true, nullLen := true }
    ∃ msg, readAs fx (.option .string) (sliceView utf8Nulls 0 2) 2 = .error (.err msg) :=
  readAs_out_of_window_fx _ rfl rfl rfl rfl _ _ _ _ _ (by decide)

/-- annotated, on the Map column of Props/C12Ann-style shape: out of the window the Map reader itself refuses the row -/
example :
    readAsA AnnFixes.all Fixes.all "$" (.map .string (.int .i8))
      (sliceView (.map none [0, 1, 2, 3] ⟨"entries", false, ⟨"key", false, []⟩, ⟨"value", true, []⟩⟩
        (.bytes .utf8 none [0, 1, 2, 3] [97, 98, 99]) (.prim .int32 none [1, 2, 3])) 1 1) 1
      = .error (.errCtx "Out of bounds access" [("data_type", "Map(..)"), ("field", "$")]) := by decide

/-- the record level: no item -/
example : readRecord Fixes.all (.tuple (.cons (.option .string) .nil)) ⟨"c", true, []⟩ (sliceView utf8Nulls 0 2) 2 = none :=
  (readRecord_out_of_window Fixes.all _ _ utf8Nulls 0 2 2 (by decide)).1

end SaModel.Props.C12
