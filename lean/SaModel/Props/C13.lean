import SaModel.Read.Access
/-
C13 — Deserializer random access, iteration and bulk reads agree: the INDICES.
Property theorems only.  Model: SaModel/Read/Access.lean (deserializer.rs).
The values (what reading the index gives, for every batch, history and target), the bulk read as the list of the item
reads, `get` = iteration, and the statements without fuel (`drain_fuel_irrelevant`: the fuel of `iter_items` /
`size_hint_truthful` hides nothing) are in Props/C13Val.lean.
-/
namespace SaModel.Props.C13
open SaModel SaModel.Access

/-- `get` hands out an item for exactly the indices below `len`, and it is item `i` -/
theorem get_isSome_iff (len i : Nat) : (getIdx len i).isSome ↔ i < len := by
  unfold getIdx; split <;> simp <;> omega

theorem get_eq (len i : Nat) : getIdx len i = if i < len then some i else none := by
  unfold getIdx; split <;> split <;> first | rfl | omega

theorem drain_eq_range' (n : Nat) : ∀ (it : Iter), it.next + n = it.len →
    it.drain n = List.range' it.next n := by
  induction n with
  | zero => intro it _; simp [Iter.drain]
  | succ n ih =>
    intro it h
    have hlt : ¬ it.next ≥ it.len := by omega
    simp only [Iter.drain, Iter.step, hlt, if_false]
    rw [ih { it with next := it.next + 1 } (by simp; omega)]
    simp [List.range'_succ]

/-- iteration yields exactly the indices `0 … len-1`, in order -/
theorem iter_items (len : Nat) : (Iter.new len).drain len = List.range len := by
  rw [drain_eq_range' len (Iter.new len) (by simp [Iter.new])]
  simp [Iter.new, List.range_eq_range']

/-- the bulk `SeqAccess` read visits the same indices as iteration and as `get` -/
theorem bulk_eq_items (len : Nat) : bulk len = List.range len := iter_items len

theorem bulk_get (len i : Nat) (h : i < len) : (bulk len)[i]? = getIdx len i := by
  rw [bulk_eq_items, get_eq]; simp [h]

/-- what is still to come from an iterator in a reachable state -/
def remaining (it : Iter) : List Nat := it.drain (it.len - it.next)

/-- size hints are truthful in every state with `next ≤ len` (all reachable states, below) -/
theorem size_hint_truthful (it : Iter) (h : it.next ≤ it.len) :
    it.sizeHint = ((remaining it).length, some (remaining it).length) := by
  unfold remaining
  rw [drain_eq_range' (it.len - it.next) it (by omega)]
  simp [Iter.sizeHint]

theorem step_inv (it : Iter) (h : it.next ≤ it.len) : it.step.2.next ≤ it.step.2.len ∧
    it.step.2.len = it.len := by
  unfold Iter.step; split <;> simp <;> omega

/-- the pinned `size_hint` is *not* truthful: witness len 3 after one `next` -/
theorem size_hint_pinned_wrong :
    ∃ it : Iter, it.next ≤ it.len ∧
      it.sizeHintPinned ≠ ((remaining it).length, some (remaining it).length) :=
  ⟨{ len := 3, next := 1 }, by decide, by decide⟩

/-! ### histories: the operational model refines the abstract sequence spec -/

/-- abstraction relation between iterator cursors and call counts -/
def RelIt (len : Nat) (it : Iter) (c : Nat) : Prop := it.len = len ∧ it.next = min c len

inductive RelL (len : Nat) : List Iter → List Nat → Prop
  | nil : RelL len [] []
  | cons {it c its cs} : RelIt len it c → RelL len its cs → RelL len (it :: its) (c :: cs)

theorem RelL.append {len} {its cs it c} (h : RelL len its cs) (h1 : RelIt len it c) :
    RelL len (its ++ [it]) (cs ++ [c]) := by
  induction h with
  | nil => exact .cons h1 .nil
  | cons hh _ ih => exact .cons hh ih

theorem RelL.get {len} {its cs} (h : RelL len its cs) (k : Nat) :
    (its[k]? = none ∧ cs[k]? = none) ∨ ∃ it c, its[k]? = some it ∧ cs[k]? = some c ∧ RelIt len it c := by
  induction h generalizing k with
  | nil => left; simp
  | cons hh _ ih =>
    cases k with
    | zero => right; exact ⟨_, _, by simp, by simp, hh⟩
    | succ k => simpa using ih k

theorem RelL.set {len} {its cs} (h : RelL len its cs) (k : Nat) {it c} (h1 : RelIt len it c) :
    RelL len (setAt its k it) (setAt cs k c) := by
  induction h generalizing k with
  | nil => simp [setAt]; exact .nil
  | cons hh ht ih =>
    cases k with
    | zero => exact .cons h1 ht
    | succ k => exact .cons hh (ih k)

theorem step_refines (s : St) (cs : SpecSt) (op : Op) (h : RelL s.len s.iters cs) :
    (step s op).2 = (specStep s.len cs op).2 ∧ (step s op).1.len = s.len ∧
      RelL s.len (step s op).1.iters (specStep s.len cs op).1 := by
  cases op with
  | len => exact ⟨rfl, rfl, h⟩
  | isEmpty => exact ⟨rfl, rfl, h⟩
  | get i => refine ⟨?_, rfl, h⟩; simp only [step, specStep, get_eq]
  | iterNew =>
    refine ⟨rfl, rfl, ?_⟩
    exact h.append ⟨rfl, by simp [Iter.new]⟩
  | bulk => refine ⟨?_, (by trivial), h⟩; simp only [step, specStep, bulk_eq_items]
  | iterNext k =>
    rcases h.get k with ⟨h1, h2⟩ | ⟨it, c, h1, h2, hl, hn⟩
    · simp only [step, specStep, h1, h2]; exact ⟨(by trivial), (by trivial), h⟩
    · simp only [step, specStep, h1, h2]
      by_cases hc : c < s.len
      · have : ¬ it.next ≥ it.len := by omega
        simp only [Iter.step, this, if_false, hc, if_true]
        refine ⟨?_, (by trivial), ?_⟩
        · have : it.next = c := by omega
          rw [this]
        · exact h.set k ⟨hl, by simp; omega⟩
      · have : it.next ≥ it.len := by omega
        simp only [Iter.step, this, if_true, hc, if_false]
        refine ⟨(by trivial), (by trivial), ?_⟩
        exact h.set k ⟨hl, by omega⟩
  | iterHint k =>
    rcases h.get k with ⟨h1, h2⟩ | ⟨it, c, h1, h2, hl, hn⟩
    · simp only [step, specStep, h1, h2]; exact ⟨(by trivial), (by trivial), h⟩
    · simp only [step, specStep, h1, h2, Iter.sizeHint]
      refine ⟨?_, (by trivial), h⟩
      have : it.len - it.next = s.len - c := by omega
      rw [this]

/-- **Any access history** (repeated and out-of-order `get`s, any number of partially consumed
iterators, size hints at every step, bulk reads) behaves like the abstract sequence of `len`
items: every `get i`/`next`/bulk element is item `i` of `0..len`, hints equal what remains. -/
theorem histories_refine (ops : List Op) : ∀ (s : St) (cs : SpecSt), RelL s.len s.iters cs →
    run s ops = specRun s.len cs ops := by
  induction ops with
  | nil => intros; rfl
  | cons op ops ih =>
    intro s cs h
    obtain ⟨h1, h2, h3⟩ := step_refines s cs op h
    simp only [run, specRun, h1]
    rw [ih (step s op).1 (specStep s.len cs op).1 (by rw [h2]; exact h3), h2]

theorem histories_from_fresh (len : Nat) (ops : List Op) :
    run { len, iters := [] } ops = specRun len [] ops :=
  histories_refine ops { len, iters := [] } [] .nil

/-! ### constructor checks -/

/-- the repaired constructor succeeds exactly when there are as many arrays as fields and all
arrays have one length, and then reports that length -/
theorem ctor_checks (nf : Nat) (lens : List Nat) (len : Nat) :
    new true nf lens = .ok len ↔
      lens.length = nf ∧ (∀ l ∈ lens, l = len) ∧ (lens = [] → len = 0) := by
  unfold new
  by_cases hc : nf = lens.length
  · subst hc
    cases lens with
    | nil => simp [eq_comm]
    | cons l ls =>
      simp only [List.length_cons, bne_self_eq_false, Bool.and_false, Bool.false_eq_true,
        if_false]
      rw [show List.take (ls.length + 1) (l :: ls) = l :: ls from List.take_length (l := l :: ls)]
      constructor
      · intro h
        split at h
        · rename_i hall
          cases h
          simp only [List.all_eq_true, beq_iff_eq] at hall
          exact ⟨trivial, fun x hx => hall x hx, by simp⟩
        · cases h
      · rintro ⟨_, h2, _⟩
        have : l = len := h2 l (by simp)
        subst this
        have : ((l :: ls).all fun x => x == l) = true := by
          simp only [List.all_eq_true, beq_iff_eq]; exact h2
        simp [this]
  · have : (nf != lens.length) = true := by simp [hc]
    simp [this, fail]
    intro h; exact absurd h.symm hc

/-- the pinned constructor accepted a count mismatch: 2 fields, 1 array -/
theorem ctor_pinned_wrong : new false 2 [1] = .ok 1 := by decide

/-! ### non-vacuity -/
example : run { len := 2, iters := [] }
    [.iterNew, .iterNext 0, .iterHint 0, .get 1, .get 2, .iterNext 0, .iterNext 0, .iterHint 0, .bulk]
  = [.unit, .item (some 0), .hint 1 (some 1), .item (some 1), .item none, .item (some 1),
     .item none, .hint 0 (some 0), .items [0, 1]] := by decide
example : new true 2 [3, 3] = .ok 3 := by decide
example : (new true 2 [3, 4]).isErr = true := by decide
example : (new true 2 [3]).isErr = true := by decide

end SaModel.Props.C13
