import SaModel.Lemmas.C13Iter
import SaModel.Lemmas.C13Ctor
import SaModel.Lemmas.C13Bulk
import SaModel.Backend.Adapters
import SaModel.Lemmas.C19MapM
/-
C13 — Deserializer random access, iteration and bulk reads agree: the VALUES.
Property theorems only.  Model: SaModel/Read/AccessVal.lean (deserializer.rs with the batch in the state; the item reads are
the reader model `Read.readAs` of C02 / C17), index level: SaModel/Read/Access.lean + Props/C13.lean.

  item_value            every output of every access history (get / iter / next / nth / count / last / size_hint / bulk / all
                        items collected and read in reverse / len / is_empty, several live iterators, a target per operation)
                        is the abstract sequence's: the item an operation yields is `Roundtrip.readRecord t fields arrs i`
                        for the index `i` the call-counting specification assigns — a function of (batch, i, t) only
  spec_erases_to_index  on the operations of the index-level model the symbolic specification is `Access.specRun`
  bulk_eq_map           the bulk read is the list of the item reads; it fails iff an item fails, with the FIRST failing item's error
  get_eq_iter           `get(i)` = the `i`-th item of a fresh iteration = `iter().nth(i)`
  iter_yields_*         no fuel: `n` calls of `next` on any reachable iterator, for every `n`; never more than `len` items
  ctor_order            `Deserializer::new` in the order of the Rust code succeeds iff counts agree, all views have one length and
                        the root reader can be built
  from_arrow_is_new     `from_arrow` / `from_record_batch` / `from_arrow2`: count check, conversions, then `Deserializer::new` —
                        every theorem above applies to what they return;  ctors_refuse_count_mismatch
                        (both for an abstract `Backend.Core` under `hcore : core.deserializerNew = Deser.new`)
-/
namespace SaModel.Props.C13
open SaModel SaModel.Access SaModel.AccessVal SaModel.Lemmas

/-! ### one step of a history -/

theorem relIt_le {len : Nat} {it : Iter} {c : Nat} (h : RelIt len it c) : it.next ≤ it.len := by
  obtain ⟨h1, h2⟩ := h; omega

theorem getLast?_range' (s : Nat) : ∀ (n : Nat), (List.range' s n).getLast? = if n = 0 then none else some (s + n - 1)
  | 0 => rfl
  | n + 1 => by
    rw [List.range'_concat]
    simp only [Nat.one_mul, List.getLast?_append, List.getLast?_singleton, Option.some_or, Nat.add_one_ne_zero, if_false]
    congr 1

theorem step_refines_val (d : Deser) (read : Read.Target → Nat → R Read.DVal)
    (hread : ∀ t i, i < d.len → d.item t i = read t i) (s : AccessVal.St) (cs : SpecSt) (op : AccessVal.Op)
    (h : RelL d.len s cs) :
    (AccessVal.step d s op).2 = ((AccessVal.specStep d.len cs op).2).eval read ∧
      RelL d.len (AccessVal.step d s op).1 (AccessVal.specStep d.len cs op).1 := by
  cases op with
  | len => exact ⟨rfl, h⟩
  | isEmpty => exact ⟨rfl, h⟩
  | get i t =>
    refine ⟨?_, h⟩
    simp only [AccessVal.step, AccessVal.specStep, SymOut.eval, get_eq]
    by_cases hi : i < d.len
    · simp only [hi, if_true, Option.map_some, hread t i hi]
    · simp only [hi, if_false, Option.map_none]
  | iterNew => exact ⟨rfl, h.append ⟨rfl, by simp [Iter.new]⟩⟩
  | iterNext k t =>
    rcases h.get k with ⟨h1, h2⟩ | ⟨it, c, h1, h2, hl, hn⟩
    · simp only [AccessVal.step, AccessVal.specStep, h1, h2]; exact ⟨rfl, h⟩
    · simp only [AccessVal.step, AccessVal.specStep, h1, h2, SymOut.eval]
      by_cases hc : c < d.len
      · have hnc : it.next = c := by omega
        rw [C13Iter.step_lt it (by omega)]
        refine ⟨?_, h.set k ⟨hl, by simp only; omega⟩⟩
        simp only [hc, if_true, Option.map_some, hnc, hread t c hc]
      · rw [C13Iter.step_ge it (by omega)]
        refine ⟨?_, h.set k ⟨hl, by simp only; omega⟩⟩
        simp only [hc, if_false, Option.map_none]
  | iterNth k n t =>
    rcases h.get k with ⟨h1, h2⟩ | ⟨it, c, h1, h2, hl, hn⟩
    · simp only [AccessVal.step, AccessVal.specStep, h1, h2]; exact ⟨rfl, h⟩
    · simp only [AccessVal.step, AccessVal.specStep, h1, h2, SymOut.eval]
      rw [C13Iter.nth_eq n it (by omega)]
      by_cases hc : c + n < d.len
      · have hnc : it.next = c := by omega
        have h1' : c + n < it.len := by omega
        refine ⟨?_, h.set k ⟨hl, by simp only; omega⟩⟩
        simp only [hc, if_true, Option.map_some, hnc, h1', hread t (c + n) hc]
      · have h1' : ¬ it.next + n < it.len := by omega
        refine ⟨?_, h.set k ⟨hl, by simp only; omega⟩⟩
        simp only [h1', hc, if_false, Option.map_none]
  | iterCount k =>
    rcases h.get k with ⟨h1, h2⟩ | ⟨it, c, h1, h2, hl, hn⟩
    · simp only [AccessVal.step, AccessVal.specStep, h1, h2]; exact ⟨rfl, h⟩
    · simp only [AccessVal.step, AccessVal.specStep, h1, h2, SymOut.eval, C13Iter.rest_fst, C13Iter.rest_snd,
        List.length_range']
      refine ⟨?_, h.set k ⟨hl, by simp only; omega⟩⟩
      have : it.len - it.next = d.len - c := by omega
      rw [this]
  | iterLast k t =>
    rcases h.get k with ⟨h1, h2⟩ | ⟨it, c, h1, h2, hl, hn⟩
    · simp only [AccessVal.step, AccessVal.specStep, h1, h2]; exact ⟨rfl, h⟩
    · simp only [AccessVal.step, AccessVal.specStep, h1, h2, SymOut.eval, C13Iter.rest_fst, C13Iter.rest_snd,
        getLast?_range']
      refine ⟨?_, h.set k ⟨hl, by simp only; omega⟩⟩
      by_cases hc : c < d.len
      · have h0 : ¬ it.len - it.next = 0 := by omega
        have h1' : it.next + (it.len - it.next) - 1 = d.len - 1 := by omega
        simp only [h0, hc, if_false, if_true, Option.map_some, h1', hread t (d.len - 1) (by omega)]
      · have h0 : it.len - it.next = 0 := by omega
        simp only [h0, hc, if_true, if_false, Option.map_none]
  | iterHint k =>
    rcases h.get k with ⟨h1, h2⟩ | ⟨it, c, h1, h2, hl, hn⟩
    · simp only [AccessVal.step, AccessVal.specStep, h1, h2]; exact ⟨rfl, h⟩
    · simp only [AccessVal.step, AccessVal.specStep, h1, h2, SymOut.eval, Iter.sizeHint]
      refine ⟨?_, h⟩
      have : it.len - it.next = d.len - c := by omega
      rw [this]
  | bulk t =>
    refine ⟨?_, h⟩
    simp only [AccessVal.step, AccessVal.specStep, SymOut.eval, C13Bulk.bulk_eq_mapM]
    rw [C13Bulk.mapM_congr_mem (d.item t) (read t) _ (fun i hi => hread t i (by simpa using hi))]
  | collectRev t =>
    refine ⟨?_, h⟩
    simp only [AccessVal.step, AccessVal.specStep, SymOut.eval, C13Iter.rest_fst, Iter.new, Nat.sub_zero,
      ← List.range_eq_range']
    congr 1
    exact List.map_congr_left (fun i hi => hread t i (by simpa using hi))

theorem histories_refine_val (d : Deser) (read : Read.Target → Nat → R Read.DVal)
    (hread : ∀ t i, i < d.len → d.item t i = read t i) (ops : List AccessVal.Op) :
    ∀ (s : AccessVal.St) (cs : SpecSt), RelL d.len s cs →
      AccessVal.run d s ops = (AccessVal.specRun d.len cs ops).map (SymOut.eval read) := by
  induction ops with
  | nil => intros; rfl
  | cons op ops ih =>
    intro s cs h
    obtain ⟨h1, h2⟩ := step_refines_val d read hread s cs op h
    simp only [AccessVal.run, AccessVal.specRun, List.map_cons, h1]
    rw [ih _ _ h2]

/-! ### (a) the values of a history -/

/-- **item_value.**  A deserializer built from ANY batch (`fields`, `arrs`: arbitrary views, nested, sliced, with bit offsets
— no well-formedness hypothesis), and ANY history of operations on it, each read with a target of its own, any number of
live iterators: the outputs are those of the abstract sequence `specRun` — symbolic outputs `(t, i)` computed from `len`
and per-iterator call counts alone — evaluated with `read t i := Roundtrip.readRecord t fields arrs i`.  So the value an
operation yields is a function of (batch, index, target): not of the history, the iterator it came through, or of the
reads made before. -/
theorem item_value (fields : List Field) (arrs : List Arr) (d : Deser) (h : Deser.new fields arrs = .ok d)
    (ops : List AccessVal.Op) :
    AccessVal.run d [] ops =
      (AccessVal.specRun d.len [] ops).map (SymOut.eval fun t i => Roundtrip.readRecord t fields arrs i) :=
  histories_refine_val d _ (fun t i hi => C13Ctor.item_eq_readRecord h t i hi) ops [] [] .nil

/-- the same for the root reader's own typed read, for a deserializer in any state the record type allows (also one
not obtained from the constructor) -/
theorem item_value_root (d : Deser) (ops : List AccessVal.Op) :
    AccessVal.run d [] ops = (AccessVal.specRun d.len [] ops).map (SymOut.eval d.item) :=
  histories_refine_val d _ (fun _ _ _ => rfl) ops [] [] .nil

/-- every record index the specification hands out is below `len` -/
def SymOut.Below (len : Nat) : SymOut → Prop
  | .item (some (_, i)) => i < len
  | .items _ l => ∀ i ∈ l, i < len
  | .each _ l => ∀ i ∈ l, i < len
  | _ => True

theorem spec_indices_below (len : Nat) (cs : SpecSt) (op : AccessVal.Op) :
    SymOut.Below len (AccessVal.specStep len cs op).2 := by
  cases op with
  | len | isEmpty | iterNew => trivial
  | get i t =>
    simp only [AccessVal.specStep]
    by_cases h : i < len
    · simp only [h, if_true]; exact h
    · simp only [h, if_false]; trivial
  | iterNext k t =>
    simp only [AccessVal.specStep]
    cases cs[k]? with
    | none => trivial
    | some c =>
      by_cases h : c < len
      · simp only [h, if_true]; exact h
      · simp only [h, if_false]; trivial
  | iterNth k n t =>
    simp only [AccessVal.specStep]
    cases cs[k]? with
    | none => trivial
    | some c =>
      by_cases h : c + n < len
      · simp only [h, if_true]; exact h
      · simp only [h, if_false]; trivial
  | iterCount k => simp only [AccessVal.specStep]; cases cs[k]? <;> trivial
  | iterLast k t =>
    simp only [AccessVal.specStep]
    cases cs[k]? with
    | none => trivial
    | some c =>
      by_cases h : c < len
      · simp only [h, if_true]; show len - 1 < len; omega
      · simp only [h, if_false]; trivial
  | iterHint k => simp only [AccessVal.specStep]; cases cs[k]? <;> trivial
  | bulk t => intro i hi; simpa using hi
  | collectRev t => intro i hi; simpa using hi

/-! ### the symbolic specification and the index-level specification of `Read/Access.lean` -/

/-- the operations the index-level model has (no provided `Iterator` methods), without their targets -/
def eraseOp : AccessVal.Op → Option Access.Op
  | .len => some .len
  | .isEmpty => some .isEmpty
  | .get i _ => some (.get i)
  | .iterNew => some .iterNew
  | .iterNext k _ => some (.iterNext k)
  | .iterHint k => some (.iterHint k)
  | .bulk _ => some .bulk
  | _ => none

def eraseOut : SymOut → Access.Out
  | .n x => .n x
  | .b x => .b x
  | .item o => .item (o.map (·.2))
  | .hint lo hi => .hint lo hi
  | .items _ l => .items l
  | .each _ l => .items l
  | .unit => .unit
  | .noSuchIter => .noSuchIter

/-- **spec_erases_to_index.**  On histories of the operations both levels have, forgetting the targets of the symbolic
specification gives the index-level specification `Access.specRun` (the one `histories_refine` is about): the index `i` of
`item_value` IS the index the index-level spec assigns. -/
theorem spec_erases_to_index (len : Nat) : ∀ (ops : List AccessVal.Op) (iops : List Access.Op) (cs : SpecSt),
    ops.mapM eraseOp = some iops →
    (AccessVal.specRun len cs ops).map eraseOut = Access.specRun len cs iops
  | [], iops, cs, h => by
    simp only [List.mapM_nil, pure, Option.some.injEq] at h
    subst h; rfl
  | op :: ops, iops, cs, h => by
    rw [List.mapM_cons] at h
    cases ho : eraseOp op with
    | none => rw [ho] at h; simp [bind, Option.bind] at h
    | some iop =>
      rw [ho] at h
      cases hr : ops.mapM eraseOp with
      | none => rw [hr] at h; simp [bind, Option.bind] at h
      | some irest =>
        rw [hr] at h
        simp only [bind, Option.bind, pure, Option.some.injEq] at h
        subst h
        have key : eraseOut (AccessVal.specStep len cs op).2 = (Access.specStep len cs iop).2 ∧
            (AccessVal.specStep len cs op).1 = (Access.specStep len cs iop).1 := by
          cases op <;> simp only [eraseOp, Option.some.injEq, reduceCtorEq] at ho <;> subst ho
          · exact ⟨rfl, rfl⟩
          · exact ⟨rfl, rfl⟩
          · simp only [AccessVal.specStep, Access.specStep, eraseOut, and_true]
            split <;> rfl
          · exact ⟨rfl, rfl⟩
          · rename_i k t
            simp only [AccessVal.specStep, Access.specStep]
            cases cs[k]? with
            | none => exact ⟨rfl, rfl⟩
            | some c =>
              refine ⟨?_, rfl⟩
              simp only [eraseOut]
              split <;> rfl
          · rename_i k
            simp only [AccessVal.specStep, Access.specStep]
            cases cs[k]? <;> exact ⟨by first | rfl | trivial, by first | rfl | trivial⟩
          · exact ⟨rfl, rfl⟩
        simp only [AccessVal.specRun, Access.specRun, List.map_cons, key.1, key.2]
        rw [spec_erases_to_index len ops irest _ hr]

/-! ### (b) the bulk read -/

/-- **bulk_eq_map.**  `Vec<T>::deserialize(deserializer)` (the `SeqAccess` loop, no fuel) reads the records `0 … len-1` in
order, each as `readRecord t … i`: it succeeds with `xs` exactly when every record read succeeds and `xs` is the list of
their values; it fails with `e` exactly when some record read fails, `e` being the error of the FIRST failing record. -/
theorem bulk_eq_map (fields : List Field) (arrs : List Arr) (d : Deser) (h : Deser.new fields arrs = .ok d)
    (t : Read.Target) :
    d.bulk t = (List.range d.len).mapM (fun i => Roundtrip.readRecord t fields arrs i) ∧
    (∀ xs, d.bulk t = .ok xs ↔
      (List.range d.len).map (fun i => Roundtrip.readRecord t fields arrs i) = xs.map .ok) ∧
    (∀ e, d.bulk t = .error e ↔
      ∃ i, i < d.len ∧ Roundtrip.readRecord t fields arrs i = .error e ∧
        ∀ j, j < i → (Roundtrip.readRecord t fields arrs j).isOk = true) := by
  have h0 : d.bulk t = (List.range d.len).mapM (fun i => Roundtrip.readRecord t fields arrs i) := by
    rw [C13Bulk.bulk_eq_mapM]
    exact C13Bulk.mapM_congr_mem _ _ _ (fun i hi => C13Ctor.item_eq_readRecord h t i (by simpa using hi))
  refine ⟨h0, ?_, ?_⟩
  · intro xs
    rw [h0, List.range_eq_range']
    exact C13Bulk.mapM_range'_ok_iff _ _ _ _
  · intro e
    rw [h0, List.range_eq_range', C13Bulk.mapM_range'_error_iff]
    simp only [Nat.zero_add]

/-- the bulk read of the model is the one `Roundtrip.readAll` (C03 / C04) and `Props/C16.readBatch` are stated with -/
theorem bulk_eq_readAll (fields : List Field) (arrs : List Arr) (d : Deser) (h : Deser.new fields arrs = .ok d)
    (t : Read.Target) : d.bulk t = Roundtrip.readAll t fields arrs := by
  obtain ⟨hf, ha, hc, hr⟩ := (C13Ctor.new_ok_iff fields arrs d).mp h
  unfold Roundtrip.readAll
  rw [hc]
  simp only [bind, Except.bind]
  rw [hr]
  rw [C13Bulk.bulk_eq_mapM, bulk_eq_items]
  exact C13Bulk.mapM_congr_mem _ _ _ (fun i _ => by simp only [Deser.item, Deser.root, hf, ha])

/-! ### (c) `get` and iteration -/

/-- **get_eq_iter.**  `get(i)` read into `t` is the `i`-th item of a fresh iteration read into `t` — of the whole
iteration (`next` until `None`, no fuel) and of `iter().nth(i)` — for every index, in range or not. -/
theorem get_eq_iter (d : Deser) (t : Read.Target) (i : Nat) :
    ((Iter.new d.len).rest.1.map (d.item t))[i]? = (getIdx d.len i).map (d.item t) ∧
    ((Iter.new d.len).nth i).1 = getIdx d.len i ∧
    (AccessVal.run d [] [.iterNew, .iterNth 0 i t])[1]? = (AccessVal.run d [] [.get i t])[0]? := by
  have h1 : ((Iter.new d.len).nth i).1 = getIdx d.len i := by
    rw [C13Iter.nth_eq i _ (by simp [Iter.new]), get_eq]
    simp [Iter.new]
  refine ⟨?_, h1, ?_⟩
  · rw [C13Iter.rest_fst, get_eq]
    simp only [Iter.new, Nat.sub_zero, List.getElem?_map]
    by_cases hi : i < d.len
    · simp [hi]
    · simp [hi]
  · simp only [AccessVal.run, AccessVal.step, List.nil_append, List.getElem?_cons_zero, h1]
    rfl

/-- with the values named: below `len` both are `readRecord t fields arrs i`, from `len` on there is no item -/
theorem get_eq_iter_value (fields : List Field) (arrs : List Arr) (d : Deser) (h : Deser.new fields arrs = .ok d)
    (t : Read.Target) (i : Nat) :
    ((Iter.new d.len).rest.1.map (d.item t))[i]? =
      if i < d.len then some (Roundtrip.readRecord t fields arrs i) else none := by
  rw [(get_eq_iter d t i).1, get_eq]
  by_cases hi : i < d.len
  · simp only [hi, if_true, Option.map_some, C13Ctor.item_eq_readRecord h t i hi]
  · simp only [hi, if_false, Option.map_none]

/-! ### (d) iteration without fuel -/

/-- **iter_yields_exactly.**  ANY number `n` of calls of `next` on an iterator in a reachable state (`next ≤ len`): the
first `min n (len - next)` calls yield the records `next, next+1, …` in order, every further call yields `None`, and the
cursor never passes `len`.  (`n` is the number of calls, not a fuel bound.) -/
theorem iter_yields_exactly (it : Iter) (h : it.next ≤ it.len) (n : Nat) :
    (it.nexts n).1 = (List.range' it.next (min n (it.len - it.next))).map some ++
      List.replicate (n - (it.len - it.next)) none ∧
    (it.nexts n).2 = { it with next := min (it.next + n) it.len } := by
  rw [C13Iter.nexts_eq]
  refine ⟨rfl, ?_⟩
  by_cases hge : it.next ≥ it.len
  · simp only [hge, if_true]
    have : min (it.next + n) it.len = it.next := by omega
    rw [this]
  · simp only [hge, if_false]

/-- **iter_yields_at_most_len.**  A fresh iterator never yields more than `len` items, however often `next` is called;
called at least `len` times it has yielded exactly the records `0 … len-1`, in order. -/
theorem iter_yields_at_most_len (len n : Nat) :
    (((Iter.new len).nexts n).1.filterMap id).length ≤ len ∧
    (len ≤ n → ((Iter.new len).nexts n).1.filterMap id = List.range len) := by
  rw [(iter_yields_exactly (Iter.new len) (by simp [Iter.new]) n).1]
  have hf : ∀ (l : List Nat) (k : Nat), ((l.map some) ++ List.replicate k none).filterMap id = l := by
    intro l k
    rw [List.filterMap_append]
    have h1 : (l.map some).filterMap id = l := by
      induction l with
      | nil => rfl
      | cons a l ih => simp only [List.map_cons, List.filterMap_cons, id, ih]
    have h2 : (List.replicate k (none : Option Nat)).filterMap id = [] := by
      induction k with
      | zero => rfl
      | succ k ih => simp only [List.replicate_succ, List.filterMap_cons, id, ih]
    rw [h1, h2, List.append_nil]
  rw [hf]
  simp only [Iter.new, Nat.sub_zero, List.length_range']
  refine ⟨by omega, ?_⟩
  intro hn
  have : min n len = len := by omega
  rw [this, List.range_eq_range']

/-- **drain_fuel_irrelevant.**  The fuelled `drain` of `Read/Access.lean` (by which `Access.bulk`, `iter_items` and
`size_hint_truthful` are stated): for EVERY fuel it yields at most `len - next` items, and every fuel that covers
`len - next` gives the same list — the one `next`-until-`None` gives without any fuel.  So `iter_items` /
`size_hint_truthful` do not hide a longer iteration behind the fuel. -/
theorem drain_fuel_irrelevant (it : Iter) (fuel : Nat) :
    (it.drain fuel).length ≤ it.len - it.next ∧
    (it.len - it.next ≤ fuel → it.drain fuel = it.rest.1 ∧ it.drain fuel = it.drain (it.len - it.next)) := by
  refine ⟨C13Iter.drain_length_le fuel it, fun h => ?_⟩
  rw [C13Iter.drain_fuel fuel it h, C13Iter.drain_fuel _ it (Nat.le_refl _), C13Iter.rest_fst]
  exact ⟨rfl, rfl⟩

/-- `remaining` (Props/C13.lean, the right-hand side of `size_hint_truthful`) is what `next`-until-`None` still yields -/
theorem remaining_eq_rest (it : Iter) : remaining it = it.rest.1 :=
  (drain_fuel_irrelevant it (it.len - it.next)).2 (Nat.le_refl _) |>.1

/-! ### the constructors -/

/-- **ctor_order.**  `Deserializer::new` in the order of the Rust code (count check; `len` from the first view; per column
length check, strategy, `ArrayDeserializer::new`) succeeds exactly when the count / length checks (`Access.new`,
`ctor_checks`) and the construction of the root reader (`Read.new`) both succeed, and then reports that length: in
particular a zero-length array before a longer one is refused. -/
theorem ctor_order (fields : List Field) (arrs : List Arr) (d : Deser) :
    Deser.new fields arrs = .ok d ↔
      d.fields = fields ∧ d.arrs = arrs ∧
      (arrs.length = fields.length ∧ (∀ a ∈ arrs, Read.vlen a = d.len) ∧ (arrs = [] → d.len = 0)) ∧
      Read.new Read.Fixes.all (Roundtrip.rootArr fields arrs d.len) = .ok () := by
  rw [C13Ctor.new_ok_iff, ctor_checks]
  simp only [List.length_map, List.mem_map, forall_exists_index, and_imp, forall_apply_eq_imp_iff₂, List.map_eq_nil_iff]

section
variable {OB Items Out AF AA : Type}

/-- **from_arrow_is_new.**  `Deserializer::from_arrow(fields, arrays)`, `from_record_batch(batch)` and
`from_arrow2(fields, arrays)` (Backend/Adapters.lean: count check first, then marrow's conversions — parameters `cv` —
then the core's `Deserializer::new`) with the constructor of this model as the core: whatever they return was returned
by `Deser.new` on the converted fields and views, as many fields as arrays.  Every theorem about `Deser.new` (`item_value`,
`bulk_eq_map`, `get_eq_iter`, `ctor_order`) therefore applies to deserializers built from arrow / arrow2 arrays. -/
theorem from_arrow_is_new (core : Backend.Core OB Items Deser Out) (hcore : core.deserializerNew = Deser.new)
    (cv : Backend.Conv AF AA) (afs : List AF) (as : List AA) (d : Deser) :
    (Backend.Deserializer.fromArrow core cv afs as = .ok d →
      afs.length = as.length ∧ ∃ fields arrs, Backend.fieldsFromFieldRefs cv afs = .ok fields ∧
        as.mapM cv.viewOf = .ok arrs ∧ Deser.new fields arrs = .ok d) ∧
    (Backend.Deserializer.fromArrow2 core cv afs as = .ok d →
      afs.length = as.length ∧ ∃ fields arrs, afs.mapM cv.fieldToMarrow = .ok fields ∧
        as.mapM cv.viewOf = .ok arrs ∧ Deser.new fields arrs = .ok d) ∧
    (∀ md, Backend.Deserializer.fromRecordBatch core cv { fields := afs, schemaMetadata := md, columns := as } =
      Backend.Deserializer.fromArrow core cv afs as) := by
  refine ⟨?_, ?_, fun _ => rfl⟩
  · intro h
    unfold Backend.Deserializer.fromArrow at h
    by_cases hc : afs.length = as.length
    · have hb : (afs.length != as.length) = false := by simp [hc]
      simp only [hb, Bool.false_eq_true, if_false] at h
      cases hf : Backend.fieldsFromFieldRefs cv afs with
      | error e => rw [hf] at h; simp [bind, Except.bind] at h
      | ok fields =>
        cases hv : as.mapM cv.viewOf with
        | error e => rw [hf, hv] at h; simp [bind, Except.bind] at h
        | ok arrs =>
          rw [hf, hv, hcore] at h
          exact ⟨hc, fields, arrs, rfl, rfl, h⟩
    · have hb : (afs.length != as.length) = true := by simp [hc]
      simp [hb, Backend.countMismatch, fail] at h
  · intro h
    unfold Backend.Deserializer.fromArrow2 at h
    by_cases hc : afs.length = as.length
    · have hb : (afs.length != as.length) = false := by simp [hc]
      simp only [hb, Bool.false_eq_true, if_false] at h
      cases hf : afs.mapM cv.fieldToMarrow with
      | error e => rw [hf] at h; simp [bind, Except.bind] at h
      | ok fields =>
        cases hv : as.mapM cv.viewOf with
        | error e => rw [hf, hv] at h; simp [bind, Except.bind] at h
        | ok arrs =>
          rw [hf, hv, hcore] at h
          exact ⟨hc, fields, arrs, rfl, rfl, h⟩
    · have hb : (afs.length != as.length) = true := by simp [hc]
      simp [hb, Backend.countMismatch, fail] at h
/-- **ctors_refuse_count_mismatch.**  A different number of fields and arrays is refused — an error, not a panic — by all
four constructors: by `from_marrow` through the first statement of `Deserializer::new`, by `from_arrow` /
`from_record_batch` / `from_arrow2` through their own check, before any conversion (`Props/C19.reader_count_mismatch_refused`
for an abstract core; here for the constructor of this model). -/
theorem ctors_refuse_count_mismatch (core : Backend.Core OB Items Deser Out) (hcore : core.deserializerNew = Deser.new)
    (cv : Backend.Conv AF AA) :
    (∀ (fields : List Field) (arrs : List Arr), fields.length ≠ arrs.length →
      (Backend.Deserializer.fromMarrow core fields arrs).isErr = true) ∧
    (∀ (afs : List AF) (as : List AA), afs.length ≠ as.length →
      (Backend.Deserializer.fromArrow core cv afs as).isErr = true ∧
      (Backend.Deserializer.fromArrow2 core cv afs as).isErr = true ∧
      ∀ md, (Backend.Deserializer.fromRecordBatch core cv { fields := afs, schemaMetadata := md, columns := as }).isErr = true) := by
  constructor
  · intro fields arrs h
    have hb : (fields.length != arrs.length) = true := by simp [h]
    simp only [Backend.Deserializer.fromMarrow, hcore, Deser.new, hb, if_true]
    rfl
  · intro afs as h
    have hb : (afs.length != as.length) = true := by simp [h]
    have h1 : (Backend.Deserializer.fromArrow core cv afs as).isErr = true := by
      simp only [Backend.Deserializer.fromArrow, hb, if_true]; rfl
    refine ⟨h1, ?_, fun _ => h1⟩
    simp only [Backend.Deserializer.fromArrow2, hb, if_true]; rfl
end

/-! ### non-vacuity -/

/-- a batch of two columns, 3 records: nullable utf8 `s` = ["a", null, "bc"] (validity with a bit offset of 3 into its
byte), `p` = FixedSizeList(2) of int16 [[1,2],[3,4],[5,6]] -/
def exFields : List Field := [.mk "s" .utf8 true [], .mk "p" .null false []]
def exArrs : List Arr :=
  [.bytes .utf8 (some ⟨[0b101000], 3⟩) [0, 1, 1, 3] [97, 98, 99],
   .fixedSizeList 3 none 2 ⟨"element", false, []⟩ (.prim .int16 none [1, 2, 3, 4, 5, 6])]
def exD : Deser := { fields := exFields, arrs := exArrs, len := 3 }

theorem exNew : Deser.new exFields exArrs = .ok exD :=
  (C13Ctor.new_ok_iff exFields exArrs exD).mpr ⟨rfl, rfl, by decide, by decide⟩

/-- `(Option<String>, Vec<i16>)`, and `(String, Vec<i64>)` (fails on the null) -/
def exRec : Read.Target := .tuple (.cons (.option .string) (.cons (.seq (.int .i16)) .nil))
def exStrict : Read.Target := .tuple (.cons .string (.cons (.seq (.int .i64)) .nil))

/-- a history with two interleaved iterators, provided methods, the same index read three times with three targets (by
index, through `nth`, through `last`), reads past the end, a bulk read that succeeds and one that fails -/
def exOps : List AccessVal.Op :=
  [.iterNew, .iterNew, .iterNext 0 exRec, .get 2 .any, .iterNth 1 2 exRec, .iterHint 0, .iterNext 1 .any, .get 2 exStrict,
   .iterLast 0 exStrict, .iterCount 0, .iterHint 0, .get 3 .any, .get 1 exStrict, .bulk exRec, .bulk exStrict,
   .collectRev (.tuple (.cons (.option .str) .nil))]

/-- `item_value` on it, and what the symbolic specification evaluates to: index 2 gives three different renderings of one
record, the strict read of record 1 fails, the strict bulk read fails with exactly that error -/
example : AccessVal.run exD [] exOps =
      (AccessVal.specRun 3 [] exOps).map (SymOut.eval fun t i => Roundtrip.readRecord t exFields exArrs i) ∧
    (AccessVal.run exD [] exOps)[3]? = some (.item (some (Roundtrip.readRecord .any exFields exArrs 2))) ∧
    (AccessVal.run exD [] exOps)[4]? = some (.item (some (Roundtrip.readRecord exRec exFields exArrs 2))) ∧
    (AccessVal.run exD [] exOps)[6]? = some (.item none) ∧
    (AccessVal.run exD [] exOps)[8]? = some (.item (some (Roundtrip.readRecord exStrict exFields exArrs 2))) ∧
    (AccessVal.run exD [] exOps)[9]? = some (.n 0) ∧
    (AccessVal.run exD [] exOps)[10]? = some (.hint 0 (some 0)) ∧
    (AccessVal.run exD [] exOps)[11]? = some (.item none) ∧
    (Roundtrip.readRecord .any exFields exArrs 2).isOk = true ∧
    (Roundtrip.readRecord exStrict exFields exArrs 1).isErr = true ∧
    (Roundtrip.readRecord exStrict exFields exArrs 2).isOk = true ∧
    Roundtrip.readRecord exRec exFields exArrs 2 ≠ Roundtrip.readRecord exStrict exFields exArrs 2 ∧
    Roundtrip.readRecord exRec exFields exArrs 0 ≠ Roundtrip.readRecord exRec exFields exArrs 2 := by
  rw [item_value exFields exArrs exD exNew exOps]
  exact ⟨rfl, rfl, rfl, rfl, rfl, rfl, rfl, rfl, by decide, by decide, by decide, by decide, by decide⟩

/-- `bulk_eq_map`: the successful bulk read is the list of the three record reads; the strict one fails with record 1's error -/
example : (exD.bulk exRec).isOk = true ∧
    exD.bulk exStrict = (Roundtrip.readRecord exStrict exFields exArrs 1 >>= fun _ => .ok []) ∧
    (exD.bulk exStrict).isErr = true := by
  obtain ⟨h0, _, _⟩ := bulk_eq_map exFields exArrs exD exNew exRec
  obtain ⟨h0', _, _⟩ := bulk_eq_map exFields exArrs exD exNew exStrict
  rw [h0, h0']
  decide

/-- `get_eq_iter` at an index in range and one past the end -/
example : ((Iter.new exD.len).rest.1.map (exD.item exRec))[2]? = some (Roundtrip.readRecord exRec exFields exArrs 2) ∧
    ((Iter.new exD.len).rest.1.map (exD.item exRec))[3]? = none :=
  ⟨get_eq_iter_value exFields exArrs exD exNew exRec 2, get_eq_iter_value exFields exArrs exD exNew exRec 3⟩

/-- `iter_yields_exactly`: 5 calls of `next` on an iterator of 3 records that has already yielded one -/
example : (({ len := 3, next := 1 } : Iter).nexts 5).1 = [some 1, some 2, none, none, none] := by decide

/-- `ctor_order`: a zero-length array BEFORE a longer one is refused, as are a longer one before it, a count mismatch, a
column whose reader cannot be built (dictionary of dates) although all lengths agree; zero columns give zero records -/
example : (Deser.new [.mk "a" .null false [], .mk "b" .null false []] [.null 0, .null 3]).isErr = true ∧
    (Deser.new [.mk "a" .null false [], .mk "b" .null false []] [.null 3, .null 0]).isErr = true ∧
    (Deser.new [.mk "a" .null false [], .mk "b" .null false [], .mk "c" .null false []] [.null 3, .null 0, .null 3]).isErr = true ∧
    (Deser.new [.mk "a" .null false []] [.null 3, .null 3]).isErr = true ∧
    (Deser.new [.mk "a" .null false []] [.dictionary (.prim .int8 none [0]) (.prim .date32 none [7])]).isErr = true ∧
    (Deser.new [] []).isOk = true := by decide

/-- `from_arrow_is_new` with marrow as its own back end (`Conv.id`) -/
example : ∃ d, Backend.Deserializer.fromArrow
    ({ newOuter := fun _ => .ok (), serialize := fun _ _ => .ok (), takeArrays := fun _ => .ok ([], ()),
       deserializerNew := Deser.new, deserialize := fun _ => .ok () } : Backend.Core Unit Unit Deser Unit)
    Backend.Conv.id exFields exArrs = .ok d ∧ d.len = 3 :=
  ⟨exD, by
    simp only [Backend.Deserializer.fromArrow, Backend.fieldsFromFieldRefs, Backend.Conv.id, Lemmas.C19.mapM_pure_id]
    exact exNew, rfl⟩

end SaModel.Props.C13
