import SaModel.Lemmas.C14Span
import SaModel.Codec.Time
import SaModel.Lemmas.C14Time
import SaModel.Lemmas.C14DateStr
/-
C14 — date, time, timestamp and duration conversions are exact.

Property theorems.  Models: SaModel/Codec/Span.lean (serde_arrow/src/internal/chrono.rs), Calendar.lean,
Time.lean (the date / time / timestamp / duration builders and readers).  Specification definitions used in
the statements: `specDuration`, `totalNanos`, `fracNanos` (Lemmas/C14Span.lean), `instantNanos` (below).
chrono's parsers and the proleptic Gregorian calendar are EXTERNAL: they appear in the statements as the named
model functions `parseNaiveTime`, `parseNaiveDate`, `daysFromCivil` … whose agreement with chrono / jiff is
checked by the `temporal` correspondence suite, not proved.  What IS proved about the calendar model: the two
Hinnant algorithms are mutually inverse bijections between ℤ and the valid civil dates (`days_civil_roundtrip`,
`civil_days_roundtrip`, `civilFromDays_valid`), and the parsers (model) read every string the readers (model)
produce back to the stored integer (`date_roundtrip`, `timestamp_roundtrip`).
-/
namespace SaModel.Props.C14
open SaModel SaModel.Codec

/-! ## spans and durations -/

/-- **span_parse_exact** (value): a parsed span converts to exactly `sign · ⌊totalNanos / nsPer unit⌋`, where
`totalNanos` takes *every* sub-second digit into account (`fracNanos = ⌊0.f · 10^9⌋`): digits beyond the ninth
are dropped, the magnitude is truncated to the unit -/
theorem span_parse_exact (s : List Char) (sp : Span) (u : TimeUnit) (v : Int)
    (hp : parseSpan s = .ok sp) (hv : sp.toArrowDuration u = .ok v) :
    v = (if sp.sign = some '-' then -1 else 1) * ((totalNanos sp / u.nsPer : Nat) : Int) ∧
      optVal sp.year = 0 ∧ optVal sp.month = 0 ∧ inI64 v = true := by
  have hd := parseSpan_digits hp
  cases hs : specDuration sp u with
  | none =>
    obtain ⟨m, e⟩ := toArrowDuration_err sp u hd hs
    rw [e] at hv; cases hv
  | some v' =>
    have e := toArrowDuration_ok sp u hd v' hs
    rw [e] at hv; cases hv
    unfold specDuration at hs
    split at hs
    · cases hs
    · rename_i hym
      split at hs
      · rename_i hin
        cases hs
        refine ⟨?_, by omega, by omega, hin⟩
        unfold specSigned specMagnitude
        split <;> omega
      · cases hs

/-- **span_parse_exact** (outcome): for a parsed span the conversion succeeds exactly when the specification
defines a value … -/
theorem span_ok_iff (s : List Char) (sp : Span) (u : TimeUnit) (v : Int) (hp : parseSpan s = .ok sp) :
    sp.toArrowDuration u = .ok v ↔ specDuration sp u = some v := by
  have hd := parseSpan_digits hp
  constructor
  · intro hv
    cases hs : specDuration sp u with
    | none => obtain ⟨m, e⟩ := toArrowDuration_err sp u hd hs; rw [e] at hv; cases hv
    | some v' => have e := toArrowDuration_ok sp u hd v' hs; rw [e] at hv; cases hv; rfl
  · exact toArrowDuration_ok sp u hd v

/-- … and is an *error* (never a panic) exactly when years / months are non-zero or the exact result is
outside i64 -/
theorem span_err_iff (s : List Char) (sp : Span) (u : TimeUnit) (hp : parseSpan s = .ok sp) :
    (∃ m, sp.toArrowDuration u = .error (.err m)) ↔
      (optVal sp.year ≠ 0 ∨ optVal sp.month ≠ 0 ∨ inI64 (specSigned sp u) = false) := by
  have hd := parseSpan_digits hp
  constructor
  · intro ⟨m, hm⟩
    cases hs : specDuration sp u with
    | some v' => have e := toArrowDuration_ok sp u hd v' hs; rw [e] at hm; cases hm
    | none =>
      unfold specDuration at hs
      split at hs
      · rename_i h; omega
      · split at hs
        · cases hs
        · rename_i hin; right; right; simpa using hin
  · intro h
    apply toArrowDuration_err sp u hd
    unfold specDuration
    by_cases hym : optVal sp.year ≠ 0 ∨ optVal sp.month ≠ 0
    · rw [if_pos hym]
    · rw [if_neg hym]
      have : inI64 (specSigned sp u) = false := by
        rcases h with h | h | h
        · exact absurd (Or.inl h) hym
        · exact absurd (Or.inr h) hym
        · exact h
      rw [this]; rfl

/-- writing any string into a Duration column never panics -/
theorem span_no_panic (s : List Char) (u : TimeUnit) : (durationOfString s u).isPanic = false := by
  unfold durationOfString
  cases hp : parseSpan s with
  | error e =>
    unfold parseSpan at hp
    split at hp
    · cases hp
    · cases hp; rfl
  | ok sp =>
    simp only [bind, Except.bind]
    have hd := parseSpan_digits hp
    cases hs : specDuration sp u with
    | none => obtain ⟨m, e⟩ := toArrowDuration_err sp u hd hs; rw [e]; rfl
    | some v => rw [toArrowDuration_ok sp u hd v hs]; rfl

/-- sub-second digits beyond the ninth are dropped: the builder's nine-digit computation is the floor of the
exact fraction -/
theorem subsecond_digits_dropped (ds : List Char) (h : AllDigits ds) :
    digitsVal (ds.take 9) * 10 ^ (9 - (ds.take 9).length) = digitsVal ds * 10 ^ 9 / 10 ^ ds.length :=
  frac_take9 h

/-- **duration_roundtrip**: every i64 (including `i64::MIN`), formatted by the reader in any unit, is parsed
back by the builder to the same value -/
theorem duration_roundtrip (v : Int) (u : TimeUnit) (hv : inI64 v = true) :
    durationOfString (formatArrowDurationAsSpan v u) u = .ok v := by
  unfold durationOfString formatArrowDurationAsSpan
  cases u with
  | second =>
    simp only [formatMagnitude]
    rw [parse_format_plain]
    simp only [bind, Except.bind]
    apply toArrowDuration_ok _ _ (by intro ds h; cases h)
    apply specDuration_formatted v _ hv _ rfl rfl rfl
    simp only [totalNanos, secondsTotal, optVal, fracNanos, digitsVal_natDigits, TimeUnit.nsPer]
    omega
  | millisecond =>
    simp only [formatMagnitude]
    rw [parse_format_frac _ _ _ 3 (by decide)]
    simp only [bind, Except.bind]
    apply toArrowDuration_ok _ _ (by intro ds h; cases h; exact padDigits_allDigits _ _)
    apply specDuration_formatted v _ hv _ rfl rfl rfl
    simp only [totalNanos, secondsTotal, optVal, digitsVal_natDigits, TimeUnit.nsPer]
    rw [fracNanos_pad 3 _ (by decide) (Nat.mod_lt _ (by decide))]
    simp only [Nat.reduceSub, Nat.reducePow]
    omega
  | microsecond =>
    simp only [formatMagnitude]
    rw [parse_format_frac _ _ _ 6 (by decide)]
    simp only [bind, Except.bind]
    apply toArrowDuration_ok _ _ (by intro ds h; cases h; exact padDigits_allDigits _ _)
    apply specDuration_formatted v _ hv _ rfl rfl rfl
    simp only [totalNanos, secondsTotal, optVal, digitsVal_natDigits, TimeUnit.nsPer]
    rw [fracNanos_pad 6 _ (by decide) (Nat.mod_lt _ (by decide))]
    simp only [Nat.reduceSub, Nat.reducePow]
    omega
  | nanosecond =>
    simp only [formatMagnitude]
    rw [parse_format_frac _ _ _ 9 (by decide)]
    simp only [bind, Except.bind]
    apply toArrowDuration_ok _ _ (by intro ds h; cases h; exact padDigits_allDigits _ _)
    apply specDuration_formatted v _ hv _ rfl rfl rfl
    simp only [totalNanos, secondsTotal, optVal, digitsVal_natDigits, TimeUnit.nsPer]
    rw [fracNanos_pad 9 _ (by decide) (Nat.mod_lt _ (by decide))]
    simp only [Nat.reduceSub, Nat.reducePow]
    omega

/-- the pinned conversion: overflow panics (#15, #30), ≥ 19 sub-second digits are a ParseIntError (#30), 28 digits
with leading zeros overflow `10_i64.pow`, `i64::MIN` cannot be formatted (#16) — and what the repaired code does -/
theorem span_pinned_defects :
    (durationOfStringPinned "P99999999999999999W".toList .second).isPanic = true ∧
    (durationOfString "P99999999999999999W".toList .second).isErr = true ∧
    (durationOfStringPinned "-PT9223372036.854775808s".toList .nanosecond).isPanic = true ∧
    durationOfString "-PT9223372036.854775808s".toList .nanosecond = .ok (-9223372036854775808) ∧
    (durationOfStringPinned "PT9223372036.854775808s".toList .nanosecond).isPanic = true ∧
    (durationOfString "PT9223372036.854775808s".toList .nanosecond).isErr = true ∧
    (durationOfStringPinned "PT1.12345678901234567890S".toList .millisecond).isErr = true ∧
    durationOfString "PT1.12345678901234567890S".toList .millisecond = .ok 1123 ∧
    (durationOfStringPinned "PT0.0000000000000000000000000001S".toList .second).isPanic = true ∧
    durationOfString "PT0.0000000000000000000000000001S".toList .second = .ok 0 ∧
    (formatArrowDurationAsSpanPinned (-9223372036854775808) .nanosecond).isPanic = true ∧
    formatArrowDurationAsSpan (-9223372036854775808) .nanosecond = "-PT9223372036.854775808s".toList := by
  decide

/-- non-vacuity: a span with every designator, lower case, negative -/
example : durationOfString "-p1w2dt3h4m5.6789s".toList .millisecond = .ok (-788645678) := by decide
example : (durationOfString "P1Y".toList .second).isErr = true := by decide
example : (durationOfString "PT1.S".toList .second).isErr = true := by decide

/-! ## time of day -/

theorem timeToUnits_exact (u : TimeUnit) (secs nanos : Nat) :
    timeToUnits u secs nanos = (secs * 1000000000 + nanos) / u.nsPer := by
  cases u <;> simp only [timeToUnits, TimeUnit.perSec, TimeUnit.nsPer] <;> omega

theorem timeToUnits_range (u : TimeUnit) (secs nanos : Nat) (hs : secs < 86400) (h : nanos < 1000000000) :
    timeToUnits u secs nanos < 86400 * u.perSec := by
  cases u <;> simp only [timeToUnits, TimeUnit.perSec, TimeUnit.nsPer] <;> omega

theorem unitsToTime_timeToUnits (u : TimeUnit) (secs nanos : Nat) (hs : secs < 86400) (h : nanos < 1000000000) :
    unitsToTime u (timeToUnits u secs nanos) = some (secs, nanos / u.nsPer * u.nsPer) := by
  have hx := timeToUnits_exact u secs nanos
  have hr := timeToUnits_range u secs nanos hs h
  generalize timeToUnits u secs nanos = v at *
  unfold unitsToTime
  rw [if_pos ⟨Int.natCast_nonneg v, by omega⟩, Int.toNat_natCast]
  have : v / u.perSec = secs ∧ v % u.perSec * u.nsPer = nanos / u.nsPer * u.nsPer := by
    cases u <;> simp only [TimeUnit.perSec, TimeUnit.nsPer] at * <;> omega
  rw [this.1, this.2]

theorem timeToUnits_unitsToTime (u : TimeUnit) (ts : Int) (secs nanos : Nat) (h : unitsToTime u ts = some (secs, nanos)) :
    (timeToUnits u secs nanos : Int) = ts ∧ secs < 86400 ∧ nanos < 1000000000 := by
  unfold unitsToTime at h
  split at h
  · rename_i hr
    simp only [Option.some.injEq, Prod.mk.injEq] at h
    obtain ⟨h1, h2⟩ := h
    subst h1 h2
    obtain ⟨n, rfl⟩ := Int.eq_ofNat_of_zero_le hr.1
    have hr2 := hr.2
    simp only [Int.toNat_natCast]
    cases u <;> simp only [timeToUnits, TimeUnit.perSec, TimeUnit.nsPer] at * <;> omega
  · cases h

theorem timeToString_ok_iff (u : TimeUnit) (ts : Int) :
    (∃ s, timeToString u ts = .ok s) ↔ (0 ≤ ts ∧ ts < 86400 * (u.perSec : Int)) := by
  unfold timeToString unitsToTime
  by_cases h : 0 ≤ ts ∧ ts < 86400 * (u.perSec : Int)
  · simp [h]
  · simp [h, fail]

theorem timeToString_no_panic (u : TimeUnit) (ts : Int) : (timeToString u ts).isPanic = false := by
  unfold timeToString
  split <;> rfl

theorem resolveTime_bounds {h mi : Nat} {sec ns : Option Nat} {secs nanos : Nat}
    (hr : resolveTime h mi sec ns = some (secs, nanos)) : secs < 86400 := by
  unfold resolveTime at hr
  split at hr
  · rename_i hb
    split at hr
    · cases hr; omega
    · split at hr
      · cases hr; omega
      · split at hr
        · cases hr; omega
        · cases hr
  · cases hr

theorem parseNaiveTime_bounds {s : List Char} {secs nanos : Nat} (h : parseNaiveTime s = .ok (secs, nanos)) :
    secs < 86400 := by
  unfold parseNaiveTime at h
  split at h
  · cases h
  · simp only at h
    split at h
    · split at h
      · rename_i hr; cases h; exact resolveTime_bounds hr
      · cases h
    · cases h

/-- what the time builder stores is the exact number of whole units since midnight, inside the Arrow range -/
theorem timeOfString_exact (ty : TimeTy) (u : TimeUnit) (s : List Char) (v : Int) (h : timeOfString ty u s = .ok v) :
    ∃ secs nanos, parseNaiveTime s = .ok (secs, nanos) ∧ secs < 86400 ∧ nanos < 1000000000 ∧
      v = ((secs * 1000000000 + nanos) / u.nsPer : Nat) ∧ 0 ≤ v ∧ v < 86400 * (u.perSec : Int) := by
  unfold timeOfString at h
  cases hp : parseNaiveTime s with
  | error e => rw [hp] at h; cases h
  | ok t =>
    obtain ⟨secs, nanos⟩ := t
    rw [hp] at h
    simp only [bind, Except.bind] at h
    have hs := parseNaiveTime_bounds hp
    split at h
    · cases h
    · rename_i hn
      split at h
      · cases h
        have hr := timeToUnits_range u secs nanos hs (by omega)
        refine ⟨secs, nanos, rfl, hs, by omega, ?_, by omega, by omega⟩
        rw [timeToUnits_exact]
      · cases h

theorem timeOfString_no_panic (ty : TimeTy) (u : TimeUnit) (s : List Char) : (timeOfString ty u s).isPanic = false := by
  unfold timeOfString
  cases hp : parseNaiveTime s with
  | error e =>
    have : ∃ m, e = .err m := by
      unfold parseNaiveTime at hp
      split at hp
      · cases hp; exact ⟨_, rfl⟩
      · simp only at hp
        split at hp
        · split at hp
          · cases hp
          · cases hp; exact ⟨_, rfl⟩
        · cases hp; exact ⟨_, rfl⟩
    obtain ⟨m, rfl⟩ := this
    rfl
  | ok t =>
    simp only [bind, Except.bind]
    split
    · rfl
    · split <;> rfl

/-- **time round trip**: every valid stored time value is formatted by the reader to a string that the builder's
parser (model of chrono's `NaiveTime::from_str`) reads back to exactly the same value, in every unit -/
theorem time_roundtrip (ty : TimeTy) (u : TimeUnit) (v : Int) (hv : 0 ≤ v ∧ v < 86400 * (u.perSec : Int))
    (hty : ty.inRange v = true) : ∃ s, timeToString u v = .ok s ∧ timeOfString ty u s = .ok v := by
  unfold timeToString
  cases ht : unitsToTime u v with
  | none => unfold unitsToTime at ht; rw [if_pos hv] at ht; cases ht
  | some p =>
    obtain ⟨secs, nanos⟩ := p
    obtain ⟨h1, h2, h3⟩ := timeToUnits_unitsToTime u v secs nanos ht
    refine ⟨_, rfl, ?_⟩
    unfold timeOfString
    rw [parseNaiveTime_formatTime secs nanos h2 h3]
    simp only [bind, Except.bind]
    rw [if_neg (by omega), h1, if_pos hty]

/-- pinned: the leap-second form is stored as 86400 s, outside the Arrow range `[0, 86400)` -/
theorem timeOfStringPinned_out_of_range :
    timeOfStringPinned .time32 .second "23:59:60".toList = .ok 86400 ∧
    timeOfString .time32 .second "23:59:60".toList = fail "Cannot represent the leap second as a time since midnight" := by
  decide

/-! ## timestamps -/

/-- nanoseconds since the epoch of a (non-leap) instant -/
def instantNanos (t : Instant) : Int := (t.days * 86400 + t.secs) * 1000000000 + t.nanos

theorem ok_of_ite {α : Type} {c : Prop} [Decidable c] {a v : α} {e : Fail}
    (h : (if c then (.ok a : R α) else .error e) = .ok v) : c ∧ a = v := by
  by_cases hc : c
  · rw [if_pos hc] at h; cases h; exact ⟨hc, rfl⟩
  · rw [if_neg hc] at h; cases h

theorem instantUnitsValue_eq (u : TimeUnit) (t : Instant) (hn : t.nanos < 1000000000) :
    instantUnitsValue u t = instantNanos t / (u.nsPer : Int) := by
  cases u <;> simp only [instantUnitsValue, instantNanos, Instant.timestamp, TimeUnit.perSec, TimeUnit.nsPer] <;> omega

/-- **timestamp_exact**: the stored value is the floor (toward −∞, also before the epoch) of the instant's
nanoseconds since the epoch divided by the unit (`Int./` is floor division for a positive divisor) -/
theorem timestamp_exact (u : TimeUnit) (t : Instant) (v : Int) (hn : t.nanos < 1000000000)
    (h : instantToUnits u t = .ok v) : v = instantNanos t / (u.nsPer : Int) ∧ inI64 v = true := by
  unfold instantToUnits at h
  by_cases hin : inI64 (instantUnitsValue u t) = true
  · rw [if_pos hin] at h; cases h
    exact ⟨instantUnitsValue_eq u t hn, hin⟩
  · rw [if_neg hin] at h; cases u <;> cases h

theorem inChronoDays_iff (z : Int) : inChronoDays z = true ↔ -96465292 ≤ z ∧ z ≤ 95026236 := by
  unfold inChronoDays chronoMinDays chronoMaxDays
  simp only [Bool.and_eq_true, decide_eq_true_eq]

/-- the reader splits a stored value by floor division: the instant it formats is exactly `ts` units -/
theorem unitsToInstant_spec (u : TimeUnit) (ts : Int) (t : Instant) (h : unitsToInstant u ts = some t) :
    instantNanos t = ts * (u.nsPer : Int) ∧ t.secs < 86400 ∧ t.nanos < 1000000000 ∧ inChronoDays t.days = true := by
  unfold unitsToInstant at h
  simp only at h
  split at h
  · rename_i hd
    cases h
    refine ⟨?_, ?_, ?_, hd⟩ <;> cases u <;> simp only [instantNanos, TimeUnit.perSec, TimeUnit.nsPer] <;> omega
  · cases h

theorem unitsToInstant_isSome_iff (u : TimeUnit) (ts : Int) :
    (unitsToInstant u ts).isSome = inChronoDays (ts / (u.perSec : Int) / 86400) := by
  unfold unitsToInstant
  simp only
  split <;> simp_all

/-- reading then writing in the same unit is the identity on every value the reader accepts -/
theorem instantToUnits_unitsToInstant (u : TimeUnit) (ts : Int) (t : Instant) (hts : inI64 ts = true)
    (h : unitsToInstant u ts = some t) : instantToUnits u t = .ok ts := by
  obtain ⟨h1, _, h3, _⟩ := unitsToInstant_spec u ts t h
  have hv : instantUnitsValue u t = ts := by
    rw [instantUnitsValue_eq u t h3, h1]
    cases u <;> simp only [TimeUnit.nsPer] <;> omega
  unfold instantToUnits
  rw [hv, if_pos hts]

/-- writing then reading gives the instant truncated to the unit (floor, also before the epoch) -/
theorem unitsToInstant_instantToUnits (u : TimeUnit) (t : Instant) (v : Int) (hd : inChronoDays t.days = true)
    (hs : t.secs < 86400) (hn : t.nanos < 1000000000) (h : instantToUnits u t = .ok v) :
    unitsToInstant u v = some { days := t.days, secs := t.secs, nanos := t.nanos / u.nsPer * u.nsPer } := by
  obtain ⟨hv, _⟩ := timestamp_exact u t v hn h
  subst hv
  unfold unitsToInstant
  simp only
  have key : (instantNanos t / (u.nsPer : Int)) / (u.perSec : Int) / 86400 = t.days ∧
      ((instantNanos t / (u.nsPer : Int)) / (u.perSec : Int) % 86400).toNat = t.secs ∧
      ((instantNanos t / (u.nsPer : Int)) % (u.perSec : Int)).toNat * u.nsPer = t.nanos / u.nsPer * u.nsPer := by
    cases u <;> simp only [instantNanos, TimeUnit.perSec, TimeUnit.nsPer] <;> omega
  rw [key.1, key.2.1, key.2.2, if_pos hd]

theorem timestampToString_ok_iff (u : TimeUnit) (utc : Bool) (ts : Int) :
    (∃ s, timestampToString u utc ts = .ok s) ↔ inChronoDays (ts / (u.perSec : Int) / 86400) = true := by
  unfold timestampToString
  rw [← unitsToInstant_isSome_iff]
  cases unitsToInstant u ts <;> simp [fail]

theorem timestampToString_no_panic (u : TimeUnit) (utc : Bool) (ts : Int) : (timestampToString u utc ts).isPanic = false := by
  unfold timestampToString
  split <;> rfl

/-- inside chrono's range `timestamp_millis` / `timestamp_micros` cannot overflow: the builder never panics -/
theorem instantToUnits_no_panic (u : TimeUnit) (t : Instant) (hd : inChronoDays t.days = true) (hs : t.secs < 86400)
    (hn : t.nanos < 2000000000) : (instantToUnits u t).isPanic = false := by
  rw [inChronoDays_iff] at hd
  unfold instantToUnits
  by_cases hin : inI64 (instantUnitsValue u t) = true
  · rw [if_pos hin]; rfl
  · rw [if_neg hin]
    cases u
    · exact absurd (by rw [inI64_iff]; simp only [instantUnitsValue, Instant.timestamp]; omega) hin
    · exact absurd (by rw [inI64_iff]; simp only [instantUnitsValue, Instant.timestamp, TimeUnit.perSec, TimeUnit.nsPer]; omega) hin
    · exact absurd (by rw [inI64_iff]; simp only [instantUnitsValue, Instant.timestamp, TimeUnit.perSec, TimeUnit.nsPer]; omega) hin
    · rfl

/-! ## dates -/

theorem daysFromCivil_bounds (y m d : Int) (hy : -262143 ≤ y ∧ y ≤ 262142) (hd : 1 ≤ d ∧ d ≤ 31) :
    -100000000 ≤ daysFromCivil y m d ∧ daysFromCivil y m d ≤ 100000000 := by
  unfold daysFromCivil
  simp only
  split <;> omega

theorem parseNaiveDate_spec {s : List Char} {z : Int} (h : parseNaiveDate s = .ok z) :
    ∃ y m d, (-262143 ≤ y ∧ y ≤ 262142) ∧ validDate y m d = true ∧ z = daysFromCivil y m d := by
  unfold parseNaiveDate at h
  split at h
  · rename_i rest y m d _
    split at h
    · split at h
      · rename_i z' hr
        cases h
        unfold resolveDate at hr
        split at hr
        · rename_i hc
          cases hr
          exact ⟨y, m, d, ⟨hc.1, hc.2.1⟩, hc.2.2, rfl⟩
        · cases hr
      · cases h
    · cases h
  · cases h

/-- **date32_exact / date64_exact**: the stored value is the day count of the parsed civil date (relative to the
calendar model), times 86 400 000 for Date64; never a panic -/
theorem date_exact (ty : DateTy) (s : List Char) (v : Int) (h : dateOfString ty s = .ok v) :
    ∃ y m d, validDate y m d = true ∧ parseNaiveDate s = .ok (daysFromCivil y m d) ∧ v = daysFromCivil y m d * ty.factor := by
  unfold dateOfString at h
  cases hp : parseNaiveDate s with
  | error e => rw [hp] at h; cases h
  | ok z =>
    rw [hp] at h
    simp only [bind, Except.bind] at h
    obtain ⟨y, m, d, _, hv, rfl⟩ := parseNaiveDate_spec hp
    split at h
    · split at h
      · cases h; exact ⟨y, m, d, hv, rfl, rfl⟩
      · cases h
    · cases h

theorem parseNaiveDate_no_panic (s : List Char) : (parseNaiveDate s).isPanic = false := by
  unfold parseNaiveDate
  split
  · split
    · split <;> rfl
    · rfl
  · rfl

theorem dateOfString_no_panic (ty : DateTy) (s : List Char) : (dateOfString ty s).isPanic = false := by
  unfold dateOfString
  cases hp : parseNaiveDate s with
  | error e =>
    have := parseNaiveDate_no_panic s
    rw [hp] at this
    cases e with
    | err m => rfl
    | errCtx m a => rfl
    | panic m => cases this
  | ok z =>
    simp only [bind, Except.bind]
    obtain ⟨y, m, d, hy, hv, rfl⟩ := parseNaiveDate_spec hp
    have hb := daysFromCivil_bounds y m d hy (validDate_bounds hv).2
    split
    · rw [if_pos]; rfl
      rw [inI64_iff]
      cases ty <;> simp only [DateTy.factor] <;> omega
    · rfl

theorem dateToString_ok_iff (ty : DateTy) (v : Int) :
    (∃ s, dateToString ty v = .ok s) ↔ inChronoDays (v / ty.factor) = true := by
  unfold dateToString
  simp only
  split <;> simp_all [fail]

theorem dateToString_no_panic (ty : DateTy) (v : Int) : (dateToString ty v).isPanic = false := by
  unfold dateToString
  simp only
  split <;> rfl

/-- pinned reader: out-of-range day counts unwind (#17), and Date64 values before the epoch that are not whole
days are put on the following day -/
theorem dateToStringPinned_defects :
    (dateToStringPinned .date32 2147483647).isPanic = true ∧
    (dateToStringPinned .date64 9223372036854775807).isPanic = true ∧
    dateToStringPinned .date64 (-1) = .ok "1970-01-01".toList ∧
    dateToString .date64 (-1) = .ok "1969-12-31".toList ∧
    (dateToString .date32 2147483647).isErr = true := by
  decide

/-! ## calendar model (external; lowest priority) -/

/-- shifting the year by 400·k shifts the day count by 146097·k -/
theorem daysFromCivil_shift (y m d k : Int) : daysFromCivil (y + 400 * k) m d = daysFromCivil y m d + 146097 * k := by
  unfold daysFromCivil
  simp only
  split <;> omega

theorem civilFromDays_shift (z k : Int) :
    civilFromDays (z + 146097 * k) = ((civilFromDays z).1 + 400 * k, (civilFromDays z).2.1, (civilFromDays z).2.2) := by
  unfold civilFromDays
  simp only
  have e1 : (z + 146097 * k + 719468) / 146097 = (z + 719468) / 146097 + k := by omega
  have e2 : z + 146097 * k + 719468 - ((z + 719468) / 146097 + k) * 146097 = z + 719468 - (z + 719468) / 146097 * 146097 := by omega
  rw [e1, e2]
  generalize z + 719468 - (z + 719468) / 146097 * 146097 = doe
  simp only [Prod.mk.injEq, and_true]
  split <;> omega

/-- `daysFromCivil` applied to a triple -/
def daysOfCivil (c : Int × Int × Int) : Int := daysFromCivil c.1 c.2.1 c.2.2

/-- the leap-year rule of the model is the Gregorian one, for every (also negative) year -/
theorem isLeapYear_spec (y : Int) : isLeapYear y = true ↔ (y % 4 = 0 ∧ (y % 100 ≠ 0 ∨ y % 400 = 0)) :=
  isLeapYear_iff y

/-- the month lengths of the model: 31 / 30 days, February 28 or 29 -/
theorem daysInMonth_spec (y m : Int) :
    (m = 2 → daysInMonth y m = if isLeapYear y then 29 else 28) ∧
    ((m = 4 ∨ m = 6 ∨ m = 9 ∨ m = 11) → daysInMonth y m = 30) ∧
    ((m = 1 ∨ m = 3 ∨ m = 5 ∨ m = 7 ∨ m = 8 ∨ m = 10 ∨ m = 12) → daysInMonth y m = 31) := by
  unfold daysInMonth
  refine ⟨fun h => by rw [if_pos h], fun h => by rw [if_neg (by omega), if_pos h],
    fun h => by rw [if_neg (by omega), if_neg (by omega)]⟩

/-- **days_civil_roundtrip**: for every day count `z ∈ ℤ` (before and after the epoch, every era),
`daysFromCivil (civilFromDays z) = z`.  No era table: inside the era the year-of-era formula is monotone and a
400-row kernel table fixes it on the first and last day of every year (`Lemmas/C14Cal.lean`). -/
theorem days_civil_roundtrip (z : Int) : daysOfCivil (civilFromDays z) = z :=
  daysFromCivil_civilFromDays z

/-- the civil date of every day count is a valid date of the proleptic Gregorian calendar -/
theorem civilFromDays_valid (z : Int) :
    1 ≤ (civilFromDays z).2.1 ∧ (civilFromDays z).2.1 ≤ 12 ∧ 1 ≤ (civilFromDays z).2.2 ∧
      (civilFromDays z).2.2 ≤ daysInMonth (civilFromDays z).1 (civilFromDays z).2.1 :=
  (validDate_iff _ _ _).1 (Codec.civilFromDays_valid z)

/-- **civil_days_roundtrip**: the converse on valid civil dates (any year in ℤ, month 1–12, day 1 … length of
the month with the Gregorian leap-year rule, see `daysInMonth_spec` / `isLeapYear_spec`) -/
theorem civil_days_roundtrip (y m d : Int) (hm : 1 ≤ m ∧ m ≤ 12) (hd : 1 ≤ d ∧ d ≤ daysInMonth y m) :
    civilFromDays (daysFromCivil y m d) = (y, m, d) :=
  civilFromDays_daysFromCivil y m d ((validDate_iff y m d).2 ⟨hm.1, hm.2, hd.1, hd.2⟩)

/-- so the two algorithms are mutually inverse bijections ℤ ↔ valid civil dates; in particular `daysFromCivil` is
injective on valid dates -/
theorem daysFromCivil_injective (y m d y' m' d' : Int) (h : validDate y m d = true) (h' : validDate y' m' d' = true)
    (he : daysFromCivil y m d = daysFromCivil y' m' d') : (y, m, d) = (y', m', d') := by
  rw [← civilFromDays_daysFromCivil y m d h, ← civilFromDays_daysFromCivil y' m' d' h', he]

/-- day counts inside chrono's range have years inside chrono's range (−262143 … 262142) -/
theorem civilFromDays_chrono_year (z : Int) (h : inChronoDays z = true) :
    -262143 ≤ (civilFromDays z).1 ∧ (civilFromDays z).1 ≤ 262142 :=
  civilFromDays_year_bounds z h

/-- non-vacuity: leap days (2000, 2024, −0004 = 5 BCE, year 0), a non-leap century, the ends of chrono's range -/
example : civilFromDays 11016 = (2000, 2, 29) ∧ daysFromCivil 2000 2 29 = 11016 := by decide
example : validDate 1900 2 29 = false ∧ validDate 2024 2 29 = true ∧ validDate (-4) 2 29 = true ∧
    validDate 0 2 29 = true ∧ validDate (-1) 2 29 = false := by decide
example : civilFromDays (-1) = (1969, 12, 31) ∧ civilFromDays (-719528) = (0, 1, 1) ∧
    civilFromDays (-719529) = (-1, 12, 31) := by decide
example : civilFromDays chronoMinDays = (-262143, 1, 1) ∧ civilFromDays chronoMaxDays = (262142, 12, 31) := by decide

/-! ## string round trips through the calendar -/

/-- the reader's date string (incl. the `-YYYYYY` form for negative years and the `+YYYYY` form beyond 9999) is
parsed back by the model of `NaiveDate::from_str` to the same day count, on all of chrono's range -/
theorem date_string_roundtrip (z : Int) (h : inChronoDays z = true) : parseNaiveDate (formatDays z) = .ok z :=
  parseNaiveDate_formatDays z h

/-- **date_roundtrip** (Date32 and Date64): every stored value the reader accepts (`dateToString_ok_iff`: its day
`⌊v / factor⌋` lies in chrono's range) is formatted to a string that the builder parses back to the stored value
truncated to whole days — i.e. to `v` itself for Date32 and for every Date64 value that is a whole day -/
theorem date_roundtrip (ty : DateTy) (v : Int) (h : inChronoDays (v / ty.factor) = true) :
    ∃ s, dateToString ty v = .ok s ∧ dateOfString ty s = .ok (v / ty.factor * ty.factor) := by
  refine ⟨formatDays (v / ty.factor), ?_, ?_⟩
  · unfold dateToString; simp only [h, if_true]
  · unfold dateOfString
    rw [parseNaiveDate_formatDays _ h]
    simp only [bind, Except.bind]
    rw [inChronoDays_iff] at h
    have h1 : ty.inRange (v / ty.factor) = true := by
      cases ty
      · simp only [DateTy.inRange, inI32_iff]; omega
      · simp only [DateTy.inRange, inI64_iff]; omega
    have h2 : inI64 (v / ty.factor * ty.factor) = true := by
      rw [inI64_iff]
      cases ty <;> simp only [DateTy.factor] at h ⊢ <;> omega
    rw [if_pos h1, if_pos h2]

theorem date32_roundtrip (v : Int) (h : inChronoDays v = true) :
    ∃ s, dateToString .date32 v = .ok s ∧ dateOfString .date32 s = .ok v := by
  have := date_roundtrip .date32 v (by simpa [DateTy.factor] using h)
  simpa [DateTy.factor] using this

theorem date64_roundtrip (v : Int) (h : inChronoDays (v / 86400000) = true) (hw : v % 86400000 = 0) :
    ∃ s, dateToString .date64 v = .ok s ∧ dateOfString .date64 s = .ok v := by
  have := date_roundtrip .date64 v h
  rw [show v / DateTy.date64.factor * DateTy.date64.factor = v by simp only [DateTy.factor]; omega] at this
  exact this

/-- **timestamp_roundtrip**: every stored i64 the reader accepts (`timestampToString_ok_iff`: its day lies in
chrono's range), in every unit, with and without the UTC zone, before and after the epoch, is formatted to a
string that the builder parses back to exactly the stored value -/
theorem timestamp_roundtrip (u : TimeUnit) (utc : Bool) (ts : Int) (hts : inI64 ts = true)
    (hr : inChronoDays (ts / (u.perSec : Int) / 86400) = true) :
    ∃ s, timestampToString u utc ts = .ok s ∧ timestampOfString u utc s = .ok ts := by
  unfold timestampToString
  cases ht : unitsToInstant u ts with
  | none =>
    have := unitsToInstant_isSome_iff u ts
    rw [ht, hr] at this; cases this
  | some t =>
    obtain ⟨_, hs, hn, hd⟩ := unitsToInstant_spec u ts t ht
    refine ⟨_, rfl, ?_⟩
    unfold timestampOfString
    cases utc
    · simp only [Bool.false_eq_true, if_false]
      rw [parseNaiveDateTime_formatInstant t hd hs hn]
      exact instantToUnits_unitsToInstant u ts t hts ht
    · simp only [if_true]
      rw [parseUtcDateTime_formatInstant t hd hs hn]
      exact instantToUnits_unitsToInstant u ts t hts ht

/-- non-vacuity: negative year / pre-epoch part-second, year > 9999, Date64 before the epoch -/
example : timestampToString .millisecond true (-62198755200001) = .ok "-000002-12-31T23:59:59.999Z".toList ∧
    timestampOfString .millisecond true "-000002-12-31T23:59:59.999Z".toList = .ok (-62198755200001) := by decide
example : timestampToString .second false 253402300800 = .ok "+10000-01-01T00:00:00".toList := by decide
example : dateToString .date32 (-719529) = .ok "-000001-12-31".toList ∧
    dateOfString .date32 "-000001-12-31".toList = .ok (-719529) := by decide
example : dateToString .date64 (-86400000) = .ok "1969-12-31".toList ∧
    dateOfString .date64 "1969-12-31".toList = .ok (-86400000) := by decide

/-! ## UTC detection -/

set_option maxRecDepth 100000 in
theorem toNat_ofNat_small : ∀ k, k < 128 → (Char.ofNat k).toNat = k := by decide

theorem upper_eq (a X : Char) (hX : 65 ≤ X.toNat ∧ X.toNat ≤ 90) :
    toAsciiUpper a = X ↔ (a.toNat = X.toNat ∨ a.toNat = X.toNat + 32) := by
  rw [← Char.toNat_inj]
  unfold toAsciiUpper
  split
  · rw [toNat_ofNat_small _ (by omega)]; omega
  · omega

theorem lower_eq (a X : Char) (hX : 65 ≤ X.toNat ∧ X.toNat ≤ 90) :
    toAsciiLower a = toAsciiLower X ↔ (a.toNat = X.toNat ∨ a.toNat = X.toNat + 32) := by
  rw [← Char.toNat_inj]
  have hx : (toAsciiLower X).toNat = X.toNat + 32 := by
    unfold toAsciiLower; rw [if_pos hX, toNat_ofNat_small _ (by omega)]
  rw [hx]
  unfold toAsciiLower
  split
  · rw [toNat_ofNat_small _ (by omega)]; omega
  · omega

theorem upper_iff_lower (a X : Char) (hX : 65 ≤ X.toNat ∧ X.toNat ≤ 90) :
    toAsciiUpper a = X ↔ toAsciiLower a = toAsciiLower X := by
  rw [upper_eq a X hX, lower_eq a X hX]

theorem isUtc_iff (tz : List Char) : asciiUpper tz = "UTC".toList ↔ asciiLower tz = "utc".toList := by
  have e1 : "UTC".toList = ['U', 'T', 'C'] := by decide
  have e2 : "utc".toList = [toAsciiLower 'U', toAsciiLower 'T', toAsciiLower 'C'] := by decide
  rw [e1, e2]
  unfold asciiUpper asciiLower
  match tz with
  | [] => simp
  | [_] => simp
  | [_, _] => simp
  | [a, b, c] =>
    simp only [List.map_cons, List.map_nil, List.cons.injEq, and_true]
    rw [upper_iff_lower a 'U' (by decide), upper_iff_lower b 'T' (by decide), upper_iff_lower c 'C' (by decide)]
  | _ :: _ :: _ :: _ :: _ => simp

/-- **utc_detection**: the builder's `is_utc_tz` and the reader's `is_utc_timestamp` take exactly the same
strings as UTC (any letter case of "UTC"), refuse the same strings, and agree on `None` -/
theorem utc_detection (tz : Option (List Char)) :
    (∀ b, isUtcTz tz = .ok b ↔ isUtcTimestamp tz = .ok b) ∧ ((isUtcTz tz).isErr = (isUtcTimestamp tz).isErr) ∧
    (isUtcTz tz).isPanic = false ∧ (isUtcTimestamp tz).isPanic = false := by
  cases tz with
  | none => simp [isUtcTz, isUtcTimestamp, R.isErr, R.isPanic]
  | some s =>
    unfold isUtcTz isUtcTimestamp
    by_cases h : asciiUpper s = "UTC".toList
    · have h' := (isUtc_iff s).1 h
      simp only [if_pos h, if_pos h']; simp [R.isPanic]
    · have h' : ¬ asciiLower s = "utc".toList := fun h' => h ((isUtc_iff s).2 h')
      simp only [if_neg h, if_neg h']; simp [fail, R.isErr, R.isPanic]

end SaModel.Props.C14
