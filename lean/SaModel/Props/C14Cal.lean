import SaModel.Props.C14
import SaModel.Lemmas.C14Count
/-
# C14, calendar part: the day count of the model against an INDEPENDENT specification

`Props/C14.lean: date_exact` says "the stored integer is `daysFromCivil y m d`" — the closed formula of the
model on both sides.  Here the formula is proved equal to what `Spec/Calendar.lean` (which does not import the
model) DEFINES as "days since 1970-01-01 in the proleptic Gregorian calendar", for every date of every year of ℤ:

* `IsDayNumber` — epoch ↦ 0, closed under next day / + 1 and previous day / − 1 (`nextDay`, `prevDay` written
  from the Gregorian leap rule and a literal table of month lengths);
* `dayNumber` — by counting whole years from 1970 one by one, whole months one by one, days.

Then the date / timestamp exactness theorems are restated against that specification.
-/
namespace SaModel.Props.C14
open SaModel SaModel.Codec SaModel.Spec.Calendar

/-! ## the calendar of the model is the Gregorian calendar of the specification -/

/-- same leap years (every year of ℤ) -/
theorem isLeapYear_is_spec (y : Int) : isLeapYear y = isLeap y := (isLeap_eq y).symm

/-- same month lengths -/
theorem daysInMonth_is_spec (y m : Int) (hm : 1 ≤ m ∧ m ≤ 12) : daysInMonth y m = monthLength y m :=
  (monthLength_eq y m hm.1 hm.2).symm

/-- same valid dates (for all triples, also nonsense months) -/
theorem validDate_is_spec (y m d : Int) : validDate y m d = valid (y, m, d) := (valid_eq y m d).symm

/-! ## successor / predecessor -/

theorem daysFromCivil_epoch : daysFromCivil 1970 1 1 = 0 := by decide

/-- **daysFromCivil_succ**: the day after a valid date — any year of ℤ, month ends, leap days, year ends —
has the next number -/
theorem daysFromCivil_succ (y m d : Int) (hv : validDate y m d = true) :
    daysOfCivil (nextDay (y, m, d)) = daysFromCivil y m d + 1 :=
  daysOf_nextDay y m d hv

theorem daysFromCivil_pred (y m d : Int) (hv : validDate y m d = true) :
    daysOfCivil (prevDay (y, m, d)) = daysFromCivil y m d - 1 :=
  daysOf_prevDay y m d hv

/-- `nextDay` / `prevDay` stay inside the calendar … -/
theorem nextDay_valid (dt : Date) (hv : valid dt = true) : valid (nextDay dt) = true := by
  obtain ⟨y, m, d⟩ := dt
  rw [valid_iff] at hv
  have := nextDay_validDate y m d hv
  rwa [← valid_iff] at this

theorem prevDay_valid (dt : Date) (hv : valid dt = true) : valid (prevDay dt) = true := by
  obtain ⟨y, m, d⟩ := dt
  rw [valid_iff] at hv
  have := prevDay_validDate y m d hv
  rwa [← valid_iff] at this

/-- … and are mutually inverse there -/
theorem prevDay_nextDay (dt : Date) (hv : valid dt = true) : prevDay (nextDay dt) = dt := by
  obtain ⟨y, m, d⟩ := dt
  exact prevDay_nextDay_of_valid y m d ((valid_iff y m d).1 hv)

theorem nextDay_prevDay (dt : Date) (hv : valid dt = true) : nextDay (prevDay dt) = dt := by
  obtain ⟨y, m, d⟩ := dt
  exact nextDay_prevDay_of_valid y m d ((valid_iff y m d).1 hv)

/-- the inverse formula steps with the calendar too: every integer, before and after the epoch -/
theorem civilFromDays_succ (z : Int) : civilFromDays (z + 1) = nextDay (civilFromDays z) := Codec.civilFromDays_succ z
theorem civilFromDays_pred (z : Int) : civilFromDays (z - 1) = prevDay (civilFromDays z) := Codec.civilFromDays_pred z

example : daysOfCivil (nextDay (2000, 2, 28)) = daysFromCivil 2000 2 28 + 1 ∧ nextDay (2000, 2, 28) = (2000, 2, 29) ∧
    nextDay (1900, 2, 28) = (1900, 3, 1) ∧ nextDay (-1, 12, 31) = (0, 1, 1) ∧ validDate (-262143) 12 31 = true := by decide
example : civilFromDays (-719528 - 1) = prevDay (0, 1, 1) ∧ prevDay (0, 1, 1) = (-1, 12, 31) := by decide

/-! ## the formula computes the day number of the specification, and nothing else does -/

/-- **daysFromCivil_is_dayNumber**: for every valid date of every year of ℤ the closed formula of the model is
the day number in the sense of the inductive specification -/
theorem daysFromCivil_is_dayNumber (y m d : Int) (hv : validDate y m d = true) :
    IsDayNumber (y, m, d) (daysFromCivil y m d) :=
  isDayNumber_daysFromCivil y m d hv

/-- every integer is the day number of exactly the date `civilFromDays` computes -/
theorem civilFromDays_is_dayNumber (z : Int) : IsDayNumber (civilFromDays z) z := isDayNumber_civilFromDays z

/-- characterisation: the specification relates exactly the valid dates with the number the formula computes -/
theorem isDayNumber_iff (dt : Date) (n : Int) : IsDayNumber dt n ↔ (valid dt = true ∧ n = daysOfCivil dt) := by
  obtain ⟨y, m, d⟩ := dt
  constructor
  · intro h
    obtain ⟨hv, hn⟩ := isDayNumber_sound h
    exact ⟨(valid_iff y m d).2 hv, hn⟩
  · rintro ⟨hv, rfl⟩
    exact isDayNumber_daysFromCivil y m d ((valid_iff y m d).1 hv)

/-- **uniqueness**: the specification is functional (a date has one day number) … -/
theorem isDayNumber_functional {dt : Date} {n n' : Int} (h : IsDayNumber dt n) (h' : IsDayNumber dt n') : n = n' := by
  rw [((isDayNumber_iff dt n).1 h).2, ((isDayNumber_iff dt n').1 h').2]

/-- … injective (a number belongs to one date) … -/
theorem isDayNumber_injective {dt dt' : Date} {n : Int} (h : IsDayNumber dt n) (h' : IsDayNumber dt' n) : dt = dt' := by
  obtain ⟨y, m, d⟩ := dt
  obtain ⟨y', m', d'⟩ := dt'
  have a := isDayNumber_sound h
  have b := isDayNumber_sound h'
  exact daysFromCivil_injective y m d y' m' d' a.1 b.1 (a.2.symm.trans b.2)

/-- … and total both ways: defined on exactly the valid dates, onto ℤ -/
theorem isDayNumber_total (dt : Date) : (∃ n, IsDayNumber dt n) ↔ valid dt = true :=
  ⟨fun ⟨n, h⟩ => ((isDayNumber_iff dt n).1 h).1, fun hv => ⟨daysOfCivil dt, (isDayNumber_iff dt _).2 ⟨hv, rfl⟩⟩⟩

theorem isDayNumber_onto (n : Int) : ∃ dt, IsDayNumber dt n := ⟨civilFromDays n, isDayNumber_civilFromDays n⟩

/-- **daysFromCivil_is_count**: the formula equals the day number obtained by counting years, months and days
one by one (`Spec.Calendar.dayNumber`) -/
theorem daysFromCivil_is_count (y m d : Int) (hm : 1 ≤ m ∧ m ≤ 12) : daysFromCivil y m d = dayNumber (y, m, d) :=
  daysFromCivil_eq_dayNumber y m d hm.1 hm.2

/-- the two specifications agree (a statement inside `Spec/Calendar.lean`; the formula is only the means of proof) -/
theorem isDayNumber_iff_dayNumber (dt : Date) (n : Int) : IsDayNumber dt n ↔ (valid dt = true ∧ n = dayNumber dt) := by
  rw [isDayNumber_iff]
  obtain ⟨y, m, d⟩ := dt
  constructor
  · rintro ⟨hv, rfl⟩
    have hb := (validDate_iff y m d).1 ((valid_iff y m d).1 hv)
    exact ⟨hv, daysFromCivil_eq_dayNumber y m d hb.1 hb.2.1⟩
  · rintro ⟨hv, rfl⟩
    have hb := (validDate_iff y m d).1 ((valid_iff y m d).1 hv)
    exact ⟨hv, (daysFromCivil_eq_dayNumber y m d hb.1 hb.2.1).symm⟩

example : IsDayNumber (2000, 2, 29) 11016 := (isDayNumber_iff _ _).2 (by decide)
example : IsDayNumber (-262143, 1, 1) (-96465292) ∧ IsDayNumber (262142, 12, 31) 95026236 :=
  ⟨(isDayNumber_iff _ _).2 (by decide), (isDayNumber_iff _ _).2 (by decide)⟩
example : ¬ IsDayNumber (1900, 2, 29) 0 := fun h => by have := ((isDayNumber_iff _ _).1 h).1; revert this; decide
example : ¬ IsDayNumber (2000, 2, 29) 11017 := fun h => by have := ((isDayNumber_iff _ _).1 h).2; revert this; decide

/-! ## dates: the exactness theorems against the specification -/

/-- what the model of `NaiveDate::from_str` returns: the day number (specification) of the date whose year, month
and day fields stand in the string -/
theorem parseNaiveDate_fields {s : List Char} {z : Int} (h : parseNaiveDate s = .ok z) :
    ∃ (rest : List Char) (y : Int) (m d : Nat), parseDateItems s = some (rest, y, m, d) ∧ skipWs rest = [] ∧
      (-262143 ≤ y ∧ y ≤ 262142) ∧ IsDayNumber (y, (m : Int), (d : Int)) z := by
  unfold parseNaiveDate at h
  split at h
  · rename_i rest y m d hitems
    split at h
    · rename_i hrest
      split at h
      · rename_i z' hr
        cases h
        unfold resolveDate at hr
        split at hr
        · rename_i hc
          cases hr
          exact ⟨rest, y, m, d, hitems, hrest, ⟨hc.1, hc.2.1⟩, isDayNumber_daysFromCivil y m d hc.2.2⟩
        · cases hr
      · cases h
    · cases h
  · cases h

/-- **date_exact_spec** (`date_exact` against the independent specification): a string the Date32 / Date64
builder accepts consists of year, month and day fields of a date of the calendar, and the stored integer is
that date's day number — in the sense of `IsDayNumber` (steps of one day from 1970-01-01) and, equally, of
`dayNumber` (counting years, months, days) — times 86 400 000 for Date64.  No formula of the model occurs. -/
theorem date_exact_spec (ty : DateTy) (s : List Char) (v : Int) (h : dateOfString ty s = .ok v) :
    ∃ (rest : List Char) (y : Int) (m d : Nat) (n : Int), parseDateItems s = some (rest, y, m, d) ∧ skipWs rest = [] ∧
      IsDayNumber (y, (m : Int), (d : Int)) n ∧ n = dayNumber (y, (m : Int), (d : Int)) ∧ v = n * ty.factor := by
  unfold dateOfString at h
  cases hp : parseNaiveDate s with
  | error e => rw [hp] at h; cases h
  | ok z =>
    rw [hp] at h
    simp only [bind, Except.bind] at h
    obtain ⟨rest, y, m, d, hitems, hrest, _, hday⟩ := parseNaiveDate_fields hp
    split at h
    · split at h
      · cases h
        exact ⟨rest, y, m, d, z, hitems, hrest, hday, ((isDayNumber_iff_dayNumber _ _).1 hday).2, rfl⟩
      · cases h
    · cases h

/-- the reader: the string produced for a stored value is the formatted date whose day number is `⌊v / factor⌋` -/
theorem dateToString_spec (ty : DateTy) (v : Int) (s : List Char) (h : dateToString ty v = .ok s) :
    ∃ dt : Date, IsDayNumber dt (v / ty.factor) ∧ s = formatDate dt.1 dt.2.1 dt.2.2 := by
  unfold dateToString at h
  simp only at h
  split at h
  · cases h
    exact ⟨civilFromDays (v / ty.factor), isDayNumber_civilFromDays _, rfl⟩
  · cases h

/-- **date_roundtrip_spec** (`date_roundtrip` against the specification): every stored value the reader accepts
is written as the date with day number `⌊v / factor⌋`, and the builder parses that string back to
`⌊v / factor⌋ · factor` -/
theorem date_roundtrip_spec (ty : DateTy) (v : Int) (h : inChronoDays (v / ty.factor) = true) :
    ∃ (s : List Char) (dt : Date), dateToString ty v = .ok s ∧ IsDayNumber dt (v / ty.factor) ∧
      s = formatDate dt.1 dt.2.1 dt.2.2 ∧ dateOfString ty s = .ok (v / ty.factor * ty.factor) := by
  obtain ⟨s, h1, h2⟩ := date_roundtrip ty v h
  obtain ⟨dt, h3, h4⟩ := dateToString_spec ty v s h1
  exact ⟨s, dt, h1, h3, h4, h2⟩

example : dateOfString .date32 "2000-02-29".toList = .ok 11016 ∧ dayNumber (2000, 2, 29) = 11016 := by decide
example : dateOfString .date64 "-000001-12-31".toList = .ok (-719529 * 86400000) ∧ dayNumber (-1, 12, 31) = -719529 := by
  decide +kernel
example : (dateOfString .date32 "1900-02-29".toList).isErr = true := by decide

/-! ## timestamps: seconds / nanoseconds since the epoch on top of the independent day number -/

/-- the `instantNanos` of `timestamp_exact` is the specification's "nanoseconds since the epoch" of the instant's
day number, second of day and nanosecond -/
theorem instantNanos_is_spec (t : Instant) : instantNanos t = nanosSinceEpoch t.days t.secs t.nanos := rfl

/-- the model of `NaiveDateTime::from_str`: the instant's day is the day number (specification) of the date
fields of the string -/
theorem parseNaiveDateTime_fields {s : List Char} {t : Instant} (h : parseNaiveDateTime s = .ok t) :
    ∃ (rest : List Char) (y : Int) (m d : Nat), parseDateItems s = some (rest, y, m, d) ∧
      IsDayNumber (y, (m : Int), (d : Int)) t.days := by
  unfold parseNaiveDateTime at h
  split at h
  · cases h
  · rename_i rest y m d hitems
    split at h
    · cases h
    · split at h
      · cases h
      · split at h
        · rename_i days secs nanos hr _
          cases h
          unfold resolveDate at hr
          split at hr
          · rename_i hc
            cases hr
            exact ⟨rest, y, m, d, hitems, isDayNumber_daysFromCivil y m d hc.2.2⟩
          · cases hr
        · cases h
      · cases h

/-- **timestamp_exact_spec**: a string written into a Timestamp column without time zone is stored as
`⌊nanoseconds since the epoch / unit⌋` (floor toward −∞), where the nanoseconds since the epoch are
`(n · 86400 + second of day) · 10⁹ + nanosecond` and `n` is the day number — in the sense of the independent
specification — of the date fields of the string.  (Leap-second strings, `nanos ≥ 10⁹`, are the known finding.) -/
theorem timestamp_exact_spec (u : TimeUnit) (s : List Char) (v : Int) (h : timestampOfString u false s = .ok v) :
    ∃ (rest : List Char) (y : Int) (m d : Nat) (n : Int) (secs nanos : Nat),
      parseDateItems s = some (rest, y, m, d) ∧ IsDayNumber (y, (m : Int), (d : Int)) n ∧
      n = dayNumber (y, (m : Int), (d : Int)) ∧
      (nanos < 1000000000 → v = nanosSinceEpoch n secs nanos / (u.nsPer : Int)) ∧ inI64 v = true := by
  unfold timestampOfString at h
  simp only [Bool.false_eq_true, if_false] at h
  cases hp : parseNaiveDateTime s with
  | error e => rw [hp] at h; cases h
  | ok t =>
    rw [hp] at h
    simp only [bind, Except.bind] at h
    obtain ⟨rest, y, m, d, hitems, hday⟩ := parseNaiveDateTime_fields hp
    refine ⟨rest, y, m, d, t.days, t.secs, t.nanos, hitems, hday, ((isDayNumber_iff_dayNumber _ _).1 hday).2, ?_, ?_⟩
    · intro hn
      exact (timestamp_exact u t v hn h).1
    · unfold instantToUnits at h
      by_cases hin : inI64 (instantUnitsValue u t) = true
      · rw [if_pos hin] at h; cases h; exact hin
      · rw [if_neg hin] at h; cases u <;> cases h

/-- the model of `DateTime<Utc>::from_str`: the date fields of the string have day number `n` (specification), and the
instant is the local second `n · 86400 + secsLocal` moved by the zone offset (`Z` / `UTC` = 0, `±hh:mm`) -/
theorem parseUtcDateTime_fields {s : List Char} {t : Instant} (h : parseUtcDateTime s = .ok t) :
    ∃ (rest : List Char) (y : Int) (m d : Nat) (n : Int) (secsLocal : Nat) (off : Int),
      parseDateItems s = some (rest, y, m, d) ∧ IsDayNumber (y, (m : Int), (d : Int)) n ∧
      (-86400 < off ∧ off < 86400) ∧ t.secs < 86400 ∧
      secondsSinceEpoch t.days t.secs = secondsSinceEpoch n secsLocal - off := by
  unfold parseUtcDateTime at h
  split at h
  · cases h
  · rename_i rest y m d hitems
    split at h
    · split at h
      · split at h
        · cases h
        · simp only at h
          split at h
          · cases h
          · rename_i zrest off _
            split at h
            · split at h
              · rename_i days secs nanos hr _
                split at h
                · cases h
                · rename_i hoff
                  split at h
                  · cases h
                    unfold resolveDate at hr
                    split at hr
                    · rename_i hc
                      cases hr
                      refine ⟨_, y, m, d, _, secs, off, hitems, isDayNumber_daysFromCivil y m d hc.2.2, by omega, ?_, ?_⟩
                      · simp only; omega
                      · simp only [secondsSinceEpoch]; omega
                    · cases hr
                  · cases h
              · cases h
            · cases h
      · cases h
    · cases h

/-- **timestamp_exact_spec_utc**: the same for a Timestamp column with time zone UTC: the stored value is
`⌊((n · 86400 + local second of day − offset) · 10⁹ + nanosecond) / unit⌋` with `n` the day number
(specification) of the date fields of the string -/
theorem timestamp_exact_spec_utc (u : TimeUnit) (s : List Char) (v : Int) (h : timestampOfString u true s = .ok v) :
    ∃ (rest : List Char) (y : Int) (m d : Nat) (n : Int) (secsLocal nanos : Nat) (off : Int),
      parseDateItems s = some (rest, y, m, d) ∧ IsDayNumber (y, (m : Int), (d : Int)) n ∧
      n = dayNumber (y, (m : Int), (d : Int)) ∧ (-86400 < off ∧ off < 86400) ∧
      (nanos < 1000000000 →
        v = ((secondsSinceEpoch n secsLocal - off) * 1000000000 + nanos) / (u.nsPer : Int)) := by
  unfold timestampOfString at h
  simp only [if_true] at h
  cases hp : parseUtcDateTime s with
  | error e => rw [hp] at h; cases h
  | ok t =>
    rw [hp] at h
    simp only [bind, Except.bind] at h
    obtain ⟨rest, y, m, d, n, secsLocal, off, hitems, hday, hoff, _, hsec⟩ := parseUtcDateTime_fields hp
    refine ⟨rest, y, m, d, n, secsLocal, t.nanos, off, hitems, hday, ((isDayNumber_iff_dayNumber _ _).1 hday).2, hoff, ?_⟩
    intro hn
    rw [← hsec]
    exact (timestamp_exact u t v hn h).1

example : timestampOfString .second true "1970-01-01T00:30:00+01:00".toList = .ok (-1800) ∧
    ((secondsSinceEpoch (dayNumber (1970, 1, 1)) 1800 - 3600) * 1000000000 + 0) / 1000000000 = -1800 := by decide

/-- the reader: a stored timestamp is written as the date with day number `n` and the time of day such that
`(n · 86400 + second of day) · 10⁹ + nanosecond` is exactly `ts` units -/
theorem timestampToString_spec (u : TimeUnit) (utc : Bool) (ts : Int) (s : List Char)
    (h : timestampToString u utc ts = .ok s) :
    ∃ (dt : Date) (n : Int) (secs nanos : Nat), IsDayNumber dt n ∧
      nanosSinceEpoch n secs nanos = ts * (u.nsPer : Int) ∧ secs < 86400 ∧ nanos < 1000000000 ∧
      s = formatDate dt.1 dt.2.1 dt.2.2 ++ ['T'] ++ formatTime secs nanos ++ (if utc then ['Z'] else []) := by
  unfold timestampToString at h
  cases ht : unitsToInstant u ts with
  | none => rw [ht] at h; cases h
  | some t =>
    rw [ht] at h
    cases h
    obtain ⟨h1, h2, h3, _⟩ := unitsToInstant_spec u ts t ht
    exact ⟨civilFromDays t.days, t.days, t.secs, t.nanos, isDayNumber_civilFromDays _, h1, h2, h3, rfl⟩

example : timestampOfString .millisecond false "1969-12-31T23:59:59.999".toList = .ok (-1) ∧
    nanosSinceEpoch (dayNumber (1969, 12, 31)) 86399 999000000 / 1000000 = -1 := by decide

end SaModel.Props.C14
