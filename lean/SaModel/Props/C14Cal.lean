import SaModel.Props.C14
import SaModel.Lemmas.C14Count
/-
# C14, calendar part: the day count of the model against an INDEPENDENT specification

`Props/C14.lean: date_exact` says "the stored integer is `daysFromCivil y m d`" — the closed formula of the
model on both sides.  Here the formula is proved equal to what `Spec/Calendar.lean` (which does not import the
model) DEFINES as "days since 1970-01-01 in the proleptic Gregorian calendar", for every date of every year of ℤ:

* `IsDayNumber` — epoch ↦ 0, closed under next day / + 1 and previous day / − 1 (`nextDay`, `prevDay` written
  from the Gregorian leap rule and a literal table of month lengths);
* `dayNumber` — by counting whole years from 1970 one by one, whole months one by one, days.

Then the date / timestamp exactness theorems are restated against that specification.
-/
namespace SaModel.Props.C14
open SaModel SaModel.Codec SaModel.Spec.Calendar

/-! ## the calendar of the model is the Gregorian calendar of the specification -/

/-- same leap years (every year of ℤ) -/
theorem isLeapYear_is_spec (y : Int) : isLeapYear y = isLeap y := (isLeap_eq y).symm

/-- same month lengths -/
theorem daysInMonth_is_spec (y m : Int) (hm : 1 ≤ m ∧ m ≤ 12) : daysInMonth y m = monthLength y m :=
  (monthLength_eq y m hm.1 hm.2).symm

/-- same valid dates (for all triples, also nonsense months) -/
theorem validDate_is_spec (y m d : Int) : validDate y m d = valid (y, m, d) := (valid_eq y m d).symm

/-! ## successor / predecessor -/

theorem daysFromCivil_epoch : daysFromCivil 1970 1 1 = 0 := by decide

/-- **daysFromCivil_succ**: the day after a valid date — any year of ℤ, month ends, leap days, year ends —
has the next number -/
theorem daysFromCivil_succ (y m d : Int) (hv : validDate y m d = true) :
    daysOfCivil (nextDay (y, m, d)) = daysFromCivil y m d + 1 :=
  daysOf_nextDay y m d hv

theorem daysFromCivil_pred (y m d : Int) (hv : validDate y m d = true) :
    daysOfCivil (prevDay (y, m, d)) = daysFromCivil y m d - 1 :=
  daysOf_prevDay y m d hv

/-- `nextDay` / `prevDay` stay inside the calendar … -/
theorem nextDay_valid (dt : Date) (hv : valid dt = true) : valid (nextDay dt) = true := by
  obtain ⟨y, m, d⟩ := dt
  rw [valid_iff] at hv
  have := nextDay_validDate y m d hv
  rwa [← valid_iff] at this

theorem prevDay_valid (dt : Date) (hv : valid dt = true) : valid (prevDay dt) = true := by
  obtain ⟨y, m, d⟩ := dt
  rw [valid_iff] at hv
  have := prevDay_validDate y m d hv
  rwa [← valid_iff] at this

/-- … and are mutually inverse there -/
theorem prevDay_nextDay (dt : Date) (hv : valid dt = true) : prevDay (nextDay dt) = dt := by
  obtain ⟨y, m, d⟩ := dt
  exact prevDay_nextDay_of_valid y m d ((valid_iff y m d).1 hv)

theorem nextDay_prevDay (dt : Date) (hv : valid dt = true) : nextDay (prevDay dt) = dt := by
  obtain ⟨y, m, d⟩ := dt
  exact nextDay_prevDay_of_valid y m d ((valid_iff y m d).1 hv)

/-- the inverse formula steps with the calendar too: every integer, before and after the epoch -/
theorem civilFromDays_succ (z : Int) : civilFromDays (z + 1) = nextDay (civilFromDays z) := Codec.civilFromDays_succ z
theorem civilFromDays_pred (z : Int) : civilFromDays (z - 1) = prevDay (civilFromDays z) := Codec.civilFromDays_pred z

example : daysOfCivil (nextDay (2000, 2, 28)) = daysFromCivil 2000 2 28 + 1 ∧ nextDay (2000, 2, 28) = (2000, 2, 29) ∧
    nextDay (1900, 2, 28) = (1900, 3, 1) ∧ nextDay (-1, 12, 31) = (0, 1, 1) ∧ validDate (-262143) 12 31 = true := by decide
example : civilFromDays (-719528 - 1) = prevDay (0, 1, 1) ∧ prevDay (0, 1, 1) = (-1, 12, 31) := by decide

/-! ## the formula computes the day number of the specification, and nothing else does -/

/-- **daysFromCivil_is_dayNumber**: for every valid date of every year of ℤ the closed formula of the model is
the day number in the sense of the inductive specification -/
theorem daysFromCivil_is_dayNumber (y m d : Int) (hv : validDate y m d = true) :
    IsDayNumber (y, m, d) (daysFromCivil y m d) :=
  isDayNumber_daysFromCivil y m d hv

/-- every integer is the day number of exactly the date `civilFromDays` computes -/
theorem civilFromDays_is_dayNumber (z : Int) : IsDayNumber (civilFromDays z) z := isDayNumber_civilFromDays z

/-- characterisation: the specification relates exactly the valid dates with the number the formula computes -/
theorem isDayNumber_iff (dt : Date) (n : Int) : IsDayNumber dt n ↔ (valid dt = true ∧ n = daysOfCivil dt) := by
  obtain ⟨y, m, d⟩ := dt
  constructor
  · intro h
    obtain ⟨hv, hn⟩ := isDayNumber_sound h
    exact ⟨(valid_iff y m d).2 hv, hn⟩
  · rintro ⟨hv, rfl⟩
    exact isDayNumber_daysFromCivil y m d ((valid_iff y m d).1 hv)

/-- **uniqueness**: the specification is functional (a date has one day number) … -/
theorem isDayNumber_functional {dt : Date} {n n' : Int} (h : IsDayNumber dt n) (h' : IsDayNumber dt n') : n = n' := by
  rw [((isDayNumber_iff dt n).1 h).2, ((isDayNumber_iff dt n').1 h').2]

/-- … injective (a number belongs to one date) … -/
theorem isDayNumber_injective {dt dt' : Date} {n : Int} (h : IsDayNumber dt n) (h' : IsDayNumber dt' n) : dt = dt' := by
  obtain ⟨y, m, d⟩ := dt
  obtain ⟨y', m', d'⟩ := dt'
  have a := isDayNumber_sound h
  have b := isDayNumber_sound h'
  exact daysFromCivil_injective y m d y' m' d' a.1 b.1 (a.2.symm.trans b.2)

/-- … and total both ways: defined on exactly the valid dates, onto ℤ -/
theorem isDayNumber_total (dt : Date) : (∃ n, IsDayNumber dt n) ↔ valid dt = true :=
  ⟨fun ⟨n, h⟩ => ((isDayNumber_iff dt n).1 h).1, fun hv => ⟨daysOfCivil dt, (isDayNumber_iff dt _).2 ⟨hv, rfl⟩⟩⟩

theorem isDayNumber_onto (n : Int) : ∃ dt, IsDayNumber dt n := ⟨civilFromDays n, isDayNumber_civilFromDays n⟩

/-- **daysFromCivil_is_count**: the formula equals the day number obtained by counting years, months and days
one by one (`Spec.Calendar.dayNumber`) -/
theorem daysFromCivil_is_count (y m d : Int) (hm : 1 ≤ m ∧ m ≤ 12) : daysFromCivil y m d = dayNumber (y, m, d) :=
  daysFromCivil_eq_dayNumber y m d hm.1 hm.2

/-- the two specifications agree (a statement inside `Spec/Calendar.lean`; the formula is only the means of proof) -/
theorem isDayNumber_iff_dayNumber (dt : Date) (n : Int) : IsDayNumber dt n ↔ (valid dt = true ∧ n = dayNumber dt) := by
  rw [isDayNumber_iff]
  obtain ⟨y, m, d⟩ := dt
  constructor
  · rintro ⟨hv, rfl⟩
    have hb := (validDate_iff y m d).1 ((valid_iff y m d).1 hv)
    exact ⟨hv, daysFromCivil_eq_dayNumber y m d hb.1 hb.2.1⟩
  · rintro ⟨hv, rfl⟩
    have hb := (validDate_iff y m d).1 ((valid_iff y m d).1 hv)
    exact ⟨hv, (daysFromCivil_eq_dayNumber y m d hb.1 hb.2.1).symm⟩

example : IsDayNumber (2000, 2, 29) 11016 := (isDayNumber_iff _ _).2 (by decide)
example : IsDayNumber (-262143, 1, 1) (-96465292) ∧ IsDayNumber (262142, 12, 31) 95026236 :=
  ⟨(isDayNumber_iff _ _).2 (by decide), (isDayNumber_iff _ _).2 (by decide)⟩
example : ¬ IsDayNumber (1900, 2, 29) 0 := fun h => by have := ((isDayNumber_iff _ _).1 h).1; revert this; decide
example : ¬ IsDayNumber (2000, 2, 29) 11017 := fun h => by have := ((isDayNumber_iff _ _).1 h).2; revert this; decide

end SaModel.Props.C14
