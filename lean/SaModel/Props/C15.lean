import SaModel.Codec.Decimal
import SaModel.Spec.Decimal
import SaModel.Lemmas.C15Parse
import SaModel.Lemmas.C15Format
/-
C15 — Decimal128 conversions are exact within the declared precision and scale.
Property theorems only.  Model: SaModel/Codec/Decimal.lean (utils/decimal.rs, decimal_builder.rs,
decimal_deserializer.rs after the `fix:` commits; pinned variants beside it).
Specification: SaModel/Spec/Decimal.lean (grammar `Dec`, exact value, truncation toward zero).
-/
namespace SaModel.Props.C15
open SaModel SaModel.Decimal SaModel.Spec.Decimal SaModel.Lemmas.C15

/-! ### writing text into a `Decimal128(p, s)` column -/

theorem new_ok (p : Nat) (s : Int) : ∃ parser, DecimalParser.new p s true = .ok parser := by
  unfold DecimalParser.new DecimalParser.newWith unsignedAbs
  simp only [Bool.not_true, Bool.and_false, Bool.false_eq_true, if_false, bind_ok']
  split
  · exact ⟨_, rfl⟩
  · split
    · exact ⟨_, rfl⟩
    · exact ⟨_, rfl⟩

theorem copyDigits_true (self : DecimalParser) (b : Nat) (r : List UInt8) :
    self.copyDigits b r = if anyAsciiDigit r then self.copyDigitsWith false b r else fail "Invalid decimal: no digits found" := by
  unfold DecimalParser.copyDigits DecimalParser.copyDigitsWith
  cases anyAsciiDigit r <;> simp

/-- The whole of `serialize_str` against the specification: it stores exactly what the specification
demands, or fails with an error (never a panic) when the specification demands an error. -/
theorem serializeStr_spec (p : Nat) (s : Int) (txt : List UInt8) (hp1 : 1 ≤ p) (hp : p ≤ 38) :
    (∃ v, expected p s txt = some v ∧ serializeStr p s txt = .ok v) ∨
    (expected p s txt = none ∧ ∃ m, serializeStr p s txt = fail m) := by
  obtain ⟨parser, hnew⟩ := new_ok p s
  rcases hps : parseSign txt with ⟨r, sg⟩
  rcases hfp : findPeriod r with ⟨bp, ap⟩
  -- the specification's view of the text
  have hsplit := splitSign_eq txt
  rw [hps] at hsplit
  simp only at hsplit
  obtain ⟨hsign, hint, hfrac⟩ := splitPoint_eq (specSign sg) r bp ap hfp
  have hdec : decompose txt = splitPoint (specSign sg) r := by unfold decompose; rw [hsplit]
  have hDecIff : Dec txt ↔ AllDigits (r.take bp) ∧ AllDigits (r.drop ap) ∧ 1 ≤ (r.take bp).length + (r.drop ap).length := by
    unfold Dec Parts.wf
    rw [hdec, hint, hfrac]
    simp only [Bool.and_eq_true, List.all_eq_true, decide_eq_true_eq, AllDigits, and_assoc]
  have hM : AllDigits (r.take bp) → AllDigits (r.drop ap) →
      scaledFloor txt s = digitsVal (scaledDigits (r.take bp) (r.drop ap) s) := by
    intro hI hF
    rw [scaledDigits_val _ _ hI hF]
    unfold scaledFloor mantissa fracLen
    rw [hdec, hint, hfrac]
  have hneg : isNeg txt = (sg == .minus) := by
    unfold isNeg; rw [hdec, hsign]; cases sg <;> rfl
  -- the model
  have hmodel : serializeStr p s txt = (do
      let digits ← parser.copyDigits 64 r
      let val ← if digits.isEmpty then .ok 0 else parseI128 digits
      sg.applyI128 val) := by
    unfold serializeStr builderNew
    rw [if_neg (by omega), hnew]
    simp only [bind_ok', DecimalParser.parseDecimal128, hps, BUFFER_SIZE_I128]
  rw [hmodel, copyDigits_true]
  by_cases hany : anyAsciiDigit r = true
  · simp only [hany, if_true]
    rcases copyDigits_unified p s (by omega) r parser hnew bp ap hfp with ⟨hI, hF, hz, e⟩ | ⟨hn, m, e⟩
    · left
      have hDd := scaledDigits_allDigits _ _ hI hF s
      have hDec : Dec txt := hDecIff.mpr ⟨hI, hF, (anyAsciiDigit_parts r bp ap hfp hI hF).mp hany⟩
      have hlt : scaledFloor txt s < 10 ^ p := by
        rw [hM hI hF]; exact (digitsVal_lt_pow_iff hDd p).mpr hz
      refine ⟨applySign (isNeg txt) (scaledFloor txt s), ?_, ?_⟩
      · unfold expected; rw [if_pos ⟨hDec, hlt⟩]
      · rw [e]
        simp only [bind_ok']
        generalize hout : (scaledDigits (r.take bp) (r.drop ap) s).drop ((scaledDigits (r.take bp) (r.drop ap) s).length - p) = out
        have hval : digitsVal out = scaledFloor txt s := by
          rw [← hout, digitsVal_drop_of_allZero _ _ hz, ← hM hI hF]
        have hod : AllDigits out := by rw [← hout]; exact hDd.drop _
        have holen : out.length ≤ 38 := by rw [← hout, List.length_drop]; omega
        have hfinal : sg.applyI128 (scaledFloor txt s : Int) = .ok (applySign (isNeg txt) (scaledFloor txt s)) := by
          have h38 := pow38_le
          have hp' := Nat.pow_le_pow_right (n := 10) (by omega) hp
          rw [hneg]
          cases sg with
          | minus =>
            simp only [Sign.applyI128, applySign, beq_self_eq_true, if_true]
            rw [if_neg]
            unfold I128_MIN; omega
          | plus => rfl
          | none => rfl
        cases hoe : out with
        | nil =>
          rw [hoe] at hval
          simp only [List.isEmpty_nil, if_true]
          rw [← hfinal, ← hval]; rfl
        | cons c rest =>
          simp only [List.isEmpty_cons, Bool.false_eq_true, if_false]
          rw [← hoe, parseI128_digits out hod (by rw [hoe]; exact List.cons_ne_nil _ _) holen, hval]
          exact hfinal
    · right
      refine ⟨?_, m, by rw [e]; rfl⟩
      unfold expected
      rw [if_neg]
      rintro ⟨hDec, hlt⟩
      obtain ⟨hI, hF, -⟩ := hDecIff.mp hDec
      apply hn
      refine ⟨hI, hF, ?_⟩
      rw [hM hI hF] at hlt
      exact (digitsVal_lt_pow_iff (scaledDigits_allDigits _ _ hI hF s) p).mp hlt
  · right
    simp only [hany, Bool.false_eq_true, if_false]
    refine ⟨?_, _, rfl⟩
    unfold expected
    rw [if_neg]
    rintro ⟨hDec, -⟩
    obtain ⟨hI, hF, h1⟩ := hDecIff.mp hDec
    exact hany ((anyAsciiDigit_parts r bp ap hfp hI hF).mpr h1)


/-- `parse_ok_iff` + `parse_value`: for `1 ≤ p ≤ 38` and every scale, `serialize_str` stores `v` exactly when
the text is a decimal number (`Dec`), `M = ⌊|value| · 10^s⌋ < 10^p`, and `v = sign · M`. -/
theorem parse_ok_iff (p : Nat) (s : Int) (txt : List UInt8) (v : Int) (hp1 : 1 ≤ p) (hp : p ≤ 38) :
    serializeStr p s txt = .ok v ↔
      Dec txt ∧ scaledFloor txt s < 10 ^ p ∧ v = applySign (isNeg txt) (scaledFloor txt s) := by
  have hexp : expected p s txt = some v ↔
      Dec txt ∧ scaledFloor txt s < 10 ^ p ∧ v = applySign (isNeg txt) (scaledFloor txt s) := by
    unfold expected
    by_cases h : Dec txt ∧ scaledFloor txt s < 10 ^ p
    · rw [if_pos h]
      constructor
      · intro h'; cases h'; exact ⟨h.1, h.2, rfl⟩
      · intro h'; rw [h'.2.2]
    · rw [if_neg h]
      constructor
      · intro h'; cases h'
      · intro h'; exact absurd ⟨h'.1, h'.2.1⟩ h
  rw [← hexp]
  rcases serializeStr_spec p s txt hp1 hp with ⟨w, h1, h2⟩ | ⟨h1, m, h2⟩
  · rw [h1, h2]
    constructor
    · intro h; cases h; rfl
    · intro h; cases h; rfl
  · rw [h1, h2]
    constructor
    · intro h; cases h
    · intro h; cases h

/-- existence form: something is stored iff the text is a decimal number that fits the precision -/
theorem parse_isOk_iff (p : Nat) (s : Int) (txt : List UInt8) (hp1 : 1 ≤ p) (hp : p ≤ 38) :
    (∃ v, serializeStr p s txt = .ok v) ↔ Dec txt ∧ scaledFloor txt s < 10 ^ p := by
  constructor
  · rintro ⟨v, h⟩
    have := (parse_ok_iff p s txt v hp1 hp).mp h
    exact ⟨this.1, this.2.1⟩
  · intro h
    exact ⟨_, (parse_ok_iff p s txt _ hp1 hp).mpr ⟨h.1, h.2, rfl⟩⟩

/-- `parse_value`: what is stored is the value scaled by `10^s`, truncated toward zero, within the precision -/
theorem parse_value (p : Nat) (s : Int) (txt : List UInt8) (v : Int) (hp1 : 1 ≤ p) (hp : p ≤ 38)
    (h : serializeStr p s txt = .ok v) :
    v = applySign (isNeg txt) (scaledFloor txt s) ∧ v.natAbs < 10 ^ p := by
  have h' := (parse_ok_iff p s txt v hp1 hp).mp h
  refine ⟨h'.2.2, ?_⟩
  rw [h'.2.2]; unfold applySign
  split <;> simpa using h'.2.1

/-- text that is not a decimal number, or needs more digits than the precision, is an error — not a panic -/
theorem parse_err (p : Nat) (s : Int) (txt : List UInt8) (hp1 : 1 ≤ p) (hp : p ≤ 38)
    (h : ¬ (Dec txt ∧ scaledFloor txt s < 10 ^ p)) : ∃ m, serializeStr p s txt = fail m := by
  rcases serializeStr_spec p s txt hp1 hp with ⟨w, h1, h2⟩ | ⟨h1, m, h2⟩
  · exact absurd ((parse_isOk_iff p s txt hp1 hp).mp ⟨w, h2⟩) h
  · exact ⟨m, h2⟩

theorem parse_no_panic (p : Nat) (s : Int) (txt : List UInt8) (hp1 : 1 ≤ p) (hp : p ≤ 38) (site : String) :
    serializeStr p s txt ≠ panic site := by
  rcases serializeStr_spec p s txt hp1 hp with ⟨w, h1, h2⟩ | ⟨h1, m, h2⟩
  · rw [h2]; intro h; cases h
  · rw [h2]; intro h; cases h

/-- precisions a Decimal128 cannot have are refused when the builder is created -/
theorem bad_precision_err (p : Nat) (s : Int) (txt : List UInt8) (hp : p = 0 ∨ 38 < p) :
    ∃ m, serializeStr p s txt = fail m := by
  unfold serializeStr builderNew
  rw [if_pos (by omega)]
  exact ⟨_, rfl⟩

/-- `parser_select_total`: `DecimalParser::new` is total on `u8 × i8` (in fact everywhere) … -/
theorem parser_select_total (p : Nat) (s : Int) (t : Bool) : ∃ parser, DecimalParser.new p s t = .ok parser := by
  unfold DecimalParser.new DecimalParser.newWith unsignedAbs
  simp only [bind_ok']
  repeat' split
  all_goals exact ⟨_, rfl⟩

/-- … the truncating parsers it selects satisfy the `debug_assert!`s of their copy functions … -/
theorem parser_select_kind (p : Nat) (s : Int) :
    DecimalParser.new p s true = .ok (
      if s < 0 then .integerOnlyTruncated p s.natAbs
      else if s.toNat < p then .mixedTruncated p s.toNat
      else .fractionOnlyTruncated p s.toNat) := by
  unfold DecimalParser.new DecimalParser.newWith unsignedAbs
  simp only [Bool.not_true, Bool.and_false, Bool.false_eq_true, if_false, bind_ok']
  by_cases h1 : s < 0
  · simp [h1]
  · by_cases h2 : s.toNat < p <;> simp [h1, h2]

/-- … while the pinned selection unwinds for scale −128 (defect #14) -/
theorem parser_select_pinned_panics :
    DecimalParser.newPinned 5 (-128) true = panic "attempt to negate with overflow" := by decide

/-! ### the pinned code violates the property (witnesses double as replays) -/

/-- defect #11: `""`, `"+"`, `"-"`, `"."` are stored as 0 in `Decimal128(5, 2)` although they are not numbers -/
theorem pinned_accepts_no_digits :
    serializeStrPinned 5 2 [] = .ok 0 ∧ serializeStrPinned 5 2 [43] = .ok 0 ∧
    serializeStrPinned 5 2 [45] = .ok 0 ∧ serializeStrPinned 5 2 [46] = .ok 0 ∧
    ¬ Dec [] ∧ ¬ Dec [43] ∧ ¬ Dec [45] ∧ ¬ Dec [46] := by decide

/-- defect #31: `"5"` at scale −1 and `".5"` at scale 0 are numbers whose kept digits are all dropped
(the specification stores 0); the pinned code returns an error -/
theorem pinned_rejects_dropped :
    serializeStrPinned 5 (-1) [53] = fail "ParseIntError: cannot parse integer from empty string" ∧
    expected 5 (-1) [53] = some 0 ∧
    serializeStrPinned 5 0 [46, 53] = fail "ParseIntError: cannot parse integer from empty string" ∧
    expected 5 0 [46, 53] = some 0 := by decide

/-- the repaired code on the same witnesses -/
example : serializeStr 5 2 [] = fail "Invalid decimal: no digits found" ∧ serializeStr 5 (-1) [53] = .ok 0 ∧
    serializeStr 5 0 [46, 53] = .ok 0 := by decide

/-- defect #32: `Decimal128(100, 0)` and a 70-digit text overrun the 64-byte parse buffer -/
theorem pinned_long_input_panics :
    serializeStrPinned 100 0 (List.replicate 70 49) = panic "range end index out of range for the parse buffer" := by
  decide

/-! non-vacuity: the specification accepts and rejects, on both sides of the precision limit -/
-- "-12.345", "999.999", "1000", "12345.6", ".00129", "0.0129", "1e3" as bytes
example : serializeStr 5 2 [45, 49, 50, 46, 51, 52, 53] = .ok (-1234) := by decide
example : serializeStr 5 2 [57, 57, 57, 46, 57, 57, 57] = .ok 99999 := by decide
example : (serializeStr 5 2 [49, 48, 48, 48]).isErr = true := by decide
example : serializeStr 3 (-2) [49, 50, 51, 52, 53, 46, 54] = .ok 123 := by decide
example : serializeStr 2 4 [46, 48, 48, 49, 50, 57] = .ok 12 := by decide
example : (serializeStr 2 4 [48, 46, 48, 49, 50, 57]).isErr = true := by decide
example : (serializeStr 5 2 [49, 101, 51]).isErr = true := by decide

/-! ### floats -/

/-- `floatDecimal_range`: a float is stored only if its scaled product is finite and within the precision,
and then exactly the externally computed `(v * 10^s) as i128` is stored; otherwise the push is an error -/
theorem float_range (p : Nat) (s : Int) (finite : Bool) (cast v : Int) (hp1 : 1 ≤ p) (hp : p ≤ 38) :
    serializeFloat p s finite cast = .ok v ↔ finite = true ∧ cast.natAbs < 10 ^ p ∧ v = cast := by
  have h38 : (10 : Nat) ^ 38 < 2 ^ 128 := by decide
  have hpow : 10 ^ p < 2 ^ 128 := Nat.lt_of_le_of_lt (Nat.pow_le_pow_right (by omega) hp) h38
  unfold serializeFloat builderNew
  rw [if_neg (by omega)]
  obtain ⟨parser, hnew⟩ := new_ok p s
  rw [hnew]
  simp only [bind_ok', scaledFloatToDecimal128, hpow, if_true]
  cases finite
  · simp [fail]
  · simp only [Bool.not_true, Bool.false_eq_true, if_false, true_and]
    by_cases h : cast.natAbs ≥ 10 ^ p
    · rw [if_pos h]
      constructor
      · intro h'; cases h'
      · intro h'; omega
    · rw [if_neg h]
      constructor
      · intro h'; cases h'; exact ⟨by omega, rfl⟩
      · intro h'; rw [h'.2]

theorem float_no_panic (p : Nat) (s : Int) (finite : Bool) (cast : Int) (site : String) :
    serializeFloat p s finite cast ≠ panic site := by
  unfold serializeFloat builderNew
  split
  · intro h; cases h
  · obtain ⟨parser, hnew⟩ := new_ok p s
    rw [hnew]
    simp only [bind_ok', scaledFloatToDecimal128]
    repeat' split
    all_goals (intro h; cases h)

/-- defect #12: the pinned float path stores values beyond the precision and non-finite values -/
theorem pinned_float_unchecked :
    serializeFloatPinned 5 2 true (10 ^ 32) = .ok (10 ^ 32) ∧ serializeFloatPinned 5 2 false 0 = .ok 0 := by decide

example : serializeFloat 5 2 true 12345 = .ok 12345 ∧ (serializeFloat 5 2 true 100000).isErr = true ∧
    (serializeFloat 5 2 false 0).isErr = true := by decide

/-! ### reading a `Decimal128` value as text -/

/-- `format_total_exact`: for every i128 `v` and every i8 scale `s`, `format_decimal` (as called by the
repaired reader) returns a text — no buffer overrun, no negation overflow — that is a plain decimal number
(`Dec`) denoting exactly `v / 10^s`, with a minus sign exactly for negative `v`. -/
theorem format_total_exact (v s : Int) (hv : inI128 v) (hs : inI8 s) :
    ∃ txt, formatDecimal v s = .ok txt ∧ Dec txt ∧ DenotesScaled txt v s ∧ (isNeg txt = true ↔ v < 0) :=
  formatDecimal_exact v s hv hs

theorem format_no_panic (v s : Int) (hv : inI128 v) (hs : inI8 s) (site : String) :
    formatDecimal v s ≠ panic site := by
  obtain ⟨txt, h, -⟩ := format_total_exact v s hv hs
  rw [h]; intro h'; cases h'

/-- `format_parse`: writing the produced text back into a `Decimal128(38, s)` column stores `v` again
(every value a Decimal128 can hold, `|v| < 10^38`, every scale) -/
theorem format_parse (v s : Int) (hs : inI8 s) (hv : v.natAbs < 10 ^ 38) :
    ∃ txt, formatDecimal v s = .ok txt ∧ serializeStr 38 s txt = .ok v := by
  have h38 := pow38_le
  have hv' : inI128 v := by unfold inI128 I128_MIN I128_MAX; omega
  obtain ⟨txt, h1, h2, h3, h4⟩ := format_total_exact v s hv' hs
  refine ⟨txt, h1, ?_⟩
  have hexp := expected_of_denotes 38 s txt v h2 h3 h4 hv
  rcases serializeStr_spec 38 s txt (by omega) (by omega) with ⟨w, e1, e2⟩ | ⟨e1, -⟩
  · rw [hexp] at e1; cases e1; exact e2
  · rw [hexp] at e1; cases e1

/-- more generally, at any precision that can hold `v` -/
theorem format_parse_precision (p : Nat) (v s : Int) (hp1 : 1 ≤ p) (hp : p ≤ 38) (hs : inI8 s) (hv : v.natAbs < 10 ^ p) :
    ∃ txt, formatDecimal v s = .ok txt ∧ serializeStr p s txt = .ok v := by
  have h38 := pow38_le
  have hp' := Nat.pow_le_pow_right (n := 10) (by omega) hp
  have hv' : inI128 v := by unfold inI128 I128_MIN I128_MAX; omega
  obtain ⟨txt, h1, h2, h3, h4⟩ := format_total_exact v s hv' hs
  refine ⟨txt, h1, ?_⟩
  have hexp := expected_of_denotes p s txt v h2 h3 h4 hv
  rcases serializeStr_spec p s txt hp1 hp with ⟨w, e1, e2⟩ | ⟨e1, -⟩
  · rw [hexp] at e1; cases e1; exact e2
  · rw [hexp] at e1; cases e1

/-- grammar lemma: a rendered `sign? digit* ('.' digit*)?` splits into exactly its parts, so `Dec`
(defined through `decompose`) is the stated grammar and the value function is well defined -/
theorem grammar_unique (x : Parts) (h : x.wf = true) : decompose x.render = x ∧ Dec x.render := by
  have hI : AllDigits x.int := by
    unfold Parts.wf at h
    simp only [Bool.and_eq_true, List.all_eq_true, decide_eq_true_eq] at h
    exact h.1.1
  have := decompose_render x hI
  exact ⟨this, by unfold Dec; rw [this]; exact h⟩

theorem dec_iff_grammar (txt : List UInt8) : Dec txt ↔ ∃ x : Parts, x.wf = true ∧ txt = x.render := by
  constructor
  · intro h
    refine ⟨decompose txt, h, ?_⟩
    -- every text is the rendering of its own decomposition
    unfold decompose Parts.render splitPoint
    have hs : txt = (splitSign txt).1.bytes ++ (splitSign txt).2 := by
      unfold splitSign; split <;> rfl
    have ht := List.takeWhile_append_dropWhile (p := (· != 46)) (l := (splitSign txt).2)
    cases hd : (splitSign txt).2.dropWhile (· != 46) with
    | nil =>
      rw [hd] at ht
      simp only [List.append_nil] at ht ⊢
      rw [ht]; exact hs
    | cons c f =>
      have hc : c = 46 := by
        have := List.head_dropWhile_not (· != 46) (l := (splitSign txt).2) (by rw [hd]; exact List.cons_ne_nil _ _)
        simp only [hd, List.head_cons] at this
        simpa using this
      subst hc
      rw [hd] at ht
      simp only [List.append_assoc]
      rw [ht]; exact hs
  · rintro ⟨x, hx, rfl⟩
    exact (grammar_unique x hx).2

/-- defect #13: the pinned reader (64-byte buffer) unwinds for scale ≥ 62 / ≤ −25 … -/
theorem pinned_format_panics :
    formatDecimalPinned 1 63 = panic "copy_within: dest is out of bounds" ∧
    formatDecimalPinned (-1) 62 = panic "copy_within: dest is out of bounds" ∧
    formatDecimalPinned 1 (-64) = panic "range end index out of range for the format buffer" ∧
    formatDecimalPinned I128_MIN (-25) = panic "range end index out of range for the format buffer" ∧
    formatDecimalPinned I128_MAX 100 = panic "copy_within: dest is out of bounds" := by decide

/-- … and (found while building this check) for scale −128, where `-scale` overflows the `i8`,
even with the large buffer -/
theorem pinned_format_negate_panics :
    formatDecimalPinned 1 (-128) = panic "attempt to negate with overflow" ∧
    formatDecimalNegPinned 1 (-128) = panic "attempt to negate with overflow" ∧
    formatDecimalSmallBuffer 1 (-128) = panic "range end index out of range for the format buffer" := by decide

-- "-0.0123", "-1230000", "12.345", "0" and the extremes
example : formatDecimal (-123) 4 = .ok [45, 48, 46, 48, 49, 50, 51] := by decide
example : formatDecimal (-123) (-4) = .ok [45, 49, 50, 51, 48, 48, 48, 48] := by decide
example : formatDecimal 12345 3 = .ok [49, 50, 46, 51, 52, 53] := by decide
example : formatDecimal 0 (-7) = .ok [48] := by decide
example : (formatDecimal I128_MIN (-128)).isOk = true ∧ (formatDecimal I128_MAX 127).isOk = true := by decide

end SaModel.Props.C15
