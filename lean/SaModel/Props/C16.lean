import SaModel.Lemmas.C16Run
import SaModel.Lemmas.C16FromType
import SaModel.Props.C17
import SaModel.Props.C14
import SaModel.Props.C15
import SaModel.Props.C20
import SaModel.Props.C13
/-
C16 — failures are reported as errors: no panic, overflow or hang.
In the model every Rust operation that can unwind (indexing, slicing, unwrap, `%0`, checked arithmetic in a
debug build) yields the outcome `panic`; "no panic" is the theorem `(f x).isPanic = false` for ALL inputs of `f`.
Termination: every model function is accepted by Lean as total (structural or well-founded recursion), so no
modelled entry point can run unboundedly (notes/C16.md lists which Rust loop is which recursion).

Builder side (proofs in Lemmas/C16Basic, C16Inv, C16Push, C16New, C16Run):
* placeholders and nulls never unwind in ANY builder state;
* `push_no_panic`: for EVERY serde value (malformed raw key/value streams, tuples longer/shorter than the struct,
  wrong lengths, wrong kinds) and every state satisfying the invariant `NPInv` (the vectors the Rust code indexes
  unchecked have one entry per field / variant; decimal precisions are the accepted ones), `push` does not unwind;
  `NPInv` is established by `build_builder` and preserved by every successful push of every value;
* `newDT`, `finish`, `extend`, `serializeWith`, `runRows`, `toMarrow` never unwind, for every field list and all rows.
The external conversions enter through `ExtNP ext` (they do not unwind); `codecExt_np` discharges it for the
C14 / C15 codec models.  The per-codec theorems are collected at the end.
-/
namespace SaModel.Props.C16
open SaModel SaModel.Build

open SaModel.Lemmas.C16 (NPInv NPInvL KindOK ExtNP SInv)

theorem ctx_isPanic {α} (ann : List (String × String)) (r : R α) : (ctx ann r).isPanic = r.isPanic :=
  Lemmas.C16.ctx_isPanic ann r

theorem bind_no_panic {α β} (r : R α) (f : α → R β) (h1 : r.isPanic = false) (h2 : ∀ v, (f v).isPanic = false) :
    (r >>= f).isPanic = false := Lemmas.C16.bind_no_panic r f h1 h2

theorem ok_no_panic {α} (v : α) : R.isPanic (Except.ok v : R α) = false := rfl
theorem fail_no_panic {α} (msg : String) : (fail msg : R α).isPanic = false := rfl

/-- `r.isPanic = false` is the statement `r ≠ panic site` for every site -/
theorem isPanic_false_iff {α} (r : R α) : r.isPanic = false ↔ ∀ site, r ≠ panic site := by
  constructor
  · intro h site; exact Lemmas.C16.ne_panic_of_isPanic h site
  · intro h
    cases r with
    | ok v => rfl
    | error e =>
      cases e with
      | panic site => exact absurd rfl (h site)
      | err _ => rfl
      | errCtx _ _ => rfl

theorem setValidity_no_panic (v : Validity) (idx : Nat) (value : Bool) : (setValidity v idx value).isPanic = false :=
  Lemmas.C16.setValidity_no_panic v idx value

theorem duplicateLast_no_panic (offs : List Int) : (duplicateLast offs).isPanic = false :=
  Lemmas.C16.duplicateLast_no_panic offs

/-- the repaired `increment_last` never unwinds (the pinned one does at the top of the offset type) -/
theorem incrementLast_no_panic (large : Bool) (offs : List Int) (inc : Nat) :
    (incrementLast true large offs inc).isPanic = false := Lemmas.C16.incrementLast_no_panic large offs inc

/-- placeholders (`serialize_default`, any number of them) never unwind, in ANY builder state -/
theorem pushDefaultK_no_panic (b : B) (k : Nat) : (pushDefaultK b k).isPanic = false :=
  Lemmas.C16.pushDefaultK_no_panic b k

/-- a null pushed into ANY builder state never unwinds (error if the field is not nullable) -/
theorem pushNone_no_panic (b : B) : (pushNone b).isPanic = false := Lemmas.C16.pushNone_no_panic b

/-! ### `push`: every serde value, every state the crate can be in -/

/-- `build_builder` never unwinds (unsupported types are errors) and establishes the invariant -/
theorem newDT_no_panic (path : String) (dt : DataType) (nullable : Bool) (md : Metadata) (site : String) :
    newDT path dt nullable md ≠ panic site :=
  Lemmas.C16.ne_panic_of_isPanic (Lemmas.C16.newDT_np path dt nullable md) site

theorem newDT_inv {path : String} {dt : DataType} {nullable : Bool} {md : Metadata} {b : B}
    (h : newDT path dt nullable md = .ok b) : NPInv b := Lemmas.C16.newDT_npInv h

theorem newRoot_inv {fields : List Field} {root : B} (h : newRoot fields = .ok root) : NPInv root :=
  Lemmas.C16.newRoot_npInv h

/-- every successful push of EVERY value (no hypothesis on the value) keeps the invariant -/
theorem push_preserves_inv (ext : Ext) (x : SVal) {b b' : B} (hb : NPInv b) (h : push ext b x = .ok b') : NPInv b' :=
  Lemmas.C16.push_npInv ext x hb h

/-- C16 for the builders: `x.serialize(builder)` returns a value or an error for EVERY serde value `x` — including
raw key/value streams in any order, tuples longer or shorter than the struct, sequences of the wrong length,
variants that do not exist, scalars of the wrong kind — in every state satisfying the invariant. -/
theorem push_no_panic (ext : Ext) (he : ExtNP ext) (b : B) (hb : NPInv b) (x : SVal) (site : String) :
    push ext b x ≠ panic site :=
  Lemmas.C16.ne_panic_of_isPanic (Lemmas.C16.push_np ext he x b hb) site

/-- the invariant is needed: with one `current_offset` counter missing the union builder indexes out of range -/
theorem push_without_inv_panics :
    (push {} (.union "$" (.cons (.null "$.a" 0) ⟨"a", true, []⟩ .nil) [] [] []) (.unitVariant "E" 0 "a")).isPanic = true := by
  decide

/-- the default external functions (everything is refused) satisfy `ExtNP` -/
theorem extDefault_np : ExtNP {} :=
  ⟨fun _ _ => rfl, fun _ _ => rfl, fun _ _ _ => rfl, fun _ _ => rfl, fun _ _ _ _ _ => rfl, fun _ _ _ _ => rfl⟩

def codecUnit : SaModel.TimeUnit → SaModel.Codec.TimeUnit
  | .second => .second | .millisecond => .millisecond | .microsecond => .microsecond | .nanosecond => .nanosecond

/-- the external functions as the correspondence driver instantiates them (Driver/Suites/Build.lean `extOfAux`):
decimal and temporal string conversions are the codec models of C15 / C14; the float display strings, the float
product of the decimal float path (`cast`) and the timestamp parser are parameters -/
def codecExt (f32Str f64Str : Nat → String) (cast : Nat → Int → Bool → Nat → Option (Bool × Int))
    (parseTimestamp : SaModel.TimeUnit → Bool → String → R Int) : Ext :=
  { f32Str := f32Str, f64Str := f64Str,
    parseDecimal := fun p s txt => SaModel.Decimal.serializeStr p s txt.toUTF8.toList,
    floatToDecimal := fun p s is64 bits =>
      match cast p s is64 bits with
      | some (fin, c) => SaModel.Decimal.serializeFloat p s fin c
      | none => fail "aux: missing dec_cast entry",
    parseDate := fun is64 s => SaModel.Codec.dateOfString (if is64 then .date64 else .date32) s.toList,
    parseTime := fun u s =>
      SaModel.Codec.timeOfString (match u with | .second | .millisecond => .time32 | _ => .time64) (codecUnit u) s.toList,
    parseTimestamp := parseTimestamp,
    parseDuration := fun u s => SaModel.Codec.durationOfString s.toList (codecUnit u) }

/-- `ExtNP` is a theorem for the codec models (date, time, duration, decimal string and float paths).
`_partial`: the timestamp string parser (`Codec.timestampOfString`) has no no-panic theorem in C14 yet (its model
has a panic branch for `timestamp_millis/micros` overflow that is unreachable inside chrono's range), so it stays a
hypothesis here. -/
theorem codecExt_np_partial (f32Str f64Str : Nat → String) (cast : Nat → Int → Bool → Nat → Option (Bool × Int))
    (parseTimestamp : SaModel.TimeUnit → Bool → String → R Int)
    (hts : ∀ u utc s, (parseTimestamp u utc s).isPanic = false) :
    ExtNP (codecExt f32Str f64Str cast parseTimestamp) where
  parseDate := fun _ _ => SaModel.Props.C14.dateOfString_no_panic _ _
  parseTime := fun _ _ => SaModel.Props.C14.timeOfString_no_panic _ _ _
  parseTimestamp := hts
  parseDuration := fun _ _ => SaModel.Props.C14.span_no_panic _ _
  parseDecimal := fun p sc s h1 h2 =>
    (isPanic_false_iff _).2 (fun site => SaModel.Props.C15.parse_no_panic p sc _ h1 h2 site)
  floatToDecimal := fun p sc is64 bits => by
    simp only [codecExt]
    split
    · exact (isPanic_false_iff _).2 (fun site => SaModel.Props.C15.float_no_panic p sc _ _ site)
    · rfl

/-- `into_array` of every builder -/
theorem finish_no_panic (ext : Ext) (he : ExtNP ext) (b : B) (hb : NPInv b) (site : String) : finish ext b ≠ panic site :=
  Lemmas.C16.ne_panic_of_isPanic (Lemmas.C16.finish_np ext he b hb) site

/-- `ArrayBuilder::extend` and the `Serializer` front end, for every value -/
theorem extend_no_panic (ext : Ext) (he : ExtNP ext) (root : B) (hb : NPInv root) (x : SVal) (site : String) :
    extend ext root x ≠ panic site :=
  Lemmas.C16.ne_panic_of_isPanic (Lemmas.C16.extend_np ext he root hb x) site

theorem serializeWith_no_panic (ext : Ext) (he : ExtNP ext) (root : B) (hb : NPInv root) (x : SVal) (site : String) :
    serializeWith ext root x ≠ panic site :=
  Lemmas.C16.ne_panic_of_isPanic (Lemmas.C16.serializeWith_np ext he root hb x) site

/-- builder construction followed by ANY list of rows: for every field list (accepted by `newRoot` or not) -/
theorem runRows_no_panic (ext : Ext) (he : ExtNP ext) (fields : List Field) (rows : List SVal) (site : String) :
    runRows ext fields rows ≠ panic site :=
  Lemmas.C16.ne_panic_of_isPanic (Lemmas.C16.runRows_np ext he fields rows) site

/-- `to_marrow(fields, rows)`: construction, every push and `build_arrays` -/
theorem toMarrow_no_panic (ext : Ext) (he : ExtNP ext) (fields : List Field) (rows : List SVal) (site : String) :
    toMarrow ext fields rows ≠ panic site :=
  Lemmas.C16.ne_panic_of_isPanic (Lemmas.C16.toMarrow_np ext he fields rows) site

/-! non-vacuity: a two-column root; malformed rows are accepted or refused, never a panic -/

def exFields : List Field := [.mk "a" .int32 false [], .mk "b" .utf8 true []]

/-- the hypotheses of `push_no_panic` hold for the root `newRoot` builds -/
example : ∃ root, newRoot exFields = .ok root ∧ NPInv root := by
  have hok : (newRoot exFields).isOk = true := by decide
  cases h : newRoot exFields with
  | ok root => exact ⟨root, rfl, newRoot_inv h⟩
  | error e => rw [h] at hok; cases hok

/-- a tuple longer than the struct (design #18: the extra element is ignored) and a shorter one (error) -/
example : (runRows {} exFields [.tuple (.cons (.int .i32 1) (.cons (.str "x") (.cons (.bool true) .nil)))]).isOk = true := by
  decide +kernel
example : (runRows {} exFields [.tuple .nil]).isErr = true := by decide +kernel

/-- raw call streams: value without key, two keys in a row, a trailing key; the second one lacks `a` -/
example : (runRows {} exFields
    [.mapRaw (.value (.int .i32 9) (.key (.str "b") (.key (.str "a") (.value (.int .i32 1) (.key (.str "zz") .nil)))))]).isOk = true := by
  decide +kernel
example : (runRows {} exFields [.mapRaw (.value (.int .i32 9) (.value (.int .i32 9) .nil))]).isErr = true := by
  decide +kernel

/-- a duplicate field is an error (`seen[idx]` is read in range) -/
example : (runRows {} exFields
    [.record "R" (.cons "a" 0 (.int .i32 1) (.cons "a" 0 (.int .i32 2) .nil))]).isErr = true := by decide +kernel

/-- the pinned unchecked offset addition unwinds: witness (design #22) -/
theorem incrementLast_pinned_panics : (incrementLast false false [2147483647] 1).isPanic = true := by decide

/-- the pinned tuple path indexed `seen[idx]` out of range: witness (design #18) -/
theorem element_out_of_range_panics :
    (SS.element ⟨"$", 1, none, .cons (.null "$.a" 0) ⟨"a", true, []⟩ .nil, [none], 1, [true]⟩ 1 (fun b => .ok b)).isPanic = true := by
  decide

/-! ### tracing -/

section Tracing
open SaModel.Trace
open SaModel.Lemmas.C16 (idxOK fromTypeLoopN passes nestVec)

/-- `from_samples`, one sample: `x.serialize(TracerSerializer(&mut t))` never unwinds — for EVERY tracer state `t`
(no invariant) and every serde value `x` (raw key/value streams, tuples of any length, variants of any name) whose
variant indices stay below the allocation bound of the executable model (`idxOK`, finding #29) -/
theorem absorb_no_panic (c : Code) (o : Options) (t : Tracer) (x : SVal) (hx : idxOK x = true) (site : String) :
    absorb c o t x ≠ panic site :=
  Lemmas.C16.ne_panic_of_isPanic (Lemmas.C16.absorb_np c o x t hx) site

/-- the bound is where the model stops following the code: `ensure_variant` resizes `variants` up to the index
(finding #29, known: unbounded allocation in the real crate; an explicit `panic "alloc"` in the model) -/
theorem absorb_huge_variant_index :
    (absorb .fixed {} (Tracer.new "$" "$") (.unitVariant "E" VARIANT_ALLOC_LIMIT "a")).isPanic = true := by decide

/-- `Tracer::to_schema` (with `to_field` of every node, overwrites included) never unwinds, for every tracer -/
theorem to_schema_no_panic (o : Options) (t : Tracer) (site : String) : t.to_schema o ≠ panic site :=
  Lemmas.C16.ne_panic_of_isPanic (Lemmas.C16.to_schema_np o t) site

/-- `SerdeArrowSchema::from_samples` as a whole -/
theorem fromSamples_no_panic (c : Code) (o : Options) (xs : List SVal) (hx : ∀ x ∈ xs, idxOK x = true) (site : String) :
    fromSamples c o xs ≠ panic site :=
  Lemmas.C16.ne_panic_of_isPanic (Lemmas.C16.fromSamples_np c o xs hx) site

example : idxOK (.mapRaw (.value (.int .i32 1) (.key (.int .i8 2) .nil))) = true := by decide
example : (absorb .fixed {} (Tracer.new "$" "$") (.mapRaw (.value (.int .i32 1) .nil))).isErr = true := by decide
example : (fromSamples .fixed {} [.record "R" (.cons "a" 0 (.tuple (.cons (.bool true) .nil)) .nil),
    .record "R" (.cons "a" 0 (.tuple .nil) .nil)]).isOk = true := by decide +kernel

/-- `from_type`: the loop performs at most `budget` passes (`fromTypeLoopN` is the loop instrumented with its pass
count; its result is the loop's result) -/
theorem fromTypeLoop_passes_le_budget (c : Code) (o : Options) (ty : Ty) (budget : Nat) (t : Tracer) :
    (fromTypeLoopN c o ty budget t).1 = fromTypeLoop c o ty budget t ∧ (fromTypeLoopN c o ty budget t).2 ≤ budget :=
  ⟨Lemmas.C16.fromTypeLoopN_fst c o ty budget t, Lemmas.C16.fromTypeLoopN_le c o ty budget t⟩

/-- a successful loop ends at a complete tracer reached by `k ≤ budget` consecutive passes -/
theorem fromTypeLoop_ok (c : Code) (o : Options) (ty : Ty) (budget : Nat) (t t' : Tracer)
    (h : fromTypeLoop c o ty budget t = .ok t') :
    t'.is_complete = true ∧ ∃ k, k ≤ budget ∧ passes c o ty k t = .ok t' :=
  Lemmas.C16.fromTypeLoop_ok c o ty budget t t' h

/-- a type that no run of at most `budget` passes completes is not given a schema -/
theorem fromTypeLoop_exhausted (c : Code) (o : Options) (ty : Ty) (budget : Nat) (t : Tracer)
    (h : ∀ k, k ≤ budget → ∀ t', passes c o ty k t = .ok t' → t'.is_complete = false) (t' : Tracer) :
    fromTypeLoop c o ty budget t ≠ .ok t' :=
  Lemmas.C16.fromTypeLoop_exhausted c o ty budget t h t'

/-- the depth limit cuts every unfolding of a recursive type: more than `MAX_TYPE_DEPTH` nested containers are
refused with the documented error in the first pass (here: `Vec<Vec<…>>`; `Option` and newtypes do not add depth) -/
theorem explore_deep (c : Code) (o : Options) (ty : Ty) (k : Nat) (hk : MAX_TYPE_DEPTH + 1 ≤ k) :
    explore c o (Tracer.new "$" "$") (nestVec k ty) = fail "Too deeply nested type detected" :=
  Lemmas.C16.explore_deep_vec c o ty k "$" "$" false (by rw [Lemmas.C16.countDots_root]; exact Nat.zero_le _)
    (by rw [Lemmas.C16.countDots_root]; omega)

theorem fromType_deep_is_error (c : Code) (o : Options) (ty : Ty) (k : Nat) (hk : MAX_TYPE_DEPTH + 1 ≤ k) :
    (fromType c o (nestVec k ty)).isErr = true := Lemmas.C16.fromType_deep_vec c o ty k hk

example : (fromTypeLoopN .fixed {} (.struct "S" (.cons "a" (.option .bool) .nil)) 100 (Tracer.new "$" "$")).2 = 1 := by
  decide +kernel
example : (fromType .fixed {} (nestVec 21 .bool)).isErr = true := fromType_deep_is_error _ _ _ 21 (by decide)
example : (fromType .fixed {} (.struct "S" (.cons "a" (nestVec 3 .bool) .nil))).isOk = true := by decide +kernel

/-- `explore` on a tracer state `from_type` cannot reach (a union with an unseen slot) does unwind in the model
(`opt.as_ref().unwrap()` in the variant scan): a no-panic theorem for `explore` needs the invariant "the tracer was
grown by `explore` from the same type".  OPEN: `explore_no_panic` / `fromType_no_panic` under that invariant
(notes/C16.md describes it). -/
theorem explore_unreachable_state_panics :
    (explore .fixed {} (.union "$" "$" false (.absent .nil)) (.enum "E" (.unit "A" .nil))).isPanic = true := by decide

end Tracing

/-! ### reader construction and iteration -/

section Reader
open SaModel.Read

/-- `Deserializer::new(fields, views)`: the count / length checks are errors -/
theorem deserializer_new_no_panic (checkCount : Bool) (nfields : Nat) (viewLens : List Nat) (site : String) :
    Access.new checkCount nfields viewLens ≠ panic site := by
  apply Lemmas.C16.ne_panic_of_isPanic
  unfold Access.new
  split
  · rfl
  · simp only []; split <;> (split <;> rfl)

/-- construction of the column readers over ARBITRARY views, `Deserializer::get(i)`, `DeserializerIterator::next`
and the bulk `SeqAccess`: whichever index the access layer hands out (`getIdx`, `Iter.step`, `bulk`), reading that
record — `deserialize_any` or any typed target — never unwinds.  (C17 proves the reads for every index; the access
layer itself is total: `Access.getIdx`, `Access.Iter.step`, `Access.bulk`, `Access.run` are plain functions.) -/
theorem deserializer_access_no_panic (a : Arr) (t : Target) (len : Nat) :
    NoPanic (new Fixes.all a) ∧
    (∀ i idx, Access.getIdx len i = some idx → NoPanic (readAny Fixes.all a idx) ∧ NoPanic (readAs Fixes.all t a idx)) ∧
    (∀ (it : Access.Iter) idx, it.step.1 = some idx → NoPanic (readAny Fixes.all a idx) ∧ NoPanic (readAs Fixes.all t a idx)) ∧
    (∀ idx ∈ Access.bulk len, NoPanic (readAny Fixes.all a idx) ∧ NoPanic (readAs Fixes.all t a idx)) :=
  ⟨C17.new_no_panic a,
   fun _ idx _ => ⟨C17.read_no_panic a idx, C17.readAs_no_panic t a idx⟩,
   fun _ idx _ => ⟨C17.read_no_panic a idx, C17.readAs_no_panic t a idx⟩,
   fun idx _ => ⟨C17.read_no_panic a idx, C17.readAs_no_panic t a idx⟩⟩

example : Access.new true 2 [3, 4] = fail "Cannot deserialize from arrays with different lengths" := by decide
example : Access.bulk 3 = [0, 1, 2] := by decide

end Reader

/-! ### collected from the codec and helper models (proved with their properties) -/

theorem decimal_parse_no_panic (p : Nat) (s : Int) (txt : List UInt8) (h1 : 1 ≤ p) (h2 : p ≤ 38) (site : String) :
    SaModel.Decimal.serializeStr p s txt ≠ SaModel.panic site := SaModel.Props.C15.parse_no_panic p s txt h1 h2 site
theorem decimal_format_no_panic (v s : Int) (hv : SaModel.Decimal.inI128 v) (hs : SaModel.Decimal.inI8 s) (site : String) :
    SaModel.Decimal.formatDecimal v s ≠ SaModel.panic site := SaModel.Props.C15.format_no_panic v s hv hs site
theorem decimal_float_no_panic (p : Nat) (s : Int) (finite : Bool) (cast : Int) (site : String) :
    SaModel.Decimal.serializeFloat p s finite cast ≠ SaModel.panic site := SaModel.Props.C15.float_no_panic p s finite cast site
theorem decimal_parser_select_total (p : Nat) (s : Int) (t : Bool) :
    ∃ parser, SaModel.Decimal.DecimalParser.new p s t = Except.ok parser := SaModel.Props.C15.parser_select_total p s t
theorem span_no_panic (s : List Char) (u : SaModel.Codec.TimeUnit) :
    (SaModel.Codec.durationOfString s u).isPanic = false := SaModel.Props.C14.span_no_panic s u
theorem time_of_string_no_panic (ty : SaModel.Codec.TimeTy) (u : SaModel.Codec.TimeUnit) (s : List Char) :
    (SaModel.Codec.timeOfString ty u s).isPanic = false := SaModel.Props.C14.timeOfString_no_panic ty u s
theorem time_to_string_no_panic (u : SaModel.Codec.TimeUnit) (ts : Int) :
    (SaModel.Codec.timeToString u ts).isPanic = false := SaModel.Props.C14.timeToString_no_panic u ts
theorem timestamp_to_string_no_panic (u : SaModel.Codec.TimeUnit) (utc : Bool) (ts : Int) :
    (SaModel.Codec.timestampToString u utc ts).isPanic = false := SaModel.Props.C14.timestampToString_no_panic u utc ts
theorem date_of_string_no_panic (ty : SaModel.Codec.DateTy) (s : List Char) :
    (SaModel.Codec.dateOfString ty s).isPanic = false := SaModel.Props.C14.dateOfString_no_panic ty s
theorem date_to_string_no_panic (ty : SaModel.Codec.DateTy) (v : Int) :
    (SaModel.Codec.dateToString ty v).isPanic = false := SaModel.Props.C14.dateToString_no_panic ty v
theorem tensor_perm_no_panic (n : Nat) (p : List Nat) (site : String) :
    SaModel.Ext.checkPermutation n p ≠ Except.error (SaModel.Fail.panic site) := SaModel.Props.C20.perm_no_panic n p site
theorem tensor_fixed_storage_no_panic {ε : Type} (h : SaModel.Ext.FixedShapeTensorField ε) :
    h.tryFrom.isPanic = false := SaModel.Props.C20.fixed_storage_no_panic h
theorem tensor_variable_storage_no_panic {ε : Type} (h : SaModel.Ext.VariableShapeTensorField ε) :
    h.tryFrom.isPanic = false := SaModel.Props.C20.variable_storage_no_panic h

end SaModel.Props.C16
