import SaModel.Lemmas.C16Run
import SaModel.Lemmas.C01MapOps
import SaModel.Lemmas.C16FromType
import SaModel.Lemmas.C16Depth
import SaModel.Lemmas.C16Time
import SaModel.Lemmas.C16SchemaJson
import SaModel.Lemmas.C16DeepTerm
import SaModel.Lemmas.C12Batch
import SaModel.Props.C17
import SaModel.Props.C14
import SaModel.Props.C15
import SaModel.Props.C20
import SaModel.Props.C13
/-
C16 — failures are reported as errors: no panic, overflow or hang.
In the model every Rust operation that can unwind (indexing, slicing, unwrap, `%0`, checked arithmetic in a
debug build) yields the outcome `panic`; "no panic" is the theorem `(f x).isPanic = false` for ALL inputs of `f`.
Termination: every model function is accepted by Lean as total (structural or well-founded recursion), so no
modelled entry point can run unboundedly (notes/C16.md lists which Rust loop is which recursion).

Builder side (proofs in Lemmas/C16Basic, C16Inv, C16Push, C16New, C16Run):
* placeholders and nulls never unwind in ANY builder state;
* `push_no_panic`: for EVERY serde value (malformed raw key/value streams, tuples longer/shorter than the struct,
  wrong lengths, wrong kinds) and every state satisfying the invariant `NPInv` (the vectors the Rust code indexes
  unchecked have one entry per field / variant; decimal precisions are the accepted ones), `push` does not unwind;
  `NPInv` is established by `build_builder` and preserved by every successful push of every value;
* `newDT`, `finish`, `extend`, `serializeWith`, `runRows`, `toMarrow` never unwind, for every field list and all rows.
* the union row counters: `union_rows_capacity_is_error` / `union_row_ok_below_capacity` /
  `serializeVariantPinned_overflow_panics` / `pushDefaultK_union_capacity_is_error` (repo fix 217d612).
The external conversions enter through `ExtNP ext` (they do not unwind); `codecExt_np` discharges it — without any
hypothesis — for the C14 / C15 codec models, the timestamp string parser included (`timestampOfString_no_panic`).

Tracing: `absorb_no_panic` / `fromSamples_no_panic`; `fromType_no_panic` for EVERY type description and all options
(corollary of C08's `C08_from_type`), `explore_no_panic` on every tracer that conforms to the type (`Conf`),
`passes_no_panic`; the pass budget; the depth limit for every container family (`fromType_deep_is_error`,
`descends_containers`, `descends_wrappers`).
Reader: `Deserializer::new` / `get` / `next` / bulk over arbitrary views; whole-batch typed reads (`readBatch_no_panic`).
Schema side: `Term::from_str`, `build_data_type`, `validate_field`, `parseField`, `parseSchema` for every text / JSON
value (`parseField_no_panic` …).  The per-codec and per-helper theorems (C13–C15, C20) are collected at the end.
-/
namespace SaModel.Props.C16
open SaModel SaModel.Build

open SaModel.Lemmas.C16 (NPInv NPInvL KindOK ExtNP SInv)

theorem ctx_isPanic {α} (ann : List (String × String)) (r : R α) : (ctx ann r).isPanic = r.isPanic :=
  Lemmas.C16.ctx_isPanic ann r

theorem bind_no_panic {α β} (r : R α) (f : α → R β) (h1 : r.isPanic = false) (h2 : ∀ v, (f v).isPanic = false) :
    (r >>= f).isPanic = false := Lemmas.C16.bind_no_panic r f h1 h2

theorem ok_no_panic {α} (v : α) : R.isPanic (Except.ok v : R α) = false := rfl
theorem fail_no_panic {α} (msg : String) : (fail msg : R α).isPanic = false := rfl

/-- `r.isPanic = false` is the statement `r ≠ panic site` for every site -/
theorem isPanic_false_iff {α} (r : R α) : r.isPanic = false ↔ ∀ site, r ≠ panic site := by
  constructor
  · intro h site; exact Lemmas.C16.ne_panic_of_isPanic h site
  · intro h
    cases r with
    | ok v => rfl
    | error e =>
      cases e with
      | panic site => exact absurd rfl (h site)
      | err _ => rfl
      | errCtx _ _ => rfl

theorem setValidity_no_panic (v : Validity) (idx : Nat) (value : Bool) : (setValidity v idx value).isPanic = false :=
  Lemmas.C16.setValidity_no_panic v idx value

theorem duplicateLast_no_panic (offs : List Int) : (duplicateLast offs).isPanic = false :=
  Lemmas.C16.duplicateLast_no_panic offs

/-- the repaired `increment_last` never unwinds (the pinned one does at the top of the offset type) -/
theorem incrementLast_no_panic (large : Bool) (offs : List Int) (inc : Nat) :
    (incrementLast true large offs inc).isPanic = false := Lemmas.C16.incrementLast_no_panic large offs inc

/-- placeholders (`serialize_default`, any number of them) never unwind, in ANY builder state -/
theorem pushDefaultK_no_panic (b : B) (k : Nat) : (pushDefaultK b k).isPanic = false :=
  Lemmas.C16.pushDefaultK_no_panic b k

/-- a null pushed into ANY builder state never unwinds (error if the field is not nullable) -/
theorem pushNone_no_panic (b : B) : (pushNone b).isPanic = false := Lemmas.C16.pushNone_no_panic b

/-! ### `push`: every serde value, every state the crate can be in -/

/-- `build_builder` never unwinds (unsupported types are errors) and establishes the invariant -/
theorem newDT_no_panic (path : String) (dt : DataType) (nullable : Bool) (md : Metadata) (site : String) :
    newDT path dt nullable md ≠ panic site :=
  Lemmas.C16.ne_panic_of_isPanic (Lemmas.C16.newDT_np path dt nullable md) site

theorem newDT_inv {path : String} {dt : DataType} {nullable : Bool} {md : Metadata} {b : B}
    (h : newDT path dt nullable md = .ok b) : NPInv b := Lemmas.C16.newDT_npInv h

theorem newRoot_inv {fields : List Field} {root : B} (h : newRoot fields = .ok root) : NPInv root :=
  Lemmas.C16.newRoot_npInv h

/-- every successful push of EVERY value (no hypothesis on the value) keeps the invariant -/
theorem push_preserves_inv (ext : Ext) (x : SVal) {b b' : B} (hb : NPInv b) (h : push ext b x = .ok b') : NPInv b' :=
  Lemmas.C16.push_npInv ext x hb h

/-- C16 for the builders: `x.serialize(builder)` returns a value or an error for EVERY serde value `x` — including
raw key/value streams in any order, tuples longer or shorter than the struct, sequences of the wrong length,
variants that do not exist, scalars of the wrong kind — in every state satisfying the invariant. -/
theorem push_no_panic (ext : Ext) (he : ExtNP ext) (b : B) (hb : NPInv b) (x : SVal) (site : String) :
    push ext b x ≠ panic site :=
  Lemmas.C16.ne_panic_of_isPanic (Lemmas.C16.push_np ext he x b hb) site

/-- **A raw key/value call stream that does not alternate, into a Map builder, is an ERROR** (two keys in a row, a
value without a key, a map ending with a key pending): not a panic (`push_no_panic`) and not accepted
(`Build.push_map_raw_ok_alternating`; repo fix eafdf15).  Before the fix such a stream was accepted, `to_marrow`
returned a Map array with keys and values of different lengths and `to_arrow2` unwound inside marrow's conversion
(finding C16-map-key-value-alternation, found by the thorough tier of C19). -/
theorem map_non_alternating_is_error (ext : Ext) (he : ExtNP ext) (p : String) (mm : MapMeta) (v : Validity)
    (offs : List Int) (ks vs : B) (hb : NPInv (.map p mm v offs ks vs)) (ops : SMapOps)
    (hmal : SaModel.Spec.isAlternating ops = false) :
    (push ext (.map p mm v offs ks vs) (.mapRaw ops)).isErr = true := by
  cases h : push ext (.map p mm v offs ks vs) (.mapRaw ops) with
  | ok b' => rw [push_map_raw_ok_alternating h] at hmal; cases hmal
  | error e =>
    cases e with
    | err m => rfl
    | errCtx m a => rfl
    | panic site => exact absurd h (push_no_panic ext he _ hb _ site)

/-- non-vacuity: the replay case of the finding in small — `Map<LargeUtf8, Utf8?>`, stream `[key "😀", key ""]` -/
example : (push {} (.map "$.a" ⟨"entries", false, ⟨"key", false, []⟩, ⟨"value", true, []⟩⟩ none [0]
      (.bytes "$.a.entries.key" .largeUtf8 none [0] []) (.bytes "$.a.entries.value" .utf8 (some []) [0] []))
    (.mapRaw (.key (.str "😀") (.key (.str "") .nil)))) =
  .error (.errCtx "Invalid map: a key was serialized before the value of the previous key"
    [("data_type", "Map(..)"), ("field", "$.a")]) := by decide +kernel

/-- the invariant is needed: with one `current_offset` counter missing the union builder indexes out of range -/
theorem push_without_inv_panics :
    (push {} (.union "$" (.cons (.null "$.a" 0) ⟨"a", true, []⟩ .nil) [] [] []) (.unitVariant "E" 0 "a")).isPanic = true := by
  decide

/-! ### the per-variant row counters of a union (`current_offset: Vec<i32>`, repo fix 217d612) -/

/-- **Beyond `i32::MAX` rows of one variant a union row is an ERROR**: for every state in which the counter of the
variant cannot be incremented inside `i32`, `serialize_variant` returns an error value — not a panic (the pinned `+= 1`
with overflow checks), not an accepted row with a wrapped offset. -/
theorem union_rows_capacity_is_error (fs : BL) (types offs cur : List Int) (idx : Nat) (c : B) (m : FieldMeta) (co : Int)
    (hget : fs.get? idx = some (c, m)) (hco : cur[idx]? = some co) (hcap : co + 1 > 2147483647) :
    (serializeVariant fs types offs cur idx).isErr = true := by
  simp only [serializeVariant, hget, hco, if_pos hcap]
  rfl

/-- below the capacity (and with a type id that fits `i8`) the row is accepted: the counter is the row's child offset -/
theorem union_row_ok_below_capacity (fs : BL) (types offs cur : List Int) (idx : Nat) (c : B) (m : FieldMeta) (co : Int)
    (hget : fs.get? idx = some (c, m)) (hco : cur[idx]? = some co) (hcap : co + 1 ≤ 2147483647) (hidx : idx ≤ 127) :
    serializeVariant fs types offs cur idx = .ok (c, types ++ [(idx : Int)], offs ++ [co], cur.set idx (co + 1)) := by
  have h1 : ¬ (co + 1 > 2147483647) := by omega
  have h2 : ¬ (idx > 127) := by omega
  simp only [serializeVariant, hget, hco, if_neg h1, if_neg h2]

/-- the pinned code (unchecked `current_offset[variant_index] += 1` on an `i32`) unwinds on the 2^31-th row of a
variant; the repaired code returns an error on the same state -/
theorem serializeVariantPinned_overflow_panics :
    serializeVariantPinned (.cons (.null "$.a" 2147483647) ⟨"a", true, []⟩ .nil) [] [] [2147483647] 0
      = panic "attempt to add with overflow" ∧
    (serializeVariant (.cons (.null "$.a" 2147483647) ⟨"a", true, []⟩ .nil) [] [] [2147483647] 0).isErr = true :=
  ⟨by decide, by decide⟩

/-- non-vacuity: both boundary rows of variant 1 of `Union<Null, Null>` (the overflow suite's case `union_rows`) -/
example : (serializeVariant (.cons (.null "$.a.A" 0) ⟨"A", true, []⟩ (.cons (.null "$.a.B" 0) ⟨"B", true, []⟩ .nil)) [] []
      [0, 2147483646] 1).isOk = true ∧
    (serializeVariant (.cons (.null "$.a.A" 0) ⟨"A", true, []⟩ (.cons (.null "$.a.B" 0) ⟨"B", true, []⟩ .nil)) [] []
      [0, 2147483647] 1).isErr = true :=
  ⟨by decide, by decide⟩

/-- the hypotheses of `union_rows_capacity_is_error` / `union_row_ok_below_capacity` are met by these states -/
example : (serializeVariant (.cons (.null "$.a.A" 0) ⟨"A", true, []⟩ (.cons (.null "$.a.B" 0) ⟨"B", true, []⟩ .nil)) [] []
      [0, 2147483647] 1).isErr = true :=
  union_rows_capacity_is_error _ _ _ _ 1 (.null "$.a.B" 0) ⟨"B", true, []⟩ 2147483647 rfl rfl (by decide)
example : serializeVariant (.cons (.null "$.a.A" 0) ⟨"A", true, []⟩ (.cons (.null "$.a.B" 0) ⟨"B", true, []⟩ .nil)) [] []
      [0, 2147483646] 1 = .ok (.null "$.a.B" 0, [1], [2147483646], [0, 2147483647]) :=
  union_row_ok_below_capacity _ _ _ _ 1 (.null "$.a.B" 0) ⟨"B", true, []⟩ 2147483646 rfl rfl (by decide) (by decide)

theorem ctx_isOk {α} (ann : List (String × String)) (r : R α) : (ctx ann r).isOk = r.isOk := by
  unfold ctx
  split
  · split <;> simp [R.isOk]
  · rfl

/-- **the defaults route** (`UnionBuilder::serialize_default` = one row of the first real variant per call; a
`None` of an enclosing nullable struct sends it): `k ≠ 0` defaults that do not fit into the `i32` counter of that
variant are an error in EVERY state — never a panic, never accepted. -/
theorem pushDefaultK_union_capacity_is_error (p : String) (fs : BL) (types offs cur : List Int) (k : Nat) (hk : k ≠ 0)
    (hcap : cur.getD (firstReal fs) 0 + (k : Int) > 2147483647) :
    (pushDefaultK (.union p fs types offs cur) k).isPanic = false ∧
    (pushDefaultK (.union p fs types offs cur) k).isOk = false := by
  refine ⟨Lemmas.C16.pushDefaultK_no_panic _ k, ?_⟩
  unfold pushDefaultK
  rw [ctx_isOk]
  cases fs with
  | nil => simp only [if_neg hk]; rfl
  | cons c m rest =>
    simp only []
    split
    · rfl
    split
    · rfl
    · cases h : pushDefaultKAt (.cons c m rest) (firstReal (.cons c m rest)) k with
      | error e => rfl
      | ok fs' =>
        simp only [bind, Except.bind]
        rw [if_pos ⟨hk, hcap⟩]
        rfl

/-- non-vacuity: `Union<Null>` with `2^31 - 2` rows takes one default and refuses two (and one at `2^31 - 1`) -/
example : (pushDefaultK (.union "$.u" (.cons (.null "$.u.A" 2147483646) ⟨"A", true, []⟩ .nil) [] [] [2147483646]) 1).isOk = true ∧
    (pushDefaultK (.union "$.u" (.cons (.null "$.u.A" 2147483646) ⟨"A", true, []⟩ .nil) [] [] [2147483646]) 2).isErr = true ∧
    (pushDefaultK (.union "$.u" (.cons (.null "$.u.A" 2147483647) ⟨"A", true, []⟩ .nil) [] [] [2147483647]) 1).isErr = true :=
  ⟨by decide, by decide, by decide⟩
example : (pushDefaultK (.union "$.u" (.cons (.null "$.u.A" 2147483646) ⟨"A", true, []⟩ .nil) [] [] [2147483646]) 2).isOk = false :=
  (pushDefaultK_union_capacity_is_error _ _ _ _ _ 2 (by decide) (by decide)).2

/-- the default external functions (everything is refused) satisfy `ExtNP` -/
theorem extDefault_np : ExtNP {} :=
  ⟨fun _ _ => rfl, fun _ _ => rfl, fun _ _ _ => rfl, fun _ _ => rfl, fun _ _ _ _ _ => rfl, fun _ _ _ _ => rfl⟩

/-- the hypotheses of `map_non_alternating_is_error` are met by that instance (a value without a key, here) -/
example : (push {} (.map "$.a" ⟨"entries", false, ⟨"key", false, []⟩, ⟨"value", true, []⟩⟩ none [0]
      (.bytes "$.a.entries.key" .largeUtf8 none [0] []) (.bytes "$.a.entries.value" .utf8 (some []) [0] []))
    (.mapRaw (.value (.str "x") .nil))).isErr = true :=
  map_non_alternating_is_error {} extDefault_np _ _ _ _ _ _ (by simp [NPInv]) _ (by decide)

def codecUnit : SaModel.TimeUnit → SaModel.Codec.TimeUnit
  | .second => .second | .millisecond => .millisecond | .microsecond => .microsecond | .nanosecond => .nanosecond

/-- `TimestampBuilder::serialize_str` (the timestamp string parser): for EVERY string, unit and time-zone setting a
value or an error.  The one panic branch of the model — chrono's `timestamp_millis()` / `timestamp_micros()` overflowing
`i64` — is unreachable: every instant the parser models return lies inside chrono's date range
(`parseNaiveDateTime_range`, `parseUtcDateTime_range`: days in [-96465292, 95026236], second of day < 86400,
nanosecond < 2·10^9, the leap second included), where the products fit (`C14.instantToUnits_no_panic`). -/
theorem timestampOfString_no_panic (u : SaModel.Codec.TimeUnit) (utc : Bool) (s : List Char) :
    (SaModel.Codec.timestampOfString u utc s).isPanic = false := Lemmas.C16.timestampOfString_np u utc s

/-- the instants the two date-time parsers return are inside chrono's range -/
theorem parseNaiveDateTime_range {s : List Char} {t : SaModel.Codec.Instant} (h : SaModel.Codec.parseNaiveDateTime s = .ok t) :
    SaModel.Codec.inChronoDays t.days = true ∧ t.secs < 86400 ∧ t.nanos < 2000000000 :=
  Lemmas.C16.parseNaiveDateTime_range h

theorem parseUtcDateTime_range {s : List Char} {t : SaModel.Codec.Instant} (h : SaModel.Codec.parseUtcDateTime s = .ok t) :
    SaModel.Codec.inChronoDays t.days = true ∧ t.secs < 86400 ∧ t.nanos < 2000000000 :=
  Lemmas.C16.parseUtcDateTime_range h

/-- non-vacuity: the extreme dates of chrono's range, a leap second, a zone offset that moves the date; strings that
are refused -/
example : (SaModel.Codec.timestampOfString .microsecond false "+262142-12-31T23:59:60.999999999".toList).isOk = true ∧
    (SaModel.Codec.timestampOfString .microsecond true "-262143-01-01T00:00:00Z".toList).isOk = true ∧
    (SaModel.Codec.timestampOfString .nanosecond false "+262142-12-31T23:59:59".toList).isErr = true ∧
    (SaModel.Codec.timestampOfString .millisecond true "-262143-01-01T00:00:00+01:00".toList).isErr = true ∧
    (SaModel.Codec.timestampOfString .second true "2020-02-30T00:00:00Z".toList).isErr = true ∧
    (SaModel.Codec.timestampOfString .second false "".toList).isErr = true := by decide +kernel

/-- the external functions as the correspondence driver instantiates them (Driver/Suites/Build.lean `extOfAux`):
decimal and temporal string conversions are the codec models of C15 / C14; the float display strings and the float
product of the decimal float path (`cast`) are parameters (they come from the case) -/
def codecExt (f32Str f64Str : Nat → String) (cast : Nat → Int → Bool → Nat → Option (Bool × Int)) : Ext :=
  { f32Str := f32Str, f64Str := f64Str,
    parseDecimal := fun p s txt => SaModel.Decimal.serializeStr p s txt.toUTF8.toList,
    floatToDecimal := fun p s is64 bits =>
      match cast p s is64 bits with
      | some (fin, c) => SaModel.Decimal.serializeFloat p s fin c
      | none => fail "aux: missing dec_cast entry",
    parseDate := fun is64 s => SaModel.Codec.dateOfString (if is64 then .date64 else .date32) s.toList,
    parseTime := fun u s =>
      SaModel.Codec.timeOfString (match u with | .second | .millisecond => .time32 | _ => .time64) (codecUnit u) s.toList,
    parseTimestamp := fun u utc s => SaModel.Codec.timestampOfString (codecUnit u) utc s.toList,
    parseDuration := fun u s => SaModel.Codec.durationOfString s.toList (codecUnit u) }

/-- `ExtNP` is a theorem for the codec models: date, time, timestamp and duration string parsers, decimal string and
float paths — no hypothesis left -/
theorem codecExt_np (f32Str f64Str : Nat → String) (cast : Nat → Int → Bool → Nat → Option (Bool × Int)) :
    ExtNP (codecExt f32Str f64Str cast) where
  parseDate := fun _ _ => SaModel.Props.C14.dateOfString_no_panic _ _
  parseTime := fun _ _ => SaModel.Props.C14.timeOfString_no_panic _ _ _
  parseTimestamp := fun _ _ _ => timestampOfString_no_panic _ _ _
  parseDuration := fun _ _ => SaModel.Props.C14.span_no_panic _ _
  parseDecimal := fun p sc s h1 h2 =>
    (isPanic_false_iff _).2 (fun site => SaModel.Props.C15.parse_no_panic p sc _ h1 h2 site)
  floatToDecimal := fun p sc is64 bits => by
    simp only [codecExt]
    split
    · exact (isPanic_false_iff _).2 (fun site => SaModel.Props.C15.float_no_panic p sc _ _ site)
    · rfl

/-- `to_marrow` with the codec models plugged in: no hypothesis on the external functions is left -/
theorem toMarrow_codec_no_panic (f32Str f64Str : Nat → String) (cast : Nat → Int → Bool → Nat → Option (Bool × Int))
    (fields : List Field) (rows : List SVal) (site : String) :
    toMarrow (codecExt f32Str f64Str cast) fields rows ≠ panic site :=
  Lemmas.C16.ne_panic_of_isPanic (Lemmas.C16.toMarrow_np _ (codecExt_np f32Str f64Str cast) fields rows) site

/-- `into_array` of every builder -/
theorem finish_no_panic (ext : Ext) (he : ExtNP ext) (b : B) (hb : NPInv b) (site : String) : finish ext b ≠ panic site :=
  Lemmas.C16.ne_panic_of_isPanic (Lemmas.C16.finish_np ext he b hb) site

/-- `ArrayBuilder::extend` and the `Serializer` front end, for every value -/
theorem extend_no_panic (ext : Ext) (he : ExtNP ext) (root : B) (hb : NPInv root) (x : SVal) (site : String) :
    extend ext root x ≠ panic site :=
  Lemmas.C16.ne_panic_of_isPanic (Lemmas.C16.extend_np ext he root hb x) site

theorem serializeWith_no_panic (ext : Ext) (he : ExtNP ext) (root : B) (hb : NPInv root) (x : SVal) (site : String) :
    serializeWith ext root x ≠ panic site :=
  Lemmas.C16.ne_panic_of_isPanic (Lemmas.C16.serializeWith_np ext he root hb x) site

/-- builder construction followed by ANY list of rows: for every field list (accepted by `newRoot` or not) -/
theorem runRows_no_panic (ext : Ext) (he : ExtNP ext) (fields : List Field) (rows : List SVal) (site : String) :
    runRows ext fields rows ≠ panic site :=
  Lemmas.C16.ne_panic_of_isPanic (Lemmas.C16.runRows_np ext he fields rows) site

/-- `to_marrow(fields, rows)`: construction, every push and `build_arrays` -/
theorem toMarrow_no_panic (ext : Ext) (he : ExtNP ext) (fields : List Field) (rows : List SVal) (site : String) :
    toMarrow ext fields rows ≠ panic site :=
  Lemmas.C16.ne_panic_of_isPanic (Lemmas.C16.toMarrow_np ext he fields rows) site

/-! non-vacuity: a two-column root; malformed rows are accepted or refused, never a panic -/

def exFields : List Field := [.mk "a" .int32 false [], .mk "b" .utf8 true []]

/-- the hypotheses of `push_no_panic` hold for the root `newRoot` builds -/
example : ∃ root, newRoot exFields = .ok root ∧ NPInv root := by
  have hok : (newRoot exFields).isOk = true := by decide
  cases h : newRoot exFields with
  | ok root => exact ⟨root, rfl, newRoot_inv h⟩
  | error e => rw [h] at hok; cases hok

/-- a tuple longer than the struct (design #18: the extra element is ignored) and a shorter one (error) -/
example : (runRows {} exFields [.tuple (.cons (.int .i32 1) (.cons (.str "x") (.cons (.bool true) .nil)))]).isOk = true := by
  decide +kernel
example : (runRows {} exFields [.tuple .nil]).isErr = true := by decide +kernel

/-- raw call streams: value without key, two keys in a row, a trailing key; the second one lacks `a` -/
example : (runRows {} exFields
    [.mapRaw (.value (.int .i32 9) (.key (.str "b") (.key (.str "a") (.value (.int .i32 1) (.key (.str "zz") .nil)))))]).isOk = true := by
  decide +kernel
example : (runRows {} exFields [.mapRaw (.value (.int .i32 9) (.value (.int .i32 9) .nil))]).isErr = true := by
  decide +kernel

/-- a duplicate field is an error (`seen[idx]` is read in range) -/
example : (runRows {} exFields
    [.record "R" (.cons "a" 0 (.int .i32 1) (.cons "a" 0 (.int .i32 2) .nil))]).isErr = true := by decide +kernel

/-- the pinned unchecked offset addition unwinds: witness (design #22) -/
theorem incrementLast_pinned_panics : (incrementLast false false [2147483647] 1).isPanic = true := by decide

/-- the pinned tuple path indexed `seen[idx]` out of range: witness (design #18) -/
theorem element_out_of_range_panics :
    (SS.element ⟨"$", 1, none, .cons (.null "$.a" 0) ⟨"a", true, []⟩ .nil, [none], 1, [true]⟩ 1 (fun b => .ok b)).isPanic = true := by
  decide

/-! ### tracing -/

section Tracing
open SaModel.Trace
open SaModel.Lemmas.C16 (idxOK fromTypeLoopN passes nestVec)

/-- `from_samples`, one sample: `x.serialize(TracerSerializer(&mut t))` never unwinds — for EVERY tracer state `t`
(no invariant) and every serde value `x` (raw key/value streams, tuples of any length, variants of any name) whose
variant indices stay below the allocation bound of the executable model (`idxOK`, finding #29) -/
theorem absorb_no_panic (c : Code) (o : Options) (t : Tracer) (x : SVal) (hx : idxOK x = true) (site : String) :
    absorb c o t x ≠ panic site :=
  Lemmas.C16.ne_panic_of_isPanic (Lemmas.C16.absorb_np c o x t hx) site

/-- the bound is where the model stops following the code: `ensure_variant` resizes `variants` up to the index
(finding #29, known: unbounded allocation in the real crate; an explicit `panic "alloc"` in the model) -/
theorem absorb_huge_variant_index :
    (absorb .fixed {} (Tracer.new "$" "$") (.unitVariant "E" VARIANT_ALLOC_LIMIT "a")).isPanic = true := by decide

/-- `Tracer::to_schema` (with `to_field` of every node, overwrites included) never unwinds, for every tracer -/
theorem to_schema_no_panic (o : Options) (t : Tracer) (site : String) : t.to_schema o ≠ panic site :=
  Lemmas.C16.ne_panic_of_isPanic (Lemmas.C16.to_schema_np o t) site

/-- `SerdeArrowSchema::from_samples` as a whole -/
theorem fromSamples_no_panic (c : Code) (o : Options) (xs : List SVal) (hx : ∀ x ∈ xs, idxOK x = true) (site : String) :
    fromSamples c o xs ≠ panic site :=
  Lemmas.C16.ne_panic_of_isPanic (Lemmas.C16.fromSamples_np c o xs hx) site

example : idxOK (.mapRaw (.value (.int .i32 1) (.key (.int .i8 2) .nil))) = true := by decide
example : (absorb .fixed {} (Tracer.new "$" "$") (.mapRaw (.value (.int .i32 1) .nil))).isErr = true := by decide
example : (fromSamples .fixed {} [.record "R" (.cons "a" 0 (.tuple (.cons (.bool true) .nil)) .nil),
    .record "R" (.cons "a" 0 (.tuple .nil) .nil)]).isOk = true := by decide +kernel

/-- `from_type`: the loop performs at most `budget` passes (`fromTypeLoopN` is the loop instrumented with its pass
count; its result is the loop's result) -/
theorem fromTypeLoop_passes_le_budget (c : Code) (o : Options) (ty : Ty) (budget : Nat) (t : Tracer) :
    (fromTypeLoopN c o ty budget t).1 = fromTypeLoop c o ty budget t ∧ (fromTypeLoopN c o ty budget t).2 ≤ budget :=
  ⟨Lemmas.C16.fromTypeLoopN_fst c o ty budget t, Lemmas.C16.fromTypeLoopN_le c o ty budget t⟩

/-- a successful loop ends at a complete tracer reached by `k ≤ budget` consecutive passes -/
theorem fromTypeLoop_ok (c : Code) (o : Options) (ty : Ty) (budget : Nat) (t t' : Tracer)
    (h : fromTypeLoop c o ty budget t = .ok t') :
    t'.is_complete = true ∧ ∃ k, k ≤ budget ∧ passes c o ty k t = .ok t' :=
  Lemmas.C16.fromTypeLoop_ok c o ty budget t t' h

/-- a type that no run of at most `budget` passes completes is not given a schema -/
theorem fromTypeLoop_exhausted (c : Code) (o : Options) (ty : Ty) (budget : Nat) (t : Tracer)
    (h : ∀ k, k ≤ budget → ∀ t', passes c o ty k t = .ok t' → t'.is_complete = false) (t' : Tracer) :
    fromTypeLoop c o ty budget t ≠ .ok t' :=
  Lemmas.C16.fromTypeLoop_exhausted c o ty budget t h t'

/-- C16 for `from_type`: `SerdeArrowSchema::from_type::<T>(options)` returns a schema or an error for EVERY type
description and ALL options (budget, overwrites, every flag).  Corollary of `C08_from_type`
(`Agree (fromType c o ty) (Spec.fromTypeSpec o ty)`; `Agree` relates only values and Rust errors). -/
theorem fromType_no_panic (c : Code) (o : Options) (ty : Ty) (site : String) : fromType c o ty ≠ .error (.panic site) :=
  Lemmas.C16.ne_panic_of_isPanic (Lemmas.C16.fromType_np c o ty) site

/-- one pass of the derived `Deserialize` never unwinds on a tracer that conforms to the type (`Conf`, C08: the tracer
was grown by `explore` from this very type at this path; a fresh node conforms to every type), and the result conforms
again (or the pass is a Rust error) -/
theorem explore_no_panic (c : Code) (o : Options) (ty : Ty) (p : String) (t : Tracer) (h : Lemmas.C08.Conf o p ty t)
    (site : String) : explore c o t ty ≠ .error (.panic site) :=
  Lemmas.C16.ne_panic_of_isPanic (Lemmas.C16.explore_np c o ty p t h) site

theorem explore_preserves_conf (c : Code) (o : Options) (ty : Ty) (p : String) (t t' : Tracer)
    (h : Lemmas.C08.Conf o p ty t) (he : explore c o t ty = .ok t') : Lemmas.C08.Conf o p ty t' := by
  have := Lemmas.C08.explore_conf c o ty p t h
  rw [he] at this; exact this

/-- ANY number of consecutive passes from a fresh node (beyond completion and past the budget too) never unwinds -/
theorem passes_no_panic (c : Code) (o : Options) (ty : Ty) (k : Nat) (site : String) :
    passes c o ty k (Tracer.new "$" "$") ≠ .error (.panic site) :=
  Lemmas.C16.ne_panic_of_isPanic (Lemmas.C16.passes_np c o ty k "$" "$" false) site

/-- the invariant is needed: on a tracer state `from_type` cannot reach (a union with an unseen slot) `explore` does
unwind in the model (`opt.as_ref().unwrap()` in the variant scan) -/
theorem explore_unreachable_state_panics :
    (explore .fixed {} (.union "$" "$" false (.absent .nil)) (.enum "E" (.unit "A" .nil))).isPanic = true := by decide

/-- non-vacuity of `explore_no_panic`: the tracer after one pass over an enum conforms (and is not complete) -/
example : ∃ t, explore .fixed {} (Tracer.new "$" "$") (.enum "E" (.unit "A" (.newtype "B" (.vec .bool) .nil))) = .ok t ∧
    Lemmas.C08.Conf {} "$" (.enum "E" (.unit "A" (.newtype "B" (.vec .bool) .nil))) t ∧ t.is_complete = false := by
  have hok : (explore .fixed {} (Tracer.new "$" "$") (.enum "E" (.unit "A" (.newtype "B" (.vec .bool) .nil)))).isOk = true := by
    decide +kernel
  cases h : explore .fixed {} (Tracer.new "$" "$") (.enum "E" (.unit "A" (.newtype "B" (.vec .bool) .nil))) with
  | error e => rw [h] at hok; cases hok
  | ok t =>
    refine ⟨t, rfl, explore_preserves_conf _ _ _ _ _ _ (Lemmas.C08.conf_fresh _ _ "$" "$" false) h, ?_⟩
    have hc : ((explore .fixed {} (Tracer.new "$" "$") (.enum "E" (.unit "A" (.newtype "B" (.vec .bool) .nil)))).toOption.map
        Tracer.is_complete) = some false := by decide +kernel
    rw [h] at hc
    simpa [Except.toOption] using hc

/-! #### the depth limit: recursive types, every container family -/

open SaModel.Trace.Spec (walkable) in
open SaModel.Lemmas.C08 (Descends unroll) in
/-- the depth limit cuts every unrolling of a recursive type.  A recursive Rust definition `T = F T` is represented by
its unrollings `unroll F n base` (`Ty` is a finite tree; a pass never looks below the first container that is too
deep, so `from_type::<T>` behaves like these); when `F` puts its argument at least one path level down (`Descends`)
every unrolling deeper than `MAX_TYPE_DEPTH` = 20 is an error VALUE of `from_type` — for all options, every budget. -/
theorem fromType_deep_is_error (c : Code) (o : Options) (F : Ty → Ty) (hF : Descends o F) (base : Ty) (n : Nat)
    (hn : MAX_TYPE_DEPTH < n) : (fromType c o (unroll F n base)).isErr = true :=
  Lemmas.C16.fromType_recursive_err c o F hF base n hn

section Families
open SaModel.Lemmas.C08 (Descends unroll)
open SaModel.Lemmas.C16 (TysMem FieldsMem PayloadMem)

/-- EVERY container constructor of the type description descends, wherever the recursive occurrence sits among the
elements, fields or variant payloads: `Vec` (sequences), maps (key or value), tuples / arrays, tuple structs, structs,
enums (newtype, tuple and struct variants) -/
theorem descends_containers (o : Options) :
    Descends o (fun t => .vec t) ∧
    (∀ k, Descends o (fun t => .map k t)) ∧ (∀ v, Descends o (fun t => .map t v)) ∧
    (∀ G : Ty → Tys, (∀ t, TysMem t (G t)) → Descends o (fun t => .tuple (G t))) ∧
    (∀ name (G : Ty → Tys), (∀ t, TysMem t (G t)) → Descends o (fun t => .tupleStruct name (G t))) ∧
    (∀ name (G : Ty → TyFields), (∀ t, FieldsMem t (G t)) → Descends o (fun t => .struct name (G t))) ∧
    (∀ name (G : Ty → TyVariants), (∀ t, PayloadMem t (G t)) → Descends o (fun t => .enum name (G t))) :=
  ⟨Lemmas.C16.descends_vec o, Lemmas.C16.descends_map_value o, Lemmas.C16.descends_map_key o,
   Lemmas.C16.descends_tuple o, Lemmas.C16.descends_tupleStruct o, Lemmas.C16.descends_struct o,
   Lemmas.C16.descends_enum o⟩

/-- the transparent wrappers (`Option`, `Box`, newtype structs add no path level) on either side of a descending
constructor, and nesting of descending constructors -/
theorem descends_wrappers (o : Options) (F : Ty → Ty) (hF : Descends o F) :
    Descends o (fun t => .option (F t)) ∧ (∀ name, Descends o (fun t => .newtypeStruct name (F t))) ∧
    Descends o (fun t => F (.option t)) ∧ (∀ name, Descends o (fun t => F (.newtypeStruct name t))) ∧
    (∀ G, Descends o G → Descends o (fun t => F (G t))) :=
  ⟨Lemmas.C16.descends_option o F hF, fun name => Lemmas.C16.descends_newtype o name F hF,
   Lemmas.C16.descends_of_option o F hF, fun name => Lemmas.C16.descends_of_newtype o name F hF,
   fun G hG => Lemmas.C16.descends_comp o F G hF hG⟩

/-- `Option` / newtypes alone do NOT descend: a definition that recurses through them only, `struct W(Option<Box<W>>)`,
is invisible to the depth limit.  (An earlier version of this comment said such a type "is traced to an error by the
budget"; that was false of the crate — one pass never returned, stack overflow.  Repo fix aaf3edc counts these wrappers;
`Props/C16Rec.lean: fromTypeG_wrapper_recursion_is_error`.) -/
example : ¬ Descends {} (fun t => .option t) := by
  intro h
  have := (h .bool "$.a.a.a.a.a.a.a.a.a.a.a.a.a.a.a.a.a.a.a.a" (by decide)).1
  revert this; decide

/-- non-vacuity: `struct Node { value: i32, next: Option<Box<Node>> }`, `enum Tree { Leaf, Node(Box<Tree>, Box<Tree>) }`,
`struct Dir { entries: HashMap<String, Dir> }`, `struct Rose(Vec<Rose>)` — every unrolling of more than 20 levels is
an error of `from_type`, whatever the options -/
example (c : Code) (o : Options) (base : Ty) (n : Nat) (hn : MAX_TYPE_DEPTH < n) :
    (fromType c o (unroll (fun t => .struct "Node" (.cons "value" (.int .i32) (.cons "next" (.option t) .nil))) n base)).isErr = true ∧
    (fromType c o (unroll (fun t => .enum "Tree" (.unit "Leaf" (.tuple "Node" (.cons t (.cons t .nil)) .nil))) n base)).isErr = true ∧
    (fromType c o (unroll (fun t => .struct "Dir" (.cons "entries" (.map .string t) .nil)) n base)).isErr = true ∧
    (fromType c o (unroll (fun t => .newtypeStruct "Rose" (.vec t)) n base)).isErr = true := by
  refine ⟨fromType_deep_is_error c o _ ?_ base n hn, fromType_deep_is_error c o _ ?_ base n hn,
    fromType_deep_is_error c o _ ?_ base n hn, fromType_deep_is_error c o _ ?_ base n hn⟩
  · exact Lemmas.C16.descends_of_option o (fun t => .struct "Node" (.cons "value" (.int .i32) (.cons "next" t .nil)))
      (Lemmas.C16.descends_struct o "Node" (fun t => .cons "value" (.int .i32) (.cons "next" t .nil))
        (fun t => Or.inr (Or.inl rfl)))
  · exact Lemmas.C16.descends_enum o "Tree" (fun t => .unit "Leaf" (.tuple "Node" (.cons t (.cons t .nil)) .nil))
      (fun t => Or.inl (Or.inl rfl))
  · exact Lemmas.C16.descends_comp o (fun t => .struct "Dir" (.cons "entries" t .nil)) (fun t => .map .string t)
      (Lemmas.C16.descends_struct o "Dir" (fun t => .cons "entries" t .nil) (fun t => Or.inl rfl))
      (Lemmas.C16.descends_map_value o .string)
  · exact Lemmas.C16.descends_newtype o "Rose" _ (Lemmas.C16.descends_vec o)

end Families

/-- for `Vec<Vec<…>>` (`nestVec k ty` = `unroll Vec k ty`) moreover: the refusal is the documented message, in the FIRST
pass, whatever the inner type -/
theorem explore_deep (c : Code) (o : Options) (ty : Ty) (k : Nat) (hk : MAX_TYPE_DEPTH + 1 ≤ k) :
    explore c o (Tracer.new "$" "$") (nestVec k ty) = fail "Too deeply nested type detected" :=
  Lemmas.C16.explore_deep_vec c o ty k "$" "$" false (by rw [Lemmas.C16.countDots_root]; exact Nat.zero_le _)
    (by rw [Lemmas.C16.countDots_root]; omega)

example : (fromTypeLoopN .fixed {} (.struct "S" (.cons "a" (.option .bool) .nil)) 100 (Tracer.new "$" "$")).2 = 1 := by
  decide +kernel
example : (fromType .fixed {} (nestVec 21 .bool)).isErr = true := by
  rw [Lemmas.C16.nestVec_eq_unroll]
  exact fromType_deep_is_error _ _ _ (Lemmas.C16.descends_vec _) _ 21 (by decide)
example : (fromType .fixed {} (.struct "S" (.cons "a" (nestVec 3 .bool) .nil))).isOk = true := by decide +kernel

end Tracing

/-! ### reader construction and iteration -/

section Reader
open SaModel.Read

/-- `Deserializer::new(fields, views)`: the count / length checks are errors -/
theorem deserializer_new_no_panic (checkCount : Bool) (nfields : Nat) (viewLens : List Nat) (site : String) :
    Access.new checkCount nfields viewLens ≠ panic site := by
  apply Lemmas.C16.ne_panic_of_isPanic
  unfold Access.new
  split
  · rfl
  · simp only []; split <;> (split <;> rfl)

/-- construction of the column readers over ARBITRARY views, `Deserializer::get(i)`, `DeserializerIterator::next`
and the bulk `SeqAccess`: whichever index the access layer hands out (`getIdx`, `Iter.step`, `bulk`), reading that
record — `deserialize_any` or any typed target — never unwinds.  (C17 proves the reads for every index; the access
layer itself is total: `Access.getIdx`, `Access.Iter.step`, `Access.bulk`, `Access.run` are plain functions.) -/
theorem deserializer_access_no_panic (a : Arr) (t : Target) (len : Nat) :
    NoPanic (new Fixes.all a) ∧
    (∀ i idx, Access.getIdx len i = some idx → NoPanic (readAny Fixes.all a idx) ∧ NoPanic (readAs Fixes.all t a idx)) ∧
    (∀ (it : Access.Iter) idx, it.step.1 = some idx → NoPanic (readAny Fixes.all a idx) ∧ NoPanic (readAs Fixes.all t a idx)) ∧
    (∀ idx ∈ Access.bulk len, NoPanic (readAny Fixes.all a idx) ∧ NoPanic (readAs Fixes.all t a idx)) :=
  ⟨C17.new_no_panic a,
   fun _ idx _ => ⟨C17.read_no_panic a idx, C17.readAs_no_panic t a idx⟩,
   fun _ idx _ => ⟨C17.read_no_panic a idx, C17.readAs_no_panic t a idx⟩,
   fun idx _ => ⟨C17.read_no_panic a idx, C17.readAs_no_panic t a idx⟩⟩

example : Access.new true 2 [3, 4] = fail "Cannot deserialize from arrays with different lengths" := by decide
example : Access.bulk 3 = [0, 1, 2] := by decide

open SaModel.Lemmas.C12 (colLens batch)

/-- a whole-batch read through the access layer with a typed target — `Vec<T>::deserialize(Deserializer::from_marrow(
fields, views)?)`: `Deserializer::new` (count / length checks, the record count), construction of the column readers
under the root struct reader `batch len cols`, then `T::deserialize` of every record the bulk `SeqAccess` hands out, in
order, stopping at the first error.  (`Driver/ReadCheck.lean modelRead` is the one-column instance, with
`readRange _ 0 len` for `mapM` over `Access.bulk len` = `List.range len`, C13.) -/
def readBatch (t : Target) (cols : ArrFields) : R (List DVal) := do
  let len ← Access.new true cols.length (colLens cols)
  new Fixes.all (batch len cols)
  (Access.bulk len).mapM (fun idx => readAs Fixes.all t (batch len cols) idx)

/-- the same with `deserialize_any` for every record -/
def readBatchAny (cols : ArrFields) : R (List DVal) := do
  let len ← Access.new true cols.length (colLens cols)
  new Fixes.all (batch len cols)
  (Access.bulk len).mapM (fun idx => readAny Fixes.all (batch len cols) idx)

theorem mapM_no_panic {α β} (f : α → R β) (hf : ∀ a, NoPanic (f a)) : ∀ (l : List α), NoPanic (l.mapM f)
  | [] => NoPanic.pure _
  | a :: r => by
    rw [List.mapM_cons]
    exact NoPanic.bind (hf a) fun _ => NoPanic.bind (mapM_no_panic f hf r) fun _ => NoPanic.pure _

/-- C16 for whole-batch typed reads: for EVERY list of columns (ARBITRARY views: no validity, length or offset
hypothesis — C17) and EVERY typed target, reading the whole batch returns the records or an error -/
theorem readBatch_no_panic (t : Target) (cols : ArrFields) (site : String) : readBatch t cols ≠ panic site := by
  unfold readBatch
  exact NoPanic.bind (deserializer_new_no_panic _ _ _) (fun len =>
    NoPanic.bind (C17.new_no_panic _) fun _ => mapM_no_panic _ (fun idx => C17.readAs_no_panic t _ idx) _) site

theorem readBatchAny_no_panic (cols : ArrFields) (site : String) : readBatchAny cols ≠ panic site := by
  unfold readBatchAny
  exact NoPanic.bind (deserializer_new_no_panic _ _ _) (fun len =>
    NoPanic.bind (C17.new_no_panic _) fun _ => mapM_no_panic _ (fun idx => C17.read_no_panic _ idx) _) site

/-- the list the bulk read produces is the list of `readRange` (what the `read` suite's driver computes) -/
theorem readBatch_eq_readRange (t : Target) (cols : ArrFields) (len : Nat) :
    (Access.bulk len).mapM (fun idx => readAs Fixes.all t (batch len cols) idx) =
      readRange (fun idx => readAs Fixes.all t (batch len cols) idx) 0 len := by
  rw [SaModel.Props.C13.bulk_eq_items]
  have key : ∀ (f : Nat → R DVal) (n s : Nat), (List.range' s n).mapM f = readRange f s n := by
    intro f n
    induction n with
    | zero => intro s; rfl
    | succ n ih =>
      intro s
      rw [List.range'_succ, List.mapM_cons, readRange, ih (s + 1)]
  rw [List.range_eq_range']
  exact key _ len 0

/-- non-vacuity: a two-column batch (nullable utf8, FixedSizeList(2) of int16; C12's example) read as `Vec<(String?,
[i16; 2])>`-like records succeeds; with a target that does not fit, and with columns of different lengths, it is an
error -/
def batchExample : ArrFields :=
  .cons ⟨"s", true, []⟩ (.bytes .utf8 (some ⟨[0b101], 0⟩) [0, 1, 1, 3] [97, 98, 99])
  (.cons ⟨"p", false, []⟩ (.fixedSizeList 3 none 2 ⟨"element", false, []⟩ (.prim .int16 none [1, 2, 3, 4, 5, 6])) .nil)

example : (readBatchAny batchExample).isOk = true := by decide +kernel
example : (readBatch (.tuple (.cons (.option .string) (.cons (.seq (.int .i16)) .nil))) batchExample).isOk = true := by
  decide +kernel
example : (readBatch .bool batchExample).isErr = true := by decide +kernel
example : (readBatchAny (.cons ⟨"a", false, []⟩ (.null 2) (.cons ⟨"b", false, []⟩ (.null 3) .nil))).isErr = true := by
  decide +kernel

end Reader

/-! ### schema side: every schema text / JSON value its readers are handed -/

section Schema
open SaModel.Dsl SaModel.SchemaJson

/-- `Term::from_str` (the data-type mini language of `utils/dsl.rs`, quoted strings with escapes included): every
text.  Nesting deeper than the model's fuel is an ordinary error; Rust recurses on the machine stack there (not
expressible, see notes). -/
theorem termFromStr_no_panic (s : Text) (site : String) : Term.fromStr s ≠ panic site :=
  Lemmas.C16.ne_panic_of_isPanic (Lemmas.C16.fromStrWith_np false s) site

/-- the parser's recursion is bounded (fix d2b4b5b): every term it returns is nested at most `MAX_TERM_DEPTH` = 32
levels deep … -/
theorem termFromStr_depth_bounded (s : Text) (t : Term) (h : Term.fromStr s = .ok t) : t.depth ≤ MAX_TERM_DEPTH :=
  Lemmas.C16.fromStr_depth_le false s t h

open SaModel.Lemmas.C16 (nestTerm) in
/-- … and the texts `A(A(…(I8)…))` with `n` levels (`showTerm esc (nestTerm n)`, 3n + 2 characters) are read back while
`n ≤ MAX_TERM_DEPTH` and refused with an ERROR beyond — for every `n`, i.e. for texts of any size; as a data type every
one of them with `n ≥ 1` is an error.  Before the fix the real parser exhausted the stack on such a text from some
50 000 levels on (process abort; the `overflow` suite replays `n` up to 10^6 on every run). -/
theorem deepTerm_refused (esc : Char → Bool) (n : Nat) (children : List Field) :
    Term.fromStr (showTerm esc (nestTerm n)) =
      (if n ≤ MAX_TERM_DEPTH then .ok (nestTerm n) else fail "Term is nested too deeply") ∧
    (buildDataType (showTerm esc (nestTerm (n + 1))) children).isErr = true :=
  ⟨Lemmas.C16.fromStr_nest esc n, Lemmas.C16.buildDataType_nest esc n children⟩

example : String.ofList (showTerm (fun _ => false) (Lemmas.C16.nestTerm 3)) = "A(A(A(I8)))" := by decide

/-- `build_data_type(data_type, children)`: every text, every list of children -/
theorem buildDataType_no_panic (dataType : Text) (children : List Field) (site : String) :
    buildDataType dataType children ≠ panic site :=
  Lemmas.C16.ne_panic_of_isPanic (Lemmas.C16.buildDataTypeWith_np false dataType children) site

/-- `validate_field`: every field tree (all data types, every metadata map) -/
theorem validateField_no_panic (f : Field) (site : String) : validateField f ≠ panic site :=
  Lemmas.C16.ne_panic_of_isPanic (Lemmas.C16.validateField_np f) site

/-- one field object (`CustomField::deserialize` + `into_field` + `validate_field`): EVERY JSON value — wrong kinds,
missing / duplicate / unknown keys, any `data_type` text, any strategy, any metadata, any nesting of children -/
theorem parseField_no_panic (v : JVal) (site : String) : parseField v ≠ panic site :=
  Lemmas.C16.ne_panic_of_isPanic (Lemmas.C16.parseFieldWith_np false v) site

/-- `SerdeArrowSchema::deserialize` (`from_value`, `serde_json::from_str`): every JSON value, both top-level forms -/
theorem parseSchema_no_panic (v : JVal) (site : String) : parseSchema v ≠ panic site :=
  Lemmas.C16.ne_panic_of_isPanic (Lemmas.C16.parseSchemaWith_np false v) site

/-- foreign (arrow / marrow) field objects handed to `from_value` -/
theorem acceptForeign_no_panic (fs : List Field) (site : String) : acceptForeignList fs ≠ panic site :=
  Lemmas.C16.ne_panic_of_isPanic (Lemmas.C16.acceptForeignList_np fs) site

/-- serialising a schema: the one failure (a type `PrettyFieldDataType` cannot write) is an error -/
theorem printSchema_no_panic (esc : Char → Bool) (fields : List Field) (site : String) :
    printSchema esc fields ≠ panic site :=
  Lemmas.C16.ne_panic_of_isPanic (Lemmas.C16.printSchema_np esc fields) site

/-- a schema its constructors accept can be given to the builder: `from_value` followed by `to_marrow`-style use —
reading the schema, constructing the builders, pushing any rows, finishing — never unwinds -/
theorem schema_then_build_no_panic (ext : Ext) (he : ExtNP ext) (v : JVal) (rows : List SVal) (site : String) :
    (parseSchema v >>= fun fields => toMarrow ext fields rows) ≠ panic site :=
  Lemmas.C16.ne_panic_of_isPanic
    (bind_no_panic _ _ (Lemmas.C16.parseSchemaWith_np false v) fun fields => Lemmas.C16.toMarrow_np ext he fields rows) site

/-- non-vacuity: an accepted nested field; texts and values that are refused -/
example : (parseField (.obj (.cons "name" (.str "a") (.cons "data_type" (.str "List") (.cons "children"
    (.arr (.cons (.obj (.cons "name" (.str "element") (.cons "data_type" (.str "Timestamp(Second, Some(\"UTC\"))") .nil))) .nil))
    .nil))))).isOk = true := by decide +kernel
example : (buildDataType "Decimal128(300, 1)".toList []).isErr = true ∧ (buildDataType "Timestamp(Second, Some(\"a\\q\"))".toList []).isErr = true ∧
    (buildDataType "((((".toList []).isErr = true ∧ (buildDataType "FixedSizeList(-99999999999)".toList []).isErr = true := by
  decide +kernel
example : (parseSchema (.obj (.cons "fields" (.num 3) .nil))).isErr = true ∧ (parseSchema (.str "x")).isErr = true ∧
    (parseField (.obj (.cons "name" (.str "a") (.cons "name" (.str "b") .nil)))).isErr = true := by decide +kernel

end Schema

/-! ### collected from the codec and helper models (proved with their properties) -/

theorem decimal_parse_no_panic (p : Nat) (s : Int) (txt : List UInt8) (h1 : 1 ≤ p) (h2 : p ≤ 38) (site : String) :
    SaModel.Decimal.serializeStr p s txt ≠ SaModel.panic site := SaModel.Props.C15.parse_no_panic p s txt h1 h2 site
theorem decimal_format_no_panic (v s : Int) (hv : SaModel.Decimal.inI128 v) (hs : SaModel.Decimal.inI8 s) (site : String) :
    SaModel.Decimal.formatDecimal v s ≠ SaModel.panic site := SaModel.Props.C15.format_no_panic v s hv hs site
theorem decimal_float_no_panic (p : Nat) (s : Int) (finite : Bool) (cast : Int) (site : String) :
    SaModel.Decimal.serializeFloat p s finite cast ≠ SaModel.panic site := SaModel.Props.C15.float_no_panic p s finite cast site
theorem decimal_parser_select_total (p : Nat) (s : Int) (t : Bool) :
    ∃ parser, SaModel.Decimal.DecimalParser.new p s t = Except.ok parser := SaModel.Props.C15.parser_select_total p s t
theorem span_no_panic (s : List Char) (u : SaModel.Codec.TimeUnit) :
    (SaModel.Codec.durationOfString s u).isPanic = false := SaModel.Props.C14.span_no_panic s u
theorem time_of_string_no_panic (ty : SaModel.Codec.TimeTy) (u : SaModel.Codec.TimeUnit) (s : List Char) :
    (SaModel.Codec.timeOfString ty u s).isPanic = false := SaModel.Props.C14.timeOfString_no_panic ty u s
theorem time_to_string_no_panic (u : SaModel.Codec.TimeUnit) (ts : Int) :
    (SaModel.Codec.timeToString u ts).isPanic = false := SaModel.Props.C14.timeToString_no_panic u ts
theorem timestamp_to_string_no_panic (u : SaModel.Codec.TimeUnit) (utc : Bool) (ts : Int) :
    (SaModel.Codec.timestampToString u utc ts).isPanic = false := SaModel.Props.C14.timestampToString_no_panic u utc ts
theorem date_of_string_no_panic (ty : SaModel.Codec.DateTy) (s : List Char) :
    (SaModel.Codec.dateOfString ty s).isPanic = false := SaModel.Props.C14.dateOfString_no_panic ty s
theorem date_to_string_no_panic (ty : SaModel.Codec.DateTy) (v : Int) :
    (SaModel.Codec.dateToString ty v).isPanic = false := SaModel.Props.C14.dateToString_no_panic ty v
theorem tensor_perm_no_panic (n : Nat) (p : List Nat) (site : String) :
    SaModel.Ext.checkPermutation n p ≠ Except.error (SaModel.Fail.panic site) := SaModel.Props.C20.perm_no_panic n p site
theorem tensor_fixed_storage_no_panic {ε : Type} (h : SaModel.Ext.FixedShapeTensorField ε) :
    h.tryFrom.isPanic = false := SaModel.Props.C20.fixed_storage_no_panic h
theorem tensor_variable_storage_no_panic {ε : Type} (h : SaModel.Ext.VariableShapeTensorField ε) :
    h.tryFrom.isPanic = false := SaModel.Props.C20.variable_storage_no_panic h

/-! the remaining extension helpers of C20: constructors and setters, for every argument -/

theorem tensor_dim_names_no_panic (n : Nat) (d : List SaModel.Ext.Str) : (SaModel.Ext.checkDimNames n d).isPanic = false := by
  unfold SaModel.Ext.checkDimNames; split <;> rfl
theorem bool8_no_panic {ε : Type} (h : SaModel.Ext.Bool8Field) : (h.tryFrom (ε := ε)).isPanic = false := rfl
theorem tensor_fixed_new_no_panic {ε : Type} (name : String) (element : ε) (elementName : String) (shape : List Nat) :
    (SaModel.Ext.FixedShapeTensorField.new name element elementName shape).isPanic = false := by
  unfold SaModel.Ext.FixedShapeTensorField.new; split <;> rfl
theorem tensor_variable_new_no_panic {ε : Type} (name : String) (element : ε) (elementName : String) (ndim : Nat) :
    (SaModel.Ext.VariableShapeTensorField.new name element elementName ndim).isPanic = false := by
  unfold SaModel.Ext.VariableShapeTensorField.new; split <;> rfl

theorem of_unit_check {α} (r : R Unit) (hr : r.isPanic = false) (k : α) :
    R.isPanic (match r with | .error e => (.error e : R α) | .ok () => .ok k) = false := by
  cases r with
  | ok u => rfl
  | error e => cases e <;> first | rfl | exact hr

theorem tensor_fixed_setPermutation_no_panic {ε : Type} (h : SaModel.Ext.FixedShapeTensorField ε) (v : List Nat) :
    (h.setPermutation v).isPanic = false :=
  of_unit_check _ ((isPanic_false_iff _).2 (fun site => SaModel.Props.C20.perm_no_panic _ _ site)) _
theorem tensor_fixed_setDimNames_no_panic {ε : Type} (h : SaModel.Ext.FixedShapeTensorField ε) (v : List SaModel.Ext.Str) :
    (h.setDimNames v).isPanic = false := of_unit_check _ (tensor_dim_names_no_panic _ _) _
theorem tensor_variable_setPermutation_no_panic {ε : Type} (h : SaModel.Ext.VariableShapeTensorField ε) (v : List Nat) :
    (h.setPermutation v).isPanic = false :=
  of_unit_check _ ((isPanic_false_iff _).2 (fun site => SaModel.Props.C20.perm_no_panic _ _ site)) _
theorem tensor_variable_setDimNames_no_panic {ε : Type} (h : SaModel.Ext.VariableShapeTensorField ε) (v : List SaModel.Ext.Str) :
    (h.setDimNames v).isPanic = false := of_unit_check _ (tensor_dim_names_no_panic _ _) _
theorem tensor_variable_setUniformShape_no_panic {ε : Type} (h : SaModel.Ext.VariableShapeTensorField ε)
    (v : List (Option Nat)) : (h.setUniformShape v).isPanic = false :=
  of_unit_check _ (by unfold SaModel.Ext.VariableShapeTensorField.checkUniformShape; split <;> rfl) _

/-- non-vacuity: a permutation that is refused, one that is accepted; an index far out of range -/
example : ((SaModel.Ext.FixedShapeTensorField.mk "t" false () [2, 3] none none).setPermutation [1, 1]).isErr = true ∧
    ((SaModel.Ext.FixedShapeTensorField.mk "t" false () [2, 3] none none).setPermutation [1, 0]).isOk = true ∧
    ((SaModel.Ext.FixedShapeTensorField.mk "t" false () [2, 3] none none).setPermutation [0, 18446744073709551615]).isErr = true := by
  decide

end SaModel.Props.C16
