import SaModel.Build.Finish
import SaModel.Props.C14
import SaModel.Props.C15
import SaModel.Props.C20
import SaModel.Props.C13
/-
C16 — failures are reported as errors: no panic, overflow or hang.
In the model every Rust operation that can unwind (indexing, slicing, unwrap, `%0`, checked arithmetic in a
debug build) yields the outcome `panic`; "no panic" is the theorem `(f x).isPanic = false` for ALL inputs of `f`.
Termination: every model function is accepted by Lean as total (structural or well-founded recursion), so no
modelled entry point can run unboundedly.  This file proves the builder-side statements that need no state
invariant and collects the per-codec theorems proved with their properties; the statement for `push` on
well-formed states is part of the refinement work (Props/C01).
-/
namespace SaModel.Props.C16
open SaModel SaModel.Build

theorem ctx_isPanic {α} (ann : List (String × String)) (r : R α) : (ctx ann r).isPanic = r.isPanic := by
  unfold ctx
  split
  · split <;> simp [R.isPanic]
  · rfl

theorem bind_no_panic {α β} (r : R α) (f : α → R β) (h1 : r.isPanic = false) (h2 : ∀ v, (f v).isPanic = false) :
    (r >>= f).isPanic = false := by
  cases r with
  | ok v => exact h2 v
  | error e => cases e <;> simp_all [R.isPanic, bind, Except.bind]

theorem ok_no_panic {α} (v : α) : R.isPanic (Except.ok v : R α) = false := rfl
theorem fail_no_panic {α} (msg : String) : (fail msg : R α).isPanic = false := rfl

theorem setValidity_no_panic (v : Validity) (idx : Nat) (value : Bool) : (setValidity v idx value).isPanic = false := by
  unfold setValidity; split <;> try rfl
  split <;> rfl

theorem duplicateLast_no_panic (offs : List Int) : (duplicateLast offs).isPanic = false := by
  unfold duplicateLast; split <;> rfl

/-- the repaired `increment_last` never unwinds (the pinned one does at the top of the offset type) -/
theorem incrementLast_no_panic (large : Bool) (offs : List Int) (inc : Nat) :
    (incrementLast true large offs inc).isPanic = false := by
  unfold incrementLast
  split
  · rfl
  · split
    · rfl
    · split <;> rfl

theorem iter_no_panic {α} (f : α → R α) (hf : ∀ a, (f a).isPanic = false) : ∀ (k : Nat) (a : α), (iter k f a).isPanic = false
  | 0, _ => rfl
  | k + 1, a => by
    rw [iter]
    exact bind_no_panic _ _ (hf a) (fun a' => iter_no_panic f hf k a')

mutual
/-- placeholders (`serialize_default`, any number of them) never unwind, in ANY builder state -/
theorem pushDefaultK_no_panic : ∀ (b : B) (k : Nat), (pushDefaultK b k).isPanic = false
  | .null _ _, _ => by simp [pushDefaultK, R.isPanic]
  | .unknownVariant _, k => by
    unfold pushDefaultK
    split
    · rfl
    · rw [ctx_isPanic]; rfl
  | .leaf _ _ _ _, k => by
    unfold pushDefaultK
    exact bind_no_panic _ _ (iter_no_panic _ (fun _ => rfl) _ _) (fun _ => rfl)
  | .bytes _ _ _ _ _, k => by
    unfold pushDefaultK
    rw [ctx_isPanic]
    refine bind_no_panic _ _ (iter_no_panic _ (fun s => ?_) _ _) (fun _ => rfl)
    exact bind_no_panic _ _ (duplicateLast_no_panic _) (fun _ => rfl)
  | .bytesView _ _ _ _ _, k => by
    unfold pushDefaultK
    exact bind_no_panic _ _ (iter_no_panic _ (fun _ => rfl) _ _) (fun _ => rfl)
  | .fixedSizeBinary _ _ _ _ _ _, k => by
    unfold pushDefaultK
    exact bind_no_panic _ _ (iter_no_panic _ (fun _ => rfl) _ _) (fun _ => rfl)
  | .list _ _ _ _ _ _, k => by
    unfold pushDefaultK
    rw [ctx_isPanic]
    refine bind_no_panic _ _ (iter_no_panic _ (fun s => ?_) _ _) (fun _ => rfl)
    exact bind_no_panic _ _ (duplicateLast_no_panic _) (fun _ => rfl)
  | .fixedSizeList _ _ n _ _ _ el, k => by
    unfold pushDefaultK
    rw [ctx_isPanic]
    refine bind_no_panic _ _ (iter_no_panic _ (fun _ => rfl) _ _) (fun _ => ?_)
    exact bind_no_panic _ _ (pushDefaultK_no_panic el (k * n)) (fun _ => rfl)
  | .map _ _ _ _ _ _, k => by
    unfold pushDefaultK
    rw [ctx_isPanic]
    refine bind_no_panic _ _ (iter_no_panic _ (fun s => ?_) _ _) (fun _ => rfl)
    exact bind_no_panic _ _ (duplicateLast_no_panic _) (fun _ => rfl)
  | .struct _ _ _ fs _ _ _, k => by
    unfold pushDefaultK
    rw [ctx_isPanic]
    refine bind_no_panic _ _ (iter_no_panic _ (fun _ => rfl) _ _) (fun _ => ?_)
    exact bind_no_panic _ _ (pushDefaultKAll_no_panic fs k) (fun _ => rfl)
  | .dictionary _ idx _ _, k => by
    unfold pushDefaultK
    rw [ctx_isPanic]
    exact bind_no_panic _ _ (pushDefaultK_no_panic idx k) (fun _ => rfl)
  | .union _ fs _ _ _, k => by
    unfold pushDefaultK
    rw [ctx_isPanic]
    cases fs with
    | nil => simp only []; split <;> rfl
    | cons c m rest => exact bind_no_panic _ _ (pushDefaultK_no_panic c k) (fun _ => rfl)
theorem pushDefaultKAll_no_panic : ∀ (fs : BL) (k : Nat), (pushDefaultKAll fs k).isPanic = false
  | .nil, _ => rfl
  | .cons b _ rest, k => by
    unfold pushDefaultKAll
    refine bind_no_panic _ _ (pushDefaultK_no_panic b k) (fun _ => ?_)
    exact bind_no_panic _ _ (pushDefaultKAll_no_panic rest k) (fun _ => rfl)
end

/-- a null pushed into ANY builder state never unwinds (error if the field is not nullable) -/
theorem pushNone_no_panic : ∀ (b : B), (pushNone b).isPanic = false
  | .null _ _ => rfl
  | .unknownVariant _ => by unfold pushNone; rw [ctx_isPanic]; rfl
  | .leaf _ _ _ _ => by
    unfold pushNone; rw [ctx_isPanic]
    exact bind_no_panic _ _ (setValidity_no_panic _ _ _) (fun _ => rfl)
  | .bytes _ _ _ _ _ => by
    unfold pushNone; rw [ctx_isPanic]
    refine bind_no_panic _ _ (setValidity_no_panic _ _ _) (fun _ => ?_)
    exact bind_no_panic _ _ (duplicateLast_no_panic _) (fun _ => rfl)
  | .bytesView _ _ _ _ _ => by
    unfold pushNone; rw [ctx_isPanic]
    exact bind_no_panic _ _ (setValidity_no_panic _ _ _) (fun _ => rfl)
  | .fixedSizeBinary _ _ _ _ _ _ => by
    unfold pushNone; rw [ctx_isPanic]
    exact bind_no_panic _ _ (setValidity_no_panic _ _ _) (fun _ => rfl)
  | .list _ _ _ _ _ _ => by
    unfold pushNone; rw [ctx_isPanic]
    refine bind_no_panic _ _ (setValidity_no_panic _ _ _) (fun _ => ?_)
    exact bind_no_panic _ _ (duplicateLast_no_panic _) (fun _ => rfl)
  | .fixedSizeList _ _ n _ _ _ el => by
    unfold pushNone; rw [ctx_isPanic]
    refine bind_no_panic _ _ (setValidity_no_panic _ _ _) (fun _ => ?_)
    exact bind_no_panic _ _ (pushDefaultK_no_panic el n) (fun _ => rfl)
  | .map _ _ _ _ _ _ => by
    unfold pushNone; rw [ctx_isPanic]
    refine bind_no_panic _ _ (setValidity_no_panic _ _ _) (fun _ => ?_)
    exact bind_no_panic _ _ (duplicateLast_no_panic _) (fun _ => rfl)
  | .struct _ _ _ fs _ _ _ => by
    unfold pushNone; rw [ctx_isPanic]
    refine bind_no_panic _ _ (setValidity_no_panic _ _ _) (fun _ => ?_)
    exact bind_no_panic _ _ (pushDefaultKAll_no_panic fs 1) (fun _ => rfl)
  | .dictionary _ idx _ _ => by
    unfold pushNone; rw [ctx_isPanic]
    refine bind_no_panic _ _ ?_ (fun _ => rfl)
    rw [ctx_isPanic]; exact pushNone_no_panic idx
  | .union _ _ _ _ _ => by unfold pushNone; rw [ctx_isPanic]; rfl

/-- the pinned unchecked offset addition unwinds: witness (design #22) -/
theorem incrementLast_pinned_panics : (incrementLast false false [2147483647] 1).isPanic = true := by decide

/-- the pinned tuple path indexed `seen[idx]` out of range: witness (design #18) -/
theorem element_out_of_range_panics :
    (SS.element ⟨"$", 1, none, .cons (.null "$.a" 0) ⟨"a", true, []⟩ .nil, [none], 1, [true]⟩ 1 (fun b => .ok b)).isPanic = true := by
  decide

/-! ### collected from the codec and helper models (proved with their properties) -/

theorem decimal_parse_no_panic (p : Nat) (s : Int) (txt : List UInt8) (h1 : 1 ≤ p) (h2 : p ≤ 38) (site : String) :
    SaModel.Decimal.serializeStr p s txt ≠ SaModel.panic site := SaModel.Props.C15.parse_no_panic p s txt h1 h2 site
theorem decimal_format_no_panic (v s : Int) (hv : SaModel.Decimal.inI128 v) (hs : SaModel.Decimal.inI8 s) (site : String) :
    SaModel.Decimal.formatDecimal v s ≠ SaModel.panic site := SaModel.Props.C15.format_no_panic v s hv hs site
theorem decimal_float_no_panic (p : Nat) (s : Int) (finite : Bool) (cast : Int) (site : String) :
    SaModel.Decimal.serializeFloat p s finite cast ≠ SaModel.panic site := SaModel.Props.C15.float_no_panic p s finite cast site
theorem decimal_parser_select_total (p : Nat) (s : Int) (t : Bool) :
    ∃ parser, SaModel.Decimal.DecimalParser.new p s t = Except.ok parser := SaModel.Props.C15.parser_select_total p s t
theorem span_no_panic (s : List Char) (u : SaModel.Codec.TimeUnit) :
    (SaModel.Codec.durationOfString s u).isPanic = false := SaModel.Props.C14.span_no_panic s u
theorem time_of_string_no_panic (ty : SaModel.Codec.TimeTy) (u : SaModel.Codec.TimeUnit) (s : List Char) :
    (SaModel.Codec.timeOfString ty u s).isPanic = false := SaModel.Props.C14.timeOfString_no_panic ty u s
theorem time_to_string_no_panic (u : SaModel.Codec.TimeUnit) (ts : Int) :
    (SaModel.Codec.timeToString u ts).isPanic = false := SaModel.Props.C14.timeToString_no_panic u ts
theorem timestamp_to_string_no_panic (u : SaModel.Codec.TimeUnit) (utc : Bool) (ts : Int) :
    (SaModel.Codec.timestampToString u utc ts).isPanic = false := SaModel.Props.C14.timestampToString_no_panic u utc ts
theorem date_of_string_no_panic (ty : SaModel.Codec.DateTy) (s : List Char) :
    (SaModel.Codec.dateOfString ty s).isPanic = false := SaModel.Props.C14.dateOfString_no_panic ty s
theorem date_to_string_no_panic (ty : SaModel.Codec.DateTy) (v : Int) :
    (SaModel.Codec.dateToString ty v).isPanic = false := SaModel.Props.C14.dateToString_no_panic ty v
theorem tensor_perm_no_panic (n : Nat) (p : List Nat) (site : String) :
    SaModel.Ext.checkPermutation n p ≠ Except.error (SaModel.Fail.panic site) := SaModel.Props.C20.perm_no_panic n p site
theorem tensor_fixed_storage_no_panic {ε : Type} (h : SaModel.Ext.FixedShapeTensorField ε) :
    h.tryFrom.isPanic = false := SaModel.Props.C20.fixed_storage_no_panic h
theorem tensor_variable_storage_no_panic {ε : Type} (h : SaModel.Ext.VariableShapeTensorField ε) :
    h.tryFrom.isPanic = false := SaModel.Props.C20.variable_storage_no_panic h

end SaModel.Props.C16
