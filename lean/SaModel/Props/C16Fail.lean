import SaModel.Props.C16
import SaModel.Props.C10Fail
/-
C16 — no panic along histories on one `ArrayBuilder` WITH FAILING OPERATIONS.

`push_no_panic` (Props/C16.lean) needs the state invariant `NPInv`, which only SUCCESSFUL pushes preserve: what a failed
push leaves behind is not covered — and the unrepaired crate did panic there (`to_arrow2` after a failed push: finding
C10-use-after-failed-push).  With the poisoned flag (SaModel/Build/Guarded.lean) the state a failed operation leaves is never
used again:

  runG_no_panic    along ANY history of push / extend / Serializer / build operations from a fresh builder — operations may
                   fail, the history goes on — no operation unwinds: every outcome is `ok` or an error.
-/
namespace SaModel.Props.C16
open SaModel SaModel.Build SaModel.Props.C10

theorem map_isPanic {α β} (r : R α) (f : α → β) : R.isPanic (r.map f) = R.isPanic r := by
  cases r with
  | ok a => rfl
  | error e => cases e <;> rfl

/-- the first outcome from a state reached by successful pushes -/
theorem stepG_np (ext : Ext) (he : Lemmas.C16.ExtNP ext) (fields : List Field) (r0 : B) (h0 : newRoot fields = .ok r0)
    (root : B) (pending : List SVal) (hp : pending.foldlM (push ext) r0 = .ok root) (op : Op) :
    (stepG ext (some root) op).1.isPanic = false := by
  have hinv : Lemmas.C16.NPInv root := (Lemmas.C16.foldlM_np ext he pending r0 (Lemmas.C16.newRoot_npInv h0)).2 root hp
  cases op with
  | push x =>
    have := Lemmas.C16.push_np ext he x root hinv
    cases h : push ext root x with
    | ok b => simp only [stepG, pushG_some, h]; rfl
    | error e => rw [h] at this; simp only [stepG, pushG_some, h, map_isPanic]; cases e <;> first | rfl | exact this
  | extend x =>
    have := Lemmas.C16.extend_np ext he root hinv x
    cases h : extend ext root x with
    | ok b => simp only [stepG, extendG_some, h]; rfl
    | error e => rw [h] at this; simp only [stepG, extendG_some, h, map_isPanic]; cases e <;> first | rfl | exact this
  | viaSerializer x =>
    cases hrb : reachesBuilder x with
    | true =>
      have := Lemmas.C16.serializeWith_np ext he root hinv x
      cases h : serializeWith ext root x with
      | ok b => simp only [stepG, serializeWithG_reaches ext x root hrb, h]; rfl
      | error e => rw [h] at this; simp only [stepG, serializeWithG_reaches ext x root hrb, h, map_isPanic]; cases e <;> first | rfl | exact this
    | false =>
      -- refused by the wrapper with an error
      obtain ⟨msg, hm⟩ := serializeWithG_refused ext x (some root) hrb
      simp only [stepG, hm, map_isPanic]; rfl
  | build =>
    obtain ⟨p, len, v, fs, cached, next, seen, rfl⟩ := Lemmas.C16.root_is_struct h0 hp
    have := Lemmas.C16.buildArrays_np ext he hinv
    cases h : buildArrays ext (.struct p len v fs cached next seen) with
    | ok b => simp only [stepG, buildArraysG_some, h]; rfl
    | error e => rw [h] at this; simp only [stepG, buildArraysG_some, h, map_isPanic]; cases e <;> first | rfl | exact this

/-- **no operation of any history unwinds — also after a failed one.**  From the fresh builder of ANY field list, along ANY
history of `push` / `extend` / `Serializer` / build operations over ANY values, operations may fail and the history goes on:
every outcome is `ok` or an error, never a panic.  (The state a failed operation leaves behind is never used: the poisoned
builder refuses every later operation with an error, `C10.after_failure_refuses`.) -/
theorem runG_no_panic (ext : Ext) (he : Lemmas.C16.ExtNP ext) (fields : List Field) (r0 : B) (h0 : newRoot fields = .ok r0) :
    ∀ (ops : List Op) (root : B) (pending : List SVal), pending.foldlM (push ext) r0 = .ok root →
      ∀ o ∈ (runG ext (some root) ops).1, o.isPanic = false
  | [], _, _, _, o, ho => by simp [runG] at ho
  | op :: ops, root, pending, hp, o, ho => by
    simp only [runG, List.mem_cons] at ho
    rcases ho with rfl | ho
    · exact stepG_np ext he fields r0 h0 root pending hp op
    · rcases step_inv ext fields r0 h0 root pending hp op with h | ⟨root', h1, h2, _, _⟩
      · rw [h] at ho
        obtain ⟨msg, hm⟩ := (after_failure_refuses ext ops).2 o ho
        rw [hm]; rfl
      · rw [h1] at ho
        exact runG_no_panic ext he fields r0 h0 ops root' _ h2 o ho

/-- … from the builder `ArrayBuilder::from_marrow(fields)` makes -/
theorem history_no_panic (ext : Ext) (he : Lemmas.C16.ExtNP ext) (fields : List Field) (r0 : B) (h0 : newRoot fields = .ok r0)
    (ops : List Op) : ∀ o ∈ (runG ext (some r0) ops).1, o.isPanic = false :=
  runG_no_panic ext he fields r0 h0 ops r0 [] rfl

/-- non-vacuity: the history of Props/C10Fail.lean (a refused record in the middle, operations after it) -/
example : ∀ o ∈ (runG {} (some exRoot0) exFailOps).1, o.isPanic = false := by decide +kernel

end SaModel.Props.C16
