import SaModel.Generated.ArithSites
/-
C16, obligation `gen_arith_sites`: the inventory of unwind / overflow sites is complete and argued.

`translator/arith_sites.py` lexes every non-test source file of serde_arrow (internal/**, *_impl.rs) and lists every
binary `+ - * / % << >>` (and compound assignment), unary `-`, `as <integer type>` cast, index / range slice,
`.unwrap()` / `.expect(..)`, panicking std method, allocation sized by an argument and panicking macro, keyed by
(file, function, kind, normalised expression, occurrence) — no line numbers.  `translator/arith_sites.json` gives each
site a class: `model:<definition>@<theorem>` (an explicit panic / error site of the Lean model, unreachable by the
named theorem; the reference itself is checked by `Props/C16Links.lean`), `guard:<shape> <comparison>` (behind a comparison of
the same function that the generator finds again in the sources), `range:<invariant>` (cannot overflow / be out of range),
`test-only`, or `OPEN`.  The generator REFUSES
(./check C16: VIOLATION … no-failing-input-found, obligation `translator`) a source site without a class, a class
without a site, a malformed class and a `model:` reference to a Lean name that does not exist; what it accepts is
written to `Generated/ArithSites.lean`, and the theorems below are the remaining obligation: nothing is OPEN, and the
counts are consistent (every site has exactly one kind and one class).

Trusted: the lexer (translator/arith_sites.py + rust_lex.py: which token shapes are sites) and the one-line `range:`
arguments, which are read by a human, not checked by Lean.  Not covered: code expanded from macros of other crates,
operator overloads of other crates (`NaiveDate + TimeDelta`: the crate uses the checked forms), panics inside
marrow / arrow / chrono, stack depth, allocation failure.
-/
namespace SaModel.Props.C16Gen
open SaModel.Generated.ArithSites

/-- no site of the inventory is unargued -/
theorem gen_arith_sites : openSites.length = 0 ∧ (siteClasses.lookup "OPEN").getD 0 = 0 := by decide

/-- every site has one kind and one class -/
theorem gen_arith_sites_counted :
    (siteKinds.map (·.2)).sum = siteCount ∧ (siteClasses.map (·.2)).sum = siteCount := by decide

/-- every recognised guard is counted once: the `guard` classes plus the rows of another class that carry a guard field -/
theorem gen_arith_sites_guards_counted :
    (guardKinds.map (·.2)).sum = (siteClasses.lookup "guard").getD 0 + guardAlso := by decide

/-- the inventory is not empty, and some sites are covered by model theorems (non-vacuity) -/
example : 300 < siteCount ∧ 100 < (siteClasses.lookup "model").getD 0 ∧ 20 ≤ modelRefs.length
    ∧ 10 ≤ (siteClasses.lookup "guard").getD 0 ∧ 10 ≤ guardAlso := by decide

/-- the union counter (the site the review found missing) is in the inventory, tied to the model definition that has the
capacity check -/
example : (modelRefs.lookup "serializeVariant@push_no_panic").isSome = true := by decide

end SaModel.Props.C16Gen
