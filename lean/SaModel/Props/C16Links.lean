import SaModel.Props.SiteLinkCheck
import SaModel.Generated.ArithSites
import SaModel.Props.C14
import SaModel.Props.C15
import SaModel.Props.C16
import SaModel.Props.C17
import SaModel.Props.C17Sites
import SaModel.Props.C16View
/-
C16 / C17, obligation `gen_arith_site_links`: the `model:<definition>@<theorem>` classes of the site inventory
(`translator/arith_sites.json`) are CHECKED references into the built Lean environment, not names read by a human.

`translator/arith_sites.py render_links` writes the references (from the json only — no rewrite of the crate can change
them) to `Generated/ArithSiteLinks.lean`; the command `#check_site_links` below runs while THIS file is elaborated, in an
environment that holds every theorem module the references point into, and fails the build — naming the reference and the
sites that carry it — unless for every row

1. `<definition>` resolves to exactly one definition of the model (a constant under `SaModel`, outside `SaModel.Props` /
   `Lemmas` / `Generated` / `Wording`, whose name ends in the given components);
2. `<theorem>` resolves to exactly one theorem under `SaModel.Props`;
3. the theorem is ABOUT the definition: the definition is reachable from the constants of the theorem's STATEMENT by
   unfolding definitions of the model (the statement names a function whose body, transitively, calls the definition or
   sits in one mutual block with it; proofs are never looked at) — for a row with a site in the readers (`reader = true`)
   the statement has to name the definition itself (the per-primitive theorems of `Props/C17Sites.lean`), and the
   definition has to be reachable from the statements of C17's hypothesis-free headline theorems `new_no_panic`,
   `read_no_panic`, `readAs_no_panic` (it is part of the reader those cover);
4. where a site of the row unwinds by itself (index / slice / unwrap / panicking macro: `unwinds = true`) the definition
   contains an explicit `panic` branch (`SaModel.panic` / `Fail.panic` occurs in its own body, matchers and recursion
   helpers included).

A deleted or renamed theorem or definition, a theorem that no longer speaks about the definition, or a model definition
that lost its panic branch breaks `lake build SaModel.Props.C16Links`, which `./check C16` / `./check C17` report as
`VIOLATION … no-failing-input-found` (obligation `lake build`; the message of the failed command is in the replay file).

What this does NOT show: that the Rust site IS the panic branch of that definition (that stays the modeller's claim, tied by
the correspondence suites), and nothing about the `range:` classes.
-/
namespace SaModel.Props.C16Links
open SaModel.Generated

#check_site_links all

/-- the references cover exactly the `model` sites of the inventory, and every reference has a site -/
theorem gen_arith_site_links_counted :
    ArithSiteLinks.linkedSiteCount = (ArithSites.siteClasses.lookup "model").getD 0
    ∧ (ArithSiteLinks.links.map (·.2.2.2.2.length)).sum = ArithSiteLinks.linkedSiteCount
    ∧ ArithSiteLinks.links.all (fun l => l.2.2.2.2.length > 0) = true := by decide

/-- non-vacuity: there are references, some on the reader side -/
example : 20 ≤ ArithSiteLinks.links.length ∧ (ArithSiteLinks.links.filter (·.2.2.1)).length ≥ 5 := by decide

end SaModel.Props.C16Links
