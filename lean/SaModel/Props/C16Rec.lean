import SaModel.Trace.FromTypeG
import SaModel.Props.C16
import SaModel.Props.C08
/-
C16, "schema tracing of recursive or very deep types stops with an error": the transparent wrappers.
`Props/C16.lean: fromType_deep_is_error` covers every recursive definition whose recursive occurrence sits below a
container (`Descends`).  `Option` and newtype structs add no path level, so a definition that recurses through them only
(`struct Node(Option<Box<Node>>)`) was NOT stopped — neither by the depth limit nor, contrary to what this file's
neighbour said before, by the budget: the very first pass never returned (stack overflow, abort; repo fix aaf3edc,
finding C16-from-type-transparent-recursion).  The statements below are about `fromTypeG`, the model of the fixed code
(Trace/FromTypeG.lean).
-/
namespace SaModel.Props.C16
open SaModel SaModel.Trace
open SaModel.Lemmas.C08 (unroll Descends)

/-- a context made of transparent wrappers only: `none` = `Option<_>`, `some n` = `struct n(_)` -/
def wrapCtx : List (Option String) → Ty → Ty
  | [], t => t
  | none :: r, t => .option (wrapCtx r t)
  | some n :: r, t => .newtypeStruct n (wrapCtx r t)

theorem chain_wrapCtx (ctx : List (Option String)) (t : Ty) : chain (wrapCtx ctx t) = ctx.length + chain t := by
  induction ctx with
  | nil => simp [wrapCtx]
  | cons a r ih => cases a <;> simp [wrapCtx, chain, ih] <;> omega

theorem chain_unroll (ctx : List (Option String)) (hne : ctx ≠ []) (base : Ty) (n : Nat) :
    n ≤ chain (unroll (wrapCtx ctx) n base) := by
  induction n with
  | zero => exact Nat.zero_le _
  | succ k ih =>
    have hl : 0 < ctx.length := List.length_pos_iff.mpr hne
    simp only [unroll, chain_wrapCtx]
    omega

theorem wrapDeep_of_chain (t : Ty) (h : MAX_TYPE_DEPTH < chain t) : wrapDeep t = true := by
  cases t with
  | option t => simp [wrapDeep, chain] at h ⊢; left; exact h
  | newtypeStruct n t => simp [wrapDeep, chain] at h ⊢; left; exact h
  | _ => simp [chain] at h

/-- every success of the fixed `from_type` is a success of the pass structure with the same fields, and on types
without an over-long wrapper chain nothing changed -/
theorem fromTypeG_eq_of_shallow (c : Code) (o : Options) (ty : Ty) (h : wrapDeep ty = false) :
    fromTypeG c o ty = fromType c o ty := by
  simp [fromTypeG, h]

theorem fromTypeG_ok (c : Code) (o : Options) (ty : Ty) (fs : List Field) (h : fromTypeG c o ty = .ok fs) :
    wrapDeep ty = false ∧ fromType c o ty = .ok fs := by
  unfold fromTypeG at h
  split at h
  · cases h
  · rename_i hw; exact ⟨by simpa using hw, h⟩

/-- **recursion through transparent wrappers only is an error value**: for every non-empty wrapper context `ctx`
(`struct Node(Option<Box<Node>>)` is `[some "Node", none]`; `Box` is invisible to serde), every unrolling deeper than
`MAX_TYPE_DEPTH` of `T = ctx T` is refused by `from_type` — for all options and budgets, wherever the unrolling ends -/
theorem fromTypeG_wrapper_recursion_is_error (c : Code) (o : Options) (ctx : List (Option String)) (hne : ctx ≠ [])
    (base : Ty) (n : Nat) (hn : MAX_TYPE_DEPTH < n) :
    (fromTypeG c o (unroll (wrapCtx ctx) n base)).isErr = true := by
  have hw : wrapDeep (unroll (wrapCtx ctx) n base) = true :=
    wrapDeep_of_chain _ (Nat.lt_of_lt_of_le hn (chain_unroll ctx hne base n))
  simp [fromTypeG, hw, R.isErr, fail]

/-- the same below any record: `struct R { w: W }` with `W = ctx W` -/
theorem fromTypeG_wrapper_recursion_in_field (c : Code) (o : Options) (ctx : List (Option String)) (hne : ctx ≠ [])
    (base : Ty) (n : Nat) (hn : MAX_TYPE_DEPTH < n) (name f : String) (rest : TyFields) :
    (fromTypeG c o (.struct name (.cons f (unroll (wrapCtx ctx) n base) rest))).isErr = true := by
  have hw : wrapDeep (unroll (wrapCtx ctx) n base) = true :=
    wrapDeep_of_chain _ (Nat.lt_of_lt_of_le hn (chain_unroll ctx hne base n))
  simp [fromTypeG, wrapDeep, wrapDeepFields, hw, R.isErr, fail]

/-- the depth limit of the container families carries over to the fixed code -/
theorem fromTypeG_deep_is_error (c : Code) (o : Options) (F : Ty → Ty) (hF : Descends o F) (base : Ty) (n : Nat)
    (hn : MAX_TYPE_DEPTH < n) : (fromTypeG c o (unroll F n base)).isErr = true := by
  unfold fromTypeG
  split
  · simp [R.isErr, fail]
  · exact fromType_deep_is_error c o F hF base n hn

/-- never a panic -/
theorem fromTypeG_no_panic (c : Code) (o : Options) (ty : Ty) (site : String) :
    fromTypeG c o ty ≠ .error (.panic site) := by
  unfold fromTypeG
  split
  · simp [fail]
  · exact fromType_no_panic c o ty site

/-- C08 for the fixed code: `from_type` agrees with the documented mapping under the same guard -/
theorem C08_from_type_G (c : Code) (o : Options) (ty : Ty) :
    SaModel.Lemmas.C08.Agree (fromTypeG c o ty) (Spec.fromTypeSpecG o ty) := by
  unfold fromTypeG Spec.fromTypeSpecG
  split
  · exact SaModel.Lemmas.C08.Agree.fail _ _
  · exact SaModel.Props.C08.C08_from_type c o ty

/-- non-vacuity: `struct Node(Option<Box<Node>>)`, `struct N(Box<N>)`, `Option<Option<…>>` unrolled 21 times are refused;
twenty wrappers at one position are still traced as before -/
example (c : Code) (o : Options) (base : Ty) :
    (fromTypeG c o (unroll (wrapCtx [some "Node", none]) 21 base)).isErr = true ∧
    (fromTypeG c o (unroll (wrapCtx [some "N"]) 21 base)).isErr = true ∧
    (fromTypeG c o (unroll (wrapCtx [none]) 21 base)).isErr = true :=
  ⟨fromTypeG_wrapper_recursion_is_error c o _ (by simp) base 21 (by decide),
   fromTypeG_wrapper_recursion_is_error c o _ (by simp) base 21 (by decide),
   fromTypeG_wrapper_recursion_is_error c o _ (by simp) base 21 (by decide)⟩

example : wrapDeep (.struct "R" (.cons "n" (unroll (wrapCtx [none]) 20 (.int .i32)) .nil)) = false ∧
    (fromTypeG .fixed {} (.struct "R" (.cons "n" (unroll (wrapCtx [none]) 20 (.int .i32)) .nil))).isOk = true ∧
    (fromTypeG .fixed {} (.struct "R" (.cons "n" (unroll (wrapCtx [none]) 21 (.int .i32)) .nil))).isErr = true := by
  decide +kernel

end SaModel.Props.C16
