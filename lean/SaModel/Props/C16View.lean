import SaModel.Build.ViewPack
/-
C16: the `assert!`s of `bytes_view::{pack_len, pack_inline, pack_extern}` cannot fire.

`Build/ViewPack.lean` writes the packers with their asserts as `panic` branches and the two callers with them
(`viewPushValueA`, `viewSeqA`); the theorems say that these equal the models the builder theorems are about
(`viewPushValue`, `viewSeq`: `push_no_panic` & co.) on EVERY input — views, buffer contents and value of any length — so
the asserts are dead code behind the callers' guards (repo fix 7155f96), and that neither version unwinds.
-/
namespace SaModel.Props.C16
open SaModel SaModel.Build

theorem viewPushValueA_eq (views : List Nat) (buf0 value : Bytes) :
    viewPushValueA views buf0 value = viewPushValue views buf0 value := by
  unfold viewPushValueA viewPushValue packInlineA packExternA
  by_cases h12 : value.length ≤ 12
  · have : ¬ (value.length > 12 ∧ (value.length > I32_MAX ∨ buf0.length > I32_MAX)) := by omega
    simp only [if_neg this, if_pos h12]; rfl
  · by_cases hov : value.length > I32_MAX ∨ buf0.length > I32_MAX
    · have : value.length > 12 ∧ (value.length > I32_MAX ∨ buf0.length > I32_MAX) := ⟨by omega, hov⟩
      simp only [if_pos this, if_neg h12, if_pos hov]
    · have h0 : ¬ (value.length > 12 ∧ (value.length > I32_MAX ∨ buf0.length > I32_MAX)) := fun h => hov h.2
      have h1 : ¬ value.length < 4 := by omega
      have h2 : ¬ value.length > I32_MAX := fun h => hov (Or.inl h)
      have h3 : ¬ (0 : Nat) > I32_MAX := by decide
      have h4 : ¬ buf0.length > I32_MAX := fun h => hov (Or.inr h)
      simp only [if_neg h0, if_neg h12, if_neg hov, if_neg h1, if_neg h2, if_neg h3, if_neg h4]; rfl

theorem viewSeqA_eq (views : List Nat) (buf0 bytes : Bytes) :
    viewSeqA views buf0 bytes = viewSeq views buf0 bytes := by
  unfold viewSeqA viewSeq packLenA packInlineA packExternA
  have hz : (0 : Nat) ≤ I32_MAX := by decide
  simp only [if_pos hz]
  by_cases hbig : bytes.length > I32_MAX
  · simp only [if_pos hbig]; rfl
  · have hle : bytes.length ≤ I32_MAX := by omega
    by_cases h12 : bytes.length ≤ 12
    · simp only [if_neg hbig, if_pos hle, if_pos h12]; rfl
    · by_cases hb : buf0.length > I32_MAX
      · simp only [if_neg hbig, if_pos hle, if_neg h12, if_pos hb]; rfl
      · have h1 : ¬ bytes.length < 4 := by omega
        have h3 : ¬ (0 : Nat) > I32_MAX := by decide
        simp only [if_neg hbig, if_pos hle, if_neg h12, if_neg hb, if_neg h1, if_neg h3]; rfl

/-- `push_scalar_value` of a view builder never reaches an assert of the packers: every value, every buffer state -/
theorem viewPushValue_asserts_no_panic (views : List Nat) (buf0 value : Bytes) (site : String) :
    viewPushValueA views buf0 value ≠ panic site := by
  rw [viewPushValueA_eq]; unfold viewPushValue
  split
  · intro h; cases h
  · split <;> (intro h; cases h)

/-- the sequence route (`start_seq` … `end_seq`) never reaches an assert of the packers -/
theorem viewSeq_asserts_no_panic (views : List Nat) (buf0 bytes : Bytes) (site : String) :
    viewSeqA views buf0 bytes ≠ panic site := by
  rw [viewSeqA_eq]; unfold viewSeq
  split
  · intro h; cases h
  · split
    · intro h; cases h
    · split <;> (intro h; cases h)

/-- non-vacuity: outside the callers' guards the asserts are reachable in the model (they are real branches), and behind
them the packers answer -/
example : packExternA [1, 2, 3] 0 0 = panic "bytes_view::pack_extern: assert!(data.len() >= 4)"
    ∧ packInlineA (List.replicate 13 0) = panic "bytes_view::pack_inline: assert!(data.len() <= 12)"
    ∧ packExternA [1, 2, 3, 4] 0 (I32_MAX + 1) = panic "bytes_view::pack_extern: assert!(offset <= i32::MAX as usize)"
    ∧ packLenA (I32_MAX + 1) = panic "bytes_view::pack_len: assert!(len <= i32::MAX as usize)"
    ∧ (viewPushValueA [] [] (List.replicate 13 7)).isOk = true
    ∧ (viewSeqA [] [] [1, 2, 3]).isOk = true := by decide

end SaModel.Props.C16
