import SaModel.Lemmas.C17Range
import SaModel.Lemmas.C17TouchTyped
import SaModel.Lemmas.C17UntouchedTyped
import SaModel.Lemmas.C17UntouchedRefl
/-
C17 — structurally inconsistent array views give an error, not a panic or foreign data.
Property theorems only.  Model: SaModel/Read/Reader.lean (readers after the `fix:` commits = `Fixes.all`);
all statements are over ARBITRARY `Arr` (no well-formedness hypothesis).

* `new_no_panic`, `isSome_no_panic`, `read_no_panic` (deserialize_any), `readAs_no_panic` (every typed target).
* `read_in_range`: every byte string a reader hands out is a sub-range `(buf.drop s).take n`, `s + n ≤ buf.length`,
  of the buffer the view designates (`bytes_in_range`, `view_in_range`, `fsb_in_range`, `dict_in_range`), and
  every successful element read is below the array's length (`isSome_ok_lt_len`): children are addressed only
  through `is_some`-guarded reads, so no element outside a child is ever returned.
* `readAs_touch_in_range` (+ `readAny_…`, `readRecord_…`): a successful read implies the run-time predicate `touchOK`
  (every slot visited below the length of its array AND, at the leaves, the bytes of a valid slot inside the buffer the
  offsets / the view descriptor designate: `touchOK_leaf_iff`, `leafOK_bytes_eq`, `leafOK_view_eq`,
  `readAs_view_designated`, `readAs_bytes_designated`); `untouched_touch_in_range` ties it to `touchEq`.
* `untouched_ok` (+ `untouched_ok_any`, `untouched_ok_isSome`, `untouched_corruption_ok`, `readRecord_untouched`,
  `readAll_untouched`): two views that agree on the footprint of a read (`Spec.touchEq`) give the same result;
  `touchEq_refl`.
* negations for the pinned readers with concrete witnesses (`decide`).
-/
namespace SaModel.Props.C17
open SaModel SaModel.Read SaModel.Spec

/-! ### construction never panics -/

mutual
theorem new_no_panic : ∀ (a : Arr), NoPanic (new Fixes.all a)
  | .null _ | .boolean _ _ _ | .prim _ _ _ | .time _ _ _ _ | .decimal128 _ _ _ _ => by
    unfold new; exact NoPanic.ok _
  | .timestamp _ tz _ _ => by
    unfold new; split
    · exact NoPanic.ok _
    · split
      · exact NoPanic.ok _
      · exact NoPanic.fail _
  | .bytes _ _ _ _ | .bytesView _ _ _ _ => by unfold new; exact NoPanic.ok _
  | .fixedSizeBinary n _ data => by
    unfold new
    exact NoPanic.bind (noPanic_fsbNew n data) (fun _ => NoPanic.pure _)
  | .struct _ _ fs => by unfold new; exact newFields_no_panic fs
  | .list _ _ _ fm el => by
    unfold new
    exact NoPanic.bind (noPanic_strategyOk _) (fun _ => new_no_panic el)
  | .fixedSizeList _ _ n fm el => by
    unfold new
    refine NoPanic.bind (noPanic_strategyOk _) (fun _ => ?_)
    refine NoPanic.bind (new_no_panic el) (fun _ => ?_)
    exact NoPanic.bind (noPanic_tryIntoUsize _) (fun _ => NoPanic.pure _)
  | .map _ _ mm ks vs => by
    unfold new
    refine NoPanic.bind (noPanic_strategyOk _) (fun _ => ?_)
    refine NoPanic.bind (new_no_panic ks) (fun _ => ?_)
    refine NoPanic.bind (noPanic_strategyOk _) (fun _ => ?_)
    exact new_no_panic vs
  | .dictionary ks vs => by
    unfold new
    split
    · split
      · split
        · exact NoPanic.fail _
        · exact NoPanic.ok _
      · exact NoPanic.fail _
    · exact NoPanic.fail _
  | .union types offs fs => by
    unfold new
    split
    · exact NoPanic.fail _
    · split
      · exact NoPanic.fail _
      · exact newUFields_no_panic fs 0
theorem newFields_no_panic : ∀ (fs : ArrFields), NoPanic (newFields Fixes.all fs)
  | .nil => by unfold newFields; exact NoPanic.ok _
  | .cons fm a rest => by
    unfold newFields
    refine NoPanic.bind (noPanic_strategyOk _) (fun _ => ?_)
    refine NoPanic.bind (new_no_panic a) (fun _ => ?_)
    exact newFields_no_panic rest
theorem newUFields_no_panic : ∀ (fs : ArrUFields) (k : Nat), NoPanic (newUFields Fixes.all fs k)
  | .nil, _ => by unfold newUFields; exact NoPanic.ok _
  | .cons tid fm a rest, k => by
    unfold newUFields
    split
    · exact NoPanic.fail _
    · refine NoPanic.bind (noPanic_strategyOk _) (fun _ => ?_)
      refine NoPanic.bind (new_no_panic a) (fun _ => ?_)
      exact newUFields_no_panic rest (k + 1)
end

/-! ### `is_some` never panics -/

theorem isSome_no_panic (a : Arr) (idx : Nat) : NoPanic (isSome Fixes.all a idx) := by
  cases a with
  | null len => simp only [isSome]; exact NoPanic.bind (noPanic_nullCheck _ _) (fun _ => NoPanic.pure _)
  | boolean len v vals => simp only [isSome]; exact noPanic_optIsSome (noPanic_boolGet _ _ _ _)
  | prim ty v vals => simp only [isSome]; exact noPanic_optIsSome (noPanic_primGet _ _ _)
  | time ty u v vals => simp only [isSome]; exact noPanic_optIsSome (noPanic_primGet _ _ _)
  | timestamp u tz v vals => simp only [isSome]; exact noPanic_optIsSome (noPanic_primGet _ _ _)
  | decimal128 p s v vals => simp only [isSome]; exact noPanic_optIsSome (noPanic_primGet _ _ _)
  | bytes ty v offs data => simp only [isSome]; exact noPanic_optIsSome (noPanic_bytesColGet _ _ _ _ _)
  | bytesView ty v views buffers => simp only [isSome]; exact noPanic_optIsSome (noPanic_viewColGet _ _ _ _ _)
  | fixedSizeBinary n v data => simp only [isSome]; exact noPanic_optIsSome (noPanic_fsbColGet _ _ _ _)
  | struct len v fs => simp only [isSome]; exact NoPanic.ite (NoPanic.fail _) (noPanic_validityIsSet _ _)
  | list l v offs fm el => simp only [isSome]; exact NoPanic.ite (NoPanic.fail _) (noPanic_validityIsSet _ _)
  | fixedSizeList len v n fm el => simp only [isSome]; exact NoPanic.ite (NoPanic.fail _) (noPanic_validityIsSet _ _)
  | map v offs mm ks vs => simp only [isSome]; exact NoPanic.ite (NoPanic.fail _) (noPanic_validityIsSet _ _)
  | dictionary ks vs =>
    simp only [isSome]; split
    · exact noPanic_optIsSome (noPanic_primGet _ _ _)
    · exact NoPanic.fail _
  | union types offs fs => simp only [isSome]; exact NoPanic.ite (NoPanic.fail _) (NoPanic.ok _)

/-! ### `deserialize_any` never panics -/

theorem anyAt_no_panic (a : Arr) (f : Nat → R DVal) (hf : ∀ j, NoPanic (f j)) (idx : Nat) :
    NoPanic (anyAt Fixes.all a f idx) := by
  unfold anyAt
  refine NoPanic.bind (isSome_no_panic a idx) ?_
  intro b; cases b
  · exact NoPanic.pure _
  · exact hf idx

theorem unionSelect_no_panic (types : List Int) (offs : Option (List Int)) (n idx : Nat) :
    NoPanic (unionSelect Fixes.all types offs n idx) := by
  unfold unionSelect
  split
  · exact NoPanic.fail _
  · rename_i hidx
    split
    · exact NoPanic.fail _
    · rename_i o
      split
      · exact NoPanic.fail _
      · rename_i hlen
        have h1 : idx < types.length := by omega
        have h2 : idx < o.length := by omega
        simp only [List.getElem?_eq_getElem h1, List.getElem?_eq_getElem h2]
        refine NoPanic.bind (noPanic_tryIntoUsize _) ?_
        intro off
        simp only [Fixes.all, if_true]
        split
        · exact NoPanic.pure _
        · exact NoPanic.fail _

/-- what `unionSelect` returns: the variant position is below the number of variants -/
theorem unionSelect_lt {fx : Fixes} {types : List Int} {offs : Option (List Int)} {n idx k off : Nat}
    (h : unionSelect fx types offs n idx = .ok (k, off)) : k < n := by
  unfold unionSelect at h
  split at h
  · cases h
  · split at h
    · cases h
    · split at h
      · cases h
      · split at h
        · simp only [bind, Except.bind] at h
          split at h
          · cases h
          · split at h
            next hc =>
              simp only [pure, Except.pure, Except.ok.injEq, Prod.mk.injEq] at h
              omega
            next => split at h <;> cases h
        · cases h

mutual
theorem readAnySome_no_panic : ∀ (a : Arr) (idx : Nat), NoPanic (readAnySome Fixes.all a idx)
  | .null len, idx => by
    unfold readAnySome; exact NoPanic.bind (noPanic_nullCheck _ _) (fun _ => NoPanic.pure _)
  | .boolean len v vals, idx => by
    unfold readAnySome
    exact NoPanic.bind (noPanic_getRequired (noPanic_boolGet _ _ _ _)) (fun _ => NoPanic.pure _)
  | .prim ty v vals, idx => by
    unfold readAnySome
    exact NoPanic.bind (noPanic_getRequired (noPanic_primGet _ _ _)) (fun _ => NoPanic.pure _)
  | .time ty u v vals, idx => by
    unfold readAnySome
    exact NoPanic.bind (noPanic_getRequired (noPanic_primGet _ _ _)) (fun _ => NoPanic.pure _)
  | .timestamp u tz v vals, idx => by
    unfold readAnySome
    exact NoPanic.bind (noPanic_getRequired (noPanic_primGet _ _ _)) (fun _ => NoPanic.pure _)
  | .decimal128 p s v vals, idx => by
    unfold readAnySome
    exact NoPanic.bind (noPanic_getRequired (noPanic_primGet _ _ _)) (fun _ => NoPanic.pure _)
  | .bytes ty v offs data, idx => by
    unfold readAnySome
    exact NoPanic.bind (noPanic_getRequired (noPanic_bytesColGet _ _ _ _ _)) (fun _ => NoPanic.pure _)
  | .bytesView ty v views buffers, idx => by
    unfold readAnySome
    exact NoPanic.bind (noPanic_getRequired (noPanic_viewColGet _ _ _ _ _)) (fun _ => NoPanic.pure _)
  | .fixedSizeBinary n v data, idx => by
    unfold readAnySome
    exact NoPanic.bind (noPanic_getRequired (noPanic_fsbColGet _ _ _ _)) (fun _ => NoPanic.pure _)
  | .struct len v fs, idx => by
    unfold readAnySome
    split
    · exact NoPanic.fail _
    · exact NoPanic.bind (readAnyFields_no_panic fs idx) (fun _ => NoPanic.pure _)
  | .list l v offs fm el, idx => by
    unfold readAnySome
    refine NoPanic.bind (noPanic_listRange _ _) ?_
    intro r
    refine NoPanic.bind (noPanic_readRange _ (fun j => anyAt_no_panic el _ (readAnySome_no_panic el) j) _ _) ?_
    intro _; exact NoPanic.pure _
  | .fixedSizeList len v n fm el, idx => by
    unfold readAnySome
    refine NoPanic.bind (noPanic_fslRange _ _ _) ?_
    intro r
    refine NoPanic.bind (noPanic_readRange _ (fun j => anyAt_no_panic el _ (readAnySome_no_panic el) j) _ _) ?_
    intro _; exact NoPanic.pure _
  | .map v offs mm ks vs, idx => by
    unfold readAnySome
    refine NoPanic.bind (noPanic_listRange _ _) ?_
    intro r
    refine NoPanic.bind (noPanic_readRange _ (fun j => ?_) _ _) ?_
    · refine NoPanic.bind (anyAt_no_panic ks _ (readAnySome_no_panic ks) j) ?_
      intro _
      refine NoPanic.bind (anyAt_no_panic vs _ (readAnySome_no_panic vs) j) ?_
      intro _; exact NoPanic.pure _
    · intro _; exact NoPanic.pure _
  | .dictionary ks vs, idx => by
    unfold readAnySome
    exact NoPanic.bind (noPanic_dictGetStr _ _ _) (fun _ => NoPanic.pure _)
  | .union types offs fs, idx => by
    unfold readAnySome
    intro s h
    cases hs : unionSelect Fixes.all types offs fs.length idx with
    | error e =>
      rw [hs] at h
      cases e with
      | err m => cases h
      | errCtx m a => cases h
      | panic p => exact unionSelect_no_panic _ _ _ _ p hs
    | ok r =>
      obtain ⟨k, off⟩ := r
      rw [hs] at h
      exact readAnyVariant_no_panic fs k off (unionSelect_lt hs) s h
theorem readAnyFields_no_panic : ∀ (fs : ArrFields) (idx : Nat), NoPanic (readAnyFields Fixes.all fs idx)
  | .nil, _ => by unfold readAnyFields; exact NoPanic.ok _
  | .cons fm a rest, idx => by
    unfold readAnyFields
    refine NoPanic.bind (anyAt_no_panic a _ (readAnySome_no_panic a) idx) ?_
    intro _
    exact NoPanic.bind (readAnyFields_no_panic rest idx) (fun _ => NoPanic.pure _)
theorem readAnyVariant_no_panic : ∀ (fs : ArrUFields) (k off : Nat), k < fs.length →
    NoPanic (readAnyVariant Fixes.all fs k off)
  | .nil, _, _, h => by simp [ArrUFields.length] at h
  | .cons _ fm a _, 0, off, _ => by
    unfold readAnyVariant
    exact NoPanic.bind (anyAt_no_panic a _ (readAnySome_no_panic a) off) (fun _ => NoPanic.pure _)
  | .cons _ _ _ rest, k + 1, off, h => by
    unfold readAnyVariant
    exact readAnyVariant_no_panic rest k off (by simp [ArrUFields.length] at h; omega)
end

/-- `deserialize_any` on an arbitrary view never panics -/
theorem read_no_panic (a : Arr) (idx : Nat) : NoPanic (readAny Fixes.all a idx) :=
  anyAt_no_panic a _ (readAnySome_no_panic a) idx

/-! ### typed reads never panic -/

theorem tupleVisit_no_panic (rf : ArrFields → R (List DVal)) (h : ∀ fs, NoPanic (rf fs)) (a : Arr) (idx : Nat) :
    NoPanic (tupleVisit Fixes.all rf a idx) := by
  unfold tupleVisit
  split
  · refine NoPanic.bind (noPanic_structItem _ _) (fun _ => ?_)
    exact NoPanic.bind (h _) (fun _ => NoPanic.pure _)
  · exact NoPanic.notImpl

theorem structVisit_no_panic (rf : Slots → String → Arr → R (Option (Nat × DVal)))
    (h : ∀ slots name child, NoPanic (rf slots name child)) (tfs : TFields) (a : Arr) (idx : Nat) :
    NoPanic (structVisit Fixes.all rf tfs a idx) := by
  unfold structVisit
  split
  · refine NoPanic.bind (noPanic_structItem _ _) (fun _ => ?_)
    refine NoPanic.bind (noPanic_foldlM _ ?_ _ _) (fun _ => ?_)
    · intro slots p
      refine NoPanic.bind (h _ _ _) (fun r => ?_)
      cases r
      · exact NoPanic.bind (read_no_panic _ _) (fun _ => NoPanic.pure _)
      · exact NoPanic.pure _
    · exact NoPanic.bind (noPanic_finishFields _ _ _) (fun _ => NoPanic.pure _)
  · exact NoPanic.notImpl

theorem nth_isSome_of_lt : ∀ (fs : ArrUFields) (k : Nat), k < fs.length → (ArrUFields.nth fs k).isSome
  | .nil, _, h => by simp [ArrUFields.length] at h
  | .cons _ _ _ _, 0, _ => by simp [ArrUFields.nth]
  | .cons _ _ _ rest, k + 1, h => by
    simp only [ArrUFields.nth]
    exact nth_isSome_of_lt rest k (by simp [ArrUFields.length] at h; omega)

mutual
theorem readAs_no_panic : ∀ (t : Target) (a : Arr) (idx : Nat), NoPanic (readAs Fixes.all t a idx)
  | .any, a, idx => by unfold readAs; exact read_no_panic a idx
  | .ignored, a, idx => by unfold readAs; exact NoPanic.bind (read_no_panic a idx) (fun _ => NoPanic.pure _)
  | .unit, a, idx => by unfold readAs; exact NoPanic.bind (noPanic_scalar _ _ _) (fun _ => noPanic_accept _ _)
  | .unitStruct, a, idx => by unfold readAs; exact NoPanic.bind (noPanic_scalar _ _ _) (fun _ => noPanic_accept _ _)
  | .bool, a, idx => by unfold readAs; exact NoPanic.bind (noPanic_scalar _ _ _) (fun _ => noPanic_accept _ _)
  | .int ty, a, idx => by unfold readAs; exact NoPanic.bind (noPanic_scalar _ _ _) (fun _ => noPanic_accept _ _)
  | .f32, a, idx => by unfold readAs; exact NoPanic.bind (noPanic_scalar _ _ _) (fun _ => noPanic_accept _ _)
  | .f64, a, idx => by unfold readAs; exact NoPanic.bind (noPanic_scalar _ _ _) (fun _ => noPanic_accept _ _)
  | .char, a, idx => by unfold readAs; exact NoPanic.bind (noPanic_scalar _ _ _) (fun _ => noPanic_accept _ _)
  | .string, a, idx => by unfold readAs; exact NoPanic.bind (noPanic_scalar _ _ _) (fun _ => noPanic_accept _ _)
  | .str, a, idx => by unfold readAs; exact NoPanic.bind (noPanic_scalar _ _ _) (fun _ => noPanic_accept _ _)
  | .bytes, a, idx => by
    unfold readAs
    split
    · exact NoPanic.bind (noPanic_listRange _ _) (fun _ => NoPanic.rejected)
    · exact NoPanic.bind (noPanic_scalar _ _ _) (fun _ => noPanic_accept _ _)
  | .byteBuf, a, idx => by
    unfold readAs
    split
    · refine NoPanic.bind (noPanic_listRange _ _) (fun _ => ?_)
      refine NoPanic.bind (noPanic_readRange _ (fun j => ?_) _ _) (fun _ => NoPanic.pure _)
      exact NoPanic.bind (noPanic_scalar _ _ _) (fun _ => noPanic_accept _ _)
    · exact NoPanic.bind (noPanic_scalar _ _ _) (fun _ => noPanic_accept _ _)
  | .option t, a, idx => by
    unfold readAs
    refine NoPanic.bind (isSome_no_panic a idx) (fun b => ?_)
    cases b
    · exact NoPanic.pure _
    · exact NoPanic.bind (readAs_no_panic t a idx) (fun _ => NoPanic.pure _)
  | .newtype t, a, idx => by unfold readAs; exact readAs_no_panic t a idx
  | .seq t, a, idx => by
    unfold readAs
    split
    · refine NoPanic.bind (noPanic_listRange _ _) (fun _ => ?_)
      exact NoPanic.bind (noPanic_readRange _ (fun j => readAs_no_panic t _ j) _ _) (fun _ => NoPanic.pure _)
    · refine NoPanic.bind (noPanic_fslRange _ _ _) (fun _ => ?_)
      exact NoPanic.bind (noPanic_readRange _ (fun j => readAs_no_panic t _ j) _ _) (fun _ => NoPanic.pure _)
    · split
      · rename_i rb hb
        refine NoPanic.bind (noPanic_binaryElems hb) (fun b => ?_)
        exact NoPanic.bind (noPanic_mapM _ (fun x => noPanic_u8As t x) b) (fun _ => NoPanic.pure _)
      · exact NoPanic.notImpl
  | .tuple ts, a, idx => by
    unfold readAs
    exact tupleVisit_no_panic _ (fun fs => readTupleFields_no_panic ts fs idx) a idx
  | .tupleStruct ts, a, idx => by
    unfold readAs
    exact tupleVisit_no_panic _ (fun fs => readTupleFields_no_panic ts fs idx) a idx
  | .map k v, a, idx => by
    unfold readAs
    split
    · refine NoPanic.bind (noPanic_structItem _ _) (fun _ => ?_)
      refine NoPanic.bind (noPanic_mapM _ (fun p => ?_) _) (fun _ => NoPanic.pure _)
      refine NoPanic.bind (noPanic_strDeAs _ _) (fun _ => ?_)
      exact NoPanic.bind (readAs_no_panic v _ idx) (fun _ => NoPanic.pure _)
    · refine NoPanic.bind (noPanic_listRange _ _) (fun _ => ?_)
      refine NoPanic.bind (noPanic_readRange _ (fun j => ?_) _ _) (fun _ => NoPanic.pure _)
      refine NoPanic.bind (readAs_no_panic k _ j) (fun _ => ?_)
      exact NoPanic.bind (readAs_no_panic v _ j) (fun _ => NoPanic.pure _)
    · exact NoPanic.notImpl
  | .struct tfs, a, idx => by
    unfold readAs
    exact structVisit_no_panic _ (fun slots name child => readFieldAs_no_panic tfs 0 slots name child idx) tfs a idx
  | .enum byIndex vs, a, idx => by
    unfold readAs
    split
    · rename_i types offs fs
      intro s h
      cases hs : unionSelect Fixes.all types offs fs.length idx with
      | error e =>
        rw [hs] at h
        cases e with
        | err m => cases h
        | errCtx m a => cases h
        | panic p => exact unionSelect_no_panic _ _ _ _ p hs
      | ok r =>
        obtain ⟨k, off⟩ := r
        rw [hs] at h
        have hk := nth_isSome_of_lt fs k (unionSelect_lt hs)
        cases hn : ArrUFields.nth fs k with
        | none => rw [hn] at hk; cases hk
        | some p =>
          obtain ⟨fm, child⟩ := p
          simp only [bind, Except.bind, hn] at h
          exact readVariantAs_no_panic vs _ fm.name (some (child, off)) s h
    · split
      · rename_i rs hs
        refine NoPanic.bind (noPanic_stringElem hs) (fun b => ?_)
        split
        · exact NoPanic.fail _
        · exact readVariantAsBytes_no_panic vs b
      · exact NoPanic.notImpl
theorem readTupleFields_no_panic : ∀ (ts : Targets) (fs : ArrFields) (idx : Nat),
    NoPanic (readTupleFields Fixes.all ts fs idx)
  | .nil, _, _ => by unfold readTupleFields; exact NoPanic.ok _
  | .cons t rest, fs, idx => by
    unfold readTupleFields
    split
    · exact NoPanic.fail _
    · refine NoPanic.bind (readAs_no_panic t _ idx) (fun _ => ?_)
      exact NoPanic.bind (readTupleFields_no_panic rest _ idx) (fun _ => NoPanic.pure _)
theorem readFieldAs_no_panic : ∀ (tfs : TFields) (pos : Nat) (slots : Slots) (name : String) (child : Arr) (idx : Nat),
    NoPanic (readFieldAs Fixes.all tfs pos slots name child idx)
  | .nil, _, _, _, _, _ => by unfold readFieldAs; exact NoPanic.ok _
  | .cons n t rest, pos, slots, name, child, idx => by
    unfold readFieldAs
    split
    · split
      · exact NoPanic.fail _
      · exact NoPanic.bind (readAs_no_panic t child idx) (fun _ => NoPanic.pure _)
    · exact readFieldAs_no_panic rest (pos + 1) slots name child idx
theorem readVariantAs_no_panic : ∀ (vs : TVariants) (sel : Option Nat) (name : String) (src : Option (Arr × Nat)),
    NoPanic (readVariantAs Fixes.all vs sel name src)
  | .nil, _, _, _ => by unfold readVariantAs; exact NoPanic.fail _
  | .cons n k rest, sel, name, src => by
    unfold readVariantAs
    split <;> (split <;> first
      | exact NoPanic.bind (readKind_no_panic k src) (fun _ => NoPanic.pure _)
      | exact readVariantAs_no_panic rest _ name src)
theorem readVariantAsBytes_no_panic : ∀ (vs : TVariants) (s : Bytes), NoPanic (readVariantAsBytes Fixes.all vs s)
  | .nil, _ => by unfold readVariantAsBytes; exact NoPanic.fail _
  | .cons n k rest, s => by
    unfold readVariantAsBytes
    split
    · exact NoPanic.bind (readKind_no_panic k none) (fun _ => NoPanic.pure _)
    · exact readVariantAsBytes_no_panic rest s
theorem readKind_no_panic : ∀ (k : VKind) (src : Option (Arr × Nat)), NoPanic (readKind Fixes.all k src)
  | .unit, some (child, off) => by
    unfold readKind; exact NoPanic.bind (noPanic_scalar _ _ _) (fun _ => noPanic_accept _ _)
  | .unit, none => by unfold readKind; exact NoPanic.ok _
  | .newtype t, some (child, off) => by unfold readKind; exact readAs_no_panic t child off
  | .tuple ts, some (child, off) => by
    unfold readKind
    exact tupleVisit_no_panic _ (fun fs => readTupleFields_no_panic ts fs off) child off
  | .struct tfs, some (child, off) => by
    unfold readKind
    exact structVisit_no_panic _ (fun slots name c => readFieldAs_no_panic tfs 0 slots name c off) tfs child off
  | .newtype _, none => by unfold readKind; exact NoPanic.fail _
  | .tuple _, none => by unfold readKind; exact NoPanic.fail _
  | .struct _, none => by unfold readKind; exact NoPanic.fail _
end

/-- the record level (`Deserializer::get(idx)` + `T::deserialize`): no panic for any target, view and index -/
theorem readRecord_no_panic (t : Target) (fm : FieldMeta) (col : Arr) (idx : Nat) (r : R DVal)
    (h : readRecord Fixes.all t fm col idx = some r) : NoPanic r := by
  unfold readRecord at h
  split at h
  · cases h
  · cases h; exact readAs_no_panic t _ idx

/-! ### nothing outside the ranges the view designates -/

/-- a byte string is a sub-range of a buffer -/
def SubRange (b buf : Bytes) : Prop := ∃ s n, s + n ≤ buf.length ∧ b = (buf.drop s).take n

/-- `BytesView::get` (Utf8 / LargeUtf8 / Binary / LargeBinary): the element is a sub-range of `data` -/
theorem bytes_in_range {v : Option Bits} {offs : List Int} {data : Bytes} {idx : Nat} {b : Bytes}
    (h : bytesGet Fixes.all v offs data idx = .ok (some b)) : SubRange b data ∧ idx + 1 < offs.length := by
  unfold bytesGet at h
  simp only [Fixes.all, if_true] at h
  split at h
  · cases h
  · rename_i hlen
    obtain ⟨valid, _, h⟩ := ok_bind_inv h
    cases valid
    · cases h
    · have h1 : idx < offs.length := by omega
      have h2 : idx + 1 < offs.length := by omega
      simp only [List.getElem?_eq_getElem h1, List.getElem?_eq_getElem h2, if_true] at h
      obtain ⟨s, _, h⟩ := ok_bind_inv h
      obtain ⟨e, _, h⟩ := ok_bind_inv h
      split at h
      · rename_i hc
        cases h
        exact ⟨⟨s, e - s, by omega, rfl⟩, h2⟩
      · cases h

/-- `BytesViewView::get`: the element is the inline part of its own descriptor or a sub-range of one of the
view's buffers -/
theorem view_in_range {buffers : List Bytes} {desc : Nat} {b : Bytes} (h : viewBytes buffers desc = .ok b) :
    (desc % 4294967296 ≤ 12 ∧ b = Spec.u128Bytes desc 4 (desc % 4294967296)) ∨ ∃ buf ∈ buffers, SubRange b buf := by
  unfold viewBytes at h
  simp only at h
  split at h
  · rename_i hc
    cases h; exact Or.inl ⟨hc, rfl⟩
  · split at h
    · cases h
    · rename_i buf hb
      split at h
      · rename_i hc
        cases h
        exact Or.inr ⟨buf, List.mem_of_getElem? hb, _, _, hc, rfl⟩
      · cases h

/-- `FixedSizeBinaryDeserializer::get`: the element is a sub-range of `data` -/
theorem fsb_in_range {n len : Nat} {v : Option Bits} {data : Bytes} {idx : Nat} {b : Bytes}
    (h : fsbGet Fixes.all n len v data idx = .ok (some b)) : SubRange b data ∧ idx < len := by
  unfold fsbGet at h
  split at h
  · cases h
  · rename_i hidx
    obtain ⟨valid, _, h⟩ := ok_bind_inv h
    cases valid
    · cases h
    · simp only [if_true] at h
      split at h
      · rename_i hc
        cases h
        exact ⟨⟨idx * n, n, by rw [Nat.add_mul] at hc; omega, rfl⟩, by omega⟩
      · cases h

/-- `DictionaryDeserializer::get_str`: the string is a sub-range of the values' data buffer (and valid UTF-8) -/
theorem dict_in_range {kty : PrimTy} {kv : Option Bits} {kvals : List Int} {vty : BytesTy} {vv : Option Bits}
    {voffs : List Int} {vdata : Bytes} {idx : Nat} {b : Bytes}
    (h : dictGetStr Fixes.all (.prim kty kv kvals) (.bytes vty vv voffs vdata) idx = .ok b) :
    SubRange b vdata ∧ validUtf8 b = true ∧ idx < kvals.length := by
  unfold dictGetStr at h
  simp only at h
  obtain ⟨k, hk, h⟩ := ok_bind_inv h
  split at h
  · cases h
  · obtain ⟨key, _, h⟩ := ok_bind_inv h
    have h' := asStr_ok (getRequired_ok h)
    have hidx : idx < kvals.length := by
      have := getRequired_ok hk
      unfold primGet at this
      split at this
      · cases this
      · rename_i x hx
        exact (List.getElem?_eq_some_iff.mp hx).1
    exact ⟨(bytes_in_range h'.1).1, h'.2, hidx⟩

/-- every successful `is_some` (hence every `deserialize_any`, every `Option` layer, every element read of a
list / map / struct / union, which all go through it) addresses a row below the array's length -/
theorem isSome_ok_lt_len {a : Arr} {idx : Nat} {b : Bool} (h : isSome Fixes.all a idx = .ok b) : idx < vlen a :=
  isSome_ok_lt_vlen h

/-- children are only ever read through `anyAt`: a successful child read is below the child's length -/
theorem anyAt_ok_lt_len {a : Arr} {f : Nat → R DVal} {idx : Nat} {d : DVal}
    (h : anyAt Fixes.all a f idx = .ok d) : idx < vlen a := by
  unfold anyAt at h
  obtain ⟨b, hb, _⟩ := ok_bind_inv h
  exact isSome_ok_lt_len hb

/-- `read_in_range` for `deserialize_any`: a successful read is below the array's length; with
`bytes_in_range`, `view_in_range`, `fsb_in_range`, `dict_in_range` every byte string it contains is a
sub-range of the buffer its view designates, and (structure of `readAnySome`) every child element is read
through `anyAt`, i.e. again below that child's length -/
theorem read_in_range {a : Arr} {idx : Nat} {d : DVal} (h : readAny Fixes.all a idx = .ok d) : idx < vlen a :=
  anyAt_ok_lt_len h

/-! ### every slot a successful read visits lies below the length of its array (`touchOK`)

`Spec.touchOK t a i` (SaModel/Spec/TouchRange.lean) is the run-time predicate of the `corrupt` suite: rows below the
declared length, list / map / fixed-size elements and union / dictionary references below the child's length, for
exactly the slots a read of target `t` has to visit, and at the leaves (`Spec.leafOK`) the offset pair of a valid Utf8 /
Binary slot inside the data buffer, the descriptor of a valid Utf8View / BinaryView slot inline or inside a buffer the
view HAS, a FixedSizeBinary row inside the data (also for the value slot a dictionary key designates).  The theorems below say that a successful read of the reader
model implies it — for EVERY target and EVERY array (no well-formedness), given only `unionIdsOK a`: the union
nodes of `a` list their children under the type ids 0, 1, 2, … .  That is what `ArrayDeserializer::new` checks and
the reads do not re-check (`EnumDeserializer` indexes its variants by type id, the Arrow reading looks the id up),
see `new_ok_unionIdsOK` and the counterexample `touch_needs_consecutive_ids`. -/

mutual
theorem touchP_all : ∀ (t : Target), TouchP t
  | .any => touchP_any
  | .ignored => touchP_ignored
  | .unit => touchP_unit
  | .unitStruct => touchP_unitStruct
  | .bool => touchP_bool
  | .int ty => touchP_int ty
  | .f32 => touchP_f32
  | .f64 => touchP_f64
  | .char => touchP_char
  | .string => touchP_string
  | .str => touchP_str
  | .bytes => touchP_bytes
  | .byteBuf => touchP_byteBuf
  | .option t => touchP_option (touchP_all t)
  | .newtype t => touchP_newtype (touchP_all t)
  | .seq t => touchP_seq (touchP_all t)
  | .tuple ts => touchP_tuple (touchP_targets ts)
  | .tupleStruct ts => touchP_tupleStruct (touchP_targets ts)
  | .map k v => touchP_map (touchP_all k) (touchP_all v)
  | .struct tfs => touchP_struct (touchP_fields tfs)
  | .enum _ vs => touchP_enum (touchP_variants vs)
theorem touchP_targets : ∀ (ts : Targets), AllT TouchP ts
  | .nil => by unfold AllT; trivial
  | .cons t r => by unfold AllT; exact ⟨touchP_all t, touchP_targets r⟩
theorem touchP_fields : ∀ (tfs : TFields), AllF TouchP tfs
  | .nil => by unfold AllF; trivial
  | .cons _ t r => by unfold AllF; exact ⟨touchP_all t, touchP_fields r⟩
theorem touchP_variants : ∀ (vs : TVariants), AllV KTouch vs
  | .nil => by unfold AllV; trivial
  | .cons _ k r => by unfold AllV; exact ⟨ktouch_all k, touchP_variants r⟩
theorem ktouch_all : ∀ (k : VKind), KTouch k
  | .unit => ktouch_unit
  | .newtype t => ktouch_newtype (touchP_all t)
  | .tuple ts => ktouch_tuple (touchP_targets ts)
  | .struct tfs => ktouch_struct (touchP_fields tfs)
end

/-- `read_in_range` for the TYPED reads: whatever the target and whatever the (arbitrary, possibly inconsistent)
view whose union nodes list their children under the type ids 0, 1, 2, … (`unionIdsOK a`), a successful read implies
`Spec.touchOK t a i`, which has two halves.  LENGTHS: the read visited only slots below the length of the array they
belong to — the row itself, every list / map / fixed-size-list element, every union child slot, every dictionary
key — all the way down.  LEAVES (`Spec.leafOK`): at every leaf slot it visited that the bitmap does not mark null, what
the slot designates lies inside the buffer the view names — the offset pair of a Utf8 / Binary column inside `data`
(`0 ≤ offsets[i] ≤ offsets[i+1] ≤ data length`, also for an empty pair), the descriptor of a Utf8View / BinaryView
column inline (length ≤ 12) or with a buffer index below the number of buffers and offset + length inside THAT
buffer, the row of a FixedSizeBinary column inside `data` (`0 ≤ n`, `(i+1)·n ≤ data length`), and likewise the value
slot a dictionary key designates (spelled out by `touchOK_leaf_iff`, `readAs_view_designated`,
`readAs_bytes_designated` below) -/
theorem readAs_touch_in_range {t : Target} {a : Arr} {i : Nat} {d : DVal} (hids : unionIdsOK a = true)
    (h : readAs Fixes.all t a i = .ok d) : touchOK t a i = true :=
  touchP_all t a i d hids h

/-- the same for `deserialize_any` -/
theorem readAny_touch_in_range {a : Arr} {i : Nat} {d : DVal} (hids : unionIdsOK a = true)
    (h : readAny Fixes.all a i = .ok d) : touchOK .any a i = true :=
  readAny_touch hids rfl h

/-- in the form the readers are used: the reader tree was built (`ArrayDeserializer::new` succeeded) -/
theorem readAs_touch_in_range_of_new {t : Target} {a : Arr} {i : Nat} {d : DVal} (hnew : new Fixes.all a = .ok ())
    (h : readAs Fixes.all t a i = .ok d) : touchOK t a i = true :=
  readAs_touch_in_range (new_ok_unionIdsOK a hnew) h

/-- the record level, exactly what the `corrupt` suite evaluates: `touchOK r.ty (record fm col) r.idx` -/
theorem readRecord_touch_in_range {t : Target} {fm : FieldMeta} {col : Arr} {idx : Nat} {d : DVal}
    (hnew : new Fixes.all (record fm col) = .ok ()) (h : readRecord Fixes.all t fm col idx = some (.ok d)) :
    touchOK t (record fm col) idx = true := by
  unfold readRecord at h
  split at h
  · cases h
  · simp only [Option.some.injEq] at h
    exact readAs_touch_in_range_of_new hnew h

/-- every successful typed read is below the length of the array (the typed form of `read_in_range`) -/
theorem readAs_ok_lt_len {t : Target} {a : Arr} {i : Nat} {d : DVal} (hids : unionIdsOK a = true)
    (h : readAs Fixes.all t a i = .ok d) : i < Spec.lenOf a :=
  touchOK_lt (readAs_touch_in_range hids h)

/-! #### what `touchOK` says at the leaves: the bytes of a valid slot come from the buffer the view designates -/

/-- `touchOK` of a leaf column, spelled out: the row is below the length and — unless the bitmap marks the slot null:
then no bytes are designated — what the slot designates lies inside its buffer (`Spec.leafOK`: the offset pair of a
Utf8 / Binary column inside `data`, the descriptor of a Utf8View / BinaryView column inline or inside a buffer the view
HAS, the row of a FixedSizeBinary column inside `data`).  The target plays no role at a leaf. -/
theorem touchOK_leaf_iff (t : Target) {a : Arr} (hl : isLeaf a = true) (i : Nat) :
    touchOK t a i = true ↔ i < lenOf a ∧ (slotNull a i = true ∨ leafOK a i = true) := by
  constructor
  · intro h
    have hlt := touchOK_lt h
    refine ⟨hlt, ?_⟩
    unfold touchOK at h
    have : ¬ i ≥ lenOf a := by omega
    simp only [this, if_false] at h
    split at h
    · rename_i hc
      simp only [Bool.and_eq_true] at hc
      exact Or.inl hc.2
    · have h' : leafSlotOK a i = true := by
        cases a <;> simp [isLeaf] at hl <;> exact h
      simpa [leafSlotOK] using h'
  · rintro ⟨hlt, hs⟩
    exact touch_leaf t hl hlt (by simpa [leafSlotOK] using hs)

/-- `leafOK` of a Utf8 / Binary column is "the offset pair designates a slice of the data buffer" — the `byteSlice` of
the footprint relation `touchEq` -/
theorem leafOK_bytes_eq (ty : BytesTy) (v : Option Bits) (offs : List Int) (data : Bytes) (i : Nat) :
    leafOK (.bytes ty v offs data) i = (byteSlice data (offs.getD i 0) (offs.getD (i + 1) 0)).isSome := by
  simp only [leafOK, byteSlice]
  generalize offs.getD i 0 = s
  generalize offs.getD (i + 1) 0 = e
  by_cases hc : 0 ≤ s ∧ s ≤ e ∧ e ≤ (data.length : Int)
  · simp only [hc, and_self, if_true, decide_true]; rfl
  · simp only [hc, if_false, decide_false]; rfl

/-- `leafOK` of a Utf8View / BinaryView column is "the descriptor designates bytes" under the Arrow reading rules
(`Spec.decodeView`, through the `viewSlice` of the footprint relation `touchEq`): inline, or buffer index below the
number of buffers and offset + length inside THAT buffer -/
theorem leafOK_view_eq (ty : ViewTy) (v : Option Bits) (views : List Nat) (buffers : List Bytes) (i : Nat) :
    leafOK (.bytesView ty v views buffers) i = (viewSlice buffers (views.getD i 0)).isSome := by
  simp only [leafOK, viewSlice, decodeView]
  generalize views.getD i 0 = desc
  by_cases hc : desc % 4294967296 ≤ 12
  · simp only [hc, if_true]; rfl
  · simp only [hc, if_false]
    cases hb : buffers[(desc >>> 64) % 4294967296]? with
    | none => rfl
    | some buf =>
      simp only []
      by_cases hr : (desc >>> 96) % 4294967296 + desc % 4294967296 ≤ buf.length
      · simp only [hr, if_true, decide_true]; rfl
      · simp only [hr, if_false, decide_false]; rfl

/-- the seeded regression c17e as a statement about the readers: whatever the target, a successful read of a slot of a
Utf8View / BinaryView column that the bitmap does not mark null had a descriptor that designates bytes of the view —
inline, or a buffer index below the number of buffers and a range inside that buffer; never bytes of another buffer -/
theorem readAs_view_designated {t : Target} {ty : ViewTy} {v : Option Bits} {views : List Nat} {buffers : List Bytes}
    {i : Nat} {d : DVal} (h : readAs Fixes.all t (.bytesView ty v views buffers) i = .ok d) :
    i < views.length ∧
    (slotNull (.bytesView ty v views buffers) i = true ∨ (viewSlice buffers (views.getD i 0)).isSome = true) := by
  have ht := (touchOK_leaf_iff t rfl i).mp (readAs_touch_in_range rfl h)
  rw [leafOK_view_eq] at ht
  exact ht

/-- the same for the Utf8 / LargeUtf8 / Binary / LargeBinary columns: `0 ≤ offsets[i] ≤ offsets[i+1] ≤ data.len()` (also
required of an empty pair: `BytesView::get` slices `data[start..end]` whatever its length) -/
theorem readAs_bytes_designated {t : Target} {ty : BytesTy} {v : Option Bits} {offs : List Int} {data : Bytes}
    {i : Nat} {d : DVal} (h : readAs Fixes.all t (.bytes ty v offs data) i = .ok d) :
    i < offs.length - 1 ∧
    (slotNull (.bytes ty v offs data) i = true ∨
     (byteSlice data (offs.getD i 0) (offs.getD (i + 1) 0)).isSome = true) := by
  have ht := (touchOK_leaf_iff t rfl i).mp (readAs_touch_in_range rfl h)
  rw [leafOK_bytes_eq] at ht
  exact ht

/-- non-vacuity (the seeded regression c17e): a view column with ONE data buffer and a 13-byte element.  Descriptor
`13` (buffer 0, offset 0) is read; with buffer index 1 (`13 + 2^64`), 2 or u32::MAX (`13 + (2^32-1)·2^64`) — offset and
length still fit buffer 0 — `touchOK` is false and the readers give an error, on its own and inside a list; a null
slot designates nothing, whatever its descriptor says -/
example :
    let buf : Bytes := [97, 32, 115, 116, 114, 105, 110, 103, 32, 62, 32, 49, 50]
    let good : Arr := .bytesView .utf8View none [13] [buf]
    let bad1 : Arr := .bytesView .utf8View none [18446744073709551629] [buf]
    let bad2 : Arr := .bytesView .utf8View none [36893488147419103245] [buf]
    let badMax : Arr := .bytesView .binaryView none [79228162495817593519834398733] [buf]
    let nested : Arr := .list false none [0, 1] ⟨"element", false, []⟩ bad1
    let nullSlot : Arr := .bytesView .utf8View (some ⟨[0], 0⟩) [18446744073709551629] [buf]
    touchOK .str good 0 = true ∧ readAs Fixes.all .str good 0 = .ok (.str .borrowed buf) ∧
    touchOK .str bad1 0 = false ∧ (readAs Fixes.all .str bad1 0).isErr = true ∧
    touchOK .any bad2 0 = false ∧ (readAny Fixes.all bad2 0).isErr = true ∧
    touchOK .byteBuf badMax 0 = false ∧ (readAs Fixes.all .byteBuf badMax 0).isErr = true ∧
    touchOK (.seq .string) nested 0 = false ∧ (readAs Fixes.all (.seq .string) nested 0).isErr = true ∧
    touchOK (.option .str) nullSlot 0 = true ∧ readAs Fixes.all (.option .str) nullSlot 0 = .ok .none := by decide

/-- non-vacuity (the other leaves): an offset pair that ends beyond the data, that decreases, that starts below 0; an
EMPTY pair beyond the data is rejected at a leaf (`BytesView::get` slices `data[5..5]`) while an empty ELEMENT range of a
list beyond its child stays accepted (known finding `C17-empty-range-beyond-child`); a FixedSizeBinary row; the value
slot a dictionary key designates -/
example :
    touchOK .string (.bytes .utf8 none [0, 3] [65, 66]) 0 = false ∧
    touchOK .string (.bytes .utf8 none [1, 0] [65, 66]) 0 = false ∧
    touchOK .string (.bytes .utf8 none [-1, 1] [65, 66]) 0 = false ∧
    touchOK .string (.bytes .utf8 none [5, 5] [65, 66]) 0 = false ∧
    (readAs Fixes.all .string (.bytes .utf8 none [5, 5] [65, 66]) 0).isErr = true ∧
    touchOK .string (.bytes .utf8 none [2, 2] [65, 66]) 0 = true ∧
    readAs Fixes.all .string (.bytes .utf8 none [2, 2] [65, 66]) 0 = .ok (.str .owned []) ∧
    touchOK (.seq .string) (.list false none [7, 7] ⟨"element", false, []⟩ (.bytes .utf8 none [0] [])) 0 = true ∧
    touchOK .bytes (.fixedSizeBinary 2 none [1, 2, 3, 4]) 1 = true ∧ touchOK .bytes (.fixedSizeBinary 2 none [1, 2, 3, 4]) 2 = false ∧
    touchOK .str (.dictionary (.prim .int8 none [0]) (.bytes .utf8 none [0, 5] [65])) 0 = false ∧
    (readAs Fixes.all .str (.dictionary (.prim .int8 none [0]) (.bytes .utf8 none [0, 5] [65])) 0).isErr = true := by decide

/-- non-vacuity: a list of structs with a dictionary and a union column, read into `Vec<S>` with an `Option` field,
a borrowed string and an enum; the read succeeds, the hypotheses hold -/
example :
    let a : Arr := .list false none [0, 1, 2] ⟨"element", false, []⟩
      (.struct 2 none
        (.cons ⟨"x", true, []⟩ (.prim .int32 (some ⟨[1], 0⟩) [7, 8])
        (.cons ⟨"s", false, []⟩ (.dictionary (.prim .int8 none [0, 0]) (.bytes .utf8 none [0, 1] [65]))
        (.cons ⟨"u", false, []⟩ (.union [0, 1] (some [0, 0])
          (.cons 0 ⟨"A", false, []⟩ (.null 1) (.cons 1 ⟨"B", false, []⟩ (.prim .int8 none [5]) .nil))) .nil))))
    let t : Target := .seq (.struct (.cons "x" (.option (.int .i32)) (.cons "s" .str
      (.cons "u" (.enum false (.cons "A" .unit (.cons "B" (.newtype (.int .i8)) .nil))) .nil))))
    new Fixes.all a = .ok () ∧ (readAs Fixes.all t a 1).isOk = true ∧ unionIdsOK a = true ∧ touchOK t a 1 = true := by
  decide

/-- the predicate is not trivially true: an element range that leaves the child, a dictionary key beyond the values -/
example : touchOK (.seq (.int .i32)) (.list false none [0, 3] ⟨"element", false, []⟩ (.prim .int32 none [1, 2])) 0 = false ∧
    touchOK .str (.dictionary (.prim .int8 none [1]) (.bytes .utf8 none [0, 1] [65])) 0 = false ∧
    touchOK .any (.fixedSizeList 2 none 2 ⟨"element", false, []⟩ (.null 3)) 1 = false := by decide

/-- the hypothesis `unionIdsOK` cannot be dropped: on a union whose children are NOT listed under the ids 0, 1, …
the reader model (child at position `type id`) and the Arrow reading (child whose id is `type id`) part ways; such
a view never reaches the readers, `ArrayDeserializer::new` rejects it -/
theorem touch_needs_consecutive_ids :
    let a : Arr := .union [0] (some [0]) (.cons 5 ⟨"a", false, []⟩ (.null 1) (.cons 0 ⟨"b", false, []⟩ (.null 0) .nil))
    (readAny Fixes.all a 0).isOk = true ∧ touchOK .any a 0 = false ∧ (new Fixes.all a).isErr = true := by decide

/-! ### `untouched_ok`: what a read does not look at does not influence it

`Spec.touchEq t a a' i` (SaModel/Spec/TouchEq.lean) is a relation on the DATA of two views, independent of the reader
model: `a'` agrees with `a` on the footprint of a read of target `t` at slot `i` — along the traversal of `touchOK`:
the row tests, the validity BIT of each visited slot (for struct / list / map columns only under `Option` / `any`
targets), the value, the offset pair and the byte SLICE it designates, the view descriptor and the bytes it
designates, type id / union offset, the dictionary key and the value slot it designates; struct fields as far as the
target reads them (by name — the others the way serde skips them —, by position, all of them for map / any), list
elements with the element target, nothing below a slot that `Option` / `any` find null.  Everything else may differ:
other rows, other validity bits, bytes outside the designated slices, fields a tuple target does not reach, child
slots row `i` does not refer to, the values of null slots. -/

mutual
theorem agreeP_all : ∀ (t : Target), AgreeP t
  | .any => agreeP_any
  | .ignored => agreeP_ignored
  | .unit => agreeP_unit
  | .unitStruct => agreeP_unitStruct
  | .bool => agreeP_bool
  | .int ty => agreeP_int ty
  | .f32 => agreeP_f32
  | .f64 => agreeP_f64
  | .char => agreeP_char
  | .string => agreeP_string
  | .str => agreeP_str
  | .bytes => agreeP_bytes
  | .byteBuf => agreeP_byteBuf
  | .option t => agreeP_option (agreeP_all t)
  | .newtype t => agreeP_newtype (agreeP_all t)
  | .seq t => agreeP_seq (agreeP_all t)
  | .tuple ts => agreeP_tuple (agreeP_targets ts)
  | .tupleStruct ts => agreeP_tupleStruct (agreeP_targets ts)
  | .map k v => agreeP_map (agreeP_all k) (agreeP_all v)
  | .struct tfs => agreeP_struct (agreeP_fields tfs)
  | .enum _ vs => agreeP_enum (agreeP_variants vs)
theorem agreeP_targets : ∀ (ts : Targets), AllT AgreeP ts
  | .nil => by unfold AllT; trivial
  | .cons t r => by unfold AllT; exact ⟨agreeP_all t, agreeP_targets r⟩
theorem agreeP_fields : ∀ (tfs : TFields), AllF AgreeP tfs
  | .nil => by unfold AllF; trivial
  | .cons _ t r => by unfold AllF; exact ⟨agreeP_all t, agreeP_fields r⟩
theorem agreeP_variants : ∀ (vs : TVariants), AllV KAgree vs
  | .nil => by unfold AllV; trivial
  | .cons _ k r => by unfold AllV; exact ⟨kagree_all k, agreeP_variants r⟩
theorem kagree_all : ∀ (k : VKind), KAgree k
  | .unit => kagree_unit
  | .newtype t => kagree_newtype (agreeP_all t)
  | .tuple ts => kagree_tuple (agreeP_targets ts)
  | .struct tfs => kagree_struct (agreeP_fields tfs)
end

/-- `untouched_ok`: two ARBITRARY views that agree on what a read of target `t` at slot `i` looks at give the same
result (value, error or — excluded by `readAs_no_panic` — panic) for that read, for EVERY target.  `touchEq` is the
exact footprint of a read that succeeds; for a read that fails it may ask for more than was looked at (the traversal
is not cut at the first failing element; a target the column's reader has no method for still compares the leaf
slot / the offset pair; an element range that leaves its child asks for equal children) — see Spec/TouchEq.lean. -/
theorem untouched_ok {t : Target} {a a' : Arr} {i : Nat} (h : touchEq t a a' i = true) :
    readAs Fixes.all t a i = readAs Fixes.all t a' i :=
  agreeP_all t a a' i h

/-- the same for `deserialize_any` and `is_some` -/
theorem untouched_ok_any {a a' : Arr} {i : Nat} (h : touchEq .any a a' i = true) :
    readAny Fixes.all a i = readAny Fixes.all a' i ∧ isSome Fixes.all a i = isSome Fixes.all a' i := by
  rw [touchEq_any] at h
  exact ⟨readAny_agree (p := .any) rfl h, isSome_agree h⟩

/-- `is_some` under any `Option` target -/
theorem untouched_ok_isSome {t : Target} {a a' : Arr} {i : Nat} (h : touchEq (.option t) a a' i = true) :
    isSome Fixes.all a i = isSome Fixes.all a' i :=
  (touchEq_option_elim h).1

/-- the corollary the `corrupt` suite relies on: a corruption that differs from the base view only outside the
footprint of the read is not noticed — the read of the corrupted view IS the read of the uncorrupted one ("where the
inconsistency is never touched, the correct values") -/
theorem untouched_corruption_ok {t : Target} {base corrupted : Arr} {i : Nat} {d : DVal}
    (hbase : readAs Fixes.all t base i = .ok d) (h : touchEq t base corrupted i = true) :
    readAs Fixes.all t corrupted i = .ok d := by
  rw [← untouched_ok h]; exact hbase

/-- `touchOK` and `touchEq` are consistent: a view that agrees with `a` on the footprint of a SUCCESSFUL read of `a`
(descriptor / offset pair and the bytes they designate included) is in range itself -/
theorem untouched_touch_in_range {t : Target} {a a' : Arr} {i : Nat} {d : DVal} (hids : unionIdsOK a' = true)
    (hbase : readAs Fixes.all t a i = .ok d) (h : touchEq t a a' i = true) : touchOK t a' i = true :=
  readAs_touch_in_range hids (untouched_corruption_ok hbase h)

/-- at the record level, exactly the expression the suite evaluates: `touchEq r.ty (record fm base) (record fm view) r.idx` -/
theorem readRecord_untouched {t : Target} {fm fm' : FieldMeta} {base col : Arr} {idx : Nat}
    (h : touchEq t (record fm base) (record fm' col) idx = true) :
    readRecord Fixes.all t fm base idx = readRecord Fixes.all t fm' col idx := by
  have hr := untouched_ok h
  unfold touchEq record at h
  obtain ⟨_, _, _, he, hl, _⟩ := touchEqW_struct h
  cases he
  unfold readRecord
  simp only [ge_of_lt_eq hl, hr]

/-- the bulk read of the suite (`Vec<T>::deserialize`: rows 0 … n-1 in order, stopping at the first error) -/
theorem readAll_untouched {t : Target} {a a' : Arr} {n : Nat} (h : ∀ i, i < n → touchEq t a a' i = true) :
    readRange (fun i => readAs Fixes.all t a i) 0 n = readRange (fun i => readAs Fixes.all t a' i) 0 n :=
  readRange_congr n 0 (fun k hk => by simpa using untouched_ok (h k hk))

/-- the relation never asks for more than equality of the views: every view agrees with itself, for every target and
slot (also out of range, also where the view is inconsistent) -/
theorem touchEq_refl (t : Target) (a : Arr) (i : Nat) : touchEq t a a i = true := touchEqW_refl a _ _ i

/-- non-vacuity 1 (byte slices, not whole buffers): a list of strings; the corrupted view has another LAST offset of the
list, another validity bit, another offset and other DATA BYTES of the string column — all outside what row 0 designates.
Row 0 agrees (and reads as on `a`), row 1 does not (and is an error) -/
example :
    let a : Arr := .list false none [0, 2, 3] ⟨"element", false, []⟩ (.bytes .utf8 (some ⟨[7], 0⟩) [0, 1, 2, 3] [65, 66, 67])
    let a' : Arr := .list false none [0, 2, 99] ⟨"element", false, []⟩ (.bytes .utf8 (some ⟨[3], 0⟩) [0, 1, 2, 9] [65, 66, 255, 1])
    touchEq (.seq .string) a a' 0 = true ∧ touchEq (.seq .string) a a' 1 = false ∧
    readAs Fixes.all (.seq .string) a' 0 = .ok (.seq (.cons (.str .owned [65]) (.cons (.str .owned [66]) .nil))) ∧
    (readAs Fixes.all (.seq .string) a' 1).isErr = true := by decide

/-- non-vacuity 2 (target dependence): a one-element tuple target does not look at the second field (other name, other
type, other length) nor at the struct's validity bit; an `Option` target and `deserialize_any` do look at the bit, and
stop there when it says null (row 1), whatever the fields hold -/
example :
    let a : Arr := .struct 2 (some ⟨[1], 0⟩)
      (.cons ⟨"x", true, []⟩ (.prim .int32 none [7, 8]) (.cons ⟨"y", true, []⟩ (.prim .int32 none [1, 2]) .nil))
    let a' : Arr := .struct 2 (some ⟨[1], 0⟩)
      (.cons ⟨"x", true, []⟩ (.prim .int32 none [7, 9]) (.cons ⟨"z", true, []⟩ (.prim .int64 none [5]) .nil))
    let t : Target := .tuple (.cons (.int .i32) .nil)
    touchEq t a a' 0 = true ∧ touchEq t a a' 1 = false ∧ touchEq (.option t) a a' 1 = true ∧
    touchEq .any a a' 0 = false ∧ touchEq .any a a' 1 = true ∧
    readAs Fixes.all t a' 0 = .ok (.seq (.cons (.int .i32 7) .nil)) ∧ readAs Fixes.all (.option t) a' 1 = .ok .none := by
  decide

/-- non-vacuity 3 (`readRecord_untouched`, `untouched_corruption_ok`): a dictionary column whose key of row 1 and whose
unreferenced value are corrupted; the record read of row 0 into a one-element tuple with a borrowed string is what it was -/
example :
    let fm : FieldMeta := ⟨"s", false, []⟩
    let base : Arr := .dictionary (.prim .int8 none [0, 1]) (.bytes .utf8 none [0, 1, 2] [65, 66])
    let view : Arr := .dictionary (.prim .int8 none [0, 7]) (.bytes .utf8 none [0, 1, 9] [65, 0])
    let t : Target := .tuple (.cons .str .nil)
    touchEq t (record fm base) (record fm view) 0 = true ∧ touchEq t (record fm base) (record fm view) 1 = false ∧
    readRecord Fixes.all t fm view 0 = some (.ok (.seq (.cons (.str .borrowed [65]) .nil))) := by
  decide

/-- the converse does not hold, and is not claimed: equal results with a differing footprint happen by coincidence — a
corrupted offset pair that designates equal bytes (at run time such a case needs no escape: the Arrow reading of the
corrupted view accepts the slot and gives the same value; an unexplained coincidence is a violation there); and the relation is not
idle: a byte INSIDE the designated slice, the validity bit of the row, a field the target names make it false -/
example :
    let a : Arr := .bytes .utf8 none [0, 1, 2] [65, 65]
    let a' : Arr := .bytes .utf8 none [1, 2, 2] [65, 65]
    let b : Arr := .bytes .utf8 none [0, 1, 2] [66, 65]
    let c : Arr := .bytes .utf8 (some ⟨[2], 0⟩) [0, 1, 2] [65, 65]
    touchEq .string a a' 0 = false ∧ readAs Fixes.all .string a 0 = readAs Fixes.all .string a' 0 ∧
    touchEq .string a b 0 = false ∧ readAs Fixes.all .string a 0 ≠ readAs Fixes.all .string b 0 ∧ touchEq .string a b 1 = true ∧
    touchEq .string a c 0 = false ∧ readAs Fixes.all .string a 0 ≠ readAs Fixes.all .string c 0 ∧ touchEq .string a c 1 = true := by
  decide

/-! ### the pinned readers do panic / do return foreign elements: concrete witnesses -/

/-- #20: `BytesView::get` let `idx == offsets.len() - 1` through: `offsets[idx + 1]` panics -/
theorem pinned_bytes_index_panics :
    readAnyPinned (.bytes .utf8 none [0, 1] [65]) 1 = .error (.panic "BytesView::get: offsets[idx + 1]") := by decide

/-- #20: decreasing offsets / offsets beyond the data: the slice expression panics -/
theorem pinned_bytes_slice_panics :
    readAnyPinned (.bytes .binary none [2, 1] [65, 66]) 0 = .error (.panic "BytesView::get: data[start..end]") ∧
    readAnyPinned (.bytes .binary none [0, 3] [65, 66]) 0 = .error (.panic "BytesView::get: data[start..end]") := by decide

/-- #20: a dictionary key equal to the number of values -/
theorem pinned_dictionary_key_panics :
    readAnyPinned (.dictionary (.prim .int8 none [1]) (.bytes .utf8 none [0, 1] [65])) 0
      = .error (.panic "BytesView::get: offsets[idx + 1]") := by decide

/-- #21: type id 5 of 2 variants (and a negative one) -/
theorem pinned_union_type_id_panics :
    readAnyPinned (.union [5] (some [0]) (.cons 0 ⟨"a", false, []⟩ (.null 1) (.cons 1 ⟨"b", false, []⟩ (.null 1) .nil))) 0
      = .error (.panic "EnumDeserializer: variants[type_id]") ∧
    readAnyPinned (.union [-1] (some [0]) (.cons 0 ⟨"a", false, []⟩ (.null 1) .nil)) 0
      = .error (.panic "EnumDeserializer: variants[type_id]") := by decide

/-- #19: FixedSizeBinary with n = 0 panics when the reader is built -/
theorem pinned_fixed_size_binary_zero_panics :
    newPinned (.fixedSizeBinary 0 none []) = .error (.panic "FixedSizeBinaryDeserializer::new: data.len() % 0") := by decide

/-- a bitmap bit offset near `usize::MAX` overflows the position -/
theorem pinned_bit_offset_panics :
    readAnyPinned (.prim .int32 (some ⟨[255], usizeMax⟩) [7, 8]) 1
      = .error (.panic "get_bit_buffer: idx + offset overflows") := by decide

/-- a FixedSizeList that declares 2^63 rows of width 4: `idx * n` overflows -/
theorem pinned_fixed_size_list_mul_panics :
    readAnyPinned (.fixedSizeList 9223372036854775808 none 4 ⟨"element", false, []⟩ (.null 0)) 9223372036854775807
      = .error (.panic "FixedSizeListDeserializer: idx * n overflows") := by decide

/-- decreasing list offsets were read as an empty list, not an error -/
theorem pinned_decreasing_offsets_ok :
    readAnyPinned (.list false none [2, 1] ⟨"element", false, []⟩ (.prim .int32 none [1, 2, 3])) 0 = .ok (.seq .nil) ∧
    (readAny Fixes.all (.list false none [2, 1] ⟨"element", false, []⟩ (.prim .int32 none [1, 2, 3])) 0).isErr = true := by
  decide

/-- the Null reader ignored the row index: a list whose offsets point beyond its Null child produced nulls -/
theorem pinned_null_child_foreign :
    readAnyPinned (.list false none [0, 3] ⟨"element", true, []⟩ (.null 1)) 0 = .ok (.seq (.cons .none (.cons .none (.cons .none .nil)))) ∧
    (readAny Fixes.all (.list false none [0, 3] ⟨"element", true, []⟩ (.null 1)) 0).isErr = true := by decide

/-- non-vacuity: the fixed readers do read valid arrays -/
example : readAny Fixes.all (.bytes .utf8 none [1, 2, 2] [0, 65]) 0 = .ok (.str .borrowed [65]) := by decide
example : readAny Fixes.all (.dictionary (.prim .int8 none [0]) (.bytes .utf8 none [0, 1] [65])) 0 = .ok (.str .borrowed [65]) := by decide

end SaModel.Props.C17
