import SaModel.Props.SiteLinkCheck
import SaModel.Props.C17
import SaModel.Props.C17Sites
/-
C17, obligation `gen_arith_site_links` restricted to the readers: every `model:<definition>@<theorem>` class of
`translator/arith_sites.json` carried by a site under `serde_arrow/src/internal/deserialization/`, `utils/array_view_ext.rs`
or `deserializer.rs` names (1) a unique definition of the reader model that (4) contains a `panic` branch where the site
unwinds by itself, (2) a unique theorem under `SaModel.Props` whose statement (3) NAMES that definition — the per-primitive
theorems of `Props/C17Sites.lean`, `unionSelect_no_panic` — and the definition is reachable from the statements of the
hypothesis-free headline theorems `new_no_panic`, `read_no_panic`, `readAs_no_panic`.  What the four conditions are and what
they do not show: header of `Props/C16Links.lean` (that file checks all references and needs C14 – C16 built; this one needs
C17 only).  A broken reference fails the build of this module: `./check C17` reports `VIOLATION … no-failing-input-found`.
-/
namespace SaModel.Props.C17Links
open SaModel.Generated

#check_site_links readers

/-- non-vacuity: the readers carry references (offsets / types / data indexing of five primitives) -/
theorem gen_reader_site_links_counted :
    5 ≤ (ArithSiteLinks.links.filter (·.2.2.1)).length
    ∧ (ArithSiteLinks.links.filter (·.2.2.1)).all (fun l => l.2.2.2.2.length > 0) = true := by decide

end SaModel.Props.C17Links
