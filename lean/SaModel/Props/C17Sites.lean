import SaModel.Lemmas.ReadBasic
import SaModel.Lemmas.C17Range
/-
C17 / C16: the reader model's access primitives, one theorem per primitive — the theorems the reader-side `model:` classes
of the site inventory (`translator/arith_sites.json`) point to, so that the link check of `Props/C16Links.lean` can demand
that the theorem NAMES the definition in its statement (`read_no_panic` / `readAs_no_panic` speak about the whole reader;
the definition is only reachable from their statements).

Two families, both over arbitrary buffers, offsets, bitmaps and indices:

* `<prim>_no_panic` — the `panic` branches of the primitive (`offsets[idx + 1]`, `data[start..end]`, `data.len() % 0`,
  `idx + offset` / `idx * n` overflowing) are unreachable with every fix applied.  For `fsbGet` the guard is the one the
  Rust code relies on: the `(n, len)` pair was computed by `FixedSizeBinaryDeserializer::new` (`fsbNew`).
* `<prim>_guard_first` — the bounds guard DOMINATES every successful outcome, `Ok(None)` included: a primitive never answers
  (not even "null") for a slot beyond the buffer that holds the values / offsets / descriptors.  These hold for every
  `fx` (pinned readers too) except `bytesGet`, whose pinned guard was off by one (finding #20).  A reader that consults the
  validity bitmap BEFORE the bounds check (seeded regression c17g: `PrimitiveView::get`) violates `primGet_guard_first`
  (example at the end).
-/
namespace SaModel.Props.C17
open SaModel SaModel.Read

/-! ### the panic branches are unreachable -/

/-- `get_bit_buffer`: `idx.checked_add(offset)` / `data.get(pos / 8)` — an error, never an unwind -/
theorem getBitBuffer_no_panic (b : Bits) (idx : Nat) : NoPanic (getBitBuffer Fixes.all b idx) :=
  noPanic_getBitBuffer b idx

/-- `PrimitiveView::get` -/
theorem primGet_no_panic (v : Option Bits) (vals : List Int) (idx : Nat) : NoPanic (primGet Fixes.all v vals idx) :=
  noPanic_primGet v vals idx

/-- `BoolDeserializer::get` -/
theorem boolGet_no_panic (len : Nat) (v : Option Bits) (vals : Bits) (idx : Nat) :
    NoPanic (boolGet Fixes.all len v vals idx) := noPanic_boolGet len v vals idx

/-- `BytesView::get`: the sites `self.offsets[idx]`, `self.offsets[idx + 1]` (guard `idx + 1 >= self.offsets.len()` ⇒ fail)
and `data[start..end]` (`data.get(start..end)`) -/
theorem bytesGet_no_panic (v : Option Bits) (offs : List Int) (data : Bytes) (idx : Nat) :
    NoPanic (bytesGet Fixes.all v offs data idx) := noPanic_bytesGet v offs data idx

/-- `BytesViewView::get` -/
theorem viewGet_no_panic (v : Option Bits) (views : List Nat) (buffers : List Bytes) (idx : Nat) :
    NoPanic (viewGet Fixes.all v views buffers idx) := noPanic_viewGet v views buffers idx

/-- `FixedSizeBinaryDeserializer::new`: `data.len() % n` with `n = 0` -/
theorem fsbNew_no_panic (n : Int) (data : Bytes) : NoPanic (fsbNew Fixes.all n data) := noPanic_fsbNew n data

/-- `FixedSizeBinaryDeserializer::get`: the sites `idx * self.n`, `(idx + 1) * self.n`, `data[start..end]` under the guard
`idx >= self.len` ⇒ fail, where `(n, len)` is what `new` computed from THIS data buffer -/
theorem fsbGet_no_panic {n : Int} {data : Bytes} {n' len : Nat} (hnew : fsbNew Fixes.all n data = .ok (n', len))
    (v : Option Bits) (idx : Nat) : NoPanic (fsbGet Fixes.all n' len v data idx) :=
  noPanic_fsbGet v data idx (fsbNew_ok hnew)

/-- `ListDeserializer::get` / `MapDeserializer::deserialize_map`: the sites `self.offsets[idx]`, `self.offsets[idx + 1]`
(guard `idx + 1 >= self.offsets.len()` ⇒ fail) -/
theorem listRange_no_panic (offs : List Int) (idx : Nat) : NoPanic (listRange Fixes.all offs idx) :=
  noPanic_listRange offs idx

/-- `FixedSizeListDeserializer::deserialize_seq`: `idx + 1` under `idx >= self.len` ⇒ fail, the product is `checked_mul` -/
theorem fslRange_no_panic (len : Nat) (n : Int) (idx : Nat) : NoPanic (fslRange Fixes.all len n idx) :=
  noPanic_fslRange len n idx

/-! ### the bounds guard dominates every successful outcome -/

/-- `PrimitiveView::get` answers — a value OR `None` — only below the length of the value buffer, whatever the bitmap says -/
theorem primGet_guard_first {fx : Fixes} {v : Option Bits} {vals : List Int} {idx : Nat} {r : Option Int}
    (h : primGet fx v vals idx = .ok r) : idx < vals.length := by
  unfold primGet at h
  split at h
  · cases h
  · rename_i x hx
    exact (List.getElem?_eq_some_iff.mp hx).1

theorem boolGet_guard_first {fx : Fixes} {len : Nat} {v : Option Bits} {vals : Bits} {idx : Nat} {r : Option Bool}
    (h : boolGet fx len v vals idx = .ok r) : idx < len := by
  unfold boolGet at h
  split at h
  · cases h
  · omega

/-- `BytesView::get` (after fix ba3939f) answers only where BOTH offsets of the slot exist -/
theorem bytesGet_guard_first {v : Option Bits} {offs : List Int} {data : Bytes} {idx : Nat} {r : Option Bytes}
    (h : bytesGet Fixes.all v offs data idx = .ok r) : idx + 1 < offs.length := by
  unfold bytesGet at h
  simp only [Fixes.all, if_true] at h
  split at h
  · cases h
  · omega

theorem viewGet_guard_first {fx : Fixes} {v : Option Bits} {views : List Nat} {buffers : List Bytes} {idx : Nat}
    {r : Option Bytes} (h : viewGet fx v views buffers idx = .ok r) : idx < views.length := by
  unfold viewGet at h
  split at h
  · cases h
  · rename_i d hd
    exact (List.getElem?_eq_some_iff.mp hd).1

theorem fsbGet_guard_first {fx : Fixes} {n len : Nat} {v : Option Bits} {data : Bytes} {idx : Nat} {r : Option Bytes}
    (h : fsbGet fx n len v data idx = .ok r) : idx < len := by
  unfold fsbGet at h
  split at h
  · cases h
  · omega

theorem listRange_guard_first {fx : Fixes} {offs : List Int} {idx : Nat} {r : Nat × Nat}
    (h : listRange fx offs idx = .ok r) : idx + 1 < offs.length := by
  unfold listRange at h
  split at h
  · cases h
  · omega

theorem fslRange_guard_first {fx : Fixes} {len : Nat} {n : Int} {idx : Nat} {r : Nat × Nat}
    (h : fslRange fx len n idx = .ok r) : idx < len := by
  unfold fslRange at h
  split at h
  · cases h
  · omega

/-! ### non-vacuity -/

/-- the primitives do answer inside their ranges … -/
example : primGet Fixes.all (some ⟨[0b10], 0⟩) [7, 8] 1 = .ok (some 8)
    ∧ primGet Fixes.all (some ⟨[0b10], 0⟩) [7, 8] 0 = .ok none
    ∧ bytesGet Fixes.all none [0, 1, 3] [10, 11, 12] 1 = .ok (some [11, 12])
    ∧ listRange Fixes.all [0, 1, 3] 1 = .ok (1, 3)
    ∧ fsbNew Fixes.all 2 [1, 2, 3, 4] = .ok (2, 2)
    ∧ fsbGet Fixes.all 2 2 none [1, 2, 3, 4] 1 = .ok (some [3, 4]) := by decide

/-- … and beyond them the answer is an error even where the (padded) bitmap says "null" -/
example : primGet Fixes.all (some ⟨[0b01], 0⟩) [7] 1 = fail "Access beyond array length"
    ∧ bytesGet Fixes.all (some ⟨[0b01], 0⟩) [0, 1] [10] 1 = fail "Invalid access: tried to get element of array" := by decide

/-- the order of the two tests of `PrimitiveView::get` matters (seeded regression c17g: validity first, bounds check
afterwards): that reader answers `None` from bitmap padding for a slot the value buffer does not have, which
`primGet_guard_first` excludes for the model of the code as it is -/
private def primGetValidityFirst (fx : Fixes) (v : Option Bits) (vals : List Int) (idx : Nat) : R (Option Int) := do
  if (← validityIsSet fx v idx) then
    match vals[idx]? with
    | none => fail "Access beyond array length"
    | some x => pure (some x)
  else pure none

example : primGetValidityFirst Fixes.all (some ⟨[0b01], 0⟩) [7] 1 = .ok none
    ∧ ¬ (1 < [7].length) := by decide

/-- without the guard of `fsbGet_no_panic` (a `(n, len)` pair that does not come from `new` on this buffer) the slice site
is reached: the hypothesis is not superfluous -/
example : fsbGet Fixes.all 2 3 none [1, 2, 3, 4] 2 = panic "FixedSizeBinaryDeserializer::get: data[start..end]" := by decide

end SaModel.Props.C17
