import SaModel.Build.Finish
/-
C18 — every conversion error names the field that caused it (serializer side).
Errors carry annotations exactly as `ContextSupport::ctx` builds them: a context annotates only an error that
carries no annotations yet, so the innermost builder that wraps a failure wins.
-/
namespace SaModel.Props.C18
open SaModel SaModel.Build

/-- a context never changes a success, a panic, or an error that is already annotated -/
theorem ctx_ok {α} (ann : List (String × String)) (r : R α) (v : α) : ctx ann r = .ok v ↔ r = .ok v := by
  unfold ctx
  split
  · split <;> simp
  · rfl

theorem ctx_errCtx {α} (ann : List (String × String)) (msg : String) (a : List (String × String)) :
    ctx ann (.error (.errCtx msg a) : R α) = .error (.errCtx msg a) := by
  simp [ctx]

/-- **innermost wins**: annotating twice keeps the inner annotation -/
theorem ctx_ctx {α} (outer inner : List (String × String)) (h : inner ≠ []) (r : R α) :
    ctx outer (ctx inner r) = ctx inner r := by
  unfold ctx
  cases r with
  | ok v => rfl
  | error e =>
    cases e with
    | err msg => simp [h]
    | panic s => rfl
    | errCtx msg a => rfl

/-- with a non-empty context, what comes out is never an un-annotated error -/
theorem ctx_not_plain {α} (ann : List (String × String)) (h : ann ≠ []) (r : R α) (msg : String) :
    ctx ann r ≠ .error (.err msg) := by
  unfold ctx
  cases r with
  | ok v => simp
  | error e =>
    cases e with
    | err m => simp [h]
    | panic s => simp
    | errCtx m a => simp

/-- the annotation a plain failure receives is exactly the context's -/
theorem ctx_plain {α} (ann : List (String × String)) (h : ann ≠ []) (msg : String) :
    ctx ann (fail msg : R α) = .error (.errCtx msg ann) := by
  simp [ctx, fail, h]

/-- every builder's context has the two keys, `field` = its path and `data_type` = its label -/
theorem ann_keys (b : B) : b.ann.lookup "field" = some b.path ∧ b.ann.lookup "data_type" = some b.label := by
  constructor <;> rfl

theorem ann_ne_nil (b : B) : b.ann ≠ [] := by simp [B.ann]

/-- `serialize_none` never returns an un-annotated error -/
theorem pushNone_not_plain (b : B) (msg : String) : pushNone b ≠ .error (.err msg) := by
  cases b <;> first
    | (simp [pushNone]; done)
    | (unfold pushNone; exact ctx_not_plain _ (ann_ne_nil _) _ _)

/-- **Every error `push` returns is annotated** (or is a panic, which C16 excludes): there is no serde call on
any builder whose failure reaches the caller without `field` / `data_type`. By structural recursion over the
serde value (the `Some` / newtype layers are the only arms that are not wrapped directly). -/
theorem push_not_plain (ext : Ext) : ∀ (x : SVal) (b : B) (msg : String), push ext b x ≠ .error (.err msg)
  | .some v, b, msg => by rw [push]; exact push_not_plain ext v b msg
  | .newtypeStruct _ v, b, msg => by rw [push]; exact push_not_plain ext v b msg
  | .none, b, msg => by rw [push]; exact pushNone_not_plain b msg
  | .unit, b, msg => by
    unfold push
    split
    · exact ctx_not_plain _ (ann_ne_nil _) _ _
    · exact pushNone_not_plain b msg
  | .seq _, b, msg => by unfold push; exact ctx_not_plain _ (ann_ne_nil _) _ _
  | .tuple _, b, msg => by unfold push; exact ctx_not_plain _ (ann_ne_nil _) _ _
  | .tupleStruct _ _, b, msg => by unfold push; exact ctx_not_plain _ (ann_ne_nil _) _ _
  | .record _ _, b, msg => by unfold push; exact ctx_not_plain _ (ann_ne_nil _) _ _
  | .map _, b, msg => by unfold push; exact ctx_not_plain _ (ann_ne_nil _) _ _
  | .mapRaw _, b, msg => by unfold push; exact ctx_not_plain _ (ann_ne_nil _) _ _
  | .unitVariant _ _ _, b, msg => by unfold push; exact ctx_not_plain _ (ann_ne_nil _) _ _
  | .newtypeVariant _ _ _ _, b, msg => by unfold push; exact ctx_not_plain _ (ann_ne_nil _) _ _
  | .tupleVariant _ _ _ _, b, msg => by unfold push; exact ctx_not_plain _ (ann_ne_nil _) _ _
  | .structVariant _ _ _ _, b, msg => by unfold push; exact ctx_not_plain _ (ann_ne_nil _) _ _
  | .bytes _, b, msg => by unfold push; exact ctx_not_plain _ (ann_ne_nil _) _ _
  | .bool _, b, msg => by unfold push; exact ctx_not_plain _ (ann_ne_nil _) _ _
  | .int _ _, b, msg => by unfold push; exact ctx_not_plain _ (ann_ne_nil _) _ _
  | .f32 _, b, msg => by unfold push; exact ctx_not_plain _ (ann_ne_nil _) _ _
  | .f64 _, b, msg => by unfold push; exact ctx_not_plain _ (ann_ne_nil _) _ _
  | .char _, b, msg => by unfold push; exact ctx_not_plain _ (ann_ne_nil _) _ _
  | .str _, b, msg => by unfold push; exact ctx_not_plain _ (ann_ne_nil _) _ _
  | .unitStruct _, b, msg => by unfold push; exact ctx_not_plain _ (ann_ne_nil _) _ _

/-- a scalar that the column cannot take is blamed on exactly that column: path and label of the leaf -/
theorem leaf_error_names_leaf (ext : Ext) (p : String) (k : LeafKind) (v : Validity) (vals : List Int)
    (t : IntTy) (x : Int) (msg : String) (h : convLeaf ext k (.int t x) = .error (.err msg)) :
    push ext (.leaf p k v vals) (.int t x) = .error (.errCtx msg (B.leaf p k v vals).ann) := by
  rw [push]
  simp only [pushScalar, h, bind, Except.bind]
  simp [ctx, B.ann]

end SaModel.Props.C18
