import SaModel.Build.Finish
import SaModel.Lemmas.C18Assembled
import SaModel.Lemmas.C18ReadAs
import SaModel.Lemmas.C18EraseAs
import SaModel.Lemmas.C18ReadNoCtx
import SaModel.Lemmas.C18OwnReadAs
import SaModel.Lemmas.C18Push
import SaModel.Lemmas.C18OwnPush
/-
C18 — every conversion error names the field that caused it (serializer side).
Errors carry annotations exactly as `ContextSupport::ctx` builds them: a context annotates only an error that
carries no annotations yet, so the innermost builder that wraps a failure wins.
-/
namespace SaModel.Props.C18
open SaModel SaModel.Build SaModel.Read

/-- a context never changes a success, a panic, or an error that is already annotated -/
theorem ctx_ok {α} (ann : List (String × String)) (r : R α) (v : α) : ctx ann r = .ok v ↔ r = .ok v := by
  unfold ctx
  split
  · split <;> simp
  · rfl

theorem ctx_errCtx {α} (ann : List (String × String)) (msg : String) (a : List (String × String)) :
    ctx ann (.error (.errCtx msg a) : R α) = .error (.errCtx msg a) := by
  simp [ctx]

/-- **innermost wins**: annotating twice keeps the inner annotation -/
theorem ctx_ctx {α} (outer inner : List (String × String)) (h : inner ≠ []) (r : R α) :
    ctx outer (ctx inner r) = ctx inner r := by
  unfold ctx
  cases r with
  | ok v => rfl
  | error e =>
    cases e with
    | err msg => simp [h]
    | panic s => rfl
    | errCtx msg a => rfl

/-- with a non-empty context, what comes out is never an un-annotated error -/
theorem ctx_not_plain {α} (ann : List (String × String)) (h : ann ≠ []) (r : R α) (msg : String) :
    ctx ann r ≠ .error (.err msg) := by
  unfold ctx
  cases r with
  | ok v => simp
  | error e =>
    cases e with
    | err m => simp [h]
    | panic s => simp
    | errCtx m a => simp

/-- the annotation a plain failure receives is exactly the context's -/
theorem ctx_plain {α} (ann : List (String × String)) (h : ann ≠ []) (msg : String) :
    ctx ann (fail msg : R α) = .error (.errCtx msg ann) := by
  simp [ctx, fail, h]

/-- every builder's context has the two keys, `field` = its path and `data_type` = its label -/
theorem ann_keys (b : B) : b.ann.lookup "field" = some b.path ∧ b.ann.lookup "data_type" = some b.label := by
  constructor <;> rfl

theorem ann_ne_nil (b : B) : b.ann ≠ [] := by simp [B.ann]

/-- `serialize_none` never returns an un-annotated error -/
theorem pushNone_not_plain (b : B) (msg : String) : pushNone b ≠ .error (.err msg) := by
  cases b <;> first
    | (simp [pushNone]; done)
    | (unfold pushNone; exact ctx_not_plain _ (ann_ne_nil _) _ _)

/-- **Every error `push` returns is annotated** (or is a panic, which C16 excludes): there is no serde call on
any builder whose failure reaches the caller without `field` / `data_type`. By structural recursion over the
serde value (the `Some` / newtype layers are the only arms that are not wrapped directly). -/
theorem push_not_plain (ext : Ext) : ∀ (x : SVal) (b : B) (msg : String), push ext b x ≠ .error (.err msg)
  | .some v, b, msg => by rw [push]; exact push_not_plain ext v b msg
  | .newtypeStruct _ v, b, msg => by rw [push]; exact push_not_plain ext v b msg
  | .none, b, msg => by rw [push]; exact pushNone_not_plain b msg
  | .unit, b, msg => by
    unfold push
    split
    · exact ctx_not_plain _ (ann_ne_nil _) _ _
    · exact pushNone_not_plain b msg
  | .seq _, b, msg => by unfold push; exact ctx_not_plain _ (ann_ne_nil _) _ _
  | .tuple _, b, msg => by unfold push; exact ctx_not_plain _ (ann_ne_nil _) _ _
  | .tupleStruct _ _, b, msg => by unfold push; exact ctx_not_plain _ (ann_ne_nil _) _ _
  | .record _ _, b, msg => by unfold push; exact ctx_not_plain _ (ann_ne_nil _) _ _
  | .map _, b, msg => by unfold push; exact ctx_not_plain _ (ann_ne_nil _) _ _
  | .mapRaw _, b, msg => by unfold push; exact ctx_not_plain _ (ann_ne_nil _) _ _
  | .unitVariant _ _ _, b, msg => by unfold push; exact ctx_not_plain _ (ann_ne_nil _) _ _
  | .newtypeVariant _ _ _ _, b, msg => by unfold push; exact ctx_not_plain _ (ann_ne_nil _) _ _
  | .tupleVariant _ _ _ _, b, msg => by unfold push; exact ctx_not_plain _ (ann_ne_nil _) _ _
  | .structVariant _ _ _ _, b, msg => by unfold push; exact ctx_not_plain _ (ann_ne_nil _) _ _
  | .bytes _, b, msg => by unfold push; exact ctx_not_plain _ (ann_ne_nil _) _ _
  | .bool _, b, msg => by unfold push; exact ctx_not_plain _ (ann_ne_nil _) _ _
  | .int _ _, b, msg => by unfold push; exact ctx_not_plain _ (ann_ne_nil _) _ _
  | .f32 _, b, msg => by unfold push; exact ctx_not_plain _ (ann_ne_nil _) _ _
  | .f64 _, b, msg => by unfold push; exact ctx_not_plain _ (ann_ne_nil _) _ _
  | .char _, b, msg => by unfold push; exact ctx_not_plain _ (ann_ne_nil _) _ _
  | .str _, b, msg => by unfold push; exact ctx_not_plain _ (ann_ne_nil _) _ _
  | .unitStruct _, b, msg => by
    unfold push
    split
    · exact ctx_not_plain _ (ann_ne_nil _) _ _
    · exact pushNone_not_plain b msg

/-- a scalar that the column cannot take is blamed on exactly that column: path and label of the leaf -/
theorem leaf_error_names_leaf (ext : Ext) (p : String) (k : LeafKind) (v : Validity) (vals : List Int)
    (t : IntTy) (x : Int) (msg : String) (h : convLeaf ext k (.int t x) = .error (.err msg)) :
    push ext (.leaf p k v vals) (.int t x) = .error (.errCtx msg (B.leaf p k v vals).ann) := by
  rw [push]
  simp only [pushScalar, h, bind, Except.bind]
  simp [ctx, B.ann]

/-! ## path assembly (builder half)

`segsDT dt md` (Lemmas/C18Paths.lean) lists the positions of a schema as lists of child names, with the Rust
conventions (struct child: raw name; list / map / union children through `ChildName`, i.e. `<empty>` for the empty
name; map children below the entries name; dictionary `key` / `value`), `render root segs` joins them with `.`
below `root`, `positions b` reads the (path, label) pairs off a builder tree. -/

/-- **paths_assembled.** For every schema, every builder of the tree `build_builder` creates at `path` stores
`path` followed by the `.`-joined child names that lead to it, and is of the family (label) the data type there
asks for — all positions of the schema, in schema order, nothing else.  By recursion over the schema. -/
theorem paths_assembled (dt : DataType) (path : String) (nullable : Bool) (md : Metadata) (b : B)
    (h : newDT path dt nullable md = .ok b) :
    positions b = (segsDT dt md).map fun q => (render path q.1, q.2) :=
  newDT_positions dt path nullable md b h

/-- the root builder of `OuterSequenceBuilder::new`: the paths are `$`-rooted -/
theorem paths_assembled_root (fields : List Field) (root : B) (h : newRoot fields = .ok root) :
    positions root = (segsDT (.struct (Fields.ofList fields)) []).map fun q => (render "$" q.1, q.2) :=
  newRoot_positions h

/-- in particular the builder itself sits at `path` … -/
theorem newDT_path (dt : DataType) (path : String) (nullable : Bool) (md : Metadata) (b : B)
    (h : newDT path dt nullable md = .ok b) : b.path = path := by
  have hp := paths_assembled dt path nullable md b h
  obtain ⟨rest, hr⟩ := positions_head b
  rw [hr] at hp
  have hs : ∃ l r, segsDT dt md = ([], l) :: r := by
    cases dt <;> first
      | exact ⟨_, _, by simp only [segsDT]; rfl⟩
      | (rename_i e s; obtain ⟨en, edt, enl, emd⟩ := e
         cases edt <;> first
          | exact ⟨_, _, by simp only [segsDT]; rfl⟩
          | (rename_i fs; cases fs with
             | nil => exact ⟨_, _, by simp only [segsDT]; rfl⟩
             | cons kf r => cases r with
               | nil => exact ⟨_, _, by simp only [segsDT]; rfl⟩
               | cons vf r2 => exact ⟨_, _, by simp only [segsDT]; rfl⟩))
  obtain ⟨l, r, hs⟩ := hs
  rw [hs] at hp
  simp only [List.map_cons, render_nil, List.cons.injEq, Prod.mk.injEq] at hp
  exact hp.1.1

/-- … and every builder below it sits at `path` extended by child names of the schema: never at a sibling of
`path`, never outside -/
theorem positions_below (dt : DataType) (path : String) (nullable : Bool) (md : Metadata) (b : B)
    (h : newDT path dt nullable md = .ok b) (q : Pos) (hq : q ∈ positions b) :
    ∃ segs, (segs, q.2) ∈ segsDT dt md ∧ q.1 = render path segs := by
  rw [paths_assembled dt path nullable md b h, List.mem_map] at hq
  obtain ⟨s, hs, rfl⟩ := hq
  exact ⟨s.1, hs, rfl⟩

/-- non-vacuity: `{orders: List<element: Struct{price: Int32, "": Utf8}>, m: Map<entries: {key: Utf8, value: Dictionary<Int8, Utf8>}>}`.
The empty struct child name is shown raw (`$.orders.element.`), as `build_struct` does. -/
example :
    (do let root ← newRoot [
          .mk "orders" (.list (.mk "element" (.struct (.cons (.mk "price" .int32 false [])
            (.cons (.mk "" .utf8 true []) .nil))) false [])) false [],
          .mk "m" (.map (.mk "" (.struct (.cons (.mk "key" .utf8 false [])
            (.cons (.mk "value" (.dictionary .int8 .utf8) true []) .nil))) false []) false) false []]
        pure (positions root)) =
      .ok [("$", "Struct(..)"), ("$.orders", "List"), ("$.orders.element", "Struct(..)"),
        ("$.orders.element.price", "Int32"), ("$.orders.element.", "Utf8"),
        ("$.m", "Map(..)"), ("$.m.<empty>.key", "Utf8"), ("$.m.<empty>.value", "Dictionary(..)"),
        ("$.m.<empty>.value.key", "Int8"), ("$.m.<empty>.value.value", "Utf8")] := by decide

/-! ## where an error of `push` can point (builder half)

`ExtPlain ext`: the functions of other crates the builders call (date / time / decimal parsers, float formatting)
return plain errors — they cannot know serde_arrow's annotations.  `ExtPlain {}` holds for the default `Ext`. -/

/-- **push_error_position.** For every builder family, every builder state and every serde value: an annotated
error `push` returns carries exactly the annotation (`field` = path, `data_type` = label) of one builder of the
subtree of `b` — `b` itself or a builder below it; never a sibling, never one outside.  (With `push_not_plain`:
every error is annotated, so every `Err` of `push` names such a builder.) -/
theorem push_error_position (ext : Ext) [ExtPlain ext] (x : SVal) (b : B) (msg : String) (ann : List (String × String))
    (h : push ext b x = .error (.errCtx msg ann)) :
    ∃ q ∈ positions b, ann = [("data_type", q.2), ("field", q.1)] :=
  push_within ext x b msg ann h

/-- rows pushed successfully do not move any builder: the positions are those of the fresh tree -/
theorem foldl_push_positions (ext : Ext) : ∀ (rows : List SVal) (b0 b : B), rows.foldlM (push ext) b0 = .ok b →
    positions b = positions b0
  | [], b0, b, h => by simp [List.foldlM, pure, Except.pure] at h; subst h; rfl
  | x :: rest, b0, b, h => by
    simp only [List.foldlM] at h
    obtain ⟨b1, h1, h⟩ := (Build.bind_ok _ _ _).1 h
    rw [foldl_push_positions ext rest b1 b h, positions_of_takeRest (push_takeRest ext x b0 b1 h1)]

/-- **push_error_position, schema form.** A builder created by `build_builder` at `path` for a field of type
`dt`, after any number of successfully pushed rows: an error of the next `push` names `path` extended by the child
names of a position of the schema (`segsDT`), and `data_type` is the label of the builder family at that position. -/
theorem push_error_in_schema (ext : Ext) [ExtPlain ext] (dt : DataType) (path : String) (nullable : Bool) (md : Metadata)
    (b0 : B) (h0 : newDT path dt nullable md = .ok b0) (rows : List SVal) (b : B)
    (hb : rows.foldlM (push ext) b0 = .ok b) (x : SVal) (e : Fail) (h : push ext b x = .error e) :
    (∃ site, e = .panic site) ∨
    ∃ msg segs label, (segs, label) ∈ segsDT dt md ∧
      e = .errCtx msg [("data_type", label), ("field", render path segs)] := by
  cases e with
  | panic s => exact .inl ⟨s, rfl⟩
  | err msg => exact absurd h (push_not_plain ext x b msg)
  | errCtx msg ann =>
    obtain ⟨q, hq, rfl⟩ := push_error_position ext x b msg ann h
    rw [foldl_push_positions ext rows b0 b hb] at hq
    obtain ⟨segs, hs, hr⟩ := positions_below dt path nullable md b0 h0 q hq
    exact .inr ⟨msg, segs, q.2, hs, by rw [hr]⟩

/-- the same for the root builder of `to_marrow` / `ArrayBuilder`: `$`-rooted paths of the record schema -/
theorem push_error_in_record (ext : Ext) [ExtPlain ext] (fields : List Field) (root0 : B) (h0 : newRoot fields = .ok root0)
    (rows : List SVal) (root : B) (hb : rows.foldlM (push ext) root0 = .ok root) (x : SVal) (e : Fail)
    (h : push ext root x = .error e) :
    (∃ site, e = .panic site) ∨
    ∃ msg segs label, (segs, label) ∈ segsDT (.struct (Fields.ofList fields)) [] ∧
      e = .errCtx msg [("data_type", label), ("field", render "$" segs)] := by
  cases e with
  | panic s => exact .inl ⟨s, rfl⟩
  | err msg => exact absurd h (push_not_plain ext x root msg)
  | errCtx msg ann =>
    obtain ⟨q, hq, rfl⟩ := push_error_position ext x root msg ann h
    rw [foldl_push_positions ext rows root0 root hb, paths_assembled_root fields root0 h0, List.mem_map] at hq
    obtain ⟨s, hs, rfl⟩ := hq
    exact .inr ⟨msg, s.1, s.2, hs, rfl⟩

/-- non-vacuity: `{orders: List<element: Struct{price: Int32}>}`, one good row, then a row whose second order has a
string where the price should be: the error names `$.orders.element.price` / `Int32` — not `$.orders`, not `$` -/
example :
    (do let root ← newRoot [.mk "orders" (.list (.mk "element" (.struct (.cons (.mk "price" .int32 false []) .nil)) false [])) false []]
        let root ← push {} root (.record "R" (.cons "orders" 0 (.seq (.cons (.record "O" (.cons "price" 0 (.int .i32 5) .nil)) .nil)) .nil))
        push {} root (.record "R" (.cons "orders" 0 (.seq (.cons (.record "O" (.cons "price" 0 (.int .i32 6) .nil))
          (.cons (.record "O" (.cons "price" 0 (.str "seven") .nil)) .nil))) .nil))) =
      .error (.errCtx "serialize_str is not supported" [("data_type", "Int32"), ("field", "$.orders.element.price")]) := by
  decide

/-! ## the blamed builder is the one whose OWN step failed (builder half, `innermost`, without completeness)

Vocabulary (Lemmas/C18Own.lean): a `Call` is what a builder is asked to do (`.val x`: `x.serialize(Mut(b))`; `.default k`:
`k` × `serialize_default`); `callBody ext b c` is the code of `b` for `c` WITHOUT its own `.ctx(self)` wrapper, the calls
into the children being the real, wrapped ones; `OwnFails ext b c msg`: that body returns the PLAIN error `msg` — since the
children never return plain errors (`push_not_plain`), the error is raised by the code of `b` itself, not forwarded — or
`b` is a struct builder in a state `s` whose own `seen[idx]` check refuses a field (`Duplicate field`); `CallsOf x c`: the
call `c` is issued while `x` is serialized (a part of `x`, a call a builder synthesises from a part — `serialize_unit` /
tuple-struct / struct for the payload of a variant, a `u8` per byte — or a placeholder `serialize_none` /
`serialize_default` for what `x` leaves unfilled). -/

/-- the body copies are the bodies: every proper call is the wrapper around `callBody` -/
theorem push_is_wrapped_body (ext : Ext) (b : B) (x : SVal) (hs : ∀ v, x ≠ .some v) (hn : ∀ n v, x ≠ .newtypeStruct n v) :
    push ext b x = ctx b.ann (callBody ext b (.val x)) := push_eq_body ext b x hs hn

/-- an own failure is blamed on the builder itself -/
theorem own_failure_blames_self (ext : Ext) (b : B) (x : SVal) (msg : String) (hs : ∀ v, x ≠ .some v)
    (hn : ∀ n v, x ≠ .newtypeStruct n v) (h : callBody ext b (.val x) = .error (.err msg)) :
    push ext b x = .error (.errCtx msg b.ann) := by
  rw [push_eq_body ext b x hs hn]
  simp only [callBody] at h
  rw [h]; simp [ctx, B.ann]

/-- **push_error_deepest.** For every builder state and every serde value: an annotated error of `push ext b x` carries
the own annotation of a builder state `b'` of the subtree of `b` (all positions of `b'` are positions of `b`) whose OWN
step failed — `OwnFails ext b' c msg` with the very message of the error — on a call `c` issued while `x` is
serialized.  The error is never merely the forwarded error of a child of the blamed builder: this is the `innermost`
half of the blame property, stated operationally (no completeness of `push` w.r.t. the specification is needed). -/
theorem push_error_deepest (ext : Ext) [ExtPlain ext] (x : SVal) (b : B) (msg : String) (ann : List (String × String))
    (h : push ext b x = .error (.errCtx msg ann)) :
    ∃ (b' : B) (c : Call), ann = b'.ann ∧ (∀ q ∈ positions b', q ∈ positions b) ∧ CallsOf x c ∧ OwnFails ext b' c msg :=
  push_raised ext x b msg ann h

/-- **push_error_deepest, schema form**: a builder created by `build_builder` at `path` for type `dt`, after any
successfully pushed rows: the next error is a panic, or names the position `render path segs` of the schema, and the
builder at that position — in the state `b'` it has at that moment — failed in its own step on a call of `x` -/
theorem push_error_deepest_in_schema (ext : Ext) [ExtPlain ext] (dt : DataType) (path : String) (nullable : Bool) (md : Metadata)
    (b0 : B) (h0 : newDT path dt nullable md = .ok b0) (rows : List SVal) (b : B)
    (hb : rows.foldlM (push ext) b0 = .ok b) (x : SVal) (e : Fail) (h : push ext b x = .error e) :
    (∃ site, e = .panic site) ∨
    ∃ msg segs label b' c, (segs, label) ∈ segsDT dt md ∧
      e = .errCtx msg [("data_type", label), ("field", render path segs)] ∧
      b'.path = render path segs ∧ b'.label = label ∧ CallsOf x c ∧ OwnFails ext b' c msg := by
  cases e with
  | panic s => exact .inl ⟨s, rfl⟩
  | err msg => exact absurd h (push_not_plain ext x b msg)
  | errCtx msg ann =>
    obtain ⟨b', c, rfl, hsub, hc, ho⟩ := push_error_deepest ext x b msg ann h
    have hq := hsub _ (self_mem_positions b')
    rw [foldl_push_positions ext rows b0 b hb] at hq
    obtain ⟨segs, hs, hr⟩ := positions_below dt path nullable md b0 h0 _ hq
    have hr' : b'.path = render path segs := hr
    exact .inr ⟨msg, segs, b'.label, b', c, hs, by simp only [B.ann]; rw [hr'], hr', rfl, hc, ho⟩

/-- non-vacuity (the example of `push_error_in_record`): the blamed builder is the `Int32` leaf below the list, in the
state after the two prices it accepted; its own step (`serialize_str` on an `Int32` builder) fails; and that call is
issued while the row is serialized -/
example :
    OwnFails {} (.leaf "$.orders.element.price" (.int .i32) none [5, 6]) (.val (.str "seven")) "serialize_str is not supported" ∧
    CallsOf (.record "R" (.cons "orders" 0 (.seq (.cons (.record "O" (.cons "price" 0 (.int .i32 6) .nil))
          (.cons (.record "O" (.cons "price" 0 (.str "seven") .nil)) .nil))) .nil)) (.val (.str "seven")) :=
  ⟨.body (by decide), .inl (.record (.head (.seq (.tail (.head (.record (.head (.self _))))))))⟩

/-- non-vacuity of the struct's own check: the same field twice -/
example :
    (do let root ← newRoot [.mk "a" .int32 false []]
        push {} root (.record "R" (.cons "a" 0 (.int .i32 1) (.cons "a" 0 (.int .i32 2) .nil)))) =
      .error (.errCtx "Duplicate field" [("data_type", "Struct(..)"), ("field", "$")]) := by decide

/-! ## reader half

Model: `SaModel/Read/Annot.lean` — the reads of `Read/Reader.lean` with the paths `ArrayDeserializer::new`
assembles and the `.ctx(self)` wrappers of every reader.  `AnnFixes.all` is the code after the two `fix:` commits
of this property (EnumDeserializer::deserialize_enum and FixedSizeListDeserializer::deserialize_seq had no
wrapper), `AnnFixes.pinned` the tree before them. -/

/-- **paths_assembled, readers.** The reader tree `ArrayDeserializer::new(path, _, view)` builds has one reader per
position of the view's type (`segsArr`: child names through `ChildName`, map children below the entries name, no
child readers below a dictionary), each at `path` followed by the `.`-joined child names, labelled with the family
of the view there.  By recursion over the view. -/
theorem reader_paths_assembled (a : Arr) (path : String) :
    rpositions path a = (segsArr a).map fun q => (render path q.1, q.2) :=
  rpositions_eq a path

/-- **read_not_plain.** No `deserialize_any` and no typed read (any target shape, any view, any row) returns an
error without annotations. -/
theorem read_not_plain (fx : Fixes) (t : Target) (p : String) (a : Arr) (idx : Nat) (msg : String) :
    readAnyA fx p a idx ≠ .error (.err msg) ∧ readAsA AnnFixes.all fx p t a idx ≠ .error (.err msg) :=
  ⟨readAnyA_not_plain fx p a idx msg, readAsA_not_plain fx t p a idx msg⟩

/-- **read_error_position.** Every annotated error a read of the reader at `p` returns carries `field` = the path
and `data_type` = the label of a reader of its own subtree: the reader itself or one below it, never a sibling,
never one outside.  (Holds before the fixes as well: what the pinned tree gets wrong is *which* reader of the
path — see `pinned_union_blames_ancestor`.) -/
theorem read_error_position (af : AnnFixes) (fx : Fixes) (t : Target) (p : String) (a : Arr) (idx : Nat)
    (msg : String) (ann : List (String × String)) :
    (readAnyA fx p a idx = .error (.errCtx msg ann) → ∃ q ∈ rpositions p a, ann = [("data_type", q.2), ("field", q.1)]) ∧
    (readAsA af fx p t a idx = .error (.errCtx msg ann) → ∃ q ∈ rpositions p a, ann = [("data_type", q.2), ("field", q.1)]) :=
  ⟨readAnyA_within fx a p idx msg ann, readAsA_within af fx t p a idx msg ann⟩

/-- the record level (`Deserializer::get(idx)` + `T::deserialize`): an error is always annotated, and names `$` or
a reader below `$.<column>` with that reader's label -/
theorem readRecord_error_position (fx : Fixes) (t : Target) (fm : FieldMeta) (col : Arr) (idx : Nat) (e : Fail)
    (h : readRecordA AnnFixes.all fx t fm col idx = some (.error e)) :
    (∃ site, e = .panic site) ∨ ∃ msg q, e = .errCtx msg [("data_type", q.2), ("field", q.1)] ∧
      (q = ("$", "Struct(..)") ∨ q ∈ rpositions ("$." ++ rchildName fm.name) col) := by
  unfold readRecordA at h
  split at h
  · cases h
  · simp only [Option.some.injEq] at h
    cases e with
    | panic s => exact .inl ⟨s, rfl⟩
    | err msg => exact absurd h (readAsA_not_plain fx t _ _ idx msg)
    | errCtx msg ann =>
      obtain ⟨q, hq, rfl⟩ := readAsA_within AnnFixes.all fx t "$" _ idx msg ann h
      refine .inr ⟨msg, q, rfl, ?_⟩
      simp only [record, rpositions, rpositionsF, List.append_nil, List.mem_cons] at hq
      rcases hq with rfl | hq
      · exact .inl rfl
      · right
        have e1 : rchild "$" fm.name = "$." ++ rchildName fm.name := by
          unfold rchild
          have : ("$" : String) ++ "." = "$." := by decide
          rw [this]
        rw [← e1]; exact hq

/-! ### witnesses -/

/-- a union column `c` holding variant `f0`, read into an enum that has no such variant -/
def exUnion : Arr := .union [0] (some [0]) (.cons 0 ⟨"f0", false, []⟩ (.prim .int32 none [7]) .nil)
def exUnionTarget : Target := .struct (.cons "c" (.enum false (.cons "x" (.newtype .any) .nil)) .nil)

/-- the code that exists blames the union column … -/
theorem fixed_union_blames_union :
    readRecordA AnnFixes.all Fixes.all exUnionTarget ⟨"c", false, []⟩ exUnion 0 =
      some (.error (.errCtx "unknown variant" [("data_type", "Union(..)"), ("field", "$.c")])) := by decide

/-- … the pinned tree only names the root (an ancestor): the C18 violation repaired by
`fix: EnumDeserializer annotates the errors of deserialize_enum …` -/
theorem pinned_union_blames_ancestor :
    readRecordA AnnFixes.pinned Fixes.all exUnionTarget ⟨"c", false, []⟩ exUnion 0 =
      some (.error (.errCtx "unknown variant" [("data_type", "Struct(..)"), ("field", "$")])) := by decide

/-- a struct column whose fixed-size-list child is shorter than the struct (row 1 does not exist in the child) -/
def exFsl : Arr := .struct 2 none (.cons ⟨"x", false, []⟩
  (.fixedSizeList 1 none 2 ⟨"item", false, []⟩ (.prim .int32 none [1, 2])) .nil)
def exFslTarget : Target := .struct (.cons "c" (.struct (.cons "x" (.seq .any) .nil)) .nil)

theorem fixed_fsl_blames_list :
    readRecordA AnnFixes.all Fixes.all exFslTarget ⟨"c", false, []⟩ exFsl 1 =
      some (.error (.errCtx "Out of bounds access" [("data_type", "FixedSizeList(..)"), ("field", "$.c.x")])) := by decide

/-- pinned: blamed on the enclosing struct column (`fix: FixedSizeListDeserializer annotates the errors of
deserialize_seq …`) -/
theorem pinned_fsl_blames_ancestor :
    readRecordA AnnFixes.pinned Fixes.all exFslTarget ⟨"c", false, []⟩ exFsl 1 =
      some (.error (.errCtx "Out of bounds access" [("data_type", "Struct(..)"), ("field", "$.c")])) := by decide

/-! ### erasure: the annotated reader model IS the reader model of C02 / C12 / C17, plus annotations

`eraseAnn` (Read/Annot.lean) forgets the annotation of an annotated error and keeps everything else: the value of a
success, the site of a panic, the message of an error.  For every `AnnFixes` (with or without the two C18 wrappers),
every `Fixes`, every target, every path and every view — consistent or not — the annotated read erases to the
un-annotated read of `Read/Reader.lean`, the function `read_typed_decode` (C02), `readAs_no_panic` /
`readAs_touch_in_range` (C17) and the C12 theorems are about.  (The un-annotated model returns no annotated error —
`readAs_noctx` — so the right-hand side needs no `eraseAnn`; the form `eraseAnn _ = eraseAnn _` follows.) -/

/-- **eraseAnn_readAnyA**: `deserialize_any`, by recursion over the view -/
theorem eraseAnn_readAnyA (fx : Fixes) (p : String) (a : Arr) (idx : Nat) :
    eraseAnn (readAnyA fx p a idx) = readAny fx a idx := by
  rw [readAnyA_erase fx a p idx, eraseAnn_noctx]

/-- **eraseAnn_readAsA**: the typed reads, by the mutual recursion over the target -/
theorem eraseAnn_readAsA (af : AnnFixes) (fx : Fixes) (t : Target) (p : String) (a : Arr) (idx : Nat) :
    eraseAnn (readAsA af fx p t a idx) = readAs fx t a idx := by
  rw [readAsA_erase af fx t p a idx, eraseAnn_noctx]

theorem eraseAnn_readAsA' (t : Target) (p : String) (a : Arr) (idx : Nat) :
    eraseAnn (readAsA AnnFixes.all Fixes.all p t a idx) = eraseAnn (readAs Fixes.all t a idx) :=
  readAsA_erase _ _ t p a idx

/-- **eraseAnn_readRecordA**: the record level (`Deserializer::get(idx)` + `T::deserialize`) -/
theorem eraseAnn_readRecordA (af : AnnFixes) (fx : Fixes) (t : Target) (fm : FieldMeta) (col : Arr) (idx : Nat) :
    (readRecordA af fx t fm col idx).map eraseAnn = readRecord fx t fm col idx := by
  unfold readRecordA readRecord
  split
  · rfl
  · simp only [Option.map_some, eraseAnn_readAsA]

/-- transfer, successes: the annotated read returns `v` exactly when the un-annotated one does -/
theorem readAsA_ok_iff (af : AnnFixes) (fx : Fixes) (t : Target) (p : String) (a : Arr) (idx : Nat) (v : DVal) :
    readAsA af fx p t a idx = .ok v ↔ readAs fx t a idx = .ok v := by
  rw [← eraseAnn_readAsA af fx t p a idx]
  cases readAsA af fx p t a idx with
  | ok w => simp [eraseAnn]
  | error e => cases e <;> simp [eraseAnn]

/-- transfer, panics: same panic sites -/
theorem readAsA_panic_iff (af : AnnFixes) (fx : Fixes) (t : Target) (p : String) (a : Arr) (idx : Nat) (s : String) :
    readAsA af fx p t a idx = .error (.panic s) ↔ readAs fx t a idx = .error (.panic s) := by
  rw [← eraseAnn_readAsA af fx t p a idx]
  cases readAsA af fx p t a idx with
  | ok w => simp [eraseAnn]
  | error e => cases e <;> simp [eraseAnn]

/-- transfer, errors: with the code that exists, the un-annotated read fails with `msg` exactly when the annotated one
fails with `msg` and some annotation (which `read_error_position` locates) -/
theorem readAsA_err_iff (fx : Fixes) (t : Target) (p : String) (a : Arr) (idx : Nat) (msg : String) :
    (∃ ann, readAsA AnnFixes.all fx p t a idx = .error (.errCtx msg ann)) ↔ readAs fx t a idx = .error (.err msg) := by
  rw [← eraseAnn_readAsA AnnFixes.all fx t p a idx]
  have hnp := readAsA_not_plain fx t p a idx
  cases h : readAsA AnnFixes.all fx p t a idx with
  | ok w => simp [eraseAnn]
  | error e =>
    cases e with
    | err m => exact absurd h (hnp m)
    | panic s => simp [eraseAnn]
    | errCtx m ann => simp [eraseAnn]

/-- non-vacuity: a read that fails two readers below the root — the annotated model names `$.c.x`, the un-annotated
one returns the same message -/
example :
    readRecordA AnnFixes.all Fixes.all exFslTarget ⟨"c", false, []⟩ exFsl 1 =
      some (.error (.errCtx "Out of bounds access" [("data_type", "FixedSizeList(..)"), ("field", "$.c.x")])) ∧
    readRecord Fixes.all exFslTarget ⟨"c", false, []⟩ exFsl 1 = some (.error (.err "Out of bounds access")) := by
  decide

/-! ### the blamed reader is the one whose OWN step failed (reader-side blame, operational form)

Vocabulary (Lemmas/C18OwnRead.lean): an `RCall` is what a reader is asked (`deserialize_any`, or the typed read a target
issues); `rBody af fx p c a idx` is the code of the reader of the view `a` at path `p` for that call at row `idx` WITHOUT
its own `.ctx(self)` wrapper, the reads of the child readers being the real, wrapped ones; `OwnFailsR af fx p a c idx msg`:
that body returns the PLAIN error `msg`.  With the code that exists child reads never return plain errors
(`read_not_plain`), so a plain error of the body is raised by the reader's own code (bounds / offset / type-id checks,
the visitor refusing the value, an unsupported method), not forwarded from a child reader. -/

/-- the body copies are the bodies: `deserialize_any` is the wrapper around `anyBody` … -/
theorem readAnyA_is_wrapped_body (fx : Fixes) (p : String) (a : Arr) (idx : Nat) :
    readAnyA fx p a idx = ctx (rann p a) (rBody AnnFixes.all fx p .any a idx) := by
  cases a <;> (unfold readAnyA rBody anyBody; rfl)

/-- … and every typed read that is not transparent (`any`, `IgnoredAny`, newtype) is the wrapper around `asBody` -/
theorem readAsA_is_wrapped_body (fx : Fixes) (t : Target) (p : String) (a : Arr) (idx : Nat)
    (h1 : t ≠ .any) (h2 : t ≠ .ignored) (h3 : ∀ t', t ≠ .newtype t') :
    readAsA AnnFixes.all fx p t a idx = ctx (rann p a) (rBody AnnFixes.all fx p (.as t) a idx) := by
  cases t with
  | any => exact absurd rfl h1
  | ignored => exact absurd rfl h2
  | newtype t' => exact absurd rfl (h3 t')
  | seq t' => unfold readAsA rBody asBody; cases a <;> rfl
  | enum bi vs => unfold readAsA rBody asBody; cases a <;> rfl
  | tuple ts => unfold readAsA rBody asBody tupleVisitA; rfl
  | tupleStruct ts => unfold readAsA rBody asBody tupleVisitA; rfl
  | struct tfs => unfold readAsA rBody asBody structVisitA; rfl
  | _ => unfold readAsA rBody asBody; rfl

/-- an own failure is blamed on the reader itself -/
theorem own_failure_blames_reader (fx : Fixes) (t : Target) (p : String) (a : Arr) (idx : Nat) (msg : String)
    (h1 : t ≠ .any) (h2 : t ≠ .ignored) (h3 : ∀ t', t ≠ .newtype t')
    (h : OwnFailsR AnnFixes.all fx p a (.as t) idx msg) :
    readAsA AnnFixes.all fx p t a idx = .error (.errCtx msg (rann p a)) := by
  rw [readAsA_is_wrapped_body fx t p a idx h1 h2 h3, h]; simp [ctx, rann]

/-- **read_error_deepest.** Every annotated error of `deserialize_any` or of a typed read (any target, any path, any
view, any row) carries the annotation `rann p' a'` of a reader of the subtree — all positions of the reader of `a'` at
`p'` are positions of the reader read from — whose OWN step failed with the very message of the error, on some call at
some row: never merely the forwarded error of a child reader. -/
theorem read_error_deepest (fx : Fixes) (t : Target) (p : String) (a : Arr) (idx : Nat) (msg : String)
    (ann : List (String × String)) :
    (readAnyA fx p a idx = .error (.errCtx msg ann) →
      ∃ p' a' c idx', ann = rann p' a' ∧ (∀ q ∈ rpositions p' a', q ∈ rpositions p a) ∧
        OwnFailsR AnnFixes.all fx p' a' c idx' msg) ∧
    (readAsA AnnFixes.all fx p t a idx = .error (.errCtx msg ann) →
      ∃ p' a' c idx', ann = rann p' a' ∧ (∀ q ∈ rpositions p' a', q ∈ rpositions p a) ∧
        OwnFailsR AnnFixes.all fx p' a' c idx' msg) :=
  ⟨readAnyA_raisedR AnnFixes.all fx a p idx msg ann, readAsA_raisedR AnnFixes.all fx t p a idx msg ann⟩

/-- the record level: an error of `Deserializer::get(idx)` + `T::deserialize` is a panic or the own failure of the root
reader `$` or of a reader below it -/
theorem readRecord_error_deepest (fx : Fixes) (t : Target) (fm : FieldMeta) (col : Arr) (idx : Nat) (e : Fail)
    (h : readRecordA AnnFixes.all fx t fm col idx = some (.error e)) :
    (∃ site, e = .panic site) ∨ ∃ msg p' a' c idx', e = .errCtx msg (rann p' a') ∧
      (∀ q ∈ rpositions p' a', q ∈ rpositions "$" (record fm col)) ∧ OwnFailsR AnnFixes.all fx p' a' c idx' msg := by
  unfold readRecordA at h
  split at h
  · cases h
  · simp only [Option.some.injEq] at h
    cases e with
    | panic s => exact .inl ⟨s, rfl⟩
    | err msg => exact absurd h (readAsA_not_plain fx t _ _ idx msg)
    | errCtx msg ann =>
      obtain ⟨p', a', c, i', rfl, hs, ho⟩ := readAsA_raisedR AnnFixes.all fx t "$" _ idx msg ann h
      exact .inr ⟨msg, p', a', c, i', rfl, hs, ho⟩

/-- non-vacuity: the two witnesses above — the union reader's own variant lookup fails (`unknown variant`), the
fixed-size-list reader's own bounds check fails — and the errors of the record reads are exactly these readers' -/
example :
    OwnFailsR AnnFixes.all Fixes.all "$.c" exUnion (.as (.enum false (.cons "x" (.newtype .any) .nil))) 0 "unknown variant" ∧
    OwnFailsR AnnFixes.all Fixes.all "$.c.x" (.fixedSizeList 1 none 2 ⟨"item", false, []⟩ (.prim .int32 none [1, 2]))
      (.as (.seq .any)) 1 "Out of bounds access" := by
  constructor <;> (unfold OwnFailsR; decide)

/-- non-vacuity of `reader_paths_assembled` / `read_error_position`: a map column below a list -/
example :
    rpositions "$.c" (.list false none [0, 1] ⟨"", true, []⟩
      (.map none [0, 1] ⟨"entries", false, ⟨"key", false, []⟩, ⟨"", true, []⟩⟩
        (.bytes .utf8 none [0, 1] [97]) (.dictionary (.prim .int8 none [0]) (.bytes .utf8 none [0, 1] [98])))) =
      [("$.c", "List(..)"), ("$.c.<empty>", "Map(..)"), ("$.c.<empty>.entries.key", "Utf8"),
       ("$.c.<empty>.entries.<empty>", "Dictionary(..)")] := by decide

end SaModel.Props.C18
