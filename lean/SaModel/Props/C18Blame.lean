import SaModel.Props.C18
import SaModel.Props.C01Complete
import SaModel.Lemmas.C18BlamePush
/-
C18 — blame against the SPECIFICATION (serializer side).

`Spec.blameDT ext path dt n md x` (Spec/Blame.lean) lists the schema positions, as paths below `path`, at which the
documented mapping `Spec.interpDT` is undefined for `x` for a reason of that position's own: the deepest positions
where it fails, plus containers whose own structural condition fails.  `Props/C18.lean` proves that an error names a
builder of the subtree whose own step failed; here: that position is one the SPECIFICATION blames.  The link is the
completeness of `push` (Props/C01Complete.lean): an own step fails only where the mapping is undefined — or a capacity
check fires (`NoCap` excludes those; `C18_capacity_blame` says where they are reported).
-/
namespace SaModel.Props.C18
open SaModel SaModel.Build SaModel.Spec

theorem foldl_push_takeRest (ext : Ext) : ∀ (rows : List SVal) (b0 b : B), rows.foldlM (push ext) b0 = .ok b →
    takeRest b = takeRest b0
  | [], b0, b, h => by simp [List.foldlM, pure, Except.pure] at h; subst h; rfl
  | x :: rest, b0, b, h => by
    simp only [List.foldlM] at h
    obtain ⟨b1, h1, h⟩ := (Build.bind_ok _ _ _).1 h
    rw [foldl_push_takeRest ext rest b1 b h, push_takeRest ext x b0 b1 h1]

/-- **C18_ser_blame** (PARTIAL: values of the fragment `frag` — `Some` / newtype layers, `None`, unit, every scalar call,
bytes, sequences, struct records, unit and newtype variants, nested arbitrarily, into EVERY builder family; missing: tuples /
tuple structs, maps, tuple and struct variants, which `frag` excludes).  A builder created by `build_builder` at `path` for a field of type `dt`,
after any successfully pushed rows, under the hypotheses of `push_err_iff`: an error of the next `push` is annotated
`field` = `render path segs`, `data_type` = the label of the type at `segs`, for a position `segs` of the schema that
`Spec.blameDT` blames for this value.  No exception: the former cell `dict_null_cell` (`None` for a non-nullable
dictionary column was refused by the dictionary's key builder, `{p}.key`, where the specification names the dictionary
column `p`) is gone with repo fix ca6f255 — see `dict_null_repaired` / `dict_null_cell_pinned` below. -/
theorem C18_ser_blame_partial (ext : Ext) [ExtPlain ext] (dt : DataType) (path : String) (n : Bool) (md : Metadata)
    (b0 : B) (h0 : newDT path dt n md = .ok b0) (rows : List SVal) (b : B) (hb : rows.foldlM (push ext) b0 = .ok b)
    (x : SVal) (hfrag : frag x = true)
    (hwf : WFB b) (hsafe : Safe b) (hshape : Shape b dt n md) (htot : total dt n md = true) (hraw : noRaw x = true)
    (hcap : NoCap ext b x) (msg : String) (ann : List (String × String)) (h : push ext b x = .error (.errCtx msg ann)) :
    ∃ segs label, (segs, label) ∈ segsDT dt md ∧ ann = [("data_type", label), ("field", render path segs)] ∧
      render path segs ∈ blameDT ext path dt n md x := by
  have hat : At path dt n md b :=
    ⟨b0, h0, foldl_push_takeRest ext rows b0 b hb⟩
  obtain ⟨p, hp, hf⟩ := push_bl ext x hfrag hraw b path dt n md ⟨hwf, hsafe, hshape, htot⟩ hat hcap msg ann h
  rcases push_error_in_schema ext dt path n md b0 h0 rows b hb x _ h with ⟨s, hs⟩ | ⟨msg', segs, label, hmem, he⟩
  · cases hs
  · cases he
    refine ⟨segs, label, hmem, rfl, ?_⟩
    have : render path segs = p := by simpa [List.lookup] using hf
    rw [this]; exact hp

/-- the same at the record level (`to_marrow` / `ArrayBuilder::push`): `$`-rooted paths, `Spec.blameRow` -/
theorem C18_ser_blame_record_partial (ext : Ext) [ExtPlain ext] (fields : List Field) (root0 : B)
    (h0 : newRoot fields = .ok root0) (rows : List SVal) (root : B) (hb : rows.foldlM (push ext) root0 = .ok root)
    (x : SVal) (hfrag : frag x = true) (hwf : WFB root) (hsafe : Safe root)
    (hshape : Shape root (.struct (Fields.ofList fields)) false [])
    (htot : total (.struct (Fields.ofList fields)) false [] = true) (hraw : noRaw x = true) (hcap : NoCap ext root x)
    (msg : String) (ann : List (String × String)) (h : push ext root x = .error (.errCtx msg ann)) :
    ∃ segs label, (segs, label) ∈ segsDT (.struct (Fields.ofList fields)) [] ∧
      ann = [("data_type", label), ("field", render "$" segs)] ∧ render "$" segs ∈ blameRow ext fields x :=
  C18_ser_blame_partial ext (.struct (Fields.ofList fields)) "$" false [] root0 (by simpa [newRoot, newDT] using h0) rows root hb
    x hfrag hwf hsafe hshape htot hraw hcap msg ann h

/-! ### non-vacuity -/

def exSchema : List Field :=
  [.mk "orders" (.list (.mk "element" (.struct (.cons (.mk "price" .int32 false []) (.cons (.mk "note" .utf8 true []) .nil))) false [])) false []]

/-- second order: a string where the price should be -/
def exRowLeaf : SVal := .record "R" (.cons "orders" 0 (.seq (.cons (.record "O" (.cons "price" 0 (.int .i32 6) .nil))
  (.cons (.record "O" (.cons "price" 0 (.str "seven") .nil)) .nil))) .nil)

/-- second order: no price at all (the struct `element` fails itself) -/
def exRowMissing : SVal := .record "R" (.cons "orders" 0 (.seq (.cons (.record "O" (.cons "price" 0 (.int .i32 6) .nil))
  (.cons (.record "O" (.cons "note" 1 (.str "n") .nil)) .nil))) .nil)

/-- the specification blames exactly the leaf / exactly the element struct, and that is what the builders name; the
rows are in the fragment, carry no raw streams and fit -/
example :
    blameRow {} exSchema exRowLeaf = ["$.orders.element.price"] ∧
    (do let root ← newRoot exSchema; push {} root exRowLeaf) =
      .error (.errCtx "serialize_str is not supported" [("data_type", "Int32"), ("field", "$.orders.element.price")]) ∧
    blameRow {} exSchema exRowMissing = ["$.orders.element"] ∧
    (do let root ← newRoot exSchema; push {} root exRowMissing) =
      .error (.errCtx "Missing non-nullable field price in struct" [("data_type", "Struct(..)"), ("field", "$.orders.element")]) ∧
    frag exRowLeaf = true ∧ noRaw exRowLeaf = true ∧ frag exRowMissing = true ∧
    total (.struct (Fields.ofList exSchema)) false [] = true ∧ exSchema.all coveredF = true :=
  ⟨by decide +kernel, by decide +kernel, by decide +kernel, by decide +kernel, by decide, by decide, by decide, by decide, by decide⟩

/-! ### capacity errors (outside `blameDT`: the mapping is defined) are reported by the builder that owns the counter -/

def isFlatOwner : B → Bool
  | .bytes _ _ _ _ _ | .bytesView _ _ _ _ _ | .dictionary _ _ _ _ => true
  | _ => false

/-- the scalar calls (`serialize_unit_struct` is none any more: since repo fix ae2fc46 its default forwards to
`serialize_unit`, the null path — `pushNone`, which touches no capacity-limited counter) -/
def isScalarCall : SVal → Bool
  | .bool _ | .int _ _ | .f32 _ | .f64 _ | .char _ | .str _ | .bytes _ => true
  | _ => false

/-- **C18_capacity_blame.**
(1) List builders (`List` / `LargeList`), the owners of an offsets vector: on a sequence (any of the three sequence
calls) the list builder's OWN code — `callBody`, the body without its `.ctx(self)` — fails only with `offset overflow`,
only when the last offset plus the number of elements really exceeds the offset type's maximum, and then the error is
annotated with the list's own path and label (never with the child's, never with an ancestor's).  With
`push_error_deepest` (every annotated error is the own failure of some builder of the subtree) this locates every offset
overflow of a list at the list.
(2) The flat owners of a capacity-limited counter — `Utf8` / `Binary` builders (data offsets), view builders (lengths
and buffer offsets beyond `i32::MAX`), dictionary builders (the key type's range; the key conversion runs inside the
dictionary's own `serialize_*`, un-annotated) — annotate EVERY error of a scalar call with their own path and label. -/
theorem C18_capacity_blame (ext : Ext) [ExtPlain ext] :
    (∀ (p : String) (large : Bool) (fm : FieldMeta) (v : Validity) (offs : List Int) (el : B) (xs : SVals) (x : SVal)
      (msg : String), x = .seq xs ∨ x = .tuple xs ∨ (∃ nm, x = .tupleStruct nm xs) → WFB (.list p large fm v offs el) →
      callBody ext (.list p large fm v offs el) (.val x) = .error (.err msg) →
      msg = "offset overflow" ∧ ((dec el).length : Int) + xs.length > offMax large ∧
      push ext (.list p large fm v offs el) x =
        .error (.errCtx "offset overflow" [("data_type", if large then "LargeList" else "List"), ("field", p)])) ∧
    (∀ (b : B) (x : SVal) (msg : String) (ann : List (String × String)), isFlatOwner b = true → isScalarCall x = true →
      push ext b x = .error (.errCtx msg ann) → ann = [("data_type", b.label), ("field", b.path)]) := by
  constructor
  · intro p large fm v offs el xs x msg hx hw hbody
    have hw' := hw
    simp only [WFB] at hw'
    have hlast := hw'.1.2.1
    obtain ⟨v', hv'⟩ := setValidity_true_total v (offs.length - 1)
    have key : ∀ k, seqLikeWith (fun large el offs => pushElems ext large el offs xs) (fun el c => pushCountElems ext el c xs)
        (fun s => pushTupleElems ext s xs) (u8All xs) (.list p large fm v offs el) k = .error (.err msg) →
        msg = "offset overflow" ∧ ((dec el).length : Int) + xs.length > offMax large := by
      intro k hk
      simp only [seqLikeWith, hv', duplicateLast_total hlast, bind, Except.bind] at hk
      cases hpe : pushElems ext large el (offs ++ [((dec el).length : Int)]) xs with
      | ok r => rw [hpe] at hk; cases hk
      | error e =>
        rw [hpe] at hk
        simp only at hk
        cases hk
        exact pushElems_plain ext large xs el _ _ msg (by simp) (by omega) hpe
    have hres : msg = "offset overflow" ∧ ((dec el).length : Int) + xs.length > offMax large := by
      rcases hx with rfl | rfl | ⟨nm, rfl⟩
      · exact key .seq (by simpa [callBody, valBody] using hbody)
      · exact key .tuple (by simpa [callBody, valBody] using hbody)
      · exact key .tupleStruct (by simpa [callBody, valBody] using hbody)
    refine ⟨hres.1, hres.2, ?_⟩
    obtain ⟨rfl, _⟩ := hres
    have hne : ∀ v', x ≠ .some v' := by rcases hx with rfl | rfl | ⟨nm, rfl⟩ <;> (intro v' h; cases h)
    have hnn : ∀ n' v', x ≠ .newtypeStruct n' v' := by rcases hx with rfl | rfl | ⟨nm, rfl⟩ <;> (intro n' v' h; cases h)
    rw [own_failure_blames_self ext _ x _ hne hnn hbody]
    rfl
  · intro b x msg ann hb hx h
    have hform : push ext b x = ctx b.ann (pushScalar ext b x) := by
      cases x <;> simp [isScalarCall] at hx
      case bytes bs => cases b <;> simp [isFlatOwner] at hb <;> (unfold push; rfl)
      all_goals (unfold push; rfl)
    rw [hform] at h
    cases hr : pushScalar ext b x with
    | ok r => rw [hr] at h; cases h
    | error e =>
      rw [hr] at h
      cases e with
      | err m => simp [SaModel.ctx, B.ann] at h; exact h.2.symm
      | panic s => cases h
      | errCtx m a => exact absurd hr ((pushScalar_noctx ext b x).out m a)

/-- non-vacuity of (2), the dictionary key range: `Dictionary(Int8, Utf8)` holding 128 values refuses the 129th; the
error is the dictionary's, `$.d` / `Dictionary(..)`, not the key builder's -/
example :
    push {} (.dictionary "$.d" (.leaf "$.d.key" (.int .i8) none []) (.bytes "$.d.value" .utf8 none [0] [])
      ((List.range 128).map toString)) (.str "x") =
    .error (.errCtx "out of range integral type conversion attempted" [("data_type", "Dictionary(..)"), ("field", "$.d")]) := by
  decide +kernel

/-! ### the former cell `dict_null_cell` (repo fix ca6f255) -/

/-- **Repaired** (`dict_null_repaired`): `d: Dictionary(Int8, Utf8)`, not nullable, receives `None`.  `Spec.blameDT`
blames the column `$.d` (the documented mapping has no null for this FIELD), and so does the crate now:
`DictionaryUtf8Builder::serialize_none` checks the nullability of its key builder and raises the error itself, under
the dictionary's own path and type (the innermost SCHEMA field; `key` is not a field of the user's schema — a
dictionary has no child fields in Arrow).  The row is in the fragment and inside every hypothesis of
`C18_ser_blame_record_partial`. -/
theorem dict_null_repaired :
    blameRow {} [.mk "d" (.dictionary .int8 .utf8) false []] (.record "R" (.cons "d" 0 .none .nil)) = ["$.d"] ∧
    (do let root ← newRoot [.mk "d" (.dictionary .int8 .utf8) false []]
        push {} root (.record "R" (.cons "d" 0 .none .nil))) =
      .error (.errCtx "Cannot push null for non-nullable array" [("data_type", "Dictionary(..)"), ("field", "$.d")]) ∧
    frag (.record "R" (.cons "d" 0 .none .nil)) = true ∧
    total (.struct (Fields.ofList [.mk "d" (.dictionary .int8 .utf8) false []])) false [] = true :=
  ⟨by decide +kernel, by decide +kernel, by decide, by decide⟩

/-- **Pinned** (`dict_null_cell_pinned`): before ca6f255 `DictionaryUtf8Builder::serialize_none` was
`try_(|| self.indices.serialize_none().ctx(self)).ctx(self)`: the key builder's `IntBuilder::serialize_none` refuses
and annotates first, both `.ctx(self)` of the dictionary are no-ops, and the error named `$.d.key` / `Int8` — a
position the specification does not blame (and not a field of the schema). -/
theorem dict_null_cell_pinned :
    (ctx (B.dictionary "$.d" (.leaf "$.d.key" (.int .i8) none []) (.bytes "$.d.value" .utf8 none [0] []) []).ann
      (ctx (B.dictionary "$.d" (.leaf "$.d.key" (.int .i8) none []) (.bytes "$.d.value" .utf8 none [0] []) []).ann
        (pushNone (.leaf "$.d.key" (.int .i8) none []))) : R B) =
      .error (.errCtx "Cannot push null for non-nullable array" [("data_type", "Int8"), ("field", "$.d.key")]) ∧
    "$.d.key" ∉ blameRow {} [.mk "d" (.dictionary .int8 .utf8) false []] (.record "R" (.cons "d" 0 .none .nil)) :=
  ⟨by decide +kernel, by decide +kernel⟩

end SaModel.Props.C18
