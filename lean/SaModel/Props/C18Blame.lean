import SaModel.Props.C18
import SaModel.Props.C01Complete
import SaModel.Lemmas.C18BlamePush
/-
C18 — blame against the SPECIFICATION (serializer side).

`Spec.blameDT ext path dt n md x` (Spec/Blame.lean) lists the schema positions, as paths below `path`, at which the
documented mapping `Spec.interpDT` is undefined for `x` for a reason of that position's own: the deepest positions
where it fails, plus containers whose own structural condition fails.  `Props/C18.lean` proves that an error names a
builder of the subtree whose own step failed; here: that position is one the SPECIFICATION blames.  The link is the
completeness of `push` (Props/C01Complete.lean): an own step fails only where the mapping is undefined — or a capacity
check fires (`NoCap` excludes those; `C18_capacity_blame` says where they are reported).
-/
namespace SaModel.Props.C18
open SaModel SaModel.Build SaModel.Spec

theorem foldl_push_takeRest (ext : Ext) : ∀ (rows : List SVal) (b0 b : B), rows.foldlM (push ext) b0 = .ok b →
    takeRest b = takeRest b0
  | [], b0, b, h => by simp [List.foldlM, pure, Except.pure] at h; subst h; rfl
  | x :: rest, b0, b, h => by
    simp only [List.foldlM] at h
    obtain ⟨b1, h1, h⟩ := (Build.bind_ok _ _ _).1 h
    rw [foldl_push_takeRest ext rest b1 b h, push_takeRest ext x b0 b1 h1]

/-- **C18_ser_blame** (PARTIAL: values of the fragment `frag` — `Some` / newtype layers, `None`, unit, every scalar call,
bytes, sequences, struct records, nested arbitrarily, into EVERY builder family; missing: tuples / tuple structs, maps and
the four variant calls, which `frag` excludes).  A builder created by `build_builder` at `path` for a field of type `dt`,
after any successfully pushed rows, under the hypotheses of `push_err_iff`: an error of the next `push` is annotated
`field` = `render path segs`, `data_type` = the label of the type at `segs`, for a position `segs` of the schema that
`Spec.blameDT` blames for this value — or it is the one cell where builders and specification read `innermost`
differently (`dict_null_cell` below): `None` for a non-nullable dictionary column is refused by the dictionary's key
builder, `{p}.key`, where the specification names the dictionary column `p`. -/
theorem C18_ser_blame_partial (ext : Ext) [ExtPlain ext] (dt : DataType) (path : String) (n : Bool) (md : Metadata)
    (b0 : B) (h0 : newDT path dt n md = .ok b0) (rows : List SVal) (b : B) (hb : rows.foldlM (push ext) b0 = .ok b)
    (x : SVal) (hfrag : frag x = true)
    (hwf : WFB b) (hsafe : Safe b) (hshape : Shape b dt n md) (htot : total dt n md = true) (hraw : noRaw x = true)
    (hcap : NoCap ext b x) (msg : String) (ann : List (String × String)) (h : push ext b x = .error (.errCtx msg ann)) :
    ∃ segs label, (segs, label) ∈ segsDT dt md ∧ ann = [("data_type", label), ("field", render path segs)] ∧
      (render path segs ∈ blameDT ext path dt n md x ∨
        ∃ p ∈ blameDT ext path dt n md x, render path segs = p ++ ".key" ∧ msg = "Cannot push null for non-nullable array") := by
  have hat : At path dt n md b :=
    ⟨b0, h0, foldl_push_takeRest ext rows b0 b hb⟩
  obtain ⟨p, hp, hcell⟩ := push_bl ext x hfrag hraw b path dt n md ⟨hwf, hsafe, hshape, htot⟩ hat hcap msg ann h
  rcases push_error_in_schema ext dt path n md b0 h0 rows b hb x _ h with ⟨s, hs⟩ | ⟨msg', segs, label, hmem, he⟩
  · cases hs
  · cases he
    refine ⟨segs, label, hmem, rfl, ?_⟩
    rcases hcell with hf | ⟨hf, hm⟩
    · left
      have : render path segs = p := by simpa [List.lookup] using hf
      rw [this]; exact hp
    · right
      refine ⟨p, hp, ?_, hm⟩
      simpa [List.lookup] using hf

/-- the same at the record level (`to_marrow` / `ArrayBuilder::push`): `$`-rooted paths, `Spec.blameRow` -/
theorem C18_ser_blame_record_partial (ext : Ext) [ExtPlain ext] (fields : List Field) (root0 : B)
    (h0 : newRoot fields = .ok root0) (rows : List SVal) (root : B) (hb : rows.foldlM (push ext) root0 = .ok root)
    (x : SVal) (hfrag : frag x = true) (hwf : WFB root) (hsafe : Safe root)
    (hshape : Shape root (.struct (Fields.ofList fields)) false [])
    (htot : total (.struct (Fields.ofList fields)) false [] = true) (hraw : noRaw x = true) (hcap : NoCap ext root x)
    (msg : String) (ann : List (String × String)) (h : push ext root x = .error (.errCtx msg ann)) :
    ∃ segs label, (segs, label) ∈ segsDT (.struct (Fields.ofList fields)) [] ∧
      ann = [("data_type", label), ("field", render "$" segs)] ∧
      (render "$" segs ∈ blameRow ext fields x ∨
        ∃ p ∈ blameRow ext fields x, render "$" segs = p ++ ".key" ∧ msg = "Cannot push null for non-nullable array") :=
  C18_ser_blame_partial ext (.struct (Fields.ofList fields)) "$" false [] root0 (by simpa [newRoot, newDT] using h0) rows root hb
    x hfrag hwf hsafe hshape htot hraw hcap msg ann h

/-! ### non-vacuity -/

def exSchema : List Field :=
  [.mk "orders" (.list (.mk "element" (.struct (.cons (.mk "price" .int32 false []) (.cons (.mk "note" .utf8 true []) .nil))) false [])) false []]

/-- second order: a string where the price should be -/
def exRowLeaf : SVal := .record "R" (.cons "orders" 0 (.seq (.cons (.record "O" (.cons "price" 0 (.int .i32 6) .nil))
  (.cons (.record "O" (.cons "price" 0 (.str "seven") .nil)) .nil))) .nil)

/-- second order: no price at all (the struct `element` fails itself) -/
def exRowMissing : SVal := .record "R" (.cons "orders" 0 (.seq (.cons (.record "O" (.cons "price" 0 (.int .i32 6) .nil))
  (.cons (.record "O" (.cons "note" 1 (.str "n") .nil)) .nil))) .nil)

/-- the specification blames exactly the leaf / exactly the element struct, and that is what the builders name; the
rows are in the fragment, carry no raw streams and fit -/
example :
    blameRow {} exSchema exRowLeaf = ["$.orders.element.price"] ∧
    (do let root ← newRoot exSchema; push {} root exRowLeaf) =
      .error (.errCtx "serialize_str is not supported" [("data_type", "Int32"), ("field", "$.orders.element.price")]) ∧
    blameRow {} exSchema exRowMissing = ["$.orders.element"] ∧
    (do let root ← newRoot exSchema; push {} root exRowMissing) =
      .error (.errCtx "Missing non-nullable field price in struct" [("data_type", "Struct(..)"), ("field", "$.orders.element")]) ∧
    frag exRowLeaf = true ∧ noRaw exRowLeaf = true ∧ frag exRowMissing = true ∧
    total (.struct (Fields.ofList exSchema)) false [] = true ∧ exSchema.all coveredF = true :=
  ⟨by decide +kernel, by decide +kernel, by decide +kernel, by decide +kernel, by decide, by decide, by decide, by decide, by decide⟩

/-! ### the cell where the two readings of `innermost` differ -/

/-- **`dict_null_cell`**: `d: Dictionary(Int8, Utf8)`, not nullable, receives `None`.  `Spec.blameDT` blames the column
`$.d` (the documented mapping has no null for this FIELD); `DictionaryUtf8Builder::serialize_none` forwards to its key
builder, whose `IntBuilder::serialize_none` refuses and annotates first: `$.d.key` / `Int8`.  Both name the dictionary
column or the builder part directly inside it, neither a sibling nor a mere ancestor of a deeper failing FIELD.  The
property text speaks of `the innermost field being processed`: `key` is not a field of the user's schema (a dictionary
has no child fields in Arrow), so the reading of the specification (`$.d`) is the one the text supports; the crate's
answer is more specific than the text asks for, not wrong in the sense of `sibling / only an ancestor`.  Recorded, not
bent: `C18_ser_blame_partial` lists the cell explicitly. -/
theorem dict_null_cell :
    blameRow {} [.mk "d" (.dictionary .int8 .utf8) false []] (.record "R" (.cons "d" 0 .none .nil)) = ["$.d"] ∧
    (do let root ← newRoot [.mk "d" (.dictionary .int8 .utf8) false []]
        push {} root (.record "R" (.cons "d" 0 .none .nil))) =
      .error (.errCtx "Cannot push null for non-nullable array" [("data_type", "Int8"), ("field", "$.d.key")]) :=
  ⟨by decide +kernel, by decide +kernel⟩

end SaModel.Props.C18
