import SaModel.Props.C18
import SaModel.Props.C01CompleteObs
import SaModel.Lemmas.C18BlamePush
import SaModel.Lemmas.C18BlameRaw
/-
C18 — blame against the SPECIFICATION (serializer side).

`Spec.blameDT ext path dt n md x` (Spec/Blame.lean) lists the schema positions, as paths below `path`, at which the
documented mapping `Spec.interpDT` is undefined for `x` for a reason of that position's own: the deepest positions
where it fails, plus containers whose own structural condition fails.  `Props/C18.lean` proves that an error names a
builder of the subtree whose own step failed; here: that position is one the SPECIFICATION blames.  The link is the
completeness of `push` on the WEAK state invariant (Props/C01CompleteObs.lean, the hidden-rows refinement: NO `Safe`
hypothesis): an own step fails only where the mapping is undefined — or a capacity check fires (`NoCap` excludes those;
`C18_capacity_blame` says where they are reported).  State hypotheses of the theorems: `WFH` (weak state invariant) and
`NoDictKey` (no dictionary-keyed dictionary) — both hold of every state reached from a builder `build_builder` constructs,
for EVERY schema (`Build.runRows_rowsH`), and are implied by the stronger `WFB`, `Safe` (`WFH_of_WFB`,
`NoDictKey_of_Safe`).
-/
namespace SaModel.Props.C18
open SaModel SaModel.Build SaModel.Spec

theorem foldl_push_takeRest (ext : Ext) : ∀ (rows : List SVal) (b0 b : B), rows.foldlM (push ext) b0 = .ok b →
    takeRest b = takeRest b0
  | [], b0, b, h => by simp [List.foldlM, pure, Except.pure] at h; subst h; rfl
  | x :: rest, b0, b, h => by
    simp only [List.foldlM] at h
    obtain ⟨b1, h1, h⟩ := (Build.bind_ok _ _ _).1 h
    rw [foldl_push_takeRest ext rest b1 b h, push_takeRest ext x b0 b1 h1]

/-- **C18_ser_blame.**  A builder created by `build_builder` at `path` for a field of type `dt`, after any
successfully pushed rows, under the hypotheses of `push_err_iff'` (WFH, NoDictKey, Shape, total, noRaw, NoCap — no `Safe`): an error of the
next `push` — for EVERY serde value without raw key / value streams: `Some` / newtype layers, `None`, unit, every scalar
call, bytes, sequences, tuples, tuple structs, struct records, maps (into struct builders and into map builders), unit /
newtype / tuple / struct variants, nested arbitrarily, into EVERY builder family — is annotated `field` = `render path
segs`, `data_type` = the label of the type at `segs`, for a position `segs` of the schema that `Spec.blameDT` blames for
this value.  No exception (a `None` for a non-nullable dictionary column: `dict_null_repaired`, repo fix ca6f255; a
failing element of a tuple variant presented to a list-typed variant column: `tuple_variant_list_cell`, where
`Spec.blameDT` blames the element column as for a tuple presented to a list column directly). -/
theorem C18_ser_blame (ext : Ext) [ExtPlain ext] (dt : DataType) (path : String) (n : Bool) (md : Metadata)
    (b0 : B) (h0 : newDT path dt n md = .ok b0) (rows : List SVal) (b : B) (hb : rows.foldlM (push ext) b0 = .ok b)
    (x : SVal)
    (hwf : WFH b) (hnd : NoDictKey b) (hshape : Shape b dt n md) (htot : total dt n md = true) (hraw : noRaw x = true)
    (hcap : NoCap ext b x) (msg : String) (ann : List (String × String)) (h : push ext b x = .error (.errCtx msg ann)) :
    ∃ segs label, (segs, label) ∈ segsDT dt md ∧ ann = [("data_type", label), ("field", render path segs)] ∧
      render path segs ∈ blameDT ext path dt n md x := by
  have hat : At path dt n md b :=
    ⟨b0, h0, foldl_push_takeRest ext rows b0 b hb⟩
  obtain ⟨p, hp, hf⟩ := push_bl ext x hraw b path dt n md ⟨hwf, hnd, hshape, htot⟩ hat hcap msg ann h
  rcases push_error_in_schema ext dt path n md b0 h0 rows b hb x _ h with ⟨s, hs⟩ | ⟨msg', segs, label, hmem, he⟩
  · cases hs
  · cases he
    refine ⟨segs, label, hmem, rfl, ?_⟩
    have : render path segs = p := by simpa [List.lookup] using hf
    rw [this]; exact hp

/-- the same at the record level (`to_marrow` / `ArrayBuilder::push`): `$`-rooted paths, `Spec.blameRow` -/
theorem C18_ser_blame_record (ext : Ext) [ExtPlain ext] (fields : List Field) (root0 : B)
    (h0 : newRoot fields = .ok root0) (rows : List SVal) (root : B) (hb : rows.foldlM (push ext) root0 = .ok root)
    (x : SVal) (hwf : WFH root) (hnd : NoDictKey root)
    (hshape : Shape root (.struct (Fields.ofList fields)) false [])
    (htot : total (.struct (Fields.ofList fields)) false [] = true) (hraw : noRaw x = true) (hcap : NoCap ext root x)
    (msg : String) (ann : List (String × String)) (h : push ext root x = .error (.errCtx msg ann)) :
    ∃ segs label, (segs, label) ∈ segsDT (.struct (Fields.ofList fields)) [] ∧
      ann = [("data_type", label), ("field", render "$" segs)] ∧ render "$" segs ∈ blameRow ext fields x :=
  C18_ser_blame ext (.struct (Fields.ofList fields)) "$" false [] root0 (by simpa [newRoot, newDT] using h0) rows root hb
    x hwf hnd hshape htot hraw hcap msg ann h

/-- **C18_ser_blame_raw** (the one step beyond `noRaw`): the value is a WELL-FORMED raw stream of `serialize_key` /
`serialize_value` calls (`isAlternating ops`: what serde's default `serialize_entry` issues) whose keys and values carry
no further raw streams.  For the builders, for `Spec.interpDT` and for `Spec.blameDT` such a stream IS the map of its
entries (`push_mapRaw_alt`, `interpDT_mapRaw_alt`, `blameDT_mapRaw_alt`; a struct builder must have fewer than
`usize::MAX` fields, so that a field index is never the `UNKNOWN_KEY` marker), hence `C18_ser_blame` applies; the capacity
hypothesis is stated for the entries (`vsize (.mapRaw _)` does not measure them).  Malformed streams have no meaning
(`blameDT = []`, C16) and are outside; so are raw streams nested below the top-level value. -/
theorem C18_ser_blame_raw (ext : Ext) [ExtPlain ext] (dt : DataType) (path : String) (n : Bool) (md : Metadata)
    (b0 : B) (h0 : newDT path dt n md = .ok b0) (rows : List SVal) (b : B) (hb : rows.foldlM (push ext) b0 = .ok b)
    (ops : SMapOps) (halt : isAlternating ops = true)
    (hwf : WFH b) (hnd : NoDictKey b) (hshape : Shape b dt n md) (htot : total dt n md = true)
    (hraw : noRawe (toEntries ops) = true) (hcap : NoCap ext b (.map (toEntries ops)))
    (hbig : ∀ p len v fs c nx sn, b = .struct p len v fs c nx sn → fs.length ≤ UNKNOWN_KEY)
    (msg : String) (ann : List (String × String)) (h : push ext b (.mapRaw ops) = .error (.errCtx msg ann)) :
    ∃ segs label, (segs, label) ∈ segsDT dt md ∧ ann = [("data_type", label), ("field", render path segs)] ∧
      render path segs ∈ blameDT ext path dt n md (.mapRaw ops) := by
  rw [push_mapRaw_alt ext b ops halt hbig] at h
  rw [blameDT_mapRaw_alt ext path dt n md ops halt]
  exact C18_ser_blame ext dt path n md b0 h0 rows b hb (.map (toEntries ops)) hwf hnd hshape htot
    (by simpa [noRaw] using hraw) hcap msg ann h

/-! ### non-vacuity -/

def exSchema : List Field :=
  [.mk "orders" (.list (.mk "element" (.struct (.cons (.mk "price" .int32 false []) (.cons (.mk "note" .utf8 true []) .nil))) false [])) false []]

/-- second order: a string where the price should be -/
def exRowLeaf : SVal := .record "R" (.cons "orders" 0 (.seq (.cons (.record "O" (.cons "price" 0 (.int .i32 6) .nil))
  (.cons (.record "O" (.cons "price" 0 (.str "seven") .nil)) .nil))) .nil)

/-- second order: no price at all (the struct `element` fails itself) -/
def exRowMissing : SVal := .record "R" (.cons "orders" 0 (.seq (.cons (.record "O" (.cons "price" 0 (.int .i32 6) .nil))
  (.cons (.record "O" (.cons "note" 1 (.str "n") .nil)) .nil))) .nil)

/-- the specification blames exactly the leaf / exactly the element struct, and that is what the builders name; the
rows carry no raw streams and fit -/
example :
    blameRow {} exSchema exRowLeaf = ["$.orders.element.price"] ∧
    (do let root ← newRoot exSchema; push {} root exRowLeaf) =
      .error (.errCtx "serialize_str is not supported" [("data_type", "Int32"), ("field", "$.orders.element.price")]) ∧
    blameRow {} exSchema exRowMissing = ["$.orders.element"] ∧
    (do let root ← newRoot exSchema; push {} root exRowMissing) =
      .error (.errCtx "Missing non-nullable field price in struct" [("data_type", "Struct(..)"), ("field", "$.orders.element")]) ∧
    noRaw exRowLeaf = true ∧ noRaw exRowMissing = true ∧
    total (.struct (Fields.ofList exSchema)) false [] = true ∧ exSchema.all coveredF = true :=
  ⟨by decide +kernel, by decide +kernel, by decide +kernel, by decide +kernel, by decide, by decide, by decide, by decide⟩

/-! ### non-vacuity for the value kinds added last: tuples, maps, tuple / struct variants -/

def exSchema2 : List Field :=
  [.mk "a" .int32 false [],
   .mk "m" (.map (.mk "entries" (.struct (.cons (.mk "key" .utf8 false []) (.cons (.mk "value" .int8 false []) .nil))) false []) false) true []]

def exSchema3 : List Field :=
  [.mk "a" .int32 false [],
   .mk "u" (.union (.cons 0 (.mk "A" (.struct (.cons (.mk "x" .int32 false []) (.cons (.mk "y" .utf8 true []) .nil))) false [])
      (.cons 1 (.mk "B" (.list (.mk "element" .int32 false [])) false []) .nil)) .dense) true []]

/-- the row as a tuple: the second element (the map column `m`) is a map whose value 300 does not fit `Int8` -/
def exRowTupleMap : SVal := .tuple (.cons (.int .i32 1) (.cons (.map (.cons (.str "k") (.int .i32 300) .nil)) .nil))

/-- the row as a tuple struct that stops before the required first field -/
def exRowTupleShort : SVal := .tupleStruct "R" .nil

/-- the row as a map with a key that is not a string: the root struct's own failure -/
def exRowMapKey : SVal := .map (.cons (.int .i32 7) (.int .i32 1) .nil)

/-- the row as a map; `u` receives the struct variant `A { y: "t" }` that lacks the required `x` -/
def exRowStructVariant : SVal := .map (.cons (.str "a") (.int .i32 1)
  (.cons (.str "u") (.structVariant "E" 0 "A" (.cons "y" 0 (.str "t") .nil)) .nil))

/-- `u` receives the tuple variant `A(1, true)`: the second field `y: Utf8` refuses... nothing (`bool` formats), the
first is fine — so take `A("s")`: `x: Int32` refuses a string, two builders below the union -/
def exRowTupleVariant : SVal := .record "R" (.cons "a" 0 (.int .i32 1)
  (.cons "u" 1 (.tupleVariant "E" 0 "A" (.cons (.str "s") .nil)) .nil))

example :
    blameRow {} exSchema2 exRowTupleMap = ["$.m.entries.value"] ∧
    (do let root ← newRoot exSchema2; push {} root exRowTupleMap) =
      .error (.errCtx "out of range integral type conversion attempted" [("data_type", "Int8"), ("field", "$.m.entries.value")]) ∧
    blameRow {} exSchema2 exRowTupleShort = ["$"] ∧
    (do let root ← newRoot exSchema2; push {} root exRowTupleShort) =
      .error (.errCtx "Missing non-nullable field a in struct" [("data_type", "Struct(..)"), ("field", "$")]) ∧
    blameRow {} exSchema2 exRowMapKey = ["$"] ∧
    (do let root ← newRoot exSchema2; push {} root exRowMapKey) =
      .error (.errCtx "serialize_i32 is not supported" [("data_type", "Struct(..)"), ("field", "$")]) ∧
    blameRow {} exSchema3 exRowStructVariant = ["$.u.A"] ∧
    (do let root ← newRoot exSchema3; push {} root exRowStructVariant) =
      .error (.errCtx "Missing non-nullable field x in struct" [("data_type", "Struct(..)"), ("field", "$.u.A")]) ∧
    blameRow {} exSchema3 exRowTupleVariant = ["$.u.A.x"] ∧
    (do let root ← newRoot exSchema3; push {} root exRowTupleVariant) =
      .error (.errCtx "serialize_str is not supported" [("data_type", "Int32"), ("field", "$.u.A.x")]) ∧
    noRaw exRowTupleMap = true ∧ noRaw exRowTupleShort = true ∧ noRaw exRowMapKey = true ∧
    noRaw exRowStructVariant = true ∧ noRaw exRowTupleVariant = true ∧
    total (.struct (Fields.ofList exSchema2)) false [] = true ∧ exSchema2.all coveredF = true ∧
    total (.struct (Fields.ofList exSchema3)) false [] = true ∧ exSchema3.all coveredF = true :=
  ⟨by decide +kernel, by decide +kernel, by decide +kernel, by decide +kernel, by decide +kernel, by decide +kernel,
   by decide +kernel, by decide +kernel, by decide +kernel, by decide +kernel,
   by decide, by decide, by decide, by decide, by decide, by decide, by decide, by decide, by decide⟩

/-- non-vacuity of `C18_ser_blame_raw`: the row as a raw stream `key "a", value "s"` — well-formed, `a: Int32` refuses the
string; and a malformed stream (two keys) has no blamed position -/
example :
    isAlternating (.key (.str "a") (.value (.str "s") .nil)) = true ∧
    blameRow {} exSchema2 (.mapRaw (.key (.str "a") (.value (.str "s") .nil))) = ["$.a"] ∧
    (do let root ← newRoot exSchema2; push {} root (.mapRaw (.key (.str "a") (.value (.str "s") .nil)))) =
      .error (.errCtx "serialize_str is not supported" [("data_type", "Int32"), ("field", "$.a")]) ∧
    noRawe (toEntries (.key (.str "a") (.value (.str "s") .nil))) = true ∧
    blameRow {} exSchema2 (.mapRaw (.key (.str "a") (.key (.str "m") .nil))) = [] :=
  ⟨by decide, by decide +kernel, by decide +kernel, by decide, by decide +kernel⟩

/-! ### the cell `tuple_variant_list_cell`: a tuple variant presented to a variant whose column is a LIST -/

/-- `u: Union { B: List<Int32> }` receives the tuple variant `B(1, "x")`.  `Spec.interpDT` reads the payload as a tuple
presented to the variant's column (a list), and so does the crate: `UnionBuilder::serialize_tuple_variant` hands
`serialize_tuple_struct` to the variant's `ListBuilder`, whose element builder refuses the string and is named —
`$.u.B.element` / `Int32`, the innermost field (confirmed on the real crate: corpus case
`corpus/build/c18_tuple_variant_list.jsonl`).  `Spec.blameDT` blames the tuple AT the variant's column, as for a tuple
presented to a list / fixed-size-list column directly.  The answer of the catch-all arm for a tuple variant whose column
is neither a struct nor a list, `[{path}.{variant}, {path}]` = `["$.u.B", "$.u"]`, would name only ANCESTORS of the field
that failed here — the reading the property text rules out ("never … only of an ancestor when a deeper field failed"): third
conjunct. -/
theorem tuple_variant_list_cell :
    blameRow {} exSchema3 (.record "R" (.cons "a" 0 (.int .i32 1)
      (.cons "u" 1 (.tupleVariant "E" 1 "B" (.cons (.int .i32 1) (.cons (.str "x") .nil))) .nil))) = ["$.u.B.element"] ∧
    (do let root ← newRoot exSchema3
        push {} root (.record "R" (.cons "a" 0 (.int .i32 1)
          (.cons "u" 1 (.tupleVariant "E" 1 "B" (.cons (.int .i32 1) (.cons (.str "x") .nil))) .nil)))) =
      .error (.errCtx "serialize_str is not supported" [("data_type", "Int32"), ("field", "$.u.B.element")]) ∧
    "$.u.B.element" ∉ ["$.u.B", "$.u"] :=
  ⟨by decide +kernel, by decide +kernel, by decide⟩

/-! ### capacity errors (outside `blameDT`: the mapping is defined) are reported by the builder that owns the counter -/

def isFlatOwner : B → Bool
  | .bytes _ _ _ _ _ | .bytesView _ _ _ _ _ => true
  | _ => false

/-- the scalar calls (`serialize_unit_struct` is not one of them: with repo fix ae2fc46 its default forwards to
`serialize_unit`, the null path — `pushNone`, which touches no capacity-limited counter) -/
def isScalarCall : SVal → Bool
  | .bool _ | .int _ _ | .f32 _ | .f64 _ | .char _ | .str _ | .bytes _ => true
  | _ => false

/-- **C18_capacity_blame.**
(1) List builders (`List` / `LargeList`), the owners of an offsets vector: on a sequence (any of the three sequence
calls) the list builder's OWN code — `callBody`, the body without its `.ctx(self)` — fails only with `offset overflow`,
only when the last offset plus the number of elements really exceeds the offset type's maximum, and then the error is
annotated with the list's own path and label (never with the child's, never with an ancestor's).  With
`push_error_deepest` (every annotated error is the own failure of some builder of the subtree) this locates every offset
overflow of a list at the list.
(2) The flat owners of a capacity-limited counter — `Utf8` / `Binary` builders (data offsets), view builders (lengths
and buffer offsets beyond `i32::MAX`) — annotate EVERY error of a scalar call with their own path and label.
(3) Map builders, the other owners of an offsets vector: on a map (`serialize_map` + entries + `end`) the map builder's
own code fails only with `offset overflow`, only when the last offset plus the number of entries really exceeds
`i32::MAX`, and then the error is annotated with the map's own path and `Map(..)` — not with the keys' / values' /
entries' position.
(4) `ListBuilder::serialize_bytes` (every byte an element): the same as (1) with the number of bytes.
(5) Dictionary builders (corrected 2026-09-29: the key and the value child are the innermost fields being processed while
the dictionary builder feeds them).  An annotated error of a scalar call on a dictionary builder is
  * the dictionary's own — `{p}` / `Dictionary(..)` — exactly for a call without a string form (its own code refuses it), or
  * for a call with the string form `s`: the error of `self.values.serialize_str(s)`, with the annotation the VALUE
    builder's wrapper (or a builder below it) gave it — a string the value type cannot take, the value builder's
    capacity —, or the error of `idx.serialize(Mut(self.indices))`, with the annotation of the KEY builder's wrapper;
  and the key builder `build_builder` constructs (an integer leaf of type `t` at `{p}.key`) fails on the index `i` only
  with `out of range integral type conversion attempted`, only when `i` is outside the key type's range (more distinct
  values than the key type holds), under `{p}.key` and the key type's label — what the crate does
  (`Dictionary(Int8, Utf8)`, 200 distinct strings: `field: "$.d.key"`, `data_type: "Int8"`). -/
theorem C18_capacity_blame (ext : Ext) [ExtPlain ext] :
    (∀ (p : String) (large : Bool) (fm : FieldMeta) (v : Validity) (offs : List Int) (el : B) (xs : SVals) (x : SVal)
      (msg : String), x = .seq xs ∨ x = .tuple xs ∨ (∃ nm, x = .tupleStruct nm xs) → WFH (.list p large fm v offs el) →
      callBody ext (.list p large fm v offs el) (.val x) = .error (.err msg) →
      msg = "offset overflow" ∧ ((dec el).length : Int) + xs.length > offMax large ∧
      push ext (.list p large fm v offs el) x =
        .error (.errCtx "offset overflow" [("data_type", if large then "LargeList" else "List"), ("field", p)])) ∧
    (∀ (b : B) (x : SVal) (msg : String) (ann : List (String × String)), isFlatOwner b = true → isScalarCall x = true →
      push ext b x = .error (.errCtx msg ann) → ann = [("data_type", b.label), ("field", b.path)]) ∧
    (∀ (p : String) (mm : MapMeta) (v : Validity) (offs : List Int) (ks vs : B) (es : SEntries) (msg : String),
      WFH (.map p mm v offs ks vs) → callBody ext (.map p mm v offs ks vs) (.val (.map es)) = .error (.err msg) →
      msg = "offset overflow" ∧ ((dec ks).length : Int) + elen es > offMax false ∧
      push ext (.map p mm v offs ks vs) (.map es) =
        .error (.errCtx "offset overflow" [("data_type", "Map(..)"), ("field", p)])) ∧
    (∀ (p : String) (large : Bool) (fm : FieldMeta) (v : Validity) (offs : List Int) (el : B) (bs : Bytes) (msg : String),
      WFH (.list p large fm v offs el) → callBody ext (.list p large fm v offs el) (.val (.bytes bs)) = .error (.err msg) →
      msg = "offset overflow" ∧ ((dec el).length : Int) + bs.length > offMax large ∧
      push ext (.list p large fm v offs el) (.bytes bs) =
        .error (.errCtx "offset overflow" [("data_type", if large then "LargeList" else "List"), ("field", p)])) ∧
    ((∀ (p : String) (idx vals : B) (index : List String) (x : SVal) (msg : String) (ann : List (String × String)),
      isScalarCall x = true → push ext (.dictionary p idx vals index) x = .error (.errCtx msg ann) →
      (scalarToString ext x = none ∧ ann = [("data_type", "Dictionary(..)"), ("field", p)]) ∨
      (∃ s, scalarToString ext x = some s ∧
        (ctx vals.ann (pushScalar ext vals (.str s)) = .error (.errCtx msg ann) ∨
         ∃ i : Nat, i ≤ index.length ∧ ctx idx.ann (pushScalar ext idx (.int .u64 i)) = .error (.errCtx msg ann)))) ∧
     (∀ (kp : String) (t : IntTy) (v : Validity) (ivals : List Int) (i : Nat) (msg : String) (ann : List (String × String)),
      ctx (B.leaf kp (.int t) v ivals).ann (pushScalar ext (.leaf kp (.int t) v ivals) (.int .u64 i)) = .error (.errCtx msg ann) →
      msg = "out of range integral type conversion attempted" ∧ t.inRange i = false ∧
      ann = [("data_type", (B.leaf kp (.int t) v ivals).label), ("field", kp)])) := by
  refine ⟨?_, ?_, ?_, ?_, ?_, ?_⟩
  · intro p large fm v offs el xs x msg hx hw hbody
    have hw' := hw
    simp only [WFH] at hw'
    have hlast := hw'.1.2.1
    obtain ⟨v', hv'⟩ := setValidity_true_total v (offs.length - 1)
    have key : ∀ k, seqLikeWith (fun large el offs => pushElems ext large el offs xs) (fun el c => pushCountElems ext el c xs)
        (fun s => pushTupleElems ext s xs) (u8All xs) (.list p large fm v offs el) k = .error (.err msg) →
        msg = "offset overflow" ∧ ((dec el).length : Int) + xs.length > offMax large := by
      intro k hk
      simp only [seqLikeWith, hv', duplicateLast_total hlast, bind, Except.bind] at hk
      cases hpe : pushElems ext large el (offs ++ [((dec el).length : Int)]) xs with
      | ok r => rw [hpe] at hk; cases hk
      | error e =>
        rw [hpe] at hk
        simp only at hk
        cases hk
        exact pushElems_plain ext large xs el _ _ msg (by simp) (by omega) hpe
    have hres : msg = "offset overflow" ∧ ((dec el).length : Int) + xs.length > offMax large := by
      rcases hx with rfl | rfl | ⟨nm, rfl⟩
      · exact key .seq (by simpa [callBody, valBody] using hbody)
      · exact key .tuple (by simpa [callBody, valBody] using hbody)
      · exact key .tupleStruct (by simpa [callBody, valBody] using hbody)
    refine ⟨hres.1, hres.2, ?_⟩
    obtain ⟨rfl, _⟩ := hres
    have hne : ∀ v', x ≠ .some v' := by rcases hx with rfl | rfl | ⟨nm, rfl⟩ <;> (intro v' h; cases h)
    have hnn : ∀ n' v', x ≠ .newtypeStruct n' v' := by rcases hx with rfl | rfl | ⟨nm, rfl⟩ <;> (intro n' v' h; cases h)
    rw [own_failure_blames_self ext _ x _ hne hnn hbody]
    rfl
  · intro b x msg ann hb hx h
    have hform : push ext b x = ctx b.ann (pushScalar ext b x) := by
      cases x <;> simp [isScalarCall] at hx
      case bytes bs => cases b <;> simp [isFlatOwner] at hb <;> (unfold push; rfl)
      all_goals (unfold push; rfl)
    rw [hform] at h
    cases hr : pushScalar ext b x with
    | ok r => rw [hr] at h; cases h
    | error e =>
      rw [hr] at h
      cases e with
      | err m => simp [SaModel.ctx, B.ann] at h; exact h.2.symm
      | panic s => cases h
      | errCtx m a =>
        have hnd : b.isDict = false := by cases b <;> first | rfl | simp [isFlatOwner] at hb
        exact absurd hr ((pushScalar_noctx ext b x hnd).out m a)
  · intro p mm v offs ks vs es msg hw hbody
    have hw' := hw
    simp only [WFH] at hw'
    have hlast := hw'.1.2.1
    obtain ⟨v', hv'⟩ := setValidity_true_total v (offs.length - 1)
    have hres : msg = "offset overflow" ∧ ((dec ks).length : Int) + elen es > offMax false := by
      simp only [callBody, valBody, hv', duplicateLast_total hlast, bind, Except.bind] at hbody
      cases hpe : pushMapEntries ext (offs ++ [((dec ks).length : Int)]) ks vs es with
      | ok r => rw [hpe] at hbody; cases hbody
      | error e =>
        rw [hpe] at hbody
        simp only at hbody
        cases hbody
        exact pushMapEntries_plain ext es _ ks vs _ msg (by simp) (by omega) hpe
    refine ⟨hres.1, hres.2, ?_⟩
    obtain ⟨rfl, _⟩ := hres
    rw [own_failure_blames_self ext _ (.map es) _ (by intro v' h; cases h) (by intro n' v' h; cases h) hbody]
    rfl
  · intro p large fm v offs el bs msg hw hbody
    have hw' := hw
    simp only [WFH] at hw'
    have hlast := hw'.1.2.1
    obtain ⟨v', hv'⟩ := setValidity_true_total v (offs.length - 1)
    have hres : msg = "offset overflow" ∧ ((dec el).length : Int) + bs.length > offMax large := by
      simp only [callBody, valBody, hv', duplicateLast_total hlast, bind, Except.bind] at hbody
      cases hpe : pushByteElems ext large el (offs ++ [((dec el).length : Int)]) bs with
      | ok r => rw [hpe] at hbody; cases hbody
      | error e =>
        rw [hpe] at hbody
        simp only at hbody
        cases hbody
        exact pushByteElems_plain ext large bs el _ _ msg (by simp) (by omega) hpe
    refine ⟨hres.1, hres.2, ?_⟩
    obtain ⟨rfl, _⟩ := hres
    rw [own_failure_blames_self ext _ (.bytes bs) _ (by intro v' h; cases h) (by intro n' v' h; cases h) hbody]
    rfl
  · intro p idx vals index x msg ann hx h
    have hform : push ext (.dictionary p idx vals index) x =
        ctx (B.dictionary p idx vals index).ann (pushScalar ext (.dictionary p idx vals index) x) := by
      cases x <;> simp [isScalarCall] at hx <;> (unfold push; rfl)
    rw [hform] at h
    unfold pushScalar at h
    simp only at h
    cases hs : scalarToString ext x with
    | none =>
      left
      simp only [hs, notSupported, SaModel.fail, SaModel.ctx, B.ann] at h
      simp at h
      exact ⟨rfl, h.2.symm⟩
    | some s =>
      right
      refine ⟨s, rfl, ?_⟩
      simp only [hs] at h
      -- an annotated error of a child passes the dictionary's own wrapper unchanged; a plain error cannot come out of a
      -- child's wrapper
      have hpass : ∀ {α} (r : R α), ctx (B.dictionary p idx vals index).ann r = .error (.errCtx msg ann) →
          (∀ m, r ≠ .error (.err m)) → r = .error (.errCtx msg ann) := by
        intro α r hr hnp
        cases r with
        | ok v => cases hr
        | error e =>
          cases e with
          | err m => exact absurd rfl (hnp m)
          | panic s => cases hr
          | errCtx m a => exact hr
      have hkey : ∀ i : Int, ∀ m, ctx idx.ann (pushScalar ext idx (.int .u64 i)) ≠ .error (.err m) := fun i m => by
        rw [ann_eq_posAnn]; exact ctx_never_plain _ _ _
      have hval : ∀ m, ctx vals.ann (pushScalar ext vals (.str s)) ≠ .error (.err m) := fun m => by
        rw [ann_eq_posAnn]; exact ctx_never_plain _ _ _
      cases hix : indexOfName index s with
      | some i =>
        simp only [hix] at h
        have hlt := Build.indexOfName_lt hix
        have h' := hpass _ h (by
          intro m hm
          rcases bind_err_plain hm with h1 | ⟨_, _, h2⟩
          · exact hkey _ m h1
          · cases h2)
        right
        refine ⟨i, Nat.le_of_lt hlt, ?_⟩
        cases hk : ctx idx.ann (pushScalar ext idx (.int .u64 i)) with
        | ok v => rw [hk] at h'; cases h'
        | error e => rw [hk] at h'; exact h'
      | none =>
        simp only [hix] at h
        have h' := hpass _ h (by
          intro m hm
          rcases bind_err_plain hm with h1 | ⟨_, _, h2⟩
          · exact hval m h1
          · rcases bind_err_plain h2 with h3 | ⟨_, _, h4⟩
            · exact hkey _ m h3
            · cases h4)
        cases hv : ctx vals.ann (pushScalar ext vals (.str s)) with
        | error e => rw [hv] at h'; exact .inl h'
        | ok vals' =>
          rw [hv] at h'
          right
          refine ⟨index.length, Nat.le_refl _, ?_⟩
          cases hk : ctx idx.ann (pushScalar ext idx (.int .u64 index.length)) with
          | ok v => rw [hk] at h'; cases h'
          | error e => rw [hk] at h'; exact h'
  · intro kp t v ivals i msg ann h
    obtain ⟨v', hv'⟩ := setValidity_true_total v ivals.length
    simp only [pushScalar, convLeaf, tryInto] at h
    by_cases hr : t.inRange (i : Int) = true
    · simp [hr, hv', bind, Except.bind, pure, Except.pure, SaModel.ctx] at h
    · simp only [hr, Bool.false_eq_true, if_false, SaModel.fail, bind, Except.bind, SaModel.ctx, B.ann] at h
      simp at h
      exact ⟨h.1.symm, by simpa using hr, h.2.symm⟩

/-- non-vacuity of (5), the dictionary key range: `Dictionary(Int8, Utf8)` holding 128 values refuses the 129th; the
error is the KEY builder's, `$.d.key` / `Int8` — the key child is the innermost field being processed (what the crate
reports: `saharness build`, 200 distinct strings into `Dictionary(Int8, Utf8)`; corpus/build/c18_dict_children.jsonl) -/
example :
    push {} (.dictionary "$.d" (.leaf "$.d.key" (.int .i8) none []) (.bytes "$.d.value" .utf8 none [0] [])
      ((List.range 128).map toString)) (.str "x") =
    .error (.errCtx "out of range integral type conversion attempted" [("data_type", "Int8"), ("field", "$.d.key")]) := by
  decide +kernel

/-- non-vacuity of (5), the value child: `Dictionary(Int8, Int32)` receives `"5"` — `serialize_str is not supported`
under `$.d.value` / `Int32`; `Dictionary(Int16, Date32)` (the default `Ext` parses nothing: message `ext`) receives `"x"` — the parse
error under `$.d.value` / `Date32`; a call without a string form (`serialize_bytes`) is the dictionary's own -/
example :
    push {} (.dictionary "$.d" (.leaf "$.d.key" (.int .i8) none []) (.leaf "$.d.value" (.int .i32) none []) []) (.str "5") =
      .error (.errCtx "serialize_str is not supported" [("data_type", "Int32"), ("field", "$.d.value")]) ∧
    push {} (.dictionary "$.d" (.leaf "$.d.key" (.int .i16) none []) (.leaf "$.d.value" .date32 none []) []) (.str "x") =
      .error (.errCtx "ext" [("data_type", "Date32"), ("field", "$.d.value")]) ∧
    push {} (.dictionary "$.d" (.leaf "$.d.key" (.int .i8) none []) (.leaf "$.d.value" (.int .i32) none []) []) (.bytes [1]) =
      .error (.errCtx "serialize_bytes is not supported" [("data_type", "Dictionary(..)"), ("field", "$.d")]) :=
  ⟨by decide +kernel, by decide +kernel, by decide +kernel⟩

/-- the mechanism of (3): a map builder whose last offset is `i32::MAX` refuses the next entry itself — `$.m` / `Map(..)`,
not `$.m.entries` or the key column (the state is written down directly: a reachable one holds 2^31 − 1 entries) -/
example :
    push {} (.map "$.m" ⟨"entries", false, ⟨"key", false, []⟩, ⟨"value", false, []⟩⟩ none [2147483647]
      (.bytes "$.m.entries.key" .utf8 none [0] []) (.leaf "$.m.entries.value" (.int .i32) none []))
      (.map (.cons (.str "k") (.int .i32 1) .nil)) =
    .error (.errCtx "offset overflow" [("data_type", "Map(..)"), ("field", "$.m")]) := by
  decide +kernel

/-! ### `None` into a non-nullable dictionary column (repo fix ca6f255) -/

/-- **Repaired** (`dict_null_repaired`): `d: Dictionary(Int8, Utf8)`, not nullable, receives `None`.  `Spec.blameDT`
blames the column `$.d` (the documented mapping has no null for this FIELD), and so does the crate:
`DictionaryUtf8Builder::serialize_none` checks the nullability of its key builder and raises the error itself, under
the dictionary's own path and type (a null is a value of the dictionary FIELD — nullability is a property of `d`; no
child has been handed anything when the dictionary builder's own code refuses it).  The row is inside every hypothesis
of `C18_ser_blame_record`. -/
theorem dict_null_repaired :
    blameRow {} [.mk "d" (.dictionary .int8 .utf8) false []] (.record "R" (.cons "d" 0 .none .nil)) = ["$.d"] ∧
    (do let root ← newRoot [.mk "d" (.dictionary .int8 .utf8) false []]
        push {} root (.record "R" (.cons "d" 0 .none .nil))) =
      .error (.errCtx "Cannot push null for non-nullable array" [("data_type", "Dictionary(..)"), ("field", "$.d")]) ∧
    noRaw (.record "R" (.cons "d" 0 .none .nil)) = true ∧
    total (.struct (Fields.ofList [.mk "d" (.dictionary .int8 .utf8) false []])) false [] = true :=
  ⟨by decide +kernel, by decide +kernel, by decide, by decide⟩

/-- **Pinned** (`dict_null_cell_pinned`): before ca6f255 `DictionaryUtf8Builder::serialize_none` was
`try_(|| self.indices.serialize_none().ctx(self)).ctx(self)`: the key builder's `IntBuilder::serialize_none` refuses
and annotates first, both `.ctx(self)` of the dictionary are no-ops, and the error named `$.d.key` / `Int8` — a
position the specification does not blame for a null (the null is refused for the FIELD `d`; contrast
`dict_value_child`: a string is handed to the value child, an index to the key child). -/
theorem dict_null_cell_pinned :
    (ctx (B.dictionary "$.d" (.leaf "$.d.key" (.int .i8) none []) (.bytes "$.d.value" .utf8 none [0] []) []).ann
      (ctx (B.dictionary "$.d" (.leaf "$.d.key" (.int .i8) none []) (.bytes "$.d.value" .utf8 none [0] []) []).ann
        (pushNone (.leaf "$.d.key" (.int .i8) none []))) : R B) =
      .error (.errCtx "Cannot push null for non-nullable array" [("data_type", "Int8"), ("field", "$.d.key")]) ∧
    "$.d.key" ∉ blameRow {} [.mk "d" (.dictionary .int8 .utf8) false []] (.record "R" (.cons "d" 0 .none .nil)) :=
  ⟨by decide +kernel, by decide +kernel⟩

/-! ### the value child of a dictionary column (false alarm corrected 2026-09-29)

C18 lists `dictionary` among the kinds of parent of the innermost failing field: while the dictionary builder hands a
string to its value builder, the value child `{p}.value` is the innermost field being processed.  Until this correction
`Spec.blameDT` (and the dictionary arm of `Build.pushScalar`) answered `{p}` / `Dictionary(..)` — an ANCESTOR of the
failing field — and the crate's correct answer was listed as a finding (`C18-dict-value-child-path`, removed). -/

/-- `d: Dictionary(Int8, Int32)` receives `"5"`: the value type takes no strings.  Specification and model (and the
crate: `field: "$.d.value"`, `data_type: "Int32"`) name the value child; the row is inside every hypothesis of
`C18_ser_blame_record` (`Int32` value builder: `B.refusesStr`, inside `Shape`). -/
theorem dict_value_child :
    blameRow {} [.mk "d" (.dictionary .int8 .int32) false []] (.record "R" (.cons "d" 0 (.str "5") .nil)) = ["$.d.value"] ∧
    (do let root ← newRoot [.mk "d" (.dictionary .int8 .int32) false []]
        push {} root (.record "R" (.cons "d" 0 (.str "5") .nil))) =
      .error (.errCtx "serialize_str is not supported" [("data_type", "Int32"), ("field", "$.d.value")]) ∧
    (["value"], "Int32") ∈ segsDT (.dictionary .int8 .int32) [] ∧
    noRaw (.record "R" (.cons "d" 0 (.str "5") .nil)) = true ∧
    total (.struct (Fields.ofList [.mk "d" (.dictionary .int8 .int32) false []])) false [] = true ∧
    "$.d" ∉ blameRow {} [.mk "d" (.dictionary .int8 .int32) false []] (.record "R" (.cons "d" 0 (.str "5") .nil)) :=
  ⟨by decide +kernel, by decide +kernel, by decide +kernel, by decide, by decide, by decide +kernel⟩

/-- outside `Shape` (the value builder parses strings: `C18_ser_blame` does not cover it, the run-time predicate does):
`d: Dictionary(Int16, Date32)` receives `"x"` — the specification blames the value child, the model reports the parse
error there; a NESTED dictionary hands the string on: `Dictionary(Int8, Dictionary(Int8, Int32))` blames
`$.d.value.value`; a unit variant's name is a string too; a call without a string form is the dictionary's own. -/
theorem dict_value_child_more :
    blameRow {} [.mk "d" (.dictionary .int16 .date32) false []] (.record "R" (.cons "d" 0 (.str "x") .nil)) = ["$.d.value"] ∧
    (do let root ← newRoot [.mk "d" (.dictionary .int16 .date32) false []]
        push {} root (.record "R" (.cons "d" 0 (.str "x") .nil))) =
      .error (.errCtx "ext" [("data_type", "Date32"), ("field", "$.d.value")]) ∧
    blameRow {} [.mk "d" (.dictionary .int8 (.dictionary .int8 .int32)) false []] (.record "R" (.cons "d" 0 (.int .i32 7) .nil)) =
      ["$.d.value.value"] ∧
    (do let root ← newRoot [.mk "d" (.dictionary .int8 (.dictionary .int8 .int32)) false []]
        push {} root (.record "R" (.cons "d" 0 (.int .i32 7) .nil))) =
      .error (.errCtx "serialize_str is not supported" [("data_type", "Int32"), ("field", "$.d.value.value")]) ∧
    blameRow {} [.mk "d" (.dictionary .int8 .int32) false []] (.record "R" (.cons "d" 0 (.unitVariant "E" 0 "A") .nil)) =
      ["$.d.value"] ∧
    blameRow {} [.mk "d" (.dictionary .int8 .int32) false []] (.record "R" (.cons "d" 0 (.bytes [1]) .nil)) = ["$.d"] ∧
    (do let root ← newRoot [.mk "d" (.dictionary .int8 .int32) false []]
        push {} root (.record "R" (.cons "d" 0 (.bytes [1]) .nil))) =
      .error (.errCtx "serialize_bytes is not supported" [("data_type", "Dictionary(..)"), ("field", "$.d")]) :=
  ⟨by decide +kernel, by decide +kernel, by decide +kernel, by decide +kernel, by decide +kernel, by decide +kernel,
    by decide +kernel⟩

/-! ### non-vacuity OUTSIDE `Safe`

The schema `Props.C01.exUnsafeFields` = `{s: Struct{d: Dictionary(UInt8, Utf8)}?}` (a dictionary with NON-nullable keys below
a nullable struct, `C01.exUnsafe_not_safe`), after the record `s = None`: the dictionary below the null holds the placeholder
key 0 and no value — a state that violates the strict invariant (`C01.exUnsafeAfter1_not_WFB`) and satisfies the weak one.
The next record gives the non-nullable dictionary field a `None`. -/

def exRowDictNone : SVal := .record "R" (.cons "s" 0 (.some (.record "S" (.cons "d" 0 .none .nil))) .nil)

/-- `C18_ser_blame_record` applies on that state with every hypothesis discharged … -/
example : ∀ msg ann, push {} C01.exUnsafeAfter1 exRowDictNone = .error (.errCtx msg ann) →
    ∃ segs label, (segs, label) ∈ segsDT (.struct (Fields.ofList C01.exUnsafeFields)) [] ∧
      ann = [("data_type", label), ("field", render "$" segs)] ∧
      render "$" segs ∈ blameRow {} C01.exUnsafeFields exRowDictNone := by
  intro msg ann h
  obtain ⟨hw, hn, _, _, ht, _⟩ := Build.runRows_rowsH {} C01.exUnsafeFields (C01.exUnsafeRows.take 1) _ _
    C01.exUnsafeNewRoot_eq C01.exUnsafeAfter1_run
  have hsh : Shape C01.exUnsafeAfter1 (.struct (Fields.ofList C01.exUnsafeFields)) false [] :=
    Shape.of_takeRest (ht.trans (newRoot_fresh C01.exUnsafeNewRoot_eq).2.2.symm)
      (newRoot_shape (fields := C01.exUnsafeFields) (by decide) C01.exUnsafeNewRoot_eq)
  exact C18_ser_blame_record {} C01.exUnsafeFields C01.exUnsafeNewRoot C01.exUnsafeNewRoot_eq (C01.exUnsafeRows.take 1)
    C01.exUnsafeAfter1 (by decide +kernel) exRowDictNone hw hn hsh (by decide) (by decide)
    (by unfold NoCap; decide +kernel) msg ann h

/-- … and the push does fail there, under the dictionary column's own path, which is what the specification blames -/
example : push {} C01.exUnsafeAfter1 exRowDictNone =
      .error (.errCtx "Cannot push null for non-nullable array" [("data_type", "Dictionary(..)"), ("field", "$.s.d")]) ∧
    blameRow {} C01.exUnsafeFields exRowDictNone = ["$.s.d"] := by
  constructor <;> decide +kernel

end SaModel.Props.C18
