import SaModel.Props.C18Reach
/-
C18 — capacity errors (7b item 15: "left unblamed").

`Spec.blameDT` has no position for a capacity error: the mapping is defined for the value, the implementation runs out of
offset / counter / key range.  `C18_capacity_blame` (Props/C18Blame.lean) says per builder family where the model reports
them: lists, byte / string / view builders, maps, bytes on lists, dictionary key ranges.  Here
* clause (6), the remaining owner of a capacity-limited counter — the union builder's per-variant `current_offset`
  (`C18_capacity_blame_union`);
* the global statement for reachable states (`C18_capacity_error_reachable`): an error of `push` on a record that HAS a
  meaning (`Spec.interpDT` is defined) occurs only when the sizes of the records handed to the builder exceed the head room
  of the fresh builder, and it is annotated with a position of the schema whose builder's OWN step failed on a call of the
  record — the owner of the exhausted counter, never an ancestor that merely forwarded it.
-/
namespace SaModel.Props.C18
open SaModel SaModel.Build SaModel.Spec

/-- the four calls that select variant `i` of a union -/
def isVariantCall (i : Nat) : SVal → Bool
  | .unitVariant _ j _ | .newtypeVariant _ j _ _ | .tupleVariant _ j _ _ | .structVariant _ j _ _ => j == i
  | _ => false

/-- the three ways `UnionBuilder::serialize_variant` itself fails: no such variant, the variant's row counter is at
`i32::MAX` (capacity), a type id beyond `i8` -/
theorem serializeVariant_plain {fs : BL} {types offs cur : List Int} {i : Nat} {msg : String}
    (h : serializeVariant fs types offs cur i = .error (.err msg)) :
    (fs.get? i = none ∧ msg = s!"Could not find variant {i} in Union") ∨
    (∃ co, cur[i]? = some co ∧ co + 1 > 2147483647 ∧
      msg = s!"Invalid union offsets: the offset type cannot represent the number of elements of variant {i}") ∨
    (∃ co, cur[i]? = some co ∧ ¬ co + 1 > 2147483647 ∧ i > 127 ∧ msg = "out of range integral type conversion attempted") := by
  unfold serializeVariant at h
  cases hg : fs.get? i with
  | none => rw [hg] at h; simp only [SaModel.fail] at h; cases h; exact .inl ⟨rfl, rfl⟩
  | some cm =>
    obtain ⟨c, m⟩ := cm
    rw [hg] at h
    simp only at h
    cases hc : cur[i]? with
    | none => rw [hc] at h; cases h
    | some co =>
      rw [hc] at h
      simp only at h
      by_cases h1 : co + 1 > 2147483647
      · rw [if_pos h1] at h; simp only [SaModel.fail] at h; cases h; exact .inr (.inl ⟨co, rfl, h1, rfl⟩)
      · rw [if_neg h1] at h
        by_cases h2 : i > 127
        · rw [if_pos h2] at h; simp only [SaModel.fail] at h; cases h; exact .inr (.inr ⟨co, rfl, h1, h2, rfl⟩)
        · rw [if_neg h2] at h; cases h

/-- **C18_capacity_blame_union** (clause (6) of `C18_capacity_blame`).  The union builder owns one row counter per variant
(`current_offset: Vec<i32>`).
(a) When the counter of variant `i` stands at `i32::MAX`, each of the four variant calls for `i` is refused with
`Invalid union offsets: …` under the UNION's own path and `Union(..)` — not the variant's child, not an ancestor (the
check precedes every call into the child; repo fix 217d612 made it a checked addition).
(b) Conversely the union builder's OWN code (`callBody`, the body without `.ctx(self)`) fails on a variant call only in
`serialize_variant` — unknown variant, counter at `i32::MAX`, type id beyond 127 (`serializeVariant_plain`) — and `push`
reports exactly that message under the union's own path and label. -/
theorem C18_capacity_blame_union (ext : Ext) [ExtPlain ext] (p : String) (fs : BL) (types offs cur : List Int) (i : Nat)
    (x : SVal) (hx : isVariantCall i x = true) :
    (∀ c m co, fs.get? i = some (c, m) → cur[i]? = some co → co + 1 > 2147483647 →
      push ext (.union p fs types offs cur) x =
        .error (.errCtx s!"Invalid union offsets: the offset type cannot represent the number of elements of variant {i}"
          [("data_type", "Union(..)"), ("field", p)])) ∧
    (∀ msg, callBody ext (.union p fs types offs cur) (.val x) = .error (.err msg) →
      serializeVariant fs types offs cur i = .error (.err msg) ∧
      push ext (.union p fs types offs cur) x = .error (.errCtx msg [("data_type", "Union(..)"), ("field", p)])) := by
  have hne : ∀ v', x ≠ .some v' := by cases x <;> simp [isVariantCall] at hx <;> (intro v' h; cases h)
  have hnn : ∀ n' v', x ≠ .newtypeStruct n' v' := by cases x <;> simp [isVariantCall] at hx <;> (intro n' v' h; cases h)
  have hb : ∀ msg, callBody ext (.union p fs types offs cur) (.val x) = .error (.err msg) →
      serializeVariant fs types offs cur i = .error (.err msg) := by
    intro msg h
    cases x <;> simp [isVariantCall] at hx
    all_goals
      subst hx
      simp only [callBody, valBody] at h
      rcases bind_err_plain h with h1 | ⟨⟨c, t, o, cu⟩, _, h2⟩
      · exact h1
      · exfalso
        simp only at h2
        rcases bind_err_plain h2 with h3 | ⟨c', _, h4⟩
        · first
            | exact push_not_plain ext _ _ _ h3
            | exact ctx_never_plain (c.path, c.label) _ _ (by rw [← ann_eq_posAnn]; exact h3)
            | (split at h3
               · exact ctx_never_plain _ _ _ (by rw [← ann_eq_posAnn]; exact h3)
               · exact pushNone_not_plain _ _ h3)
        · cases h4
  refine ⟨fun c m co hg hc hco => ?_, fun msg h => ⟨hb msg h, ?_⟩⟩
  · have hsv : serializeVariant fs types offs cur i = .error (.err
        s!"Invalid union offsets: the offset type cannot represent the number of elements of variant {i}") := by
      simp [serializeVariant, hg, hc, hco, SaModel.fail]
    have hbody : callBody ext (.union p fs types offs cur) (.val x) = .error (.err
        s!"Invalid union offsets: the offset type cannot represent the number of elements of variant {i}") := by
      cases x <;> simp [isVariantCall] at hx
      all_goals
        subst hx
        simp only [callBody, valBody, hsv, bind, Except.bind]
    rw [own_failure_blames_self ext _ x _ hne hnn hbody]; rfl
  · rw [own_failure_blames_self ext _ x _ hne hnn h]; rfl

/-- non-vacuity of (6): variant `A` of `u: Union<A: Null, B: Null>` has received `i32::MAX` rows (the state is written down
directly); the next row of `A` is refused under `$.u` / `Union(..)` — what the crate does (suite `overflow`, kind
`union_rows`, n = 2^31: the first refused row is annotated by the union builder) — while a row of `B` is still accepted -/
example :
    push {} (.union "$.u" (.cons (.null "$.u.A" 0) ⟨"A", true, []⟩ (.cons (.null "$.u.B" 0) ⟨"B", true, []⟩ .nil)) [] [] [2147483647, 0])
      (.unitVariant "E" 0 "A") =
      .error (.errCtx "Invalid union offsets: the offset type cannot represent the number of elements of variant 0"
        [("data_type", "Union(..)"), ("field", "$.u")]) ∧
    (push {} (.union "$.u" (.cons (.null "$.u.A" 0) ⟨"A", true, []⟩ (.cons (.null "$.u.B" 0) ⟨"B", true, []⟩ .nil)) [] [] [2147483647, 0])
      (.unitVariant "E" 1 "B")).isOk = true :=
  ⟨by decide +kernel, by decide +kernel⟩

/-- **C18_capacity_error_reachable.**  Record level, hypotheses on the input only (those of `C18_ser_blame_reachable`
without the size bound).  If the next record `x` HAS a meaning in the schema (`Spec.interpDT` is defined: nothing to blame
on any field's value) and `push` nevertheless fails, then
* the sizes of the records handed to the builder exceed the head room of the fresh root (`room root0`, a function of the
  schema): the error is a capacity error, and capacity errors occur ONLY then;
* the error is a panic (excluded by C16) or is annotated with a position `(segs, label)` of the schema at which a builder
  `b'` sits whose OWN step failed with the very message on a call issued while `x` was serialized (`OwnFails`: children
  never return plain errors, so the failing check — `offset overflow`, the key-range conversion, the union's row counter,
  a view length / buffer offset — is code of `b'` itself): the owner of the exhausted counter is named, not an ancestor
  that forwarded the error.  `C18_capacity_blame` (1)–(5) and `C18_capacity_blame_union` say per family which checks these are. -/
theorem C18_capacity_error_reachable (ext : Ext) [ExtPlain ext] (fields : List Field) (root0 : B)
    (h0 : newRoot fields = .ok root0) (hcov : fields.all coveredWF = true)
    (htot : total (.struct (Fields.ofList fields)) false [] = true)
    (rows : List SVal) (root : B) (hb : rows.foldlM (push ext) root0 = .ok root) (hrows : ∀ r ∈ rows, noRaw r = true)
    (x : SVal) (hraw : noRaw x = true) (lv : LVal)
    (hi : interpDT ext (.struct (Fields.ofList fields)) false [] x = .ok lv)
    (e : Fail) (h : push ext root x = .error e) :
    room root0 < sizeSum ext rows + vsize ext x ∧
    ((∃ site, e = .panic site) ∨
     ∃ msg segs label b' c, (segs, label) ∈ segsDT (.struct (Fields.ofList fields)) [] ∧
       e = .errCtx msg [("data_type", label), ("field", render "$" segs)] ∧
       b'.path = render "$" segs ∧ b'.label = label ∧ CallsOf x c ∧ OwnFails ext b' c msg) := by
  constructor
  · apply Nat.lt_of_not_le
    intro hsize
    have hg0 := reachable_goodH_root ext fields root0 h0 hcov htot [] root0 rfl
    have hg := reachable_goodH_root ext fields root0 h0 hcov htot rows root hb
    have hroom := foldl_push_room ext rows root0 root hg0 hrows (by omega) hb
    obtain ⟨b', h', _⟩ := Build.push_completeH ext x hraw root _ _ _ lv hg (by omega) hi
    rw [h] at h'; cases h'
  · exact push_error_deepest_in_schema ext (.struct (Fields.ofList fields)) "$" false [] root0
      (by simpa [newRoot, newDT] using h0) rows root hb x e h

/-! ### non-vacuity of `C18_capacity_error_reachable` -/

def exDictFields : List Field := [.mk "d" (.dictionary .int8 .utf8) false []]
/-- 128 records with 128 distinct strings: the `Int8` keys 0 … 127 are used up -/
def exDictRows : List SVal := (List.range 128).map fun i => .record "R" (.cons "d" 0 (.str (toString i)) .nil)
def exDictNext : SVal := .record "R" (.cons "d" 0 (.str "x") .nil)

/-- the schema `d: Dictionary(Int8, Utf8)` after 128 distinct strings, next record `{d: "x"}`: every hypothesis of
`C18_capacity_error_reachable` holds (the record has a meaning), the push fails, the sizes exceed the head room of the
fresh root (128 keys), and the named position is the owner of the exhausted range — the KEY child `$.d.key` / `Int8`
(what the crate reports: corpus/build/c18_dict_children.jsonl) -/
example :
    exDictFields.all coveredWF = true ∧ total (.struct (Fields.ofList exDictFields)) false [] = true ∧
    exDictRows.all noRaw = true ∧ noRaw exDictNext = true ∧
    (interpDT {} (.struct (Fields.ofList exDictFields)) false [] exDictNext).isOk = true ∧
    (runRows {} exDictFields exDictRows).isOk = true ∧
    runRows {} exDictFields (exDictRows ++ [exDictNext]) =
      .error (.errCtx "out of range integral type conversion attempted" [("data_type", "Int8"), ("field", "$.d.key")]) ∧
    (newRoot exDictFields).toOption.all (fun r => decide (room r < sizeSum {} exDictRows + vsize {} exDictNext)) = true :=
  ⟨by decide, by decide, by decide +kernel, by decide, by decide +kernel, by decide +kernel, by decide +kernel,
   by decide +kernel⟩

end SaModel.Props.C18
