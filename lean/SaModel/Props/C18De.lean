import SaModel.Lemmas.C18DeStruct
/-
C18 — blame against the SPECIFICATION, deserializer side (`C18_de_blame`).

`Spec.blameRead t a lv` (Spec/Blame.lean) lists the positions of the view `a` — child names from its root, with the label
of the reader family there — at which reading the slot with logical value `lv` into the Rust type `t` has no demanded
value for a reason of that position's own: written from `Read.cast` (records by field name, tuples by position, list
elements, map entries, the selected union variant, `Option` layers by null-ness), not from the readers.
`Props/C18.lean` (`read_error_deepest`) says an error names a reader whose OWN step failed; here: that reader sits at a
position the SPECIFICATION blames.  The links are `Props.C02.read_typed_decode` (where `cast` demands a value the read
succeeds: nothing to blame) and, per reader family, a characterisation of the family's own failures (tuple: fewer
fields than elements; struct: `duplicate field` / `missing field` only with repeated names or a missing required
field — key-loop invariant in Lemmas/C18DeStruct.lean; union: `unknown variant`; lists / maps: none on a decodable slot).
Proof: one lemma per target constructor (Lemmas/C18DeBasic / Seq / Tuple / Enum / Struct), structural recursion over
the target here (the recursion of `Props.C05.read_rej`).
-/
namespace SaModel.Props.C18
open SaModel SaModel.Read SaModel.Spec

mutual
theorem read_blr : ∀ (t : Target), BlR t
  | .any => blr_any
  | .ignored => blr_ignored
  | .unit => blr_scalar (m := .unit) rfl (fun _ _ => by simp only [blameRead]) (fun _ _ _ => by simp only [readAsA])
  | .unitStruct => blr_scalar (m := .unitStruct) rfl (fun _ _ => by simp only [blameRead]) (fun _ _ _ => by simp only [readAsA])
  | .bool => blr_scalar (m := .bool) rfl (fun _ _ => by simp only [blameRead]) (fun _ _ _ => by simp only [readAsA])
  | .int ty => blr_scalar (m := .int ty) rfl (fun _ _ => by simp only [blameRead]) (fun _ _ _ => by simp only [readAsA])
  | .f32 => blr_scalar (m := .f32) rfl (fun _ _ => by simp only [blameRead]) (fun _ _ _ => by simp only [readAsA])
  | .f64 => blr_scalar (m := .f64) rfl (fun _ _ => by simp only [blameRead]) (fun _ _ _ => by simp only [readAsA])
  | .char => blr_scalar (m := .char) rfl (fun _ _ => by simp only [blameRead]) (fun _ _ _ => by simp only [readAsA])
  | .string => blr_scalar (m := .string) rfl (fun _ _ => by simp only [blameRead]) (fun _ _ _ => by simp only [readAsA])
  | .str => blr_scalar (m := .str) rfl (fun _ _ => by simp only [blameRead]) (fun _ _ _ => by simp only [readAsA])
  | .bytes => blr_bytes
  | .byteBuf => blr_byteBuf
  | .option t => blr_option (read_blr t)
  | .newtype t => blr_newtype (read_blr t)
  | .seq t => blr_seq (read_blr t)
  | .tuple ts => blr_tuple (targets_blr ts)
  | .tupleStruct ts => blr_tupleStruct (targets_blr ts)
  | .map k v => blr_map (read_blr k) (read_blr v)
  | .struct tfs => blr_struct (tfields_blr tfs)
  | .enum _ vs => blr_enum (variants_kbl vs)
theorem targets_blr : ∀ (ts : Targets), ∀ t ∈ Targets.toList ts, BlR t
  | .nil, t, h => by simp [Targets.toList] at h
  | .cons t' rest, t, h => by
    simp only [Targets.toList, List.mem_cons] at h
    rcases h with h | h
    · rw [h]; exact read_blr t'
    · exact targets_blr rest t h
theorem tfields_blr : ∀ (tfs : TFields), ∀ x ∈ TFields.toList tfs, BlR x.2
  | .nil, x, h => by simp [TFields.toList] at h
  | .cons n t' rest, x, h => by
    simp only [TFields.toList, List.mem_cons] at h
    rcases h with h | h
    · rw [h]; exact read_blr t'
    · exact tfields_blr rest x h
theorem variants_kbl : ∀ (vs : TVariants), ∀ x ∈ TVariants.toList vs, KBl x.2
  | .nil, x, h => by simp [TVariants.toList] at h
  | .cons n k rest, x, h => by
    simp only [TVariants.toList, List.mem_cons] at h
    rcases h with h | h
    · rw [h]; exact kind_kbl k
    · exact variants_kbl rest x h
theorem kind_kbl : ∀ (k : VKind), KBl k
  | .unit => kbl_unit
  | .newtype t => kbl_newtype (read_blr t)
  | .tuple ts => kbl_tuple (targets_blr ts)
  | .struct tfs => kbl_struct (tfields_blr tfs)
end

/-- **C18_de_blame.**  For EVERY target type `t` (scalars, `Option`, newtype, `Vec`, `ByteBuf`, tuples, maps, structs by
field name, enums by name or index with unit / newtype / tuple / struct variants, nested to any depth), EVERY view `a`
read by a reader at path `p`, and every slot `i` whose Arrow reading is defined (`decodeAt a i = ok lv`), under the
hypotheses of `Props.C02.read_typed_decode` (the reader was built, lengths are representable, strings are UTF-8) and
`noKnown t a lv` (neither recorded known finding #23 / #24 inside the value — `exclusion_23_blame` shows it is needed):
an error of the typed read carries `field` = `render p segs` and `data_type` = `label` for a position `(segs, label)` the
SPECIFICATION `Spec.blameRead t a lv` blames for this value — the deepest positions at which `Read.cast` demands no
value, or a container whose own structural condition fails; never a sibling, never only an ancestor of a deeper
failure.  `label` is the label of a reader of the view (`segsArr a`, the walk `reader_paths_assembled` is about) whose
path is the named one. -/
theorem C18_de_blame (t : Target) (p : String) (a : Arr) (i : Nat) (lv : LVal) (msg : String) (ann : List (String × String))
    (h : decodeAt a i = .ok lv) (hn : new Fixes.all a = .ok ()) (hp : physical a = true) (hu : utf8Ok lv = true)
    (hk : noKnown t a lv = true)
    (he : readAsA AnnFixes.all Fixes.all p t a i = .error (.errCtx msg ann)) :
    ∃ segs label, (segs, label) ∈ blameRead t a lv ∧ ann = [("data_type", label), ("field", render p segs)] ∧
      ∃ segs', (segs', label) ∈ segsArr a ∧ render p segs' = render p segs := by
  obtain ⟨q, hq, rfl⟩ := read_blr t p a i lv h hn hp hu hk msg ann he
  simp only [positionsAt, List.mem_map] at hq
  obtain ⟨x, hx, rfl⟩ := hq
  refine ⟨x.1, x.2, hx, rfl, ?_⟩
  obtain ⟨q', hq', he'⟩ := readAsA_within AnnFixes.all Fixes.all t p a i msg _ he
  rw [rpositions_eq] at hq'
  simp only [positionsAt, List.mem_map] at hq'
  obtain ⟨y, hy, rfl⟩ := hq'
  simp only [posAnn, List.cons.injEq, Prod.mk.injEq, true_and, and_true] at he'
  exact ⟨y.1, by rw [he'.1]; exact hy, he'.2.symm⟩

/-- the same in the form the property text uses: the value under the key `field` / `data_type` -/
theorem C18_de_blame_keys (t : Target) (p : String) (a : Arr) (i : Nat) (lv : LVal) (msg : String) (ann : List (String × String))
    (h : decodeAt a i = .ok lv) (hn : new Fixes.all a = .ok ()) (hp : physical a = true) (hu : utf8Ok lv = true)
    (hk : noKnown t a lv = true)
    (he : readAsA AnnFixes.all Fixes.all p t a i = .error (.errCtx msg ann)) :
    ∃ segs label, (segs, label) ∈ blameRead t a lv ∧ ann.lookup "field" = some (render p segs) ∧
      ann.lookup "data_type" = some label := by
  obtain ⟨segs, label, hm, rfl, _⟩ := C18_de_blame t p a i lv msg ann h hn hp hu hk he
  exact ⟨segs, label, hm, by simp [List.lookup], by simp [List.lookup]⟩

/-- the record level (`Deserializer::get(idx)` + `T::deserialize`): the root struct reader sits at `$` -/
theorem C18_de_blame_record (t : Target) (fm : FieldMeta) (col : Arr) (idx : Nat) (lv : LVal) (msg : String)
    (ann : List (String × String))
    (h : decodeAt (record fm col) idx = .ok lv) (hn : new Fixes.all (record fm col) = .ok ())
    (hp : physical (record fm col) = true) (hu : utf8Ok lv = true) (hk : noKnown t (record fm col) lv = true)
    (he : readRecordA AnnFixes.all Fixes.all t fm col idx = some (.error (.errCtx msg ann))) :
    ∃ segs label, (segs, label) ∈ blameRead t (record fm col) lv ∧ ann = [("data_type", label), ("field", render "$" segs)] := by
  unfold readRecordA at he
  split at he
  · cases he
  · simp only [Option.some.injEq] at he
    obtain ⟨segs, label, hm, ha, _⟩ := C18_de_blame t "$" (record fm col) idx lv msg ann h hn hp hu hk he
    exact ⟨segs, label, hm, ha⟩

/-- nothing is blamed exactly where `cast` demands a value, for the cells decided by `cast` alone (scalar targets) -/
theorem blameRead_scalar_nil_iff (t : Target) (m : Method) (_ : methodOf t = some m) (a : Arr) (lv : LVal) :
    blameScalar t a lv = [] ↔ Claim.isMust (castScalar t a lv) = true := by
  unfold blameScalar
  cases Claim.isMust (castScalar t a lv) <;> simp [here]

/-! ### non-vacuity: every hypothesis of `C18_de_blame` met, the read fails, and the blame is computed -/

def deLv (a : Arr) (i : Nat) : LVal := match decodeAt a i with | .ok lv => lv | .error _ => .null

def deAnn : R DVal → Option (List (String × String))
  | .error (.errCtx _ a) => some a
  | _ => none

/-- (target, view, slot, the blamed positions):
* leaf: Int32 128 into `i8`; `char` from a surrogate; null into a non-`Option` `i32`;
* the offending element two readers below the root (`Vec<struct {x: Option<u8>}>`, value 256): blame `element.x`;
* struct: a required field without a column of its name — the struct itself; tuple longer than the struct — the struct;
* map column: the offending VALUE of the second entry (`entries.value`), not the key, not the map;
* union: the enum has no variant `B` — the union; the payload of variant `A` is out of range — the variant's column -/
def deCases : List (Target × Arr × Nat × List RPos) :=
  [ (.int .i8, .prim .int32 none [128], 0, [([], "Int32")]),
    (.char, .prim .uint32 none [55296], 0, [([], "UInt32")]),
    (.int .i32, .prim .int32 (some ⟨[0], 0⟩) [7], 0, [([], "Int32")]),
    (.seq (.struct (.cons "x" (.option (.int .u8)) .nil)),
      .list false none [0, 2] ⟨"element", false, []⟩
        (.struct 2 none (.cons ⟨"x", true, []⟩ (.prim .int32 (some ⟨[3], 0⟩) [1, 256]) .nil)), 0,
      [(["element", "x"], "Int32")]),
    (.struct (.cons "y" (.int .i32) .nil), .struct 1 none (.cons ⟨"x", false, []⟩ (.prim .int32 none [42]) .nil), 0,
      [([], "Struct(..)")]),
    (.tuple (.cons (.int .i32) (.cons (.int .i32) .nil)),
      .struct 1 none (.cons ⟨"x", false, []⟩ (.prim .int32 none [42]) .nil), 0, [([], "Struct(..)")]),
    (.map (.int .u8) (.int .i8),
      .map none [0, 2] ⟨"entries", false, ⟨"key", false, []⟩, ⟨"value", false, []⟩⟩ (.prim .uint8 none [1, 2]) (.prim .int32 none [5, 300]),
      0, [(["entries", "value"], "Int32")]),
    (.enum false (.cons "A" .unit .nil),
      .union [1] (some [0]) (.cons 0 ⟨"A", false, []⟩ (.null 0) (.cons 1 ⟨"B", false, []⟩ (.null 1) .nil)), 0,
      [([], "Union(..)")]),
    (.enum false (.cons "A" (.newtype (.int .u8)) .nil),
      .union [0] (some [0]) (.cons 0 ⟨"A", false, []⟩ (.prim .int32 none [-1]) .nil), 0, [(["A"], "Int32")]) ]

example : ∀ c ∈ deCases, decodeAt c.2.1 c.2.2.1 = .ok (deLv c.2.1 c.2.2.1) ∧ new Fixes.all c.2.1 = .ok () ∧
    physical c.2.1 = true ∧ utf8Ok (deLv c.2.1 c.2.2.1) = true ∧ noKnown c.1 c.2.1 (deLv c.2.1 c.2.2.1) = true ∧
    blameRead c.1 c.2.1 (deLv c.2.1 c.2.2.1) = c.2.2.2 ∧
    (deAnn (readAsA AnnFixes.all Fixes.all "$" c.1 c.2.1 c.2.2.1)).map (fun ann => (ann.lookup "field", ann.lookup "data_type")) =
      c.2.2.2.head?.map (fun q => (some (render "$" q.1), some q.2)) := by
  decide +kernel

/-! ### the exclusion is needed (known finding #23, as it shows in the annotations) -/

/-- #23: the struct slot is NULL and the target is a non-`Option` tuple.  The specification blames the struct (null into a
non-`Option` target: `cast` says the read must fail THERE); the struct reader does not look at its validity in the typed
reads, reads the hidden value 300 of the child as `u8`, and the child reports `$.x` / `Int32`.  `noKnown` is false. -/
theorem exclusion_23_blame :
    let a : Arr := .struct 1 (some ⟨[0], 0⟩) (.cons ⟨"x", false, []⟩ (.prim .int32 none [300]) .nil)
    let t : Target := .tuple (.cons (.int .u8) .nil)
    decodeAt a 0 = .ok .null ∧ new Fixes.all a = .ok () ∧ physical a = true ∧ noKnown t a .null = false ∧
    blameRead t a .null = [([], "Struct(..)")] ∧
    deAnn (readAsA AnnFixes.all Fixes.all "$" t a 0) = some [("data_type", "Int32"), ("field", "$.x")] := by decide +kernel

end SaModel.Props.C18
