import SaModel.Lemmas.C18Reps
import SaModel.Read.Label
import SaModel.Generated.Annotations
/-
C18, tie by TRANSLATION: the annotation tables of every `impl … Context for X` in
serde_arrow/src/internal/{serialization,deserialization}/*.rs are extracted from the sources before every build
(translator/tables2.py → SaModel/Generated/Annotations.lean).  The theorems below are re-checked by `decide`
against that file, so a change of the Rust sources that breaks one of them breaks the build of this module, and
`./check C18` reports it as an obligation that no longer checks.

  gen_keys               every impl that writes annotations writes exactly `field` (= `&self.path`) and then
                         `data_type` (= a label), in that order, with these very keys
  gen_silent             the impls that write nothing are exactly the four helpers / wrappers that must not
  gen_variant_context    every variant of `ArrayBuilder` / `ArrayDeserializer` has exactly one `impl Context`, and
                         it writes annotations
  gen_builder_labels     for every arm `T::C => A::V(..)` of `build_builder`: the label the Rust impl of `V` renders
                         (literal, `match I::NAME`, associated const — evaluated at the instantiation the enum names)
                         is the label of the builder the MODEL constructs (`newDT`) for a data type with constructor `C`
  gen_reader_labels      the same for `ArrayDeserializer::new` and `Read.label`
  label_family_*         (about the model, for ALL data types / arrays) the label's family name is the constructor
                         of the data type, the one exception being the `UnknownVariant` placeholder

The `#eval` at the end of each section is a diagnostic only: when an obligation fails it names the offending Rust
type in the build log (which `./check` copies into the replay file).  The obligations are the theorems.
-/
namespace SaModel.Props.C18Gen
open SaModel SaModel.Build SaModel.Generated.Annotations SaModel.Lemmas.C18Reps

/-! ### keys -/

def keysOk (c : Ctx) : Bool := c.keys == ["field", "data_type"] && c.args == ["path", "label"]

/-- **every `impl Context` that annotates writes `field` = its path, then `data_type` = its label** -/
theorem gen_keys : ∀ c ∈ contexts, c.shape = "set" → c.keys = ["field", "data_type"] ∧ c.args = ["path", "label"] := by
  decide

/-- the impls that write nothing: the two enum wrappers and the root (they forward to the builder / reader they
wrap), and the three one-value helper serializers (`U8Serializer` ×2, `KeyLookupSerializer`), whose errors are
annotated by the builder that calls them (`u8Of`, `keyStr` in the model return plain failures) -/
theorem gen_silent :
    (contexts.filter (·.shape != "set")).map (fun c => (c.side, c.rustType, c.shape)) =
      [("ser", "ArrayBuilder", "dispatch"), ("ser", "U8Serializer", "empty"), ("ser", "U8Serializer", "empty"),
       ("ser", "OuterSequenceBuilder", "newtype"), ("ser", "KeyLookupSerializer", "empty"),
       ("de", "ArrayDeserializer", "dispatch")] := by decide

/-! ### from an enum variant to the label its Rust impl renders -/

/-- the `impl Context` that apply to `Type<arg>`: generic ones (`inst = ""`) and the one for this instantiation -/
def matching (side : String) (v : String × String × String) : List Ctx :=
  contexts.filter (fun c => c.side == side && c.base == v.2.1 && (c.inst == "" || c.inst == v.2.2))

/-- evaluate the label expression at a type argument -/
def resolve (c : Ctx) (arg : String) : Option String :=
  if c.labelKind == "literal" then c.labels.lookup ""
  else if c.labelKind == "name" then
    -- `match P::NAME { … }`: NAME of a `NamedType` is the spelling of the type
    (if namedTypes.contains arg then (match c.labels.lookup arg with | some l => some l | none => c.labels.lookup "_") else none)
  else if c.labelKind == "const" then c.labels.lookup arg
  else none

/-- the label of enum variant `v`, as the Rust sources render it -/
def rustLabel (side : String) (variants : List (String × String × String)) (v : String) : Option String :=
  match variants.find? (·.1 == v) with
  | some e =>
    match matching side e with
    | [c] => if c.shape == "set" then resolve c e.2.2 else none
    | _ => none
  | none => none

/-- every variant of the two enums has exactly one `impl Context`, which annotates, and its label is defined at
the instantiation the enum names -/
theorem gen_variant_context :
    (∀ v ∈ builderVariants, (rustLabel "ser" builderVariants v.1).isSome = true) ∧
    (∀ v ∈ readerVariants, (rustLabel "de" readerVariants v.1).isSome = true) ∧
    (builderVariants.map (·.1)).Nodup ∧ (readerVariants.map (·.1)).Nodup := by decide

/-! ### builders: Rust label = label of the builder the model constructs -/

/-- the label of the builder `build_builder` constructs in the model -/
def modelLabel (dt : DataType) (md : Metadata) : Option String :=
  match newDT "$" dt true md with
  | .ok b => some b.label
  | .error _ => none

/-- the representatives are filed under their own constructor, and the model builds a builder for each -/
theorem builderReps_sound :
    (∀ e ∈ builderReps, ∀ r ∈ e.2, r.1.ctor = e.1 ∧ (modelLabel r.1 r.2).isSome = true) ∧
    (builderReps.map (·.1)).Nodup := by decide

/-- what the Rust sources render for the arm `T::<ctor>` of `build_builder`, variant by variant -/
def rustBuilderLabels (e : String × List String) : List (Option String) := e.2.map (rustLabel "ser" builderVariants)

/-- what the model renders for the representatives of that constructor -/
def modelBuilderLabels (ctor : String) : Option (List (Option String)) :=
  (builderReps.lookup ctor).map (·.map (fun r => modelLabel r.1 r.2))

/-- **builder labels**: every arm of `build_builder` selects builders whose Rust `data_type` label is the model's,
and the model has an arm for exactly the same data type constructors -/
theorem gen_builder_labels :
    (∀ e ∈ builderCtor, modelBuilderLabels e.1 = some (rustBuilderLabels e)) ∧
    (∀ e ∈ builderReps, (builderCtor.lookup e.1).isSome = true) ∧ (builderCtor.map (·.1)).Nodup ∧
    -- every variant of the enum is constructed by some arm
    (∀ v ∈ builderVariants, (builderCtor.any (·.2.contains v.1)) = true) := by decide

/-- the arms for which Rust and model differ, with both labels: `(DataType constructor, Rust, model)` -/
def builderOffenders : List (String × List (Option String) × Option (List (Option String))) :=
  (builderCtor.filter (fun e => modelBuilderLabels e.1 != some (rustBuilderLabels e))).map
    (fun e => (e.1, rustBuilderLabels e, modelBuilderLabels e.1))

/-! ### readers -/

/-- the model's label for the reader family of a `View` constructor -/
def modelReaderLabel (ctor : String) : Option String :=
  (readerReps.find? (fun a => Read.viewCtor a == ctor)).map Read.label

theorem readerReps_sound : (readerReps.map Read.viewCtor).Nodup := by decide

/-- **reader labels**: every reader `ArrayDeserializer::new` can build for a view constructor (sixteen for
`Dictionary`) renders the model's label for that family; model and code cover the same constructors -/
theorem gen_reader_labels :
    (∀ e ∈ readerCtor, ∀ v ∈ e.2, rustLabel "de" readerVariants v = modelReaderLabel e.1 ∧ (modelReaderLabel e.1).isSome = true) ∧
    (∀ a ∈ readerReps, (readerCtor.lookup (Read.viewCtor a)).isSome = true) ∧ (readerCtor.map (·.1)).Nodup ∧
    (∀ v ∈ readerVariants, (readerCtor.any (·.2.contains v.1)) = true) := by decide

def readerOffenders : List (String × String × Option String × Option String) :=
  readerCtor.flatMap (fun e => (e.2.filter (fun v => rustLabel "de" readerVariants v != modelReaderLabel e.1)).map
    (fun v => (e.1, v, rustLabel "de" readerVariants v, modelReaderLabel e.1)))

/-! ### diagnostic: name the offender in the build log -/

def describe (c : Ctx) : String := s!"{c.file}: impl Context for {c.rustType}: keys {c.keys} args {c.args}"

def offenders : List String :=
  ((contexts.filter (fun c => c.shape == "set" && !keysOk c)).map describe) ++
  (builderOffenders.map (fun o => s!"build_builder arm T::{o.1}: Rust labels {o.2.1}, model labels {o.2.2}")) ++
  (readerOffenders.map (fun o => s!"ArrayDeserializer::new arm V::{o.1}, variant {o.2.1}: Rust label {o.2.2.1}, model label {o.2.2.2}")) ++
  ((builderVariants.filter (fun v => (rustLabel "ser" builderVariants v.1).isNone)).map
    (fun v => "ArrayBuilder::" ++ v.1 ++ " (" ++ v.2.1 ++ " " ++ v.2.2 ++ "): no unique annotating impl Context / label undefined at this instantiation")) ++
  ((readerVariants.filter (fun v => (rustLabel "de" readerVariants v.1).isNone)).map
    (fun v => "ArrayDeserializer::" ++ v.1 ++ " (" ++ v.2.1 ++ " " ++ v.2.2 ++ "): no unique annotating impl Context / label undefined at this instantiation"))

#eval show IO Unit from do
  unless offenders.isEmpty do
    throw <| IO.userError ("C18 annotation obligation broken by:\n  " ++ "\n  ".intercalate offenders)

/-! ### non-vacuity: the tables are not empty and the lookups are not trivially `none` -/

example : contexts.length = 45 ∧ (contexts.filter (·.shape == "set")).length = 39 := by decide
example : rustLabel "ser" builderVariants "U16" = some "UInt16" := by decide
example : rustLabel "ser" builderVariants "LargeList" = some "LargeList" := by decide
example : rustLabel "ser" builderVariants "BinaryView" = some "BinaryView" := by decide
example : rustLabel "de" readerVariants "LargeList" = some "LargeList(..)" := by decide
example : rustLabel "de" readerVariants "DictionaryU8I64" = some "Dictionary(..)" := by decide
example : modelBuilderLabels "Null" = some [some "<unknown variant>", some "Null"] := by decide
/-- a misspelt key is caught: the pinned `DecimalBuilder` (defect 7 in DESIGN.md) wrote `filed` -/
example : keysOk (Ctx.mk "ser" "" "DecimalBuilder" "DecimalBuilder" "" "set" ["filed", "data_type"] ["path", "label"]
    "literal" [("", "Decimal128(..)")]) = false := by decide

end SaModel.Props.C18Gen
