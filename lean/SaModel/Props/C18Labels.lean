import SaModel.Build.Builder
import SaModel.Read.Label
/-
C18 — the model's `data_type` labels and the data type, for ALL data types / arrays (DESIGN.md, decision 33:
"family of the label = constructor of the field's type").  `SaModel/Props/C18Gen.lean` proves that the labels in the
Rust sources are the model's; together: what the crate writes under `data_type` names the Arrow type of the
builder / reader that raised the error.
-/
namespace SaModel.Props.C18Labels
open SaModel SaModel.Build

/-- family name of a label: the text before `(` -/
def family (l : String) : String := String.ofList (l.toList.takeWhile (· != '('))

example : family "FixedSizeList(..)" = "FixedSizeList" := by decide
example : family "Int8" = "Int8" := by decide

/-- **reader side**: for every array, the family of the reader's label is the `View` constructor -/
theorem label_family_reader (a : Arr) : family (Read.label a) = Read.viewCtor a := by
  cases a with
  | prim ty _ _ => cases ty <;> (simp only [Read.label, Read.viewCtor]; decide)
  | time ty _ _ _ => cases ty <;> (simp only [Read.label, Read.viewCtor]; decide)
  | bytes ty _ _ _ => cases ty <;> (simp only [Read.label, Read.viewCtor]; decide)
  | bytesView ty _ _ _ => cases ty <;> (simp only [Read.label, Read.viewCtor]; decide)
  | list large _ _ _ _ => cases large <;> (simp only [Read.label, Read.viewCtor, ↓reduceIte, Bool.false_eq_true]; decide)
  | _ => simp only [Read.label, Read.viewCtor]; decide

example : family (Read.label (.list true none [0] ⟨"element", false, []⟩ (.null 0))) = "LargeList" := by decide

local macro "fam" : tactic =>
  `(tactic| (simp only [B.label, DataType.ctor, intTyLabel, ↓reduceIte, Bool.false_eq_true]; decide))

/-- **builder side**: for EVERY data type (with any path, nullability and metadata) for which the model's
`build_builder` constructs a builder, the family of the builder's label is the constructor of the data type —
the one exception being the `UnknownVariant` placeholder, which is built for a `Null` field that carries that
strategy and labels itself `<unknown variant>` (DESIGN.md, decision 33) -/
theorem label_family_builder (path : String) (dt : DataType) (nullable : Bool) (md : Metadata) (b : B)
    (h : newDT path dt nullable md = .ok b) :
    b.label = "<unknown variant>" ∧ dt = .null ∨ family b.label = dt.ctor := by
  unfold newDT at h
  split at h
  all_goals try simp only [bind, Except.bind, pure, Except.pure, mkStruct] at h
  all_goals repeat' (split at h)
  all_goals first
    | (cases h; exact .inr (by fam))
    | (cases h; exact .inl ⟨rfl, rfl⟩)
    | (simp [fail, ctx] at h; done)
    | (cases h; done)

/-- the same for a whole field -/
theorem label_family_field (path : String) (f : Field) (b : B) (h : newB path f = .ok b) :
    b.label = "<unknown variant>" ∧ f.dataType = .null ∨ family b.label = f.dataType.ctor := by
  cases f with
  | mk n dt nl md => rw [newB] at h; exact label_family_builder path dt nl md b h

/-- non-vacuity: both disjuncts occur, and a nested type meets the hypothesis -/
example : newDT "$.x" .null true [(STRATEGY_KEY, "UnknownVariant")] = .ok (.unknownVariant "$.x") ∧
    (B.unknownVariant "$.x").label = "<unknown variant>" := by decide
example : newDT "$.x" (.largeList (.mk "element" (.decimal128 10 2) true [])) true [] =
      .ok (.list "$.x" true ⟨"element", true, []⟩ (some []) [0] (.leaf "$.x.element" (.decimal 10 2) (some []) [])) ∧
    family (B.list "$.x" true ⟨"element", true, []⟩ (some []) [0] (.leaf "$.x.element" (.decimal 10 2) (some []) [])).label
      = "LargeList" := by decide

end SaModel.Props.C18Labels
