import SaModel.Build.Builder
import SaModel.Read.Label
/-
C18 — the model's `data_type` labels and the data type, for ALL data types / arrays (DESIGN.md, decision 33:
"family of the label = constructor of the field's type").  `SaModel/Props/C18Gen.lean` proves that the labels in the
Rust sources are the model's; together: what the crate writes under `data_type` names the Arrow type of the
builder / reader that raised the error.
-/
namespace SaModel.Props.C18Labels
open SaModel SaModel.Build

/-- family name of a label: the text before `(` -/
def family (l : String) : String := String.ofList (l.toList.takeWhile (· != '('))

example : family "FixedSizeList(..)" = "FixedSizeList" := by decide
example : family "Int8" = "Int8" := by decide

/-- **reader side**: for every array, the family of the reader's label is the `View` constructor -/
theorem label_family_reader (a : Arr) : family (Read.label a) = Read.viewCtor a := by
  cases a with
  | prim ty _ _ => cases ty <;> (simp only [Read.label, Read.viewCtor]; decide)
  | time ty _ _ _ => cases ty <;> (simp only [Read.label, Read.viewCtor]; decide)
  | bytes ty _ _ _ => cases ty <;> (simp only [Read.label, Read.viewCtor]; decide)
  | bytesView ty _ _ _ => cases ty <;> (simp only [Read.label, Read.viewCtor]; decide)
  | list large _ _ _ _ => cases large <;> (simp only [Read.label, Read.viewCtor, ↓reduceIte, Bool.false_eq_true]; decide)
  | _ => simp only [Read.label, Read.viewCtor]; decide

example : family (Read.label (.list true none [0] ⟨"element", false, []⟩ (.null 0))) = "LargeList" := by decide

end SaModel.Props.C18Labels
