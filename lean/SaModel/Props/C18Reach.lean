import SaModel.Props.C18Blame
/-
C18 — the serializer-side blame theorems without hypotheses on the builder STATE.

`C18_ser_blame` / `C18_ser_blame_record` (Props/C18Blame.lean) take `WFH b`, `NoDictKey b`, `Shape b dt n md` and
`NoCap ext b x` of the state `b` the next value is pushed to.  Every state reached from the builder `build_builder` /
`OuterSequenceBuilder::new` constructs by successful pushes has the first three (for `Shape`: when the SCHEMA is inside the
coverage `coveredW` of the C01 completeness theorems), and the head room `room b` of such a state is bounded from below
by the head room of the fresh builder minus the sizes of the values pushed so far.  Here the derivations, and the blame
theorems with hypotheses on the INPUT only: the schema (`coveredW`, `total`), the values (`noRaw`) and their sizes.
-/
namespace SaModel.Props.C18
open SaModel SaModel.Build SaModel.Spec

/-! ### the state invariants of every reachable state -/

/-- the builder `build_builder` constructs is well formed in the weak sense (every schema) -/
theorem newDT_WFH (path : String) (dt : DataType) (n : Bool) (md : Metadata) (b0 : B)
    (h0 : newDT path dt n md = .ok b0) : WFH b0 :=
  Build.WFH_of_WFB _ (Build.newDT_fresh dt path n md b0 h0).1

/-- … and holds no dictionary-keyed dictionary (every schema: `build_builder` refuses such a key type) -/
theorem newDT_NoDictKey (path : String) (dt : DataType) (n : Bool) (md : Metadata) (b0 : B)
    (h0 : newDT path dt n md = .ok b0) : NoDictKey b0 :=
  Build.BuiltFor_NoDictKey b0 dt n (Lemmas.C03.newDT_builtFor path dt n md b0 h0)

theorem newRoot_WFH (fields : List Field) (root0 : B) (h0 : newRoot fields = .ok root0) : WFH root0 :=
  Build.WFH_of_WFB _ (Build.newRoot_fresh h0).1

/-- `WFH` and `NoDictKey` survive every successful push (no hypothesis on the values), and no push moves a builder -/
theorem foldl_push_inv (ext : Ext) : ∀ (rows : List SVal) (b0 b : B), WFH b0 → NoDictKey b0 →
    rows.foldlM (push ext) b0 = .ok b → WFH b ∧ NoDictKey b ∧ takeRest b = takeRest b0
  | [], b0, b, hw, hn, h => by simp [List.foldlM, pure, Except.pure] at h; subst h; exact ⟨hw, hn, rfl⟩
  | x :: rest, b0, b, hw, hn, h => by
    simp only [List.foldlM] at h
    obtain ⟨b1, h1, h⟩ := (Build.bind_ok _ _ _).1 h
    have ht := push_takeRest ext x b0 b1 h1
    obtain ⟨hw', hn', ht'⟩ := foldl_push_inv ext rest b1 b (push_refines ext x b0 b1 hw hn h1).1
      (NoDictKey.of_takeRest ht hn) h
    exact ⟨hw', hn', ht'.trans ht⟩

/-- **Reachable states are good** (`reachable_goodH`): a builder created by `build_builder` at `path` for a type inside
the coverage of the C01 completeness theorems (`coveredW dt`: every type but dictionaries whose value type parses strings,
`Utf8View` values and nested dictionaries; `total`: what `serialize_default` needs below nullable containers, at most 128
union variants), after ANY successfully pushed values, satisfies the four state hypotheses of `C18_ser_blame`. -/
theorem reachable_goodH (ext : Ext) (dt : DataType) (path : String) (n : Bool) (md : Metadata) (b0 : B)
    (h0 : newDT path dt n md = .ok b0) (hcov : coveredW dt = true) (htot : total dt n md = true)
    (rows : List SVal) (b : B) (hb : rows.foldlM (push ext) b0 = .ok b) : GoodH b dt n md := by
  obtain ⟨hw, hn, ht⟩ := foldl_push_inv ext rows b0 b (newDT_WFH path dt n md b0 h0) (newDT_NoDictKey path dt n md b0 h0) hb
  exact ⟨hw, hn, Shape.of_takeRest ht (Build.newDT_shapeW dt path n md b0 hcov h0), htot⟩

/-- the same for the root builder of `to_marrow` / `ArrayBuilder` -/
theorem reachable_goodH_root (ext : Ext) (fields : List Field) (root0 : B) (h0 : newRoot fields = .ok root0)
    (hcov : fields.all coveredWF = true) (htot : total (.struct (Fields.ofList fields)) false [] = true)
    (rows : List SVal) (root : B) (hb : rows.foldlM (push ext) root0 = .ok root) :
    GoodH root (.struct (Fields.ofList fields)) false [] := by
  obtain ⟨hw, hn, ht⟩ := foldl_push_inv ext rows root0 root (newRoot_WFH fields root0 h0) (Build.newRoot_NoDictKey h0) hb
  exact ⟨hw, hn, Shape.of_takeRest ht (Build.newRoot_shapeW hcov h0), htot⟩

/-! ### head room of a reachable state -/

/-- the sizes of the values pushed so far (`vsize`: what a value can take from the capacity-limited counters) -/
def sizeSum (ext : Ext) (rows : List SVal) : Nat := (rows.map (vsize ext)).sum

/-- every successfully pushed value without raw streams costs at most its size: the head room of the reached state is
at least the head room of the start minus the sizes pushed -/
theorem foldl_push_room (ext : Ext) {dt n md} : ∀ (rows : List SVal) (b0 b : B), GoodH b0 dt n md →
    (∀ r ∈ rows, noRaw r = true) → sizeSum ext rows ≤ room b0 → rows.foldlM (push ext) b0 = .ok b →
    room b0 ≤ room b + sizeSum ext rows
  | [], b0, b, _, _, _, h => by simp [List.foldlM, pure, Except.pure] at h; subst h; simp [sizeSum]
  | x :: rest, b0, b, hg, hraw, hsz, h => by
    simp only [List.foldlM] at h
    obtain ⟨b1, h1, h⟩ := (Build.bind_ok _ _ _).1 h
    have hsz' : vsize ext x + sizeSum ext rest ≤ room b0 := by simpa [sizeSum] using hsz
    obtain ⟨hg1, hr1⟩ := push_step hg (hraw x (List.mem_cons_self ..)) (by omega) h1
    have := foldl_push_room ext rest b1 b hg1 (fun r hr => hraw r (List.mem_cons_of_mem _ hr)) (by omega) h
    simp only [sizeSum, List.map_cons, List.sum_cons] at this ⊢
    omega

/-! ### the blame theorems for reachable states -/

/-- `C18_ser_blame` with the three derivable state hypotheses discharged: `WFH`, `NoDictKey`, `Shape` hold of every
reachable state.  Left: `NoCap ext b x` of the reached state (see `C18_ser_blame_reachable_at` for the form on the input),
for an ARBITRARY history of pushed values (raw streams included). -/
theorem C18_ser_blame_state (ext : Ext) [ExtPlain ext] (dt : DataType) (path : String) (n : Bool) (md : Metadata)
    (b0 : B) (h0 : newDT path dt n md = .ok b0) (hcov : coveredW dt = true) (htot : total dt n md = true)
    (rows : List SVal) (b : B) (hb : rows.foldlM (push ext) b0 = .ok b)
    (x : SVal) (hraw : noRaw x = true) (hcap : NoCap ext b x)
    (msg : String) (ann : List (String × String)) (h : push ext b x = .error (.errCtx msg ann)) :
    ∃ segs label, (segs, label) ∈ segsDT dt md ∧ ann = [("data_type", label), ("field", render path segs)] ∧
      render path segs ∈ blameDT ext path dt n md x :=
  have hg := reachable_goodH ext dt path n md b0 h0 hcov htot rows b hb
  C18_ser_blame ext dt path n md b0 h0 rows b hb x hg.wf hg.nd hg.shape htot hraw hcap msg ann h

/-- **C18_ser_blame_reachable_at** — hypotheses on the input only, builder at any `path`.  For every data type `dt`
inside `coveredW` / `total`, the builder `b0` `build_builder` constructs for it, every history `rows` of values without
raw streams pushed successfully, and the next value `x` (no raw streams): if the sizes of all these values fit the head
room of the FRESH builder (`room b0`: `i32::MAX`, lowered to the number of keys of the narrowest dictionary key type of
the schema — a function of `dt` alone), so that no offset / counter / key-range check can fire, then an error of the push
names a position of the schema that `Spec.blameDT` blames for `x`.

Why the remaining hypotheses are needed.  `coveredW`: outside it `Shape` — the tie between builder tree and schema the C01
completeness theorems rest on — is not established (dictionary value types that parse strings; the run-time predicate
decides those).  `total`: a nullable struct / fixed-size list / map pushes `serialize_default` into its children on a null,
which must succeed for the null to be representable; without it a child's refusal of a placeholder has no position in
`blameDT`.  `noRaw`: the C01 completeness theorem is proved for values without raw `serialize_key` / `serialize_value`
streams (`C18_ser_blame_raw` adds the well-formed top-level stream).  The size bound: capacity errors are errors about
no field's VALUE — the mapping is defined, `blameDT` is empty — and are located by `C18_capacity_blame` instead. -/
theorem C18_ser_blame_reachable_at (ext : Ext) [ExtPlain ext] (dt : DataType) (path : String) (n : Bool) (md : Metadata)
    (b0 : B) (h0 : newDT path dt n md = .ok b0) (hcov : coveredW dt = true) (htot : total dt n md = true)
    (rows : List SVal) (b : B) (hb : rows.foldlM (push ext) b0 = .ok b) (hrows : ∀ r ∈ rows, noRaw r = true)
    (x : SVal) (hraw : noRaw x = true) (hsize : sizeSum ext rows + vsize ext x ≤ room b0)
    (msg : String) (ann : List (String × String)) (h : push ext b x = .error (.errCtx msg ann)) :
    ∃ segs label, (segs, label) ∈ segsDT dt md ∧ ann = [("data_type", label), ("field", render path segs)] ∧
      render path segs ∈ blameDT ext path dt n md x := by
  have hg0 := reachable_goodH ext dt path n md b0 h0 hcov htot [] b0 rfl
  have hroom := foldl_push_room ext rows b0 b hg0 hrows (by omega) hb
  exact C18_ser_blame_state ext dt path n md b0 h0 hcov htot rows b hb x hraw (by unfold NoCap; omega) msg ann h

/-- **C18_ser_blame_reachable** — the record level (`to_marrow` / `ArrayBuilder::push`), hypotheses on the input only:
for every schema `fields` (inside `coveredWF` / `total`), every history of records pushed successfully from
`newRoot fields`, and the next record `x` — all without raw streams, their sizes within the head room of the fresh root —
an error of `push` is annotated `field` = `render "$" segs`, `data_type` = the label at `segs`, for a position `segs` of
the schema that `Spec.blameRow` blames for `x`.  No hypothesis mentions the builder state `root` (it is named only as
the result of the pushes).  Which hypothesis is needed for what: see `C18_ser_blame_reachable_at`. -/
theorem C18_ser_blame_reachable (ext : Ext) [ExtPlain ext] (fields : List Field) (root0 : B)
    (h0 : newRoot fields = .ok root0) (hcov : fields.all coveredWF = true)
    (htot : total (.struct (Fields.ofList fields)) false [] = true)
    (rows : List SVal) (root : B) (hb : rows.foldlM (push ext) root0 = .ok root) (hrows : ∀ r ∈ rows, noRaw r = true)
    (x : SVal) (hraw : noRaw x = true) (hsize : sizeSum ext rows + vsize ext x ≤ room root0)
    (msg : String) (ann : List (String × String)) (h : push ext root x = .error (.errCtx msg ann)) :
    ∃ segs label, (segs, label) ∈ segsDT (.struct (Fields.ofList fields)) [] ∧
      ann = [("data_type", label), ("field", render "$" segs)] ∧ render "$" segs ∈ blameRow ext fields x := by
  have hg0 := reachable_goodH_root ext fields root0 h0 hcov htot [] root0 rfl
  have hg := reachable_goodH_root ext fields root0 h0 hcov htot rows root hb
  have hroom := foldl_push_room ext rows root0 root hg0 hrows (by omega) hb
  exact C18_ser_blame_record ext fields root0 h0 rows root hb x hg.wf hg.nd hg.shape htot hraw
    (by unfold NoCap; omega) msg ann h

/-- the same in terms of `runRows` (the model of `to_marrow` up to `into_array`): no builder is mentioned before the
failing push -/
theorem C18_ser_blame_runRows (ext : Ext) [ExtPlain ext] (fields : List Field) (hcov : fields.all coveredWF = true)
    (htot : total (.struct (Fields.ofList fields)) false [] = true)
    (rows : List SVal) (hrows : ∀ r ∈ rows, noRaw r = true) (x : SVal) (hraw : noRaw x = true)
    (hsize : ∀ root0, newRoot fields = .ok root0 → sizeSum ext rows + vsize ext x ≤ room root0)
    (msg : String) (ann : List (String × String))
    (h : runRows ext fields (rows ++ [x]) = .error (.errCtx msg ann))
    (hprev : ∃ root, runRows ext fields rows = .ok root) :
    ∃ segs label, (segs, label) ∈ segsDT (.struct (Fields.ofList fields)) [] ∧
      ann = [("data_type", label), ("field", render "$" segs)] ∧ render "$" segs ∈ blameRow ext fields x := by
  obtain ⟨root, hprev⟩ := hprev
  cases h0 : newRoot fields with
  | error e => simp [runRows, h0, bind, Except.bind] at hprev
  | ok root0 =>
    have hb : rows.foldlM (push ext) root0 = .ok root := by simpa [runRows, h0, bind, Except.bind] using hprev
    have hx : push ext root x = .error (.errCtx msg ann) := by
      simp only [runRows, h0, bind, Except.bind, List.foldlM_append] at h
      have hb' : List.foldlM (push ext) root0 rows = Except.ok root := hb
      simp only [bind, Except.bind, hb', List.foldlM_cons, List.foldlM_nil] at h
      cases hp : push ext root x with
      | ok r => rw [hp] at h; cases h
      | error e => rw [hp] at h; exact h
    exact C18_ser_blame_reachable ext fields root0 h0 hcov htot rows root hb hrows x hraw (hsize root0 h0) msg ann hx

/-! ### the well-formed raw stream as the next record -/

theorem ShapeL_length : ∀ (bl : BL) (fs : Fields), ShapeL bl fs → bl.length = fs.toList.length
  | .nil, .nil, _ => rfl
  | .cons _ _ r, .cons (.mk _ _ _ _) rest, h => by
    simp only [ShapeL] at h
    simp only [BL.length, Fields.toList, List.length_cons, ShapeL_length r rest h.2.2.2]
  | .nil, .cons _ _, h => by simp [ShapeL] at h
  | .cons _ _ _, .nil, h => by simp [ShapeL] at h

theorem toList_ofList : ∀ (fields : List Field), (Fields.ofList fields).toList = fields
  | [] => rfl
  | f :: r => by simp only [Fields.ofList, Fields.toList, toList_ofList r]

/-- **C18_ser_blame_raw_reachable**: `C18_ser_blame_raw` at the record level with hypotheses on the input only.  The next
record is a WELL-FORMED raw stream of `serialize_key` / `serialize_value` calls (`isAlternating ops`) whose keys and values
carry no further raw streams; the schema has fewer than `usize::MAX` fields (so that a field index is never the
`UNKNOWN_KEY` marker of `StructBuilder`: the hypothesis `hbig` of `C18_ser_blame_raw`, here derived from the field count);
the size bound is stated for the entries of the stream. -/
theorem C18_ser_blame_raw_reachable (ext : Ext) [ExtPlain ext] (fields : List Field) (root0 : B)
    (h0 : newRoot fields = .ok root0) (hcov : fields.all coveredWF = true)
    (htot : total (.struct (Fields.ofList fields)) false [] = true) (hlen : fields.length ≤ UNKNOWN_KEY)
    (rows : List SVal) (root : B) (hb : rows.foldlM (push ext) root0 = .ok root) (hrows : ∀ r ∈ rows, noRaw r = true)
    (ops : SMapOps) (halt : isAlternating ops = true) (hraw : noRawe (toEntries ops) = true)
    (hsize : sizeSum ext rows + vsize ext (.map (toEntries ops)) ≤ room root0)
    (msg : String) (ann : List (String × String)) (h : push ext root (.mapRaw ops) = .error (.errCtx msg ann)) :
    ∃ segs label, (segs, label) ∈ segsDT (.struct (Fields.ofList fields)) [] ∧
      ann = [("data_type", label), ("field", render "$" segs)] ∧
      render "$" segs ∈ blameRow ext fields (.mapRaw ops) := by
  have hg0 := reachable_goodH_root ext fields root0 h0 hcov htot [] root0 rfl
  have hg := reachable_goodH_root ext fields root0 h0 hcov htot rows root hb
  have hroom := foldl_push_room ext rows root0 root hg0 hrows (by omega) hb
  have hbig : ∀ p len v fs c nx sn, root = .struct p len v fs c nx sn → fs.length ≤ UNKNOWN_KEY := by
    intro p len v fs c nx sn hr
    have hsh := hg.shape
    rw [hr] at hsh
    simp only [Shape] at hsh
    obtain ⟨_, sfs, hs, hl⟩ := hsh
    cases hs
    rw [ShapeL_length fs _ hl, toList_ofList]; exact hlen
  exact C18_ser_blame_raw ext (.struct (Fields.ofList fields)) "$" false [] root0 (by simpa [newRoot, newDT] using h0)
    rows root hb ops halt hg.wf hg.nd hg.shape htot hraw (by unfold NoCap; omega) hbig msg ann h

/-! ### non-vacuity: every hypothesis is met by a schema, a history and a failing record -/

/-- a record the schema `exSchema` accepts -/
def exRowOk : SVal :=
  .record "R" (.cons "orders" 0 (.seq (.cons (.record "O" (.cons "price" 0 (.int .i32 6) .nil)) .nil)) .nil)

/-- two records pushed, the third has a string where `price: Int32` should be: the hypotheses of
`C18_ser_blame_runRows` / `C18_ser_blame_reachable` hold (computed), the push fails, and the conclusion is what the
theorem says -/
example :
    exSchema.all coveredWF = true ∧ total (.struct (Fields.ofList exSchema)) false [] = true ∧
    (∀ r ∈ [exRowOk, exRowOk], noRaw r = true) ∧ noRaw exRowLeaf = true ∧
    (∀ root0, newRoot exSchema = .ok root0 → sizeSum {} [exRowOk, exRowOk] + vsize {} exRowLeaf ≤ room root0) ∧
    (∃ root, runRows {} exSchema [exRowOk, exRowOk] = .ok root) ∧
    runRows {} exSchema ([exRowOk, exRowOk] ++ [exRowLeaf]) =
      .error (.errCtx "serialize_str is not supported" [("data_type", "Int32"), ("field", "$.orders.element.price")]) ∧
    blameRow {} exSchema exRowLeaf = ["$.orders.element.price"] := by
  refine ⟨by decide, by decide, by decide, by decide, ?_, ?_, by decide +kernel, by decide +kernel⟩
  · intro root0 h0
    have key : (newRoot exSchema).toOption.all
        (fun r => decide (sizeSum {} [exRowOk, exRowOk] + vsize {} exRowLeaf ≤ room r)) = true := by decide +kernel
    rw [h0] at key
    simpa [Except.toOption] using key
  · have key : (runRows {} exSchema [exRowOk, exRowOk]).isOk = true := by decide +kernel
    cases hr : runRows {} exSchema [exRowOk, exRowOk] with
    | ok root => exact ⟨root, rfl⟩
    | error e => rw [hr] at key; cases key

/-- non-vacuity of `C18_ser_blame_raw_reachable`: the record as the raw stream `key "a", value "s"` into `exSchema2`
(`a: Int32` refuses the string), as the first record -/
example :
    exSchema2.all coveredWF = true ∧ total (.struct (Fields.ofList exSchema2)) false [] = true ∧
    exSchema2.length ≤ UNKNOWN_KEY ∧
    isAlternating (.key (.str "a") (.value (.str "s") .nil)) = true ∧
    noRawe (toEntries (.key (.str "a") (.value (.str "s") .nil))) = true ∧
    (newRoot exSchema2).toOption.all (fun r => decide
      (sizeSum {} [] + vsize {} (.map (toEntries (.key (.str "a") (.value (.str "s") .nil)))) ≤ room r)) = true ∧
    runRows {} exSchema2 [.mapRaw (.key (.str "a") (.value (.str "s") .nil))] =
      .error (.errCtx "serialize_str is not supported" [("data_type", "Int32"), ("field", "$.a")]) ∧
    blameRow {} exSchema2 (.mapRaw (.key (.str "a") (.value (.str "s") .nil))) = ["$.a"] :=
  ⟨by decide, by decide, by decide, by decide, by decide, by decide +kernel, by decide +kernel, by decide +kernel⟩

end SaModel.Props.C18
