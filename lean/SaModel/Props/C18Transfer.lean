import SaModel.Props.C18
import SaModel.Props.C17
import SaModel.Props.C02
/-
C18 — what the erasure theorems buy: theorems of the other reader properties, which are stated about the un-annotated
model `Read.readAs`, are theorems about the annotated model `Read.readAsA` (the one `read_error_position` /
`read_error_deepest` are about).  Two instances, one per transfer lemma.
-/
namespace SaModel.Props.C18
open SaModel SaModel.Read SaModel.Spec

/-- C17 (`readAs_no_panic`) transferred through `readAsA_panic_iff`: with every fix applied no annotated typed read
unwinds — whatever the view, consistent or not -/
theorem readAsA_no_panic (af : AnnFixes) (t : Target) (p : String) (a : Arr) (idx : Nat) :
    NoPanic (readAsA af Fixes.all p t a idx) := fun s h =>
  SaModel.Props.C17.readAs_no_panic t a idx s ((readAsA_panic_iff af Fixes.all t p a idx s).1 h)

/-- C02 (`read_typed_decode`) transferred through `readAsA_ok_iff`: on a physically valid view the annotated typed read
returns what the Arrow reading rules and the target demand -/
theorem readAsA_typed_decode (af : AnnFixes) (t : Target) (p : String) (a : Arr) (i : Nat) (lv : LVal) (d : DVal)
    (h : decodeAt a i = .ok lv) (hn : new Fixes.all a = .ok ()) (hp : physical a = true) (hu : utf8Ok lv = true)
    (hc : Read.cast t a lv = must d) : readAsA af Fixes.all p t a i = .ok d :=
  (readAsA_ok_iff af Fixes.all t p a i d).2 (SaModel.Props.C02.read_typed_decode t a i lv d h hn hp hu hc)

/-- consequently (with `read_not_plain`): every failure of an annotated read is an annotated `Err` -/
theorem readAsA_fails_annotated (t : Target) (p : String) (a : Arr) (idx : Nat) (e : Fail)
    (h : readAsA AnnFixes.all Fixes.all p t a idx = .error e) : ∃ msg ann, e = .errCtx msg ann := by
  cases e with
  | err msg => exact absurd h (readAsA_not_plain Fixes.all t p a idx msg)
  | panic s => exact absurd h (readAsA_no_panic AnnFixes.all t p a idx s)
  | errCtx msg ann => exact ⟨msg, ann, rfl⟩

/-- non-vacuity: the fixed-size-list witness — not a panic, an annotated error -/
example : ∃ msg ann, readAsA AnnFixes.all Fixes.all "$.c" (.struct (.cons "x" (.seq .any) .nil)) exFsl 1 = .error (.errCtx msg ann) :=
  ⟨"Out of bounds access", [("data_type", "FixedSizeList(..)"), ("field", "$.c.x")], by decide⟩

end SaModel.Props.C18
