import SaModel.Backend.Adapters
import SaModel.Backend.BuildCore
import SaModel.Backend.History
import SaModel.Read.Access
import SaModel.Spec.Decode
import SaModel.Generated.ArrowVersions
import SaModel.Lemmas.C19MapM
/-
C19 — all array back ends give the same logical result.

What is proved here is the crate's own adapter logic (`SaModel/Backend/Adapters.lean`), for EVERY back-end
independent core and EVERY choice of marrow's conversions (`Core`, `Conv` are parameters):

  adapters_compose      each arrow / arrow2 entry point is the marrow entry point composed with the
                        conversions: fields → marrow → (core) → arrays, the first failing step wins
  backends_agree        under the hypotheses `hA`, `hB` (a converted array means what the marrow array means:
                        `decodeA (convA a) = Spec.decodeAll a`) two back ends fail together with the same
                        error whenever marrow fails, succeed together unless a conversion fails, and then hold
                        the same logical content; reading the same views through any of them is one function
  record_batch_fields   the batch's schema is the builder's own schema (metadata included), no schema level
                        metadata, the columns are those of `to_arrow`
  from_batch_needs_only_batch   reading a batch back equals reading its columns with the caller's fields
  builder_reuse_agrees  ONE builder, any history of additions and builds through any mix of the four finishers
                        (`Backend/History.lean`): build k through finisher f is f applied to the marrow arrays of
                        build k, the builder keeps its schema and stays usable after a build that failed in a conversion
  record_batch_schema_stable   every batch a builder ever hands out carries the fields of the schema it was created with
                        (`Props/C19Reuse.lean`: with the builder model, build k = f applied to the one-shot conversion
                        of batch k — C10 through every back end)
  reader_count_mismatch_refused, readers_fail_together_on_counts   a different number of fields and arrays is refused by
                        the reader constructors of all three families, the adapters' own check first
                        (`Props/C19Gen.lean`: the bodies of these methods, regenerated from the sources, ARE the model)
  version_select_max    the selected arrow version is the maximum of the enabled ones
  gen_*                 the version tables regenerated from Cargo.toml / build.rs / lib.rs are consistent
                        (`decide` on `SaModel/Generated/ArrowVersions.lean`; these break when a version is
                        added to, or dropped from, one of the lists only)

The hypotheses speak about code that is not modelled; they are validated by the `backend` suite on every run (differential
testing), not proved:
  hA, hB   (`backend_content`, `backends_agree`, `builder_finishers_agree`; `builder_reuse_decodes` in Props/C19Reuse.lean) a
           converted array decodes to what the marrow array decodes to: `cv.arrayOfMarrow a = ok aa → decodeA aa = Spec.decodeAll a`
  hFRT     (`record_batch_fields_oneshot`, `from_batch_needs_only_batch`) marrow field → back end → marrow field is the identity:
           `cv.fieldOfMarrow f = ok af → cv.fieldToMarrow af = ok f`
  hRT      (`roundtrip_through_backend`) viewing a converted array gives the marrow array back: `cv.viewOf aa = ok a`
  hE       (`backends_agree_read`) the core reads views related by `E` alike (`E := Eq`: `backends_agree_read_eq`, no hypothesis)
  Core.RefusesCounts   (marrow clause of `reader_count_mismatch_refused`, `readers_fail_together_on_counts`) `Deserializer::new`
           refuses a different number of fields and arrays; proved for `Core.counted` (`counted_refuses`) and for
           `Access.new true` (`access_new_refuses`)
-/
namespace SaModel.Props.C19
open SaModel SaModel.Backend SaModel.Lemmas.C19

section
variable {OB Items D Out AF AA BF BA : Type}

/-! ### adapters_compose -/

/-- `to_arrow` = fields to marrow, `to_marrow`, arrays to arrow — the first failing step wins -/
theorem toArrow_compose (core : Core OB Items D Out) (cv : Conv AF AA) (afs : List AF) (items : Items) :
    toArrow core cv afs items = (do
      let fs ← afs.mapM cv.fieldToMarrow
      let arrays ← toMarrow core fs items
      arrays.mapM cv.arrayOfMarrow) := by
  simp only [toArrow, toMarrow, ArrayBuilder.fromArrow, ArrayBuilder.fromMarrow, ArrayBuilder.toArrow,
    ArrayBuilder.toMarrow, ArrayBuilder.buildArrays, ArrayBuilder.new, serializeInto, fieldsFromFieldRefs]
  cases afs.mapM cv.fieldToMarrow with
  | error e => rfl
  | ok fs =>
    simp only [bind, Except.bind, pure, Except.pure]
    cases core.newOuter fs with
    | error e => rfl
    | ok b =>
      simp only []
      cases core.serialize b items with
      | error e => rfl
      | ok b' =>
        simp only []
        cases core.takeArrays b' with
        | error e => rfl
        | ok p =>
          simp only []
          cases List.mapM cv.arrayOfMarrow p.1 <;> rfl

/-- `to_arrow2` is the same function of its conversions as `to_arrow` (two copies of one adapter) -/
theorem toArrow2_eq_toArrow (core : Core OB Items D Out) (cv : Conv AF AA) :
    toArrow2 core cv = toArrow core cv := rfl

theorem toArrow2_compose (core : Core OB Items D Out) (cv : Conv AF AA) (afs : List AF) (items : Items) :
    toArrow2 core cv afs items = (do
      let fs ← afs.mapM cv.fieldToMarrow
      let arrays ← toMarrow core fs items
      arrays.mapM cv.arrayOfMarrow) := by
  rw [toArrow2_eq_toArrow]; exact toArrow_compose core cv afs items

/-- `to_marrow` is `to_arrow` for the identity conversions: marrow is one of the back ends -/
theorem toMarrow_is_identity_backend (core : Core OB Items D Out) (fs : List Field) (items : Items) :
    toArrow core Conv.id fs items = toMarrow core fs items := by
  rw [toArrow_compose]
  have h1 : (Conv.id).fieldToMarrow = (pure : Field → R Field) := rfl
  have h2 : (Conv.id).arrayOfMarrow = (pure : Arr → R Arr) := rfl
  rw [h1, h2, mapM_pure_id]
  simp only [bind, Except.bind]
  cases toMarrow core fs items with
  | error e => rfl
  | ok arrays => exact mapM_pure_id arrays

/-- `to_record_batch` = `to_arrow`, then the fields of the schema the builder was created with, then arrow's
`RecordBatch::try_new` -/
theorem toRecordBatch_compose (core : Core OB Items D Out) (cv : Conv AF AA) (validate : List AF → List AA → R Unit)
    (afs : List AF) (items : Items) :
    toRecordBatch core cv validate afs items = (do
      let fs ← afs.mapM cv.fieldToMarrow
      let marrays ← toMarrow core fs items
      let arrays ← marrays.mapM cv.arrayOfMarrow
      let fields ← fs.mapM cv.fieldOfMarrow
      validate fields arrays
      pure { fields, schemaMetadata := [], columns := arrays }) := by
  simp only [toRecordBatch, toMarrow, ArrayBuilder.fromArrow, ArrayBuilder.fromMarrow, ArrayBuilder.toArrow,
    ArrayBuilder.toRecordBatch, RecordBatch.tryNew, fieldRefsOfSchema,
    ArrayBuilder.toMarrow, ArrayBuilder.buildArrays, ArrayBuilder.new, serializeInto, fieldsFromFieldRefs]
  cases afs.mapM cv.fieldToMarrow with
  | error e => rfl
  | ok fs =>
    simp only [bind, Except.bind, pure, Except.pure]
    cases core.newOuter fs with
    | error e => rfl
    | ok b =>
      simp only []
      cases core.serialize b items with
      | error e => rfl
      | ok b' =>
        simp only []
        cases core.takeArrays b' with
        | error e => rfl
        | ok p =>
          simp only []
          cases List.mapM cv.arrayOfMarrow p.1 with
          | error e => rfl
          | ok arrays =>
            simp only []
            cases List.mapM cv.fieldOfMarrow fs with
            | error e => rfl
            | ok fields =>
              simp only []
              cases validate fields arrays <;> rfl

/-- `from_arrow` = count check, fields to marrow, arrays to views, `from_marrow` -/
theorem fromArrow_compose (core : Core OB Items D Out) (cv : Conv AF AA) (afs : List AF) (arrays : List AA) :
    fromArrow core cv afs arrays =
      if afs.length != arrays.length then countMismatch afs.length arrays.length else
        (afs.mapM cv.fieldToMarrow >>= fun fs => arrays.mapM cv.viewOf >>= fun views => fromMarrow core fs views) := by
  simp only [fromArrow, fromMarrow, Deserializer.fromArrow, Deserializer.fromMarrow, fieldsFromFieldRefs]
  split
  · rfl
  · simp only [bind, Except.bind]
    cases afs.mapM cv.fieldToMarrow with
    | error e => rfl
    | ok fs =>
      simp only []
      cases List.mapM cv.viewOf arrays <;> rfl

theorem fromArrow2_eq_fromArrow (core : Core OB Items D Out) (cv : Conv AF AA) :
    fromArrow2 core cv = fromArrow core cv := rfl

/-- `from_record_batch` uses the batch and nothing else: it is `from_arrow` on the batch's own parts -/
theorem fromRecordBatch_eq (core : Core OB Items D Out) (cv : Conv AF AA) (batch : RecordBatch AF AA) :
    fromRecordBatch core cv batch = fromArrow core cv batch.fields batch.columns := rfl

/-- `from_marrow` is `from_arrow` for the identity conversions (which adds only the count check that
`Deserializer::new` repeats) -/
theorem fromMarrow_is_identity_backend (core : Core OB Items D Out) (fs : List Field) (views : List Arr)
    (hlen : fs.length = views.length) :
    fromArrow core Conv.id fs views = fromMarrow core fs views := by
  rw [fromArrow_compose]
  have h1 : (Conv.id).fieldToMarrow = (pure : Field → R Field) := rfl
  have h2 : (Conv.id).viewOf = (pure : Arr → R Arr) := rfl
  rw [h1, h2, mapM_pure_id, mapM_pure_id]
  simp [hlen, bind, Except.bind]

/-- all of the above in one statement -/
theorem adapters_compose (core : Core OB Items D Out) (cv : Conv AF AA) (validate : List AF → List AA → R Unit)
    (afs : List AF) (items : Items) (arrays : List AA) (batch : RecordBatch AF AA) :
    toArrow core cv afs items = (afs.mapM cv.fieldToMarrow >>= fun fs => toMarrow core fs items >>= fun a => a.mapM cv.arrayOfMarrow) ∧
    toArrow2 core cv afs items = toArrow core cv afs items ∧
    toRecordBatch core cv validate afs items =
      (afs.mapM cv.fieldToMarrow >>= fun fs => toMarrow core fs items >>= fun ma => ma.mapM cv.arrayOfMarrow >>= fun a =>
        fs.mapM cv.fieldOfMarrow >>= fun fields => validate fields a >>= fun _ =>
        pure { fields, schemaMetadata := [], columns := a }) ∧
    fromArrow core cv afs arrays =
      (if afs.length != arrays.length then countMismatch afs.length arrays.length else
        afs.mapM cv.fieldToMarrow >>= fun fs => arrays.mapM cv.viewOf >>= fun views => fromMarrow core fs views) ∧
    fromArrow2 core cv afs arrays = fromArrow core cv afs arrays ∧
    fromRecordBatch core cv batch = fromArrow core cv batch.fields batch.columns :=
  ⟨toArrow_compose core cv afs items, rfl, toRecordBatch_compose core cv validate afs items,
   fromArrow_compose core cv afs arrays, rfl, rfl⟩

/-! ### backends_agree: serialization -/

/-- One marrow outcome governs every back end: with the same schema (`afs`, `bfs` both convert to `fs`) the
arrow and arrow2 results are the marrow result pushed through the respective array conversion. -/
theorem backends_factor (core : Core OB Items D Out) (cvA : Conv AF AA) (cvB : Conv BF BA)
    (afs : List AF) (bfs : List BF) (fs : List Field)
    (hfa : afs.mapM cvA.fieldToMarrow = .ok fs) (hfb : bfs.mapM cvB.fieldToMarrow = .ok fs) (items : Items) :
    toArrow core cvA afs items = (toMarrow core fs items >>= fun a => a.mapM cvA.arrayOfMarrow) ∧
    toArrow2 core cvB bfs items = (toMarrow core fs items >>= fun a => a.mapM cvB.arrayOfMarrow) := by
  rw [toArrow2_compose, toArrow_compose, hfa, hfb]
  exact ⟨rfl, rfl⟩

/-- If marrow fails, every back end fails with the very same error. -/
theorem backends_fail_together (core : Core OB Items D Out) (cvA : Conv AF AA) (cvB : Conv BF BA)
    (afs : List AF) (bfs : List BF) (fs : List Field)
    (hfa : afs.mapM cvA.fieldToMarrow = .ok fs) (hfb : bfs.mapM cvB.fieldToMarrow = .ok fs) (items : Items)
    (e : Fail) (hm : toMarrow core fs items = .error e) :
    toArrow core cvA afs items = .error e ∧ toArrow2 core cvB bfs items = .error e := by
  obtain ⟨h1, h2⟩ := backends_factor core cvA cvB afs bfs fs hfa hfb items
  rw [h1, h2, hm]
  exact ⟨rfl, rfl⟩

/-- A back end that fails fails either with marrow's error or — marrow having succeeded — with the conversion
error of one of the arrays marrow built ("up to conversion errors"). -/
theorem backend_failure_cases (core : Core OB Items D Out) (cv : Conv AF AA)
    (afs : List AF) (fs : List Field) (hf : afs.mapM cv.fieldToMarrow = .ok fs) (items : Items)
    (e : Fail) (h : toArrow core cv afs items = .error e) :
    toMarrow core fs items = .error e ∨
    ∃ arrays, toMarrow core fs items = .ok arrays ∧ ∃ a ∈ arrays, cv.arrayOfMarrow a = .error e := by
  rw [toArrow_compose, hf] at h
  simp only [bind, Except.bind] at h
  cases hm : toMarrow core fs items with
  | error e' => rw [hm] at h; simp only [Except.error.injEq] at h; subst h; exact .inl rfl
  | ok arrays =>
    rw [hm] at h
    exact .inr ⟨arrays, rfl, mapM_error _ _ _ h⟩

/-- If marrow succeeds and the back end can represent every array that was built, the back end succeeds. -/
theorem backend_succeeds (core : Core OB Items D Out) (cv : Conv AF AA)
    (afs : List AF) (fs : List Field) (hf : afs.mapM cv.fieldToMarrow = .ok fs) (items : Items)
    (arrays : List Arr) (hm : toMarrow core fs items = .ok arrays)
    (htotal : ∀ a ∈ arrays, ∃ aa, cv.arrayOfMarrow a = .ok aa) :
    ∃ out, toArrow core cv afs items = .ok out := by
  obtain ⟨out, hout⟩ := mapM_total _ arrays htotal
  exact ⟨out, by rw [toArrow_compose, hf]; simp only [bind, Except.bind]; rw [hm]; exact hout⟩

/-- A back end that succeeds holds, array by array, the logical content of the marrow arrays —
under `hA`: a converted array means what the marrow array means. -/
theorem backend_content (core : Core OB Items D Out) (cv : Conv AF AA) (decodeA : AA → List (R LVal))
    (hA : ∀ a aa, cv.arrayOfMarrow a = .ok aa → decodeA aa = Spec.decodeAll a)
    (afs : List AF) (fs : List Field) (hf : afs.mapM cv.fieldToMarrow = .ok fs) (items : Items)
    (out : List AA) (h : toArrow core cv afs items = .ok out) :
    ∃ arrays, toMarrow core fs items = .ok arrays ∧ out.length = arrays.length ∧
      out.map decodeA = arrays.map Spec.decodeAll := by
  rw [toArrow_compose, hf] at h
  simp only [bind, Except.bind] at h
  cases hm : toMarrow core fs items with
  | error e => rw [hm] at h; cases h
  | ok arrays =>
    rw [hm] at h
    exact ⟨arrays, rfl, mapM_ok_length _ _ _ h, mapM_ok_map _ _ _ hA _ _ h⟩

/-- **backends_agree.**  Same schema, same records: marrow, arrow and arrow2
(1) fail together with the same error when marrow fails;
(2) when marrow succeeds each back end either succeeds or reports the conversion error of one of marrow's arrays;
(3) every two back ends that succeed hold the same logical content, which is that of the marrow arrays. -/
theorem backends_agree (core : Core OB Items D Out) (cvA : Conv AF AA) (cvB : Conv BF BA)
    (decodeA : AA → List (R LVal)) (decodeB : BA → List (R LVal))
    (hA : ∀ a aa, cvA.arrayOfMarrow a = .ok aa → decodeA aa = Spec.decodeAll a)
    (hB : ∀ a ba, cvB.arrayOfMarrow a = .ok ba → decodeB ba = Spec.decodeAll a)
    (afs : List AF) (bfs : List BF) (fs : List Field)
    (hfa : afs.mapM cvA.fieldToMarrow = .ok fs) (hfb : bfs.mapM cvB.fieldToMarrow = .ok fs) (items : Items) :
    (∀ e, toMarrow core fs items = .error e →
        toArrow core cvA afs items = .error e ∧ toArrow2 core cvB bfs items = .error e) ∧
    (∀ arrays, toMarrow core fs items = .ok arrays →
        ((∃ as, toArrow core cvA afs items = .ok as ∧ as.map decodeA = arrays.map Spec.decodeAll) ∨
         (∃ e, toArrow core cvA afs items = .error e ∧ ∃ a ∈ arrays, cvA.arrayOfMarrow a = .error e)) ∧
        ((∃ bs, toArrow2 core cvB bfs items = .ok bs ∧ bs.map decodeB = arrays.map Spec.decodeAll) ∨
         (∃ e, toArrow2 core cvB bfs items = .error e ∧ ∃ a ∈ arrays, cvB.arrayOfMarrow a = .error e))) ∧
    (∀ as bs, toArrow core cvA afs items = .ok as → toArrow2 core cvB bfs items = .ok bs →
        as.map decodeA = bs.map decodeB) := by
  refine ⟨fun e hm => backends_fail_together core cvA cvB afs bfs fs hfa hfb items e hm, ?_, ?_⟩
  · intro arrays hm
    have one : ∀ {F A : Type} (cv : Conv F A) (dec : A → List (R LVal))
        (_ : ∀ a aa, cv.arrayOfMarrow a = .ok aa → dec aa = Spec.decodeAll a) (xs : List F)
        (_ : xs.mapM cv.fieldToMarrow = .ok fs),
        (∃ as, toArrow core cv xs items = .ok as ∧ as.map dec = arrays.map Spec.decodeAll) ∨
        (∃ e, toArrow core cv xs items = .error e ∧ ∃ a ∈ arrays, cv.arrayOfMarrow a = .error e) := by
      intro F A cv dec hdec xs hxs
      cases h : toArrow core cv xs items with
      | ok as =>
        obtain ⟨arrays', hm', _, hc⟩ := backend_content core cv dec hdec xs fs hxs items as h
        rw [hm] at hm'; cases hm'
        exact .inl ⟨as, rfl, hc⟩
      | error e =>
        rcases backend_failure_cases core cv xs fs hxs items e h with hme | ⟨arrays', hm', hx⟩
        · rw [hm] at hme; cases hme
        · rw [hm] at hm'; cases hm'
          exact .inr ⟨e, rfl, hx⟩
    exact ⟨one cvA decodeA hA afs hfa, by rw [toArrow2_eq_toArrow]; exact one cvB decodeB hB bfs hfb⟩
  · intro as bs ha hb
    obtain ⟨arrays, hm, _, hca⟩ := backend_content core cvA decodeA hA afs fs hfa items as ha
    rw [toArrow2_eq_toArrow] at hb
    obtain ⟨arrays', hm', _, hcb⟩ := backend_content core cvB decodeB hB bfs fs hfb items bs hb
    rw [hm] at hm'; cases hm'
    rw [hca, hcb]

/-- The adapter model's `to_marrow`, instantiated with the builder model (`buildCore`), is `SaModel.Build.toMarrow` —
the function the build-side theorems (C01, C03, C05) are about; by `backends_agree` what they say about the marrow
arrays carries over to every back end's arrays (under `hA`). -/
theorem marrow_entry_is_build_model (ext : SaModel.Build.Ext) {D Out : Type} (dn : List Field → List Arr → R D) (de : D → R Out)
    (fields : List Field) (rows : List SVal) :
    Backend.toMarrow (buildCore ext dn de) fields rows = SaModel.Build.toMarrow ext fields rows := by
  simp only [Backend.toMarrow, ArrayBuilder.fromMarrow, ArrayBuilder.new, serializeInto, ArrayBuilder.toMarrow,
    ArrayBuilder.buildArrays, buildCore, SaModel.Build.toMarrow, bind, Except.bind, pure, Except.pure]
  cases SaModel.Build.newRoot fields with
  | error e => rfl
  | ok root =>
    simp only []
    cases List.foldlM (SaModel.Build.push ext) root rows with
    | error e => rfl
    | ok root' =>
      simp only []
      cases SaModel.Build.buildArrays ext root' with
      | error e => rfl
      | ok p => rfl


/-! ### the `ArrayBuilder` constructors and finishers (any combination, also across back ends) -/

/-- every constructor is `from_marrow` after the field conversion; every finisher is `build_arrays` followed by the
array conversion of the back end it finishes into — whatever family's fields created the builder -/
theorem builder_paths_factor (core : Core OB Items D Out) (cv : Conv AF AA) (cv' : Conv BF BA)
    (afs : List AF) (self : ArrayBuilder OB) :
    ArrayBuilder.fromArrow core cv afs = (afs.mapM cv.fieldToMarrow >>= ArrayBuilder.fromMarrow core) ∧
    ArrayBuilder.fromArrow2 core cv afs = ArrayBuilder.fromArrow core cv afs ∧
    self.toMarrow core = self.buildArrays core ∧
    self.toArrow core cv' =
      (self.buildArrays core >>= fun p => p.1.mapM cv'.arrayOfMarrow >>= fun arrays => pure (arrays, p.2)) ∧
    self.toArrow2 core cv' = self.toArrow core cv' :=
  ⟨rfl, rfl, rfl, rfl, rfl⟩

/-- two finishers applied to the same builder state hold the same logical content (under `hA`, `hB`) -/
theorem builder_finishers_agree (core : Core OB Items D Out) (cvA : Conv AF AA) (cvB : Conv BF BA)
    (decodeA : AA → List (R LVal)) (decodeB : BA → List (R LVal))
    (hA : ∀ a aa, cvA.arrayOfMarrow a = .ok aa → decodeA aa = Spec.decodeAll a)
    (hB : ∀ a ba, cvB.arrayOfMarrow a = .ok ba → decodeB ba = Spec.decodeAll a)
    (self sa sb : ArrayBuilder OB) (as : List AA) (bs : List BA)
    (ha : self.toArrow core cvA = .ok (as, sa)) (hb : self.toArrow2 core cvB = .ok (bs, sb)) :
    as.map decodeA = bs.map decodeB ∧ sa = sb ∧
    ∃ arrays, self.toMarrow core = .ok (arrays, sa) ∧ as.map decodeA = arrays.map Spec.decodeAll := by
  simp only [ArrayBuilder.toArrow, ArrayBuilder.toArrow2, ArrayBuilder.toMarrow, bind, Except.bind, pure, Except.pure] at ha hb ⊢
  cases hbuild : self.buildArrays core with
  | error e => simp [hbuild] at ha
  | ok p =>
    simp only [hbuild] at ha hb ⊢
    cases hca : List.mapM cvA.arrayOfMarrow p.1 with
    | error e => simp [hca] at ha
    | ok as' =>
      cases hcb : List.mapM cvB.arrayOfMarrow p.1 with
      | error e => simp [hcb] at hb
      | ok bs' =>
        simp only [hca, Except.ok.injEq, Prod.mk.injEq] at ha
        simp only [hcb, Except.ok.injEq, Prod.mk.injEq] at hb
        obtain ⟨rfl, rfl⟩ := ha
        obtain ⟨rfl, rfl⟩ := hb
        have e1 := mapM_ok_map _ _ _ hA _ _ hca
        have e2 := mapM_ok_map _ _ _ hB _ _ hcb
        exact ⟨by rw [e1, e2], rfl, p.1, rfl, e1⟩

/-! ### backends_agree: deserialization -/

/-- Arrays of two back ends that convert to views the core cannot tell apart (`E`; take `E := Eq` for "the same
views") are deserialized to the same result through `from_arrow`, `from_arrow2` and `from_marrow`. -/
theorem backends_agree_read (core : Core OB Items D Out) (cvA : Conv AF AA) (cvB : Conv BF BA)
    (E : Arr → Arr → Prop)
    (hE : ∀ fs vs vs', AllRel E vs vs' → fromMarrow core fs vs = fromMarrow core fs vs')
    (afs : List AF) (bfs : List BF) (fs : List Field)
    (hfa : afs.mapM cvA.fieldToMarrow = .ok fs) (hfb : bfs.mapM cvB.fieldToMarrow = .ok fs)
    (as : List AA) (bs : List BA) (va vb : List Arr)
    (hva : as.mapM cvA.viewOf = .ok va) (hvb : bs.mapM cvB.viewOf = .ok vb) (hEq : AllRel E va vb) :
    fromArrow core cvA afs as = fromArrow2 core cvB bfs bs ∧
    (fs.length = va.length → fromArrow core cvA afs as = fromMarrow core fs va) := by
  have la := mapM_ok_length _ _ _ hfa
  have lb := mapM_ok_length _ _ _ hfb
  have lva := mapM_ok_length _ _ _ hva
  have lvb := mapM_ok_length _ _ _ hvb
  have lE := hEq.length_eq
  rw [fromArrow2_eq_fromArrow, fromArrow_compose, fromArrow_compose, hfa, hfb, hva, hvb]
  have e1 : afs.length = fs.length := la.symm
  have e2 : bfs.length = fs.length := lb.symm
  have e3 : as.length = va.length := lva.symm
  have e4 : bs.length = va.length := by rw [← lvb, ← lE]
  rw [e1, e2, e3, e4]
  refine ⟨?_, ?_⟩
  · split
    · rfl
    · simp only [bind, Except.bind]; exact hE fs va vb hEq
  · intro hlen
    simp [hlen, bind, Except.bind]

/-- the same with "the same views" -/
theorem backends_agree_read_eq (core : Core OB Items D Out) (cvA : Conv AF AA) (cvB : Conv BF BA)
    (afs : List AF) (bfs : List BF) (fs : List Field)
    (hfa : afs.mapM cvA.fieldToMarrow = .ok fs) (hfb : bfs.mapM cvB.fieldToMarrow = .ok fs)
    (as : List AA) (bs : List BA) (views : List Arr)
    (hva : as.mapM cvA.viewOf = .ok views) (hvb : bs.mapM cvB.viewOf = .ok views) :
    fromArrow core cvA afs as = fromArrow2 core cvB bfs bs := by
  exact (backends_agree_read core cvA cvB (· = ·)
    (fun fs vs vs' h => by rw [AllRel.eq_of_eq h])
    afs bfs fs hfa hfb as bs views views hva hvb (AllRel.refl_eq views)).1

/-- Round trip through a back end whose view of a converted array is the marrow array again (`hRT`): reading
what `to_arrow` produced equals reading what `to_marrow` produced. -/
theorem roundtrip_through_backend (core : Core OB Items D Out) (cv : Conv AF AA)
    (hRT : ∀ a aa, cv.arrayOfMarrow a = .ok aa → cv.viewOf aa = .ok a)
    (afs : List AF) (fs : List Field) (hf : afs.mapM cv.fieldToMarrow = .ok fs) (items : Items)
    (out : List AA) (h : toArrow core cv afs items = .ok out) :
    ∃ arrays, toMarrow core fs items = .ok arrays ∧
      fromArrow core cv afs out =
        if fs.length != arrays.length then countMismatch fs.length arrays.length else fromMarrow core fs arrays := by
  rw [toArrow_compose, hf] at h
  simp only [bind, Except.bind] at h
  cases hm : toMarrow core fs items with
  | error e => rw [hm] at h; cases h
  | ok arrays =>
    rw [hm] at h
    refine ⟨arrays, rfl, ?_⟩
    have hviews : out.mapM cv.viewOf = .ok arrays := by
      apply mapM_of_forall₂
      have := mapM_ok_forall₂ _ _ _ h
      clear h hm
      induction this with
      | nil => exact .nil
      | cons hab _ ih => exact .cons (hRT _ _ hab) ih
    rw [fromArrow_compose, hf, hviews, show afs.length = fs.length from (mapM_ok_length _ _ _ hf).symm,
      mapM_ok_length _ _ _ h]
    rfl

/-! ### record batches -/

/-- `ArrayBuilder::to_record_batch`: the batch's fields are the converted fields of the builder's own schema —
the schema it was created with, metadata included, not anything derived from the arrays —, the batch carries no
schema-level metadata, its columns are what `to_arrow` returns, and the builder keeps its schema. -/
theorem record_batch_fields (core : Core OB Items D Out) (cv : Conv AF AA) (validate : List AF → List AA → R Unit)
    (self self' : ArrayBuilder OB) (batch : RecordBatch AF AA)
    (h : self.toRecordBatch core cv validate = .ok (batch, self')) :
    self.schema.mapM cv.fieldOfMarrow = .ok batch.fields ∧ batch.schemaMetadata = [] ∧
    self.toArrow core cv = .ok (batch.columns, self') ∧ self'.schema = self.schema ∧
    validate batch.fields batch.columns = .ok () := by
  simp only [ArrayBuilder.toRecordBatch, ArrayBuilder.toArrow, ArrayBuilder.buildArrays, RecordBatch.tryNew,
    fieldRefsOfSchema, bind, Except.bind, pure, Except.pure] at h ⊢
  cases hb : core.takeArrays self.builder with
  | error e => simp [hb] at h
  | ok p =>
    simp only [hb] at h ⊢
    cases hc : List.mapM cv.arrayOfMarrow p.1 with
    | error e => simp [hc] at h
    | ok arrays =>
      simp only [hc] at h ⊢
      cases hf : List.mapM cv.fieldOfMarrow self.schema with
      | error e => simp [hf] at h
      | ok fields =>
        simp only [hf] at h
        cases hv : validate fields arrays with
        | error e => simp [hv] at h
        | ok u =>
          simp only [hv, Except.ok.injEq, Prod.mk.injEq] at h
          obtain ⟨hb1, hb2⟩ := h
          subst hb1 hb2
          exact ⟨rfl, rfl, rfl, rfl, hv⟩

/-- `to_record_batch(fields, items)`: the batch's schema is the caller's schema taken through marrow and back.
If that round trip is the identity on marrow fields (`hFRT`, validated by the suite), the batch's fields read
back as exactly the given fields — names, types, nullability and metadata (`Field` carries all four). -/
theorem record_batch_fields_oneshot (core : Core OB Items D Out) (cv : Conv AF AA) (validate : List AF → List AA → R Unit)
    (afs : List AF) (fs : List Field) (hf : afs.mapM cv.fieldToMarrow = .ok fs) (items : Items)
    (batch : RecordBatch AF AA) (h : toRecordBatch core cv validate afs items = .ok batch) :
    fs.mapM cv.fieldOfMarrow = .ok batch.fields ∧ batch.schemaMetadata = [] ∧ batch.fields.length = afs.length ∧
    toArrow core cv afs items = .ok batch.columns ∧
    ((∀ f af, cv.fieldOfMarrow f = .ok af → cv.fieldToMarrow af = .ok f) →
      batch.fields.mapM cv.fieldToMarrow = .ok fs) := by
  rw [toRecordBatch_compose, hf] at h
  rw [toArrow_compose, hf]
  simp only [bind, Except.bind, pure, Except.pure] at h ⊢
  cases hm : toMarrow core fs items with
  | error e => simp [hm] at h
  | ok marrays =>
    simp only [hm] at h ⊢
    cases hc : List.mapM cv.arrayOfMarrow marrays with
    | error e => simp [hc] at h
    | ok arrays =>
      simp only [hc] at h
      cases hfo : List.mapM cv.fieldOfMarrow fs with
      | error e => simp [hfo] at h
      | ok fields =>
        simp only [hfo] at h
        cases hv : validate fields arrays with
        | error e => simp [hv] at h
        | ok u =>
          simp only [hv, Except.ok.injEq] at h
          subst h
          refine ⟨rfl, rfl, ?_, rfl, ?_⟩
          · show fields.length = afs.length
            rw [mapM_ok_length _ _ _ hfo, mapM_ok_length _ _ _ hf]
          · intro hFRT
            show List.mapM cv.fieldToMarrow fields = Except.ok fs
            apply mapM_of_forall₂
            have := mapM_ok_forall₂ _ _ _ hfo
            clear hfo hv hf hm hc
            induction this with
            | nil => exact .nil
            | cons hab _ ih => exact .cons (hFRT _ _ hab) ih

/-- **from_batch_needs_only_batch.**  `from_record_batch(batch)` looks at the batch alone (`fromRecordBatch_eq`),
and for a batch made by `to_record_batch(fields, items)` that suffices: it gives what `from_arrow(fields, columns)`
gives with the fields the caller started from — provided the field conversions round trip (`hFRT`). -/
theorem from_batch_needs_only_batch (core : Core OB Items D Out) (cv : Conv AF AA) (validate : List AF → List AA → R Unit)
    (hFRT : ∀ f af, cv.fieldOfMarrow f = .ok af → cv.fieldToMarrow af = .ok f)
    (afs : List AF) (fs : List Field) (hf : afs.mapM cv.fieldToMarrow = .ok fs) (items : Items)
    (batch : RecordBatch AF AA) (h : toRecordBatch core cv validate afs items = .ok batch) :
    fromRecordBatch core cv batch = fromArrow core cv afs batch.columns := by
  obtain ⟨_, _, hlen, _, hback⟩ := record_batch_fields_oneshot core cv validate afs fs hf items batch h
  rw [fromRecordBatch_eq, fromArrow_compose, fromArrow_compose, hback hFRT, hf, hlen]

/-! ### one builder, many builds: the `ArrayBuilder` across calls (`Backend/History.lean`) -/

/-- the one-call finishers of `Adapters.lean` are the stateful ones with the state dropped on failure -/
theorem finishers_collapse (core : Core OB Items D Out) (cv : Conv AF AA) (validate : List AF → List AA → R Unit)
    (self : ArrayBuilder OB) :
    self.toMarrow core = collapse (self.toMarrowS core) ∧
    self.toArrow core cv = collapse (self.toArrowS core cv) ∧
    self.toArrow2 core cv = collapse (self.toArrow2S core cv) ∧
    self.toRecordBatch core cv validate = collapse (self.toRecordBatchS core cv validate) := by
  refine ⟨?_, ?_, ?_, ?_⟩ <;>
  simp only [ArrayBuilder.toMarrow, ArrayBuilder.toArrow, ArrayBuilder.toArrow2, ArrayBuilder.toRecordBatch,
    ArrayBuilder.toMarrowS, ArrayBuilder.toArrowS, ArrayBuilder.toArrow2S, ArrayBuilder.toRecordBatchS, collapse,
    recordBatchOf, bind, Except.bind, pure, Except.pure] <;>
  cases self.buildArrays core with
  | error e => rfl
  | ok p =>
    first
    | rfl
    | (dsimp only
       cases List.mapM cv.arrayOfMarrow p.1 with
       | error e => rfl
       | ok arrays =>
         first
         | rfl
         | (dsimp only
            cases fieldRefsOfSchema cv p.2.schema with
            | error e => rfl
            | ok fields =>
              first
              | rfl
              | (dsimp only; cases RecordBatch.tryNew validate fields arrays <;> rfl)))

/-- every finisher is `build_arrays` followed by a function of the arrays taken and of the schema of the builder,
and leaves the builder `build_arrays` leaves: same reset core state, SAME schema -/
theorem finishS_factor (core : Core OB Items D Out) (cvA : Conv AF AA) (cvB : Conv BF BA)
    (validate : List AF → List AA → R Unit) (f : Finisher) (self : ArrayBuilder OB) :
    self.finishS core cvA cvB validate f =
      (self.toMarrow core).map fun p => (convertBuilt cvA cvB validate self.schema f p.1, p.2) := by
  cases f <;>
  simp only [ArrayBuilder.finishS, ArrayBuilder.toMarrowS, ArrayBuilder.toArrowS, ArrayBuilder.toArrow2S,
    ArrayBuilder.toRecordBatchS, ArrayBuilder.toMarrow, ArrayBuilder.buildArrays, convertBuilt, bind, Except.bind,
    pure, Except.pure, Except.map] <;>
  cases core.takeArrays self.builder <;> rfl

theorem serializeInto_schema (core : Core OB Items D Out) (self self' : ArrayBuilder OB) (items : Items)
    (h : serializeInto core self items = .ok self') : self'.schema = self.schema := by
  simp only [serializeInto, bind, Except.bind, pure, Except.pure] at h
  cases hs : core.serialize self.builder items with
  | error e => simp [hs] at h
  | ok b => simp only [hs, Except.ok.injEq] at h; subst h; rfl

theorem toMarrow_schema (core : Core OB Items D Out) (self self' : ArrayBuilder OB) (arrays : List Arr)
    (h : self.toMarrow core = .ok (arrays, self')) : self'.schema = self.schema := by
  simp only [ArrayBuilder.toMarrow, ArrayBuilder.buildArrays, bind, Except.bind, pure, Except.pure] at h
  cases hs : core.takeArrays self.builder with
  | error e => simp [hs] at h
  | ok p => simp only [hs, Except.ok.injEq, Prod.mk.injEq] at h; obtain ⟨_, rfl⟩ := h; rfl

/-- **builder_reuse_agrees.**  For EVERY history of additions and builds through ANY mix of the four finishers on ONE
builder: the history succeeds or fails as the same history finished with `to_marrow` everywhere (same error), ends in
the same builder, and build k through finisher `f` is `f` applied to the marrow arrays of build k — the array
conversion of its family and, for `to_record_batch`, the converted fields of the schema the builder HAD AT THE START.
Every finisher sees the same batches, whatever was called before. -/
theorem builder_reuse_agrees (core : Core OB Items D Out) (cvA : Conv AF AA) (cvB : Conv BF BA)
    (validate : List AF → List AA → R Unit) : ∀ (ops : List (HOp Items)) (self : ArrayBuilder OB),
    runHistory core cvA cvB validate self ops =
      (runMarrow core self ops).map fun p =>
        (List.zipWith (convertBuilt cvA cvB validate self.schema) (finishers ops) p.1, p.2)
  | [], self => rfl
  | .add items :: ops, self => by
    simp only [runHistory, runMarrow, bind, Except.bind]
    cases hs : serializeInto core self items with
    | error e => rfl
    | ok self' =>
      simp only []
      rw [builder_reuse_agrees core cvA cvB validate ops self', serializeInto_schema core self self' items hs]
      rfl
  | .finish f :: ops, self => by
    simp only [runHistory, runMarrow, bind, Except.bind, finishS_factor]
    cases hs : self.toMarrow core with
    | error e => rfl
    | ok p =>
      obtain ⟨arrays, self'⟩ := p
      simp only [Except.map]
      rw [builder_reuse_agrees core cvA cvB validate ops self', toMarrow_schema core self self' arrays hs]
      cases runMarrow core self' ops with
      | error e => rfl
      | ok q => rfl

/-- a history never changes the builder's schema, and returns one result per finisher -/
theorem runMarrow_shape (core : Core OB Items D Out) : ∀ (ops : List (HOp Items)) (self fin : ArrayBuilder OB)
    (outs : List (List Arr)), runMarrow core self ops = .ok (outs, fin) →
    fin.schema = self.schema ∧ outs.length = (finishers ops).length
  | [], self, fin, outs, h => by
    simp only [runMarrow, Except.ok.injEq, Prod.mk.injEq] at h
    obtain ⟨rfl, rfl⟩ := h
    exact ⟨rfl, rfl⟩
  | .add items :: ops, self, fin, outs, h => by
    simp only [runMarrow, bind, Except.bind] at h
    cases hs : serializeInto core self items with
    | error e => simp [hs] at h
    | ok self' =>
      simp only [hs] at h
      obtain ⟨h1, h2⟩ := runMarrow_shape core ops self' fin outs h
      exact ⟨h1.trans (serializeInto_schema core self self' items hs), h2⟩
  | .finish f :: ops, self, fin, outs, h => by
    simp only [runMarrow, bind, Except.bind] at h
    cases hs : self.toMarrow core with
    | error e => simp [hs] at h
    | ok p =>
      obtain ⟨arrays, self'⟩ := p
      simp only [hs] at h
      cases hr : runMarrow core self' ops with
      | error e => simp [hr] at h
      | ok q =>
        obtain ⟨outs', fin'⟩ := q
        simp only [hr, pure, Except.pure, Except.ok.injEq, Prod.mk.injEq] at h
        obtain ⟨rfl, rfl⟩ := h
        obtain ⟨h1, h2⟩ := runMarrow_shape core ops self' fin' outs' hr
        exact ⟨h1.trans (toMarrow_schema core self self' arrays hs), by simp [finishers, List.filterMap, HOp.finisher?, h2]⟩

/-- the indexed form: build k of a successful history, made through finisher `f`, is `f` applied to the marrow arrays
of build k of the same history, under the schema the builder started with -/
theorem builder_reuse_each (core : Core OB Items D Out) (cvA : Conv AF AA) (cvB : Conv BF BA)
    (validate : List AF → List AA → R Unit) (ops : List (HOp Items)) (self fin : ArrayBuilder OB)
    (outs : List (R (Built AF AA BA))) (h : runHistory core cvA cvB validate self ops = .ok (outs, fin)) :
    ∃ mouts, runMarrow core self ops = .ok (mouts, fin) ∧ fin.schema = self.schema ∧
      outs.length = (finishers ops).length ∧ mouts.length = (finishers ops).length ∧
      ∀ (k : Nat) (f : Finisher) (arrays : List Arr), (finishers ops)[k]? = some f → mouts[k]? = some arrays →
        outs[k]? = some (convertBuilt cvA cvB validate self.schema f arrays) := by
  rw [builder_reuse_agrees] at h
  cases hm : runMarrow core self ops with
  | error e => simp [hm, Except.map] at h
  | ok p =>
    obtain ⟨mouts, fin'⟩ := p
    simp only [hm, Except.map, Except.ok.injEq, Prod.mk.injEq] at h
    obtain ⟨rfl, rfl⟩ := h
    obtain ⟨h1, h2⟩ := runMarrow_shape core ops self fin' mouts hm
    refine ⟨mouts, rfl, h1, by simp [h2], h2, ?_⟩
    intro k f arrays hf ha
    simp [List.getElem?_zipWith, hf, ha]

theorem convertBuilt_recordBatch (cvA : Conv AF AA) (cvB : Conv BF BA) (validate : List AF → List AA → R Unit)
    (schema : List Field) (f : Finisher) (arrays : List Arr) (b : RecordBatch AF AA)
    (h : convertBuilt cvA cvB validate schema f arrays = .ok (Built.recordBatch (BA := BA) b)) :
    f = .recordBatch ∧ schema.mapM cvA.fieldOfMarrow = .ok b.fields ∧ b.schemaMetadata = [] ∧
    arrays.mapM cvA.arrayOfMarrow = .ok b.columns ∧ validate b.fields b.columns = .ok () := by
  cases f with
  | marrow => simp [convertBuilt] at h
  | arrow => simp only [convertBuilt, Except.map] at h; cases hc : List.mapM cvA.arrayOfMarrow arrays <;> simp [hc] at h
  | arrow2 => simp only [convertBuilt, Except.map] at h; cases hc : List.mapM cvB.arrayOfMarrow arrays <;> simp [hc] at h
  | recordBatch =>
    simp only [convertBuilt, recordBatchOf, RecordBatch.tryNew, fieldRefsOfSchema, Except.map, bind, Except.bind, pure,
      Except.pure] at h
    cases hc : List.mapM cvA.arrayOfMarrow arrays with
    | error e => simp [hc] at h
    | ok cols =>
      simp only [hc] at h
      cases hf : List.mapM cvA.fieldOfMarrow schema with
      | error e => simp [hf] at h
      | ok fields =>
        simp only [hf] at h
        cases hv : validate fields cols with
        | error e => simp [hv] at h
        | ok u =>
          simp only [hv, Except.ok.injEq, Built.recordBatch.injEq] at h
          subst h
          exact ⟨rfl, rfl, rfl, rfl, hv⟩

/-- **record_batch_schema_stable.**  EVERY record batch a builder hands out during a history — the first, the second,
after any number of other builds through any finisher — carries the converted fields of the schema the builder was
created with (metadata included) and no schema-level metadata; its columns are the arrow conversion of the marrow
arrays of that build.  Hence any two batches of one builder have the same fields. -/
theorem record_batch_schema_stable (core : Core OB Items D Out) (cvA : Conv AF AA) (cvB : Conv BF BA)
    (validate : List AF → List AA → R Unit) (ops : List (HOp Items)) (self fin : ArrayBuilder OB)
    (outs : List (R (Built AF AA BA))) (h : runHistory core cvA cvB validate self ops = .ok (outs, fin)) :
    (∀ (k : Nat) (b : RecordBatch AF AA), outs[k]? = some (.ok (.recordBatch b)) →
      self.schema.mapM cvA.fieldOfMarrow = .ok b.fields ∧ b.schemaMetadata = [] ∧
      ∃ mouts arrays, runMarrow core self ops = .ok (mouts, fin) ∧ mouts[k]? = some arrays ∧
        arrays.mapM cvA.arrayOfMarrow = .ok b.columns) ∧
    (∀ (k k' : Nat) (b b' : RecordBatch AF AA), outs[k]? = some (.ok (.recordBatch b)) →
      outs[k']? = some (.ok (.recordBatch b')) → b.fields = b'.fields ∧ b.schemaMetadata = b'.schemaMetadata) := by
  obtain ⟨mouts, hm, _, hl1, hl2, hk⟩ := builder_reuse_each core cvA cvB validate ops self fin outs h
  have one : ∀ (k : Nat) (b : RecordBatch AF AA), outs[k]? = some (.ok (.recordBatch b)) →
      self.schema.mapM cvA.fieldOfMarrow = .ok b.fields ∧ b.schemaMetadata = [] ∧
      ∃ mouts arrays, runMarrow core self ops = .ok (mouts, fin) ∧ mouts[k]? = some arrays ∧
        arrays.mapM cvA.arrayOfMarrow = .ok b.columns := by
    intro k b hb
    have hlt : k < outs.length := by
      rcases Nat.lt_or_ge k outs.length with h | h
      · exact h
      · rw [List.getElem?_eq_none h] at hb; cases hb
    have hf : (finishers ops)[k]? = some (finishers ops)[k] := List.getElem?_eq_getElem (by omega)
    have ha : mouts[k]? = some mouts[k] := List.getElem?_eq_getElem (by omega)
    have := hk k _ _ hf ha
    rw [hb] at this
    simp only [Option.some.injEq] at this
    obtain ⟨_, h2, h3, h4, _⟩ := convertBuilt_recordBatch cvA cvB validate _ _ _ b this.symm
    exact ⟨h2, h3, mouts, _, hm, ha, h4⟩
  refine ⟨one, ?_⟩
  intro k k' b b' hb hb'
  obtain ⟨h1, h2, _⟩ := one k b hb
  obtain ⟨h1', h2', _⟩ := one k' b' hb'
  rw [h1] at h1'
  exact ⟨by simpa using h1', by rw [h2, h2']⟩

/-! ### the readers' count checks -/

/-- **reader_count_mismatch_refused.**  A different number of fields and arrays is refused by the reader constructors of
all three families, and by the one-call readers built on them:
`from_arrow`, `from_arrow2`, `from_record_batch` with the adapters' own error — it wins over every field or array
conversion error, whatever the conversions do —, `from_marrow` with the error of `Deserializer::new` (for a core that
has the check: `Core.RefusesCounts`).  All of them are errors, none a panic. -/
theorem reader_count_mismatch_refused (core : Core OB Items D Out) (cvA : Conv AF AA) (cvB : Conv BF BA) :
    (∀ (afs : List AF) (as : List AA), afs.length ≠ as.length →
      Deserializer.fromArrow core cvA afs as = countMismatch afs.length as.length ∧
      fromArrow core cvA afs as = countMismatch afs.length as.length) ∧
    (∀ (bfs : List BF) (bs : List BA), bfs.length ≠ bs.length →
      Deserializer.fromArrow2 core cvB bfs bs = countMismatch bfs.length bs.length ∧
      fromArrow2 core cvB bfs bs = countMismatch bfs.length bs.length) ∧
    (∀ (batch : RecordBatch AF AA), batch.fields.length ≠ batch.columns.length →
      Deserializer.fromRecordBatch core cvA batch = countMismatch batch.fields.length batch.columns.length ∧
      fromRecordBatch core cvA batch = countMismatch batch.fields.length batch.columns.length) ∧
    (core.RefusesCounts → ∀ (fs : List Field) (vs : List Arr), fs.length ≠ vs.length →
      ∃ msg, Deserializer.fromMarrow core fs vs = .error (.err msg) ∧ fromMarrow core fs vs = .error (.err msg)) := by
  have hA : ∀ {F A : Type} (cv : Conv F A) (afs : List F) (as : List A), afs.length ≠ as.length →
      Deserializer.fromArrow core cv afs as = countMismatch afs.length as.length ∧
      fromArrow core cv afs as = countMismatch afs.length as.length := by
    intro F A cv afs as h
    have h' : (afs.length != as.length) = true := by simpa using h
    have h1 : Deserializer.fromArrow core cv afs as = countMismatch afs.length as.length := by
      simp only [Deserializer.fromArrow, h', if_true]
    exact ⟨h1, by simp only [fromArrow, h1]; rfl⟩
  refine ⟨fun afs as h => hA cvA afs as h, fun bfs bs h => hA cvB bfs bs h, fun batch h => hA cvA _ _ h, ?_⟩
  intro hcore fs vs h
  obtain ⟨msg, hm⟩ := hcore fs vs h
  exact ⟨msg, hm, by simp only [fromMarrow, Deserializer.fromMarrow, hm]; rfl⟩

/-- **readers_fail_together_on_counts.**  The same mismatch handed to every family — field lists of one length, array
lists of another — : `from_marrow`, `from_arrow`, `from_arrow2` and `from_record_batch` ALL fail, all with an error
(class `err`, none succeeds, none panics), the arrow and arrow2 families with literally the same error.  (With equal
counts the adapters' own check passes and `fromArrow_compose` / `backends_agree_read` apply.) -/
theorem readers_fail_together_on_counts (core : Core OB Items D Out) (hcore : core.RefusesCounts)
    (cvA : Conv AF AA) (cvB : Conv BF BA) (fs : List Field) (vs : List Arr) (afs : List AF) (as : List AA)
    (bfs : List BF) (bs : List BA) (md : Metadata)
    (hfa : afs.length = fs.length) (hfb : bfs.length = fs.length) (haa : as.length = vs.length)
    (hbb : bs.length = vs.length) (hne : fs.length ≠ vs.length) :
    (fromMarrow core fs vs).cls = "err" ∧ (fromArrow core cvA afs as).cls = "err" ∧
    (fromArrow2 core cvB bfs bs).cls = "err" ∧
    (fromRecordBatch core cvA { fields := afs, schemaMetadata := md, columns := as }).cls = "err" ∧
    fromArrow core cvA afs as = fromArrow2 core cvB bfs bs ∧
    fromRecordBatch core cvA { fields := afs, schemaMetadata := md, columns := as } = fromArrow core cvA afs as ∧
    (Deserializer.fromMarrow core fs vs).cls = "err" ∧ (Deserializer.fromArrow core cvA afs as).cls = "err" ∧
    (Deserializer.fromArrow2 core cvB bfs bs).cls = "err" := by
  obtain ⟨hA, hB, _, hM⟩ := reader_count_mismatch_refused core cvA cvB
  obtain ⟨msg, hm1, hm2⟩ := hM hcore fs vs hne
  obtain ⟨ha1, ha2⟩ := hA afs as (by omega)
  obtain ⟨hb1, hb2⟩ := hB bfs bs (by omega)
  refine ⟨by rw [hm2]; rfl, by rw [ha2]; rfl, by rw [hb2]; rfl, by rw [fromRecordBatch_eq, ha2]; rfl, ?_, rfl,
    by rw [hm1]; rfl, by rw [ha1]; rfl, by rw [hb1]; rfl⟩
  rw [ha2, hb2, hfa, hfb, haa, hbb]

/-- a core whose `Deserializer::new` starts with the count check of deserializer.rs has the property the marrow
family needs -/
theorem counted_refuses (core : Core OB Items D Out) : core.counted.RefusesCounts := by
  intro fs vs h
  have h' : (fs.length != vs.length) = true := by simpa using h
  exact ⟨_, by simp only [Core.counted, deserializerNewCounted, h', if_true]; rfl⟩

/-- … and so does the model of `Deserializer::new` the reading-side properties (C12, C13) are about: `Access.new true`
(the repaired constructor) refuses every count mismatch with an error; `Access.new false` (the pinned one, which
zipped) accepted some -/
theorem access_new_refuses (nfields : Nat) (viewLens : List Nat) (h : nfields ≠ viewLens.length) :
    ∃ msg, SaModel.Access.new true nfields viewLens = .error (.err msg) := by
  have h' : (nfields != viewLens.length) = true := by simpa using h
  exact ⟨_, by simp only [SaModel.Access.new, h', Bool.true_and, if_true]; rfl⟩

end

/-! ### version selection -/

theorem versionSelect_none : ∀ (vs : List Nat), versionSelect vs = none ↔ vs = []
  | [] => by simp [versionSelect]
  | v :: vs => by
    simp only [versionSelect]
    cases versionSelect vs <;> simp

/-- the selected version is an enabled one and no enabled one is higher -/
theorem versionSelect_some : ∀ (vs : List Nat) (m : Nat), versionSelect vs = some m ↔ m ∈ vs ∧ ∀ v ∈ vs, v ≤ m
  | [], m => by simp [versionSelect]
  | v :: vs, m => by
    simp only [versionSelect]
    cases h : versionSelect vs with
    | none =>
      have : vs = [] := (versionSelect_none vs).1 h
      subst this
      simp only [Option.some.injEq, List.mem_singleton, forall_eq]
      constructor
      · intro e; subst e; exact ⟨rfl, Nat.le_refl _⟩
      · intro ⟨e, _⟩; exact e.symm
    | some m' =>
      have ih := (versionSelect_some vs m').1 h
      simp only [Option.some.injEq, List.mem_cons, forall_eq_or_imp]
      constructor
      · intro e
        split at e
        · subst e
          exact ⟨.inr ih.1, by assumption, ih.2⟩
        · subst e
          refine ⟨.inl rfl, Nat.le_refl _, fun x hx => ?_⟩
          have := ih.2 x hx
          omega
      · intro ⟨hm, hv, hall⟩
        have hm' : m' ≤ m := hall m' ih.1
        split
        · rcases hm with rfl | hm
          · omega
          · have := ih.2 m hm; omega
        · rcases hm with rfl | hm
          · rfl
          · have := ih.2 m hm; omega

/-- **version_select_max**: `[..].into_iter().max()` over any list of enabled versions -/
theorem version_select_max (vs : List Nat) : versionSelect vs = vs.max? := by
  cases h : versionSelect vs with
  | none =>
    have : vs = [] := (versionSelect_none vs).1 h
    subst this; rfl
  | some m =>
    exact (List.max?_eq_some_iff.2 ((versionSelect_some vs m).1 h)).symm

theorem filter_beq_of_nodup : ∀ (l : List Nat) (m : Nat), l.Nodup → m ∈ l → l.filter (fun x => x == m) = [m]
  | [], _, _, h => by cases h
  | x :: l, m, hnd, hm => by
    rw [List.nodup_cons] at hnd
    by_cases hx : x = m
    · subst hx
      have : l.filter (fun y => y == x) = [] := by
        rw [List.filter_eq_nil_iff]
        intro y hy hyx
        have : y = x := by simpa using hyx
        subst this
        exact hnd.1 hy
      simp [this]
    · have hm' : m ∈ l := by
        rcases List.mem_cons.1 hm with h | h
        · exact absurd h.symm hx
        · exact h
      simp [hx, filter_beq_of_nodup l m hnd.2 hm']

/-- build.rs + lib.rs for ANY set of enabled features, given tables of the regular shape (`N ↦ N`, one macro
line `(N, N, N)` per version, no version twice): the API is built against exactly one arrow version, it is an
enabled and declared one, and no enabled declared version is higher; without an enabled version there is no arrow
API at all. -/
theorem selected_version_wired (versions : List Nat) (hnd : versions.Nodup) (features : List Nat) :
    let cfg := arrowCfg (versions.map fun n => (n, n)) features
    (∀ m, cfg.hasArrowN = some m →
        m ∈ versions ∧ m ∈ features ∧ (∀ f ∈ features, f ∈ versions → f ≤ m) ∧
        wiredCrates (versions.map fun n => (n, n, n)) cfg = [(m, m)] ∧ cfg.hasArrow = true ∧
        cfg.fixedBinarySupport = decide (47 ≤ m) ∧ cfg.bytesViewSupport = decide (53 ≤ m)) ∧
    (cfg.hasArrowN = none ↔ ∀ f ∈ features, f ∉ versions) ∧
    (cfg.hasArrowN = none → cfg.hasArrow = false ∧ wiredCrates (versions.map fun n => (n, n, n)) cfg = []) := by
  intro cfg
  have henabled : enabledValues (versions.map fun n => (n, n)) features = versions.filter (fun n => features.contains n) := by
    simp only [enabledValues, List.filter_map, List.map_map]
    have : ((fun (e : Nat × Nat) => e.2) ∘ fun n => (n, n)) = id := rfl
    rw [this, List.map_id]
    rfl
  have hcfg : cfg = arrowCfg (versions.map fun n => (n, n)) features := rfl
  simp only [arrowCfg, henabled] at hcfg
  refine ⟨?_, ?_, ?_⟩
  · intro m hm
    cases hs : versionSelect (versions.filter fun n => features.contains n) with
    | none => rw [hs] at hcfg; rw [hcfg] at hm; cases hm
    | some m' =>
      rw [hs] at hcfg
      have : m' = m := by rw [hcfg] at hm; simpa using hm
      subst this
      obtain ⟨hmem, hmax⟩ := (versionSelect_some _ _).1 hs
      rw [List.mem_filter] at hmem
      have hmf : m' ∈ features := by simpa using hmem.2
      refine ⟨hmem.1, hmf, ?_, ?_, by rw [hcfg], by rw [hcfg]; rfl, by rw [hcfg]; rfl⟩
      · intro f hf hfv
        exact hmax f (List.mem_filter.2 ⟨hfv, by simpa using hf⟩)
      · rw [hcfg]
        simp only [wiredCrates, List.filter_map, List.map_map]
        have hfun : ((fun (e : Nat × Nat × Nat) => some m' == some e.1) ∘ fun n => (n, n, n)) = fun n => n == m' := by
          funext n
          simp only [Function.comp]
          by_cases h : n = m'
          · subst h; simp
          · have : ¬ m' = n := fun e => h e.symm
            have e1 : (n == m') = false := by simpa using h
            have e2 : (m' == n) = false := by simpa using this
            simp [e1, e2]
        rw [hfun, filter_beq_of_nodup versions m' hnd hmem.1]
        rfl
  · constructor
    · intro hn f hf hfv
      cases hs : versionSelect (versions.filter fun n => features.contains n) with
      | none =>
        have := (versionSelect_none _).1 hs
        have hmem : f ∈ versions.filter fun n => features.contains n := List.mem_filter.2 ⟨hfv, by simpa using hf⟩
        rw [this] at hmem; cases hmem
      | some m' => rw [hs] at hcfg; rw [hcfg] at hn; cases hn
    · intro hall
      have : versions.filter (fun n => features.contains n) = [] := by
        rw [List.filter_eq_nil_iff]
        intro n hn hc
        exact hall n (by simpa using hc) hn
      rw [this] at hcfg
      rw [hcfg]; rfl
  · intro hn
    cases hs : versionSelect (versions.filter fun n => features.contains n) with
    | none =>
      rw [hs] at hcfg
      rw [hcfg]
      refine ⟨rfl, ?_⟩
      simp [wiredCrates]
    | some m' => rw [hs] at hcfg; rw [hcfg] at hn; cases hn

/-! ### obligations on the regenerated tables (`SaModel/Generated/ArrowVersions.lean`) -/

section generated
open SaModel.Generated.ArrowVersions

/-- the arrow versions declared as cargo features -/
def declared : List Nat := cargoArrowFeatures.map (·.1)
def declared2 : List Nat := cargoArrow2Features.map (·.1)

def sameSet (a b : List Nat) : Bool := a.all (b.contains ·) && b.all (a.contains ·)

/-- Cargo.toml, build.rs and lib.rs list the same arrow versions, each exactly once -/
theorem gen_same_versions :
    sameSet declared (buildRsArrow.map (·.1)) = true ∧ sameSet declared (libRsArrow.map (·.1)) = true ∧
    declared.Nodup ∧ (buildRsArrow.map (·.1)).Nodup ∧ (libRsArrow.map (·.1)).Nodup := by decide

/-- the declared versions are 37, 38, … without a gap, and reach at least 55 -/
theorem gen_contiguous_from_37 :
    (List.range' 37 declared.length).all (declared.contains ·) = true ∧
    declared.all (fun n => decide (37 ≤ n ∧ n < 37 + declared.length)) = true ∧
    declared.contains 55 = true := by decide

/-- every feature `arrow-N` enables exactly the optional dependencies `arrow-array-N`, `arrow-schema-N` and
marrow's feature of the same version -/
theorem gen_feature_members :
    cargoArrowFeatures.all (fun e => e.2 ==
      ["dep:arrow-array-" ++ toString e.1, "dep:arrow-schema-" ++ toString e.1, "marrow/arrow-" ++ toString e.1]) = true := by
  decide

/-- … and those dependencies exist, are optional, and require the arrow crates of that very version -/
theorem gen_dependencies :
    cargoArrowDeps.all (fun d => d.2.2.2.2 && d.2.2.2.1 == toString d.2.1 && d.1 == d.2.2.1 ++ "-" ++ toString d.2.1 &&
      (d.2.2.1 == "arrow-array" || d.2.2.1 == "arrow-schema")) = true ∧
    declared.all (fun n => (cargoArrowDeps.map (·.1)).contains ("arrow-array-" ++ toString n) &&
      (cargoArrowDeps.map (·.1)).contains ("arrow-schema-" ++ toString n)) = true ∧
    (cargoArrowDeps.map (·.1)).Nodup ∧ cargoArrowDeps.length = 2 * declared.length := by decide

/-- build.rs: each `#[cfg(feature = "arrow-N")]` line lists N itself, one entry is selected with `.max()`, and
`has_arrow` / `has_arrow_{version}` are what is printed for it -/
theorem gen_build_table :
    buildRsArrow = (buildRsArrow.map (·.1)).map (fun n => (n, n)) ∧ buildRsSelector = "max" ∧
    buildRsCfgs = ["has_arrow", "has_arrow_{version}"] := by decide

/-- build.rs: fixed size binary support from arrow 47, byte view support from arrow 53 (as documented and as
modelled by `arrowCfg`) -/
theorem gen_thresholds :
    buildRsThresholds = [("has_arrow_fixed_binary_support", ">=", FIXED_BINARY_SINCE),
                         ("has_arrow_bytes_view_support", ">=", BYTES_VIEW_SINCE)] := by decide

/-- lib.rs: exactly one `build_arrow_crate!` line per version, naming the two crates of that version -/
theorem gen_lib_wiring :
    libRsArrow = (libRsArrow.map (·.1)).map (fun n => (n, n, n)) ∧ libRsArrow.length = declared.length := by decide

/-- the same for the two arrow2 versions -/
theorem gen_arrow2 :
    sameSet declared2 [16, 17] = true ∧ declared2.Nodup ∧
    sameSet declared2 (buildRsArrow2.map (·.1)) = true ∧ sameSet declared2 (libRsArrow2.map (·.1)) = true ∧
    buildRsArrow2 = (buildRsArrow2.map (·.1)).map (fun n => (n, n)) ∧ (buildRsArrow2.map (·.1)).Nodup ∧
    libRsArrow2 = (libRsArrow2.map (·.1)).map (fun n => (n, n)) ∧ (libRsArrow2.map (·.1)).Nodup ∧
    buildRsSelector2 = "max" ∧ buildRsCfgs2 = ["has_arrow2", "has_arrow2_0_{version}"] ∧
    cargoArrow2Features.all (fun e => e.2 == ["dep:arrow2-0-" ++ toString e.1, "marrow/arrow2-0-" ++ toString e.1]) = true ∧
    cargoArrow2Deps.all (fun d => d.2.2.2.2 && d.2.2.1 == "arrow2" && d.2.2.2.1 == "0." ++ toString d.2.1 &&
      d.1 == "arrow2-0-" ++ toString d.2.1) = true ∧
    sameSet declared2 (cargoArrow2Deps.map (·.2.1)) = true := by decide

theorem mem_of_sameSet {a b : List Nat} (h : sameSet a b = true) (n : Nat) : n ∈ a ↔ n ∈ b := by
  simp only [sameSet, Bool.and_eq_true, List.all_eq_true, List.contains_iff_mem] at h
  exact ⟨fun hn => h.1 n hn, fun hn => h.2 n hn⟩

/-- **The tables of the repository, for every feature set**: with the generated `build.rs` / `lib.rs` tables the
crate's arrow API is built against exactly one version — the highest enabled `arrow-N` feature — whenever one
is enabled, for any combination of enabled features. -/
theorem generated_selected_version (features : List Nat) :
    let cfg := arrowCfg buildRsArrow features
    (∀ m, cfg.hasArrowN = some m →
        m ∈ declared ∧ m ∈ features ∧ (∀ f ∈ features, f ∈ declared → f ≤ m) ∧
        wiredCrates libRsArrow cfg = [(m, m)] ∧ cfg.hasArrow = true ∧
        cfg.fixedBinarySupport = decide (47 ≤ m) ∧ cfg.bytesViewSupport = decide (53 ≤ m)) ∧
    (cfg.hasArrowN = none ↔ ∀ f ∈ features, f ∉ declared) := by
  intro cfg
  have hb := gen_build_table.1
  have hl := gen_lib_wiring.1
  obtain ⟨hs1, hs2, _, hnd, _⟩ := gen_same_versions
  have hlib : libRsArrow.map (·.1) = buildRsArrow.map (·.1) := by decide
  have key := selected_version_wired (buildRsArrow.map (·.1)) hnd features
  rw [← hb] at key
  rw [hlib] at hl
  rw [← hl] at key
  obtain ⟨k1, k2, _⟩ := key
  have hmem := mem_of_sameSet hs1
  refine ⟨fun m hm => ?_, ?_⟩
  · obtain ⟨a, b, c, d, e⟩ := k1 m hm
    exact ⟨(hmem m).2 a, b, fun f hf hfd => c f hf ((hmem f).1 hfd), d, e⟩
  · rw [k2]
    exact ⟨fun h f hf hfd => h f hf ((hmem f).1 hfd), fun h f hf hfd => h f hf ((hmem f).2 hfd)⟩

end generated

/-! ### non-vacuity -/

section examples
open SaModel.Generated.ArrowVersions

example : versionSelect [54, 55, 37] = some 55 := by decide
example : versionSelect [] = none := by decide
example : (arrowCfg buildRsArrow [54, 55]).hasArrowN = some 55 := by decide
example : wiredCrates libRsArrow (arrowCfg buildRsArrow [54, 55]) = [(55, 55)] := by decide
example : arrowCfg buildRsArrow [46] =
    { hasArrow := true, hasArrowN := some 46, fixedBinarySupport := false, bytesViewSupport := false } := by decide
example : arrowCfg buildRsArrow [52, 47] =
    { hasArrow := true, hasArrowN := some 52, fixedBinarySupport := true, bytesViewSupport := false } := by decide
example : (arrowCfg buildRsArrow [99]).hasArrow = false := by decide

/-- a toy core and a back end with a type gap: the hypotheses of `backends_agree` are satisfiable and the
conclusion distinguishes success, common failure and conversion failure -/
def toyCore : Core (List Int) (List Int) (List Arr) Nat where
  newOuter := fun fs => if fs.isEmpty then fail "no fields" else .ok []
  serialize := fun b items => .ok (b ++ items)
  takeArrays := fun b => .ok ([.prim .int64 none b], [])
  deserializerNew := fun _ views => .ok views
  deserialize := fun views => .ok views.length

def toyConv (gap : Bool) : Conv Field Arr where
  fieldToMarrow := pure
  fieldOfMarrow := pure
  arrayOfMarrow := fun a => if gap then fail "unsupported" else .ok a
  viewOf := pure

example : toArrow toyCore (toyConv false) [.mk "a" .int64 false []] [1, 2] = .ok [.prim .int64 none [1, 2]] := by decide
example : toArrow toyCore (toyConv true) [.mk "a" .int64 false []] [1, 2] = .error (.err "unsupported") := by decide
example : toArrow toyCore (toyConv true) [] [1, 2] = .error (.err "no fields") := by decide
example : (toRecordBatch toyCore (toyConv false) (fun _ _ => .ok ()) [.mk "a" .int64 false [("k", "v")]] [1]).map (·.fields) =
    .ok [.mk "a" .int64 false [("k", "v")]] := by decide

/-! #### one builder, several builds; count mismatches -/

/-- arrow's column-count check as `validate` -/
def toyValidate : List Field → List Arr → R Unit :=
  fun fs as => if fs.length == as.length then .ok () else fail "number of columns"

def toyField : Field := .mk "a" .int64 false [("k", "v")]
def toyBuilder : ArrayBuilder (List Int) := { builder := [], schema := [toyField] }

def builtFields : R (Built Field Arr Arr) → Option (List Field)
  | .ok (.recordBatch b) => some b.fields
  | _ => none

def builtArrays : R (Built Field Arr Arr) → Option (List Arr)
  | .ok (.marrow a) => some a
  | .ok (.arrow a) => some a
  | .ok (.arrow2 a) => some a
  | .ok (.recordBatch b) => some b.columns
  | _ => none

/-- a history through all four finishers, `to_record_batch` twice: every build returns its own batch, the builder goes
on after the build that fails in the arrow2 conversion, both record batches carry the builder's field with its metadata
(`builder_reuse_agrees`, `record_batch_schema_stable` with non-trivial content) -/
def toyHistory : List (HOp (List Int)) :=
  [.add [1, 2], .finish .recordBatch, .add [3], .finish .arrow2, .finish .marrow, .add [4], .add [5], .finish .recordBatch,
   .finish .arrow]

example : (runHistory toyCore (toyConv false) (toyConv true) toyValidate toyBuilder toyHistory).map
      (fun p => (p.1.map builtArrays, p.1.map builtFields, p.2.schema)) =
    .ok ([some [.prim .int64 none [1, 2]], none, some [.prim .int64 none []], some [.prim .int64 none [4, 5]],
          some [.prim .int64 none []]],
         [some [toyField], none, none, some [toyField], none], [toyField]) := by decide

example : (runMarrow toyCore toyBuilder toyHistory).map (·.1) =
    .ok [[.prim .int64 none [1, 2]], [.prim .int64 none [3]], [.prim .int64 none []], [.prim .int64 none [4, 5]],
         [.prim .int64 none []]] := by decide

/-- the regression `to_record_batch` MOVES the schema out of the builder is told apart by `record_batch_schema_stable`:
with it the second batch of one builder is refused (no field for the column) where the model — the code as it is —
returns a second batch with the same fields -/
example :
    (do let (r1, s1) ← toyBuilder.toRecordBatchTakingS toyCore (toyConv false) toyValidate
        let (r2, _) ← s1.toRecordBatchTakingS toyCore (toyConv false) toyValidate
        pure (r1.map (·.fields), r2.map (·.fields)) : R (R (List Field) × R (List Field))) =
      .ok (.ok [toyField], .error (.err "number of columns")) ∧
    (do let (r1, s1) ← toyBuilder.toRecordBatchS toyCore (toyConv false) toyValidate
        let (r2, _) ← s1.toRecordBatchS toyCore (toyConv false) toyValidate
        pure (r1.map (·.fields), r2.map (·.fields)) : R (R (List Field) × R (List Field))) =
      .ok (.ok [toyField], .ok [toyField]) := by decide

/-- count mismatches: the three adapters refuse with their own error although the field conversion would fail too
(`gapConv`), the marrow family refuses through the core's check (`toyCore.counted`); the regression "`from_arrow2`
zips fields and arrays" accepts the same input -/
def gapConv : Conv Field Arr where
  fieldToMarrow := fun _ => fail "unsupported field"
  fieldOfMarrow := pure
  arrayOfMarrow := pure
  viewOf := fun _ => fail "unsupported array"

example : fromArrow toyCore gapConv [toyField, toyField] [.prim .int64 none [1]] = countMismatch 2 1 := by decide
example : fromArrow2 toyCore gapConv [toyField] [] = countMismatch 1 0 := by decide
example : fromRecordBatch toyCore gapConv { fields := [], schemaMetadata := [], columns := [.prim .int64 none [1]] } =
    countMismatch 0 1 := by decide
example : (fromMarrow toyCore.counted [toyField] []).cls = "err" := by decide
example : fromMarrow toyCore.counted [toyField] [.prim .int64 none [1]] = .ok 1 := by decide
example : (Deserializer.fromArrow2Zipping toyCore (toyConv false) [toyField] []).isOk = true ∧
    (Deserializer.fromArrow2 toyCore (toyConv false) [toyField] []).cls = "err" := by decide
example : SaModel.Access.new true 2 [3] = .error (.err "Cannot deserialize: number of fields and arrays differ") ∧
    SaModel.Access.new false 2 [3] = .ok 3 := by decide

end examples

end SaModel.Props.C19
