import SaModel.Props.C19Reuse
import SaModel.Props.C10Fail
/-
C19 × C10 — one `ArrayBuilder`, any history through any mix of finishers, WITH FAILING OPERATIONS
(`Backend.runHistoryG`, SaModel/Backend/History.lean: the builder with its poisoned flag; every operation yields its outcome
and the history goes on after a failing one).

  after_failure_refuses_history   (any core) once an addition or a `build_arrays` has failed, EVERY later operation through
                                  EVERY finisher fails: no back end hands out arrays of a builder that may hold a partial record
  runHistoryG_factor              (any core) operation by operation the history is the same history finished with `to_marrow`,
                                  each successful build converted by its finisher under the schema the builder was made with:
                                  the four back ends accept / refuse the same operations, the only differences are the
                                  conversions AFTER `build_arrays`
  runMarrowG_is_C10_runG          with the builder model as core the marrow history IS `C10.runG` (Props/C10Fail.lean)
  builder_reuse_one_shot_with_failures
                                  a build that succeeds through finisher `f` — whatever failed or was refused before — is `f`
                                  applied to the one-shot `to_marrow` of the rows added since the previous build, and no
                                  operation failed inside the builder before it
  pinned_uses_partial_state       the unrepaired builder (`runHistoryPinned`) on a two-column core: the build after a failed
                                  addition SUCCEEDS with columns of unequal length; the repaired one refuses it
-/
namespace SaModel.Props.C19
open SaModel SaModel.Backend SaModel.Build SaModel.Lemmas.C19

section
variable {OB Items D Out AF AA BF BA : Type}

/-! ### any core -/

theorem stepG_poisoned (core : Core OB Items D Out) (pre : Items → R Unit) (cvA : Conv AF AA) (cvB : Conv BF BA)
    (validate : List AF → List AA → R Unit) (gb : GBuilder OB) (hp : gb.poisoned = true) (op : HOp Items) :
    ∃ e, stepG core pre cvA cvB validate gb op = (.error e, gb) := by
  cases op with
  | add items =>
    simp only [stepG, hp, if_true]
    cases pre items with
    | error e => exact ⟨e, rfl⟩
    | ok _ => exact ⟨_, rfl⟩
  | finish f => exact ⟨_, by simp only [stepG, hp, if_true]; rfl⟩

/-- **after a failure every operation through every back end is refused** (any core, any conversions): on a builder whose
poisoned flag is set every operation of any history fails — no addition is accepted, no finisher returns arrays or a
record batch — and the builder stays as it is -/
theorem after_failure_refuses_history (core : Core OB Items D Out) (pre : Items → R Unit) (cvA : Conv AF AA)
    (cvB : Conv BF BA) (validate : List AF → List AA → R Unit) (gb : GBuilder OB) (hp : gb.poisoned = true) :
    ∀ (ops : List (HOp Items)), (runHistoryG core pre cvA cvB validate gb ops).2 = gb ∧
      ∀ o ∈ (runHistoryG core pre cvA cvB validate gb ops).1, ∃ e, o = .error e
  | [] => ⟨rfl, by simp [runHistoryG]⟩
  | op :: ops => by
    obtain ⟨e, he⟩ := stepG_poisoned core pre cvA cvB validate gb hp op
    obtain ⟨h1, h2⟩ := after_failure_refuses_history core pre cvA cvB validate gb hp ops
    simp only [runHistoryG, he]
    refine ⟨h1, ?_⟩
    intro o ho
    rcases List.mem_cons.1 ho with rfl | ho
    · exact ⟨e, rfl⟩
    · exact h2 o ho

/-- the same history with `to_marrow` at every build, on the builder with its flag -/
def stepMarrowG (core : Core OB Items D Out) (pre : Items → R Unit) (gb : GBuilder OB) :
    HOp Items → R (Option (List Arr)) × GBuilder OB
  | .add items =>
    match pre items with
    | .error e => (.error e, gb)
    | .ok _ =>
      if gb.poisoned then (fail Backend.poisonedMsg, gb) else
      match serializeInto core gb.inner items with
      | .ok inner => (.ok none, { inner, poisoned := false })
      | .error e => (.error e, { gb with poisoned := true })
  | .finish _ =>
    if gb.poisoned then (fail Backend.poisonedMsg, gb) else
    match gb.inner.toMarrow core with
    | .ok (arrays, inner) => (.ok (some arrays), { inner, poisoned := false })
    | .error e => (.error e, { gb with poisoned := true })

def runMarrowG (core : Core OB Items D Out) (pre : Items → R Unit) :
    GBuilder OB → List (HOp Items) → List (R (Option (List Arr))) × GBuilder OB
  | gb, [] => ([], gb)
  | gb, op :: ops =>
    ((stepMarrowG core pre gb op).1 :: (runMarrowG core pre (stepMarrowG core pre gb op).2 ops).1,
     (runMarrowG core pre (stepMarrowG core pre gb op).2 ops).2)

/-- what finisher `f` makes of the outcome of the `to_marrow` history at the same operation -/
def convOut (cvA : Conv AF AA) (cvB : Conv BF BA) (validate : List AF → List AA → R Unit) (schema : List Field) :
    HOp Items → R (Option (List Arr)) → R (Option (Built AF AA BA))
  | .finish f, .ok (some arrays) => (convertBuilt cvA cvB validate schema f arrays).map some
  | _, .ok _ => .ok none
  | _, .error e => .error e

theorem stepG_factor (core : Core OB Items D Out) (pre : Items → R Unit) (cvA : Conv AF AA) (cvB : Conv BF BA)
    (validate : List AF → List AA → R Unit) (gb : GBuilder OB) (op : HOp Items) :
    stepG core pre cvA cvB validate gb op =
      (convOut cvA cvB validate gb.inner.schema op (stepMarrowG core pre gb op).1, (stepMarrowG core pre gb op).2) ∧
    (stepMarrowG core pre gb op).2.inner.schema = gb.inner.schema := by
  cases op with
  | add items =>
    simp only [stepG, stepMarrowG]
    cases pre items with
    | error e => exact ⟨rfl, rfl⟩
    | ok _ =>
      cases hp : gb.poisoned with
      | true => exact ⟨rfl, rfl⟩
      | false =>
        simp only [Bool.false_eq_true, if_false]
        cases hs : serializeInto core gb.inner items with
        | error e => exact ⟨rfl, rfl⟩
        | ok inner => exact ⟨rfl, serializeInto_schema core _ _ items hs⟩
  | finish f =>
    simp only [stepG, stepMarrowG, finishS_factor]
    cases hp : gb.poisoned with
    | true => exact ⟨rfl, rfl⟩
    | false =>
      simp only [Bool.false_eq_true, if_false]
      cases hs : gb.inner.toMarrow core with
      | error e => exact ⟨rfl, rfl⟩
      | ok p =>
        obtain ⟨arrays, inner⟩ := p
        exact ⟨rfl, toMarrow_schema core _ _ arrays hs⟩

/-- **the back ends accept and refuse the same operations** (any core, any conversions): operation by operation, a
history through ANY mix of finishers is the same history finished with `to_marrow` everywhere — the same additions are
accepted, the same operations fail with the same error, the builder ends in the same state — and every build that succeeds
is its finisher applied to the marrow arrays of that build under the schema the builder was made with. -/
theorem runHistoryG_factor (core : Core OB Items D Out) (pre : Items → R Unit) (cvA : Conv AF AA) (cvB : Conv BF BA)
    (validate : List AF → List AA → R Unit) : ∀ (ops : List (HOp Items)) (gb : GBuilder OB),
    runHistoryG core pre cvA cvB validate gb ops =
      (List.zipWith (convOut cvA cvB validate gb.inner.schema) ops (runMarrowG core pre gb ops).1,
       (runMarrowG core pre gb ops).2)
  | [], gb => rfl
  | op :: ops, gb => by
    obtain ⟨h1, h2⟩ := stepG_factor core pre cvA cvB validate gb op
    simp only [runHistoryG, runMarrowG, h1, List.zipWith_cons_cons]
    rw [runHistoryG_factor core pre cvA cvB validate ops, h2]

end

/-! ### the builder model as core -/

section
variable {D Out AF AA BF BA : Type}

/-- the state of the builder model behind a `GBuilder` -/
def gOf (gb : GBuilder B) : G := if gb.poisoned then none else some gb.inner.builder

theorem serializerPre_reaches : ∀ (x : SVal), reachesBuilder x = true → serializerPre x = .ok ()
  | .newtypeStruct _ v, h => by simpa [serializerPre] using serializerPre_reaches v (by simpa [reachesBuilder] using h)
  | .newtypeVariant _ _ _ v, h => by simpa [serializerPre] using serializerPre_reaches v (by simpa [reachesBuilder] using h)
  | .seq _, _ => rfl
  | .tuple _, _ => rfl
  | .tupleStruct _ _, _ => rfl
  | .tupleVariant _ _ _ _, _ => rfl
  | .none, h => by simp [reachesBuilder] at h
  | .unit, h => by simp [reachesBuilder] at h
  | .some _, h => by simp [reachesBuilder] at h
  | .bool _, h => by simp [reachesBuilder] at h
  | .int _ _, h => by simp [reachesBuilder] at h
  | .f32 _, h => by simp [reachesBuilder] at h
  | .f64 _, h => by simp [reachesBuilder] at h
  | .char _, h => by simp [reachesBuilder] at h
  | .str _, h => by simp [reachesBuilder] at h
  | .bytes _, h => by simp [reachesBuilder] at h
  | .unitStruct _, h => by simp [reachesBuilder] at h
  | .record _ _, h => by simp [reachesBuilder] at h
  | .map _, h => by simp [reachesBuilder] at h
  | .mapRaw _, h => by simp [reachesBuilder] at h
  | .unitVariant _ _ _, h => by simp [reachesBuilder] at h
  | .structVariant _ _ _ _, h => by simp [reachesBuilder] at h

/-- a value that does not reach the builder: `serializerPre` refuses it with the very error `serializeWithG` returns -/
theorem serializerPre_refused (ext : Ext) : ∀ (x : SVal) (g : G), reachesBuilder x = false →
    ∃ e, serializerPre x = .error e ∧ serializeWithG ext g x = (.error e, g)
  | .newtypeStruct _ v, g, h => by
    simpa [serializerPre, serializeWithG] using serializerPre_refused ext v g (by simpa [reachesBuilder] using h)
  | .newtypeVariant _ _ _ v, g, h => by
    simpa [serializerPre, serializeWithG] using serializerPre_refused ext v g (by simpa [reachesBuilder] using h)
  | .seq _, _, h => by simp [reachesBuilder] at h
  | .tuple _, _, h => by simp [reachesBuilder] at h
  | .tupleStruct _ _, _, h => by simp [reachesBuilder] at h
  | .tupleVariant _ _ _ _, _, h => by simp [reachesBuilder] at h
  | .none, _, _ => ⟨_, rfl, rfl⟩
  | .unit, _, _ => ⟨_, rfl, rfl⟩
  | .some _, _, _ => ⟨_, rfl, rfl⟩
  | .bool _, _, _ => ⟨_, rfl, rfl⟩
  | .int _ _, _, _ => ⟨_, rfl, rfl⟩
  | .f32 _, _, _ => ⟨_, rfl, rfl⟩
  | .f64 _, _, _ => ⟨_, rfl, rfl⟩
  | .char _, _, _ => ⟨_, rfl, rfl⟩
  | .str _, _, _ => ⟨_, rfl, rfl⟩
  | .bytes _, _, _ => ⟨_, rfl, rfl⟩
  | .unitStruct _, _, _ => ⟨_, rfl, rfl⟩
  | .record _ _, _, _ => ⟨_, rfl, rfl⟩
  | .map _, _, _ => ⟨_, rfl, rfl⟩
  | .mapRaw _, _, _ => ⟨_, rfl, rfl⟩
  | .unitVariant _ _ _, _, _ => ⟨_, rfl, rfl⟩
  | .structVariant _ _ _ _, _, _ => ⟨_, rfl, rfl⟩

theorem poisonedMsg_eq : Backend.poisonedMsg = Build.poisonedMsg := rfl

/-- a collection given to the wrapper around a poisoned builder: refused when the collection starts -/
theorem serializeWithG_none_reaches (ext : Ext) : ∀ (x : SVal), reachesBuilder x = true →
    serializeWithG ext none x = (fail Build.poisonedMsg, none)
  | .newtypeStruct _ v, h => by
    simpa [serializeWithG] using serializeWithG_none_reaches ext v (by simpa [reachesBuilder] using h)
  | .newtypeVariant _ _ _ v, h => by
    simpa [serializeWithG] using serializeWithG_none_reaches ext v (by simpa [reachesBuilder] using h)
  | .seq _, _ => rfl
  | .tuple _, _ => rfl
  | .tupleStruct _ _, _ => rfl
  | .tupleVariant _ _ _ _, _ => rfl
  | .none, h => by simp [reachesBuilder] at h
  | .unit, h => by simp [reachesBuilder] at h
  | .some _, h => by simp [reachesBuilder] at h
  | .bool _, h => by simp [reachesBuilder] at h
  | .int _ _, h => by simp [reachesBuilder] at h
  | .f32 _, h => by simp [reachesBuilder] at h
  | .f64 _, h => by simp [reachesBuilder] at h
  | .char _, h => by simp [reachesBuilder] at h
  | .str _, h => by simp [reachesBuilder] at h
  | .bytes _, h => by simp [reachesBuilder] at h
  | .unitStruct _, h => by simp [reachesBuilder] at h
  | .record _ _, h => by simp [reachesBuilder] at h
  | .map _, h => by simp [reachesBuilder] at h
  | .mapRaw _, h => by simp [reachesBuilder] at h
  | .unitVariant _ _ _, h => by simp [reachesBuilder] at h
  | .structVariant _ _ _ _, h => by simp [reachesBuilder] at h

/-- one operation: the marrow step of the abstract history with the builder model as core is the step of `C10.runG` -/
theorem stepMarrowG_is_C10_stepG (ext : Ext) (dn : List Field → List Arr → R D) (de : D → R Out)
    (gb : GBuilder B) (op : HOp Add) :
    (stepMarrowG (histCore ext dn de) addPre gb op).1 = (C10.stepG ext (gOf gb) (toOp op)).1 ∧
    gOf (stepMarrowG (histCore ext dn de) addPre gb op).2 = (C10.stepG ext (gOf gb) (toOp op)).2 := by
  cases hp : gb.poisoned with
  | true =>
    have hg : gOf gb = none := by simp [gOf, hp]
    rw [hg]
    cases op with
    | finish f => simp [stepMarrowG, hp, toOp, C10.stepG, buildArraysG, guarded, Except.map, gOf, poisonedMsg_eq, fail]
    | add a =>
      cases a with
      | push x => simp [stepMarrowG, hp, toOp, C10.stepG, pushG, guarded, Except.map, gOf, poisonedMsg_eq, addPre, fail]
      | extend x => simp [stepMarrowG, hp, toOp, C10.stepG, extendG, guarded, Except.map, gOf, poisonedMsg_eq, addPre, fail]
      | viaSerializer x =>
        cases hrb : reachesBuilder x with
        | false =>
          obtain ⟨e, h1, h2⟩ := serializerPre_refused ext x none hrb
          simp [stepMarrowG, toOp, C10.stepG, addPre, h1, h2, Except.map, gOf, hp]
        | true =>
          have h1 := serializerPre_reaches x hrb
          -- the collection start asks the builder: refused with the poisoned message
          have h2 := serializeWithG_none_reaches ext x hrb
          simp [stepMarrowG, toOp, C10.stepG, addPre, h1, h2, hp, Except.map, gOf, poisonedMsg_eq, fail]
  | false =>
    have hg : gOf gb = some gb.inner.builder := by simp [gOf, hp]
    rw [hg]
    cases op with
    | finish f =>
      simp only [stepMarrowG, hp, toOp, C10.stepG, C10.buildArraysG_some, ArrayBuilder.toMarrow, ArrayBuilder.buildArrays,
        histCore, bind, Except.bind, pure, Except.pure, Bool.false_eq_true, if_false]
      cases buildArrays ext gb.inner.builder with
      | error e => simp [Except.map, gOf]
      | ok p => simp [Except.map, gOf]
    | add a =>
      cases a with
      | push x =>
        simp only [stepMarrowG, hp, toOp, C10.stepG, C10.pushG_some, addPre, serializeInto, histCore, addTo, bind,
          Except.bind, pure, Except.pure, Bool.false_eq_true, if_false]
        cases push ext gb.inner.builder x with
        | error e => simp [Except.map, gOf]
        | ok b => simp [Except.map, gOf]
      | extend x =>
        simp only [stepMarrowG, hp, toOp, C10.stepG, C10.extendG_some, addPre, serializeInto, histCore, addTo, bind,
          Except.bind, pure, Except.pure, Bool.false_eq_true, if_false]
        cases extend ext gb.inner.builder x with
        | error e => simp [Except.map, gOf]
        | ok b => simp [Except.map, gOf]
      | viaSerializer x =>
        cases hrb : reachesBuilder x with
        | false =>
          obtain ⟨e, h1, h2⟩ := serializerPre_refused ext x (some gb.inner.builder) hrb
          simp [stepMarrowG, toOp, C10.stepG, addPre, h1, h2, Except.map, gOf, hp]
        | true =>
          have h1 := serializerPre_reaches x hrb
          simp only [stepMarrowG, hp, toOp, C10.stepG, C10.serializeWithG_reaches ext x _ hrb, addPre, h1, serializeInto,
            histCore, addTo, bind, Except.bind, pure, Except.pure, Bool.false_eq_true, if_false]
          cases serializeWith ext gb.inner.builder x with
          | error e => simp [Except.map, gOf]
          | ok b => simp [Except.map, gOf]

/-- with the builder model as core, the marrow history with failing operations IS the history `Props/C10Fail.lean` runs -/
theorem runMarrowG_is_C10_runG (ext : Ext) (dn : List Field → List Arr → R D) (de : D → R Out) :
    ∀ (ops : List (HOp Add)) (gb : GBuilder B),
    (runMarrowG (histCore ext dn de) addPre gb ops).1 = (C10.runG ext (gOf gb) (ops.map toOp)).1 ∧
    gOf (runMarrowG (histCore ext dn de) addPre gb ops).2 = (C10.runG ext (gOf gb) (ops.map toOp)).2
  | [], gb => ⟨rfl, rfl⟩
  | op :: ops, gb => by
    obtain ⟨h1, h2⟩ := stepMarrowG_is_C10_stepG ext dn de gb op
    obtain ⟨g1, g2⟩ := runMarrowG_is_C10_runG ext dn de ops (stepMarrowG (histCore ext dn de) addPre gb op).2
    simp only [runMarrowG, List.map, C10.runG]
    rw [h2] at g1 g2
    exact ⟨by rw [h1, g1], g2⟩

/-- **every build that succeeds returns exactly its batch through every back end — also after failed operations.**  A
builder created for `fields`, ANY history of `push` / `extend` / `Serializer` calls and builds through ANY mix of the four
finishers, operations may fail and the history goes on: if operation `i` is a build through finisher `f` whose
`build_arrays` succeeded (the outcome is `out`, possibly a failed conversion), then `out` is `f` applied to the arrays of
the one-shot `to_marrow(fields, rows)`, `rows` = the rows added since the previous build; and every earlier operation
succeeded or was refused by the `Serializer` wrapper before it reached the builder.  Conversely
(`after_failure_refuses_history`) after an operation that failed inside the builder no finisher returns anything.  No
hypothesis on the schema or the rows. -/
theorem builder_reuse_one_shot_with_failures (ext : Ext) (dn : List Field → List Arr → R D) (de : D → R Out)
    (cvA : Conv AF AA) (cvB : Conv BF BA) (validate : List AF → List AA → R Unit)
    (fields : List Field) (self : ArrayBuilder B) (h0 : ArrayBuilder.new (histCore ext dn de) fields = .ok self)
    (ops : List (HOp Add)) (i : Nat) (f : Finisher) (hop : ops[i]? = some (.finish f)) :
    let outs := (runHistoryG (histCore ext dn de) addPre cvA cvB validate (GBuilder.clean self) ops).1
    let mouts := (C10.runG ext (some self.builder) (ops.map toOp)).1
    outs.length = ops.length ∧
    (∀ e, mouts[i]? = some (.error e) → outs[i]? = some (.error e)) ∧
    ∀ arrays, mouts[i]? = some (.ok (some arrays)) →
      outs[i]? = some ((convertBuilt cvA cvB validate fields f arrays).map some) ∧
      Build.toMarrow ext fields (C10.trailing [] ((ops.take i).map toOp)) = .ok arrays ∧
      ∀ j, j < i → ∃ op o, (ops.map toOp)[j]? = some op ∧ mouts[j]? = some o ∧ (o.isOk = true ∨ op.shapeRefused = true) := by
  intro outs mouts
  -- the builder: the fresh root, the given fields
  simp only [ArrayBuilder.new, histCore, bind, Except.bind, pure, Except.pure] at h0
  cases hr : newRoot fields with
  | error e => simp [hr] at h0
  | ok r0 =>
    simp only [hr, Except.ok.injEq] at h0
    subst h0
    have hfac := runHistoryG_factor (histCore ext dn de) addPre cvA cvB validate ops
      (GBuilder.clean { builder := r0, schema := fields })
    have hm := (runMarrowG_is_C10_runG ext dn de ops (GBuilder.clean { builder := r0, schema := fields })).1
    have hg : gOf (GBuilder.clean { builder := r0, schema := fields }) = some r0 := rfl
    rw [hg] at hm
    have houts : outs = List.zipWith (convOut cvA cvB validate fields) ops mouts := by
      show (runHistoryG _ _ _ _ _ _ _).1 = _
      rw [hfac, hm]; rfl
    have hlen : mouts.length = ops.length := by
      show (C10.runG ext (some r0) (ops.map toOp)).1.length = _
      rw [C10.runG_length]; simp
    have hopb : (ops.map toOp)[i]? = some .build := by simp [List.getElem?_map, hop, toOp]
    refine ⟨by rw [houts]; simp [hlen], ?_, ?_⟩
    · intro e he
      rw [houts, List.getElem?_zipWith, hop, he]; rfl
    · intro arrays ha
      refine ⟨by rw [houts, List.getElem?_zipWith, hop, ha]; rfl, ?_⟩
      have := C10.build_ok_oneShot ext fields r0 hr (ops.map toOp) i arrays hopb ha
      rw [← List.map_take] at this
      exact this

end

/-! ### the unrepaired builder uses the partial state (negative example), the repaired one refuses -/

section examples

/-- a core with TWO columns whose `serialize` writes the first value, then refuses the second when it is out of range -/
def twoCore : Core (List Int × List Int) (Int × Int) (List Arr) Nat where
  newOuter := fun _ => .ok ([], [])
  serialize := fun b item => if item.2 > 127 then fail "out of range" else .ok (b.1 ++ [item.1], b.2 ++ [item.2])
  takeArrays := fun b => .ok ([.prim .int64 none b.1, .prim .int8 none b.2], ([], []))
  deserializerNew := fun _ views => .ok views
  deserialize := fun views => .ok views.length

/-- what the failing `serialize` has written by the time it fails: the first column -/
def twoPartial : List Int × List Int → Int × Int → List Int × List Int := fun b item => (b.1 ++ [item.1], b.2)

def twoBuilder : ArrayBuilder (List Int × List Int) :=
  { builder := ([], []), schema := [.mk "a" .int64 false [], .mk "b" .int8 false []] }

def twoHistory : List (HOp (Int × Int)) := [.add (1, 1), .add (2, 1000), .add (3, 3), .finish .marrow, .finish .arrow2]

def outArrays : R (Option (Built Field Arr Arr)) → Option (List Arr)
  | .ok (some (.marrow a)) => some a
  | .ok (some (.arrow a)) => some a
  | .ok (some (.arrow2 a)) => some a
  | .ok (some (.recordBatch b)) => some b.columns
  | _ => none

/-- **pinned_uses_partial_state.**  The unrepaired builder: the addition after the failed one is accepted and `to_marrow`
SUCCEEDS with columns of lengths 3 and 2 — the value 2 of a record nobody pushed successfully is in the first column
(C03, C10 violated; what arrow2 unwraps on).  The repaired builder refuses every operation after the failed one. -/
theorem pinned_uses_partial_state :
    (runHistoryPinned twoCore twoPartial Conv.id Conv.id toyValidate twoBuilder twoHistory).1.map outArrays =
      [none, none, none, some [.prim .int64 none [1, 2, 3], .prim .int8 none [1, 3]], some [.prim .int64 none [], .prim .int8 none []]] ∧
    (runHistoryPinned twoCore twoPartial Conv.id Conv.id toyValidate twoBuilder twoHistory).1.map (·.cls) =
      ["ok", "err", "ok", "ok", "ok"] ∧
    (runHistoryG twoCore (fun _ => .ok ()) (AF := Field) (AA := Arr) (BF := Field) (BA := Arr) Conv.id Conv.id toyValidate
        (GBuilder.clean twoBuilder) twoHistory).1.map (·.cls) = ["ok", "err", "err", "err", "err"] := by
  decide

/-- `after_failure_refuses_history` and `runHistoryG_factor` on the toy history of Props/C19.lean with a refusing core in
the middle: non-vacuity of the abstract statements -/
example : (runHistoryG twoCore (fun _ => .ok ()) (AF := Field) (AA := Arr) (BF := Field) (BA := Arr) Conv.id Conv.id toyValidate
    (GBuilder.clean twoBuilder) [.add (1, 1), .finish .recordBatch, .add (2, 2), .finish .arrow]).1.map outArrays =
    [none, some [.prim .int64 none [1], .prim .int8 none [1]], none, some [.prim .int64 none [2], .prim .int8 none [2]]] := by
  decide

/-- `builder_reuse_one_shot_with_failures` on the history of Props/C19Reuse.lean with a refused record in the middle: the
first build (a record batch) is its finisher applied to the one-shot conversion of its batch; the build after the failed
push is refused -/
def exFailHistory : List (HOp Add) :=
  [.add (.push (C10.exRec "x" [1])), .finish .recordBatch,
   .add (.push (.record "R" (.cons "d" 0 (.str "y") (.cons "l" 0 (.seq (.cons (.str "no") .nil)) .nil)))),
   .add (.push (C10.exRec "z" [])), .finish .arrow2]

example : (runHistoryG exCore addPre Conv.id Conv.id exValidate (GBuilder.clean { builder := C10.exRoot0, schema := C10.exFields })
    exFailHistory).1.map (·.cls) = ["ok", "ok", "err", "err", "err"] := by decide +kernel

example : ∀ arrays, (C10.runG {} (some C10.exRoot0) (exFailHistory.map toOp)).1[1]? = some (.ok (some arrays)) →
    Build.toMarrow {} C10.exFields [C10.exRec "x" [1]] = .ok arrays := fun arrays h =>
  ((builder_reuse_one_shot_with_failures {} _ _ Conv.id Conv.id exValidate C10.exFields _ exBuilder exFailHistory 1
    .recordBatch rfl).2.2 arrays h).2.1

end examples

end SaModel.Props.C19
