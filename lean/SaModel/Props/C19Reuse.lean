import SaModel.Props.C19
import SaModel.Props.C10Arrays
/-
C19 × C10 — one `ArrayBuilder`, any history, any mix of finishers: every build returns exactly its batch THROUGH EVERY
BACK END.

`Props/C19.lean` (`builder_reuse_agrees`) says, for an abstract core: build k through finisher `f` is `f` applied to the
marrow arrays of build k.  Here the builder model is plugged in (`BuildCore.histCore`: an item of a history is one
`push` / `extend` / `Serializer` call), which makes the marrow history literally the history `Props/C10.lean` runs:

  runMarrow_is_C10_run       `runMarrow (histCore ext ..)` = `C10.run ext` on the same operations
  builder_reuse_one_shot     build k of ANY history, through ANY finisher f, is `f` applied to the ONE-SHOT
                             `to_marrow(fields, batch k)` — the rows added since the previous build, whichever finishers
                             were called before (`to_record_batch`: under the fields of the schema the builder was created
                             with).  No hypothesis on schema or rows.
  builder_reuse_decodes      with the hypotheses of `C10_histories` — `SchemaOKF` and `coveredF` of the fields, alternating raw
                             key / value streams in EVERY operation (`OpsOK structStreamsAlternate`), `OpsOK noRaw` OR the
                             sentinel bound `narrowRoot`; no `Safe` — and
                             `hA`/`hB` (a converted array means what the marrow array means): the arrays of an arrow / arrow2
                             build and the columns of a record batch decode, column by column, to the documented values of
                             batch k.
-/
namespace SaModel.Props.C19
open SaModel SaModel.Backend SaModel.Build SaModel.Lemmas.C19

/-- an operation of a finisher history as an operation of `Props/C10.lean` (every finisher is a `build`) -/
def toOp : HOp Add → C10.Op
  | .add (.push x) => .push x
  | .add (.extend x) => .extend x
  | .add (.viaSerializer x) => .viaSerializer x
  | .finish _ => .build

section
variable {D Out AF AA BF BA : Type}

/-- with the builder model as core, the marrow history IS the history C10 speaks about -/
theorem runMarrow_is_C10_run (ext : Ext) (dn : List Field → List Arr → R D) (de : D → R Out) :
    ∀ (ops : List (HOp Add)) (self : ArrayBuilder B),
    runMarrow (histCore ext dn de) self ops =
      (C10.run ext self.builder (ops.map toOp)).map fun p => (p.1.map (·.2), { self with builder := p.2 })
  | [], self => rfl
  | .add (.push x) :: ops, self => by
    simp only [runMarrow, List.map, toOp, C10.run, serializeInto, histCore, addTo, bind, Except.bind, pure, Except.pure]
    cases push ext self.builder x with
    | error e => rfl
    | ok b => exact runMarrow_is_C10_run ext dn de ops _
  | .add (.extend x) :: ops, self => by
    simp only [runMarrow, List.map, toOp, C10.run, serializeInto, histCore, addTo, bind, Except.bind, pure, Except.pure]
    cases extend ext self.builder x with
    | error e => rfl
    | ok b => exact runMarrow_is_C10_run ext dn de ops _
  | .add (.viaSerializer x) :: ops, self => by
    simp only [runMarrow, List.map, toOp, C10.run, serializeInto, histCore, addTo, bind, Except.bind, pure, Except.pure]
    cases serializeWith ext self.builder x with
    | error e => rfl
    | ok b => exact runMarrow_is_C10_run ext dn de ops _
  | .finish f :: ops, self => by
    simp only [runMarrow, List.map, toOp, C10.run, ArrayBuilder.toMarrow, ArrayBuilder.buildArrays, histCore, bind,
      Except.bind, pure, Except.pure]
    cases buildArrays ext self.builder with
    | error e => rfl
    | ok p =>
      dsimp only
      have ih := runMarrow_is_C10_run ext dn de ops { builder := p.2, schema := self.schema }
      simp only [histCore] at ih
      rw [ih]
      cases C10.run ext p.2 (ops.map toOp) with
      | error e => rfl
      | ok q => rfl

theorem finishers_length_builds : ∀ (ops : List (HOp Add)), (finishers ops).length = C10.builds (ops.map toOp)
  | [] => rfl
  | .add (.push x) :: ops => by
    have := finishers_length_builds ops
    simp only [finishers, C10.builds] at this ⊢
    simpa [List.filterMap_cons, HOp.finisher?, toOp, List.filter_cons, C10.Op.isBuild] using this
  | .add (.extend x) :: ops => by
    have := finishers_length_builds ops
    simp only [finishers, C10.builds] at this ⊢
    simpa [List.filterMap_cons, HOp.finisher?, toOp, List.filter_cons, C10.Op.isBuild] using this
  | .add (.viaSerializer x) :: ops => by
    have := finishers_length_builds ops
    simp only [finishers, C10.builds] at this ⊢
    simpa [List.filterMap_cons, HOp.finisher?, toOp, List.filter_cons, C10.Op.isBuild] using this
  | .finish f :: ops => by
    have := finishers_length_builds ops
    simp only [finishers, C10.builds] at this ⊢
    simpa [List.filterMap_cons, HOp.finisher?, toOp, List.filter_cons, C10.Op.isBuild] using this

/-- **every build returns exactly its batch through every back end.**  A builder created for `fields`
(`ArrayBuilder::new` / `from_marrow`; `from_arrow` / `from_arrow2` are this after the field conversion:
`builder_paths_factor`), ANY history of `push` / `extend` / `Serializer` calls and builds through ANY mix of the four
finishers: the history returns one result per build, and build k through finisher `f` is `f` applied to the arrays of
the one-shot `to_marrow(fields, batch k)`, batch k being the rows added since build k-1 — for `to_record_batch` under the
converted `fields`, at the first batch and at every later one.  No hypothesis on the schema or the rows. -/
theorem builder_reuse_one_shot (ext : Ext) (dn : List Field → List Arr → R D) (de : D → R Out)
    (cvA : Conv AF AA) (cvB : Conv BF BA) (validate : List AF → List AA → R Unit)
    (fields : List Field) (self : ArrayBuilder B) (h0 : ArrayBuilder.new (histCore ext dn de) fields = .ok self)
    (ops : List (HOp Add)) (outs : List (R (Built AF AA BA))) (fin : ArrayBuilder B)
    (h : runHistory (histCore ext dn de) cvA cvB validate self ops = .ok (outs, fin)) :
    outs.length = C10.builds (ops.map toOp) ∧ (C10.batchesFrom [] (ops.map toOp)).length = C10.builds (ops.map toOp) ∧
    fin.schema = fields ∧ runRows ext fields (C10.trailing [] (ops.map toOp)) = .ok fin.builder ∧
    ∀ (k : Nat) (f : Finisher) (rows : List SVal), (finishers ops)[k]? = some f →
      (C10.batchesFrom [] (ops.map toOp))[k]? = some rows →
      ∃ arrays, Build.toMarrow ext fields rows = .ok arrays ∧
        outs[k]? = some (convertBuilt cvA cvB validate fields f arrays) := by
  -- the builder: the fresh root, the given fields
  simp only [ArrayBuilder.new, histCore, bind, Except.bind, pure, Except.pure] at h0
  cases hr : newRoot fields with
  | error e => simp [hr] at h0
  | ok r0 =>
    simp only [hr, Except.ok.injEq] at h0
    subst h0
    obtain ⟨mouts, hm, hs, hl1, hl2, hk⟩ := builder_reuse_each _ cvA cvB validate ops _ fin outs h
    rw [runMarrow_is_C10_run] at hm
    cases hc : C10.run ext r0 (ops.map toOp) with
    | error e => simp [hc, Except.map] at hm
    | ok p =>
      obtain ⟨couts, cfin⟩ := p
      simp only [hc, Except.map, Except.ok.injEq, Prod.mk.injEq] at hm
      obtain ⟨rfl, rfl⟩ := hm
      obtain ⟨hall, htr⟩ := C10.run_oneShot ext fields r0 hr (ops.map toOp) couts cfin hc
      obtain ⟨hlen, hget⟩ := Props.C03.All2_get hall
      have hb := C10.batchesFrom_length (ops.map toOp) []
      refine ⟨by rw [hl1, finishers_length_builds], hb, hs, htr, ?_⟩
      intro k f rows hf hrows
      have hk1 : k < (C10.batchesFrom [] (ops.map toOp)).length := by
        rcases Nat.lt_or_ge k (C10.batchesFrom [] (ops.map toOp)).length with h | h
        · exact h
        · rw [List.getElem?_eq_none h] at hrows; cases hrows
      have hk2 : k < couts.length := by omega
      obtain ⟨_, hone⟩ := hget k hk2 hk1
      have hrows' : (C10.batchesFrom [] (ops.map toOp))[k] = rows := by
        rw [List.getElem?_eq_getElem hk1] at hrows; simpa using hrows
      rw [hrows'] at hone
      refine ⟨couts[k].2, hone, hk k f couts[k].2 hf ?_⟩
      simp [List.getElem?_map, List.getElem?_eq_getElem hk2]

/-- … and what the arrays mean: under the hypotheses of `C10.C10_histories` — `hschema` (`SchemaOKF`), `hcov` (`coveredF`),
`hraw` (`OpsOK structStreamsAlternate`: the raw key / value call streams of every record of every operation alternate) and
`hnar` (no raw stream in ANY operation, or the sentinel bound `narrowRoot`); NO `Safe`
hypothesis — `Props.C01.C01_build_decode'`, the hidden-rows refinement — and `hA` / `hB` (a converted array decodes to what the marrow array decodes to — the hypotheses of
`backends_agree`, validated by the `backend` suite), the arrays of build k — marrow's, arrow's, arrow2's, the columns of a
record batch — decode, column by column, to the documented values of the records of batch k. -/
theorem builder_reuse_decodes (ext : Ext) (dn : List Field → List Arr → R D) (de : D → R Out)
    (cvA : Conv AF AA) (cvB : Conv BF BA) (validate : List AF → List AA → R Unit)
    (decodeA : AA → List (R LVal)) (decodeB : BA → List (R LVal))
    (hA : ∀ a aa, cvA.arrayOfMarrow a = .ok aa → decodeA aa = Spec.decodeAll a)
    (hB : ∀ a ba, cvB.arrayOfMarrow a = .ok ba → decodeB ba = Spec.decodeAll a)
    (fields : List Field) (self : ArrayBuilder B) (h0 : ArrayBuilder.new (histCore ext dn de) fields = .ok self)
    (hschema : ∀ f ∈ fields, Lemmas.C03.SchemaOKF f) (hcov : fields.all Build.coveredF = true)
    (ops : List (HOp Add)) (hraw : C10.OpsOK (fun x => structStreamsAlternate x = true) (ops.map toOp))
    (hnar : C10.OpsOK (fun x => noRaw x = true) (ops.map toOp) ∨ narrowRoot fields = true)
    (outs : List (R (Built AF AA BA))) (fin : ArrayBuilder B)
    (h : runHistory (histCore ext dn de) cvA cvB validate self ops = .ok (outs, fin))
    (k : Nat) (rows : List SVal) (hrows : (C10.batchesFrom [] (ops.map toOp))[k]? = some rows)
    (b : Built AF AA BA) (hb : outs[k]? = some (.ok b)) :
    ∃ arrays, C10.DecodesTo ext fields arrays rows ∧
      match b with
      | .marrow a => a = arrays
      | .arrow as => as.map decodeA = arrays.map Spec.decodeAll
      | .arrow2 bs => bs.map decodeB = arrays.map Spec.decodeAll
      | .recordBatch batch => batch.columns.map decodeA = arrays.map Spec.decodeAll ∧
          fields.mapM cvA.fieldOfMarrow = .ok batch.fields ∧ batch.schemaMetadata = [] := by
  obtain ⟨hl, hbl, _, _, hk⟩ := builder_reuse_one_shot ext dn de cvA cvB validate fields self h0 ops outs fin h
  have hk1 : k < outs.length := by
    rcases Nat.lt_or_ge k outs.length with h | h
    · exact h
    · rw [List.getElem?_eq_none h] at hb; cases hb
  have hfl : (finishers ops).length = C10.builds (ops.map toOp) := finishers_length_builds ops
  have hf : (finishers ops)[k]? = some (finishers ops)[k] := List.getElem?_eq_getElem (by omega)
  obtain ⟨arrays, hone, hout⟩ := hk k _ rows hf hrows
  rw [hb] at hout
  simp only [Option.some.injEq] at hout
  -- the marrow arrays of the batch decode to the batch (C10_histories through the one-shot conversion)
  have hdec : C10.DecodesTo ext fields arrays rows := by
    simp only [ArrayBuilder.new, histCore, bind, Except.bind, pure, Except.pure] at h0
    cases hr : newRoot fields with
    | error e => simp [hr] at h0
    | ok r0 =>
      simp only [hr, Except.ok.injEq] at h0
      subst h0
      have hrows_ok : ∀ x ∈ rows, structStreamsAlternate x = true :=
        C10.mem_batchesFrom (fun x => structStreamsAlternate x = true) (ops.map toOp) [] (by simp) hraw rows
          (List.mem_of_getElem? hrows)
      have hnar' : (∀ x ∈ rows, noRaw x = true) ∨ narrowRoot fields = true :=
        hnar.imp (fun hno => C10.mem_batchesFrom (fun x => noRaw x = true) (ops.map toOp) [] (by simp) hno rows
          (List.mem_of_getElem? hrows)) id
      obtain ⟨hd1, cols, hd2, hd3, hd4, hd5⟩ :=
        Props.C01.C01_build_decode' ext fields rows arrays hschema hcov hrows_ok hnar' hone
      exact ⟨hd1, cols, hd2, hd3, hd4, hd5⟩
  refine ⟨arrays, hdec, ?_⟩
  cases hfk : (finishers ops)[k] with
  | marrow =>
    rw [hfk] at hout
    simp only [convertBuilt, Except.ok.injEq] at hout
    subst hout; rfl
  | arrow =>
    rw [hfk] at hout
    simp only [convertBuilt, Except.map] at hout
    cases hc : List.mapM cvA.arrayOfMarrow arrays with
    | error e => simp [hc] at hout
    | ok as =>
      simp only [hc, Except.ok.injEq] at hout
      subst hout
      exact mapM_ok_map _ _ _ hA _ _ hc
  | arrow2 =>
    rw [hfk] at hout
    simp only [convertBuilt, Except.map] at hout
    cases hc : List.mapM cvB.arrayOfMarrow arrays with
    | error e => simp [hc] at hout
    | ok bs =>
      simp only [hc, Except.ok.injEq] at hout
      subst hout
      exact mapM_ok_map _ _ _ hB _ _ hc
  | recordBatch =>
    rw [hfk] at hout
    cases b with
    | recordBatch batch =>
      obtain ⟨_, h2, h3, h4, _⟩ := convertBuilt_recordBatch cvA cvB validate fields _ arrays batch hout.symm
      exact ⟨mapM_ok_map _ _ _ hA _ _ h4, h2, h3⟩
    | marrow a =>
      simp only [convertBuilt, Except.map] at hout
      cases hc : recordBatchOf cvA validate fields (List.mapM cvA.arrayOfMarrow arrays) <;> simp [hc] at hout
    | arrow a =>
      simp only [convertBuilt, Except.map] at hout
      cases hc : recordBatchOf cvA validate fields (List.mapM cvA.arrayOfMarrow arrays) <;> simp [hc] at hout
    | arrow2 a =>
      simp only [convertBuilt, Except.map] at hout
      cases hc : recordBatchOf cvA validate fields (List.mapM cvA.arrayOfMarrow arrays) <;> simp [hc] at hout

end

/-! ### non-vacuity: the history of `Props/C10Arrays.lean` (a dictionary column with per-batch state and a nullable list,
rows added through all three front ends, an empty build) finished through `to_record_batch`, `to_arrow2`,
`to_record_batch` on one builder -/

section examples
open C10

def exHistory : List (HOp Add) :=
  [.add (.push (exRec "x" [1])), .add (.extend (.seq (.cons (exRec "y" []) (.cons (exRec "x" [2, 3]) .nil)))),
   .finish .recordBatch, .finish .arrow2,
   .add (.viaSerializer (.tuple (.cons (exRec "z" []) .nil))), .add (.push (.record "R" (.cons "d" 0 (.str "z") .nil))),
   .finish .recordBatch]

def exCore : Core B Add (List Arr) Nat := histCore {} (fun _ views => .ok views) (fun views => .ok views.length)

/-- arrow's column-count check -/
def exValidate : List Field → List Arr → R Unit :=
  fun fs as => if fs.length == as.length then .ok () else fail "number of columns"

example : exHistory.map toOp = exOps ∧ finishers exHistory = [.recordBatch, .arrow2, .recordBatch] := ⟨rfl, rfl⟩

theorem exBuilder : ArrayBuilder.new exCore exFields = .ok { builder := exRoot0, schema := exFields } := by
  simp only [ArrayBuilder.new, exCore, histCore, exNew, bind, Except.bind, pure, Except.pure]

/-- the history succeeds; the first and the THIRD build are record batches with the fields the builder was created with,
of 3 and 2 rows, the second build has no rows -/
example : (runHistory exCore Conv.id Conv.id exValidate { builder := exRoot0, schema := exFields } exHistory).map
      (fun p => p.1.map fun
        | .ok (.recordBatch b) => (some b.fields, b.columns.map fun a => (Spec.decodeAll a).length)
        | .ok (.arrow2 a) => (none, a.map fun a => (Spec.decodeAll a).length)
        | _ => (none, [])) =
    .ok [(some exFields, [3, 3]), (none, [0, 0]), (some exFields, [2, 2])] := by decide +kernel

/-- `builder_reuse_one_shot` applies to it: every build is its finisher applied to the one-shot conversion of its batch -/
example : ∀ outs fin, runHistory exCore Conv.id Conv.id exValidate { builder := exRoot0, schema := exFields } exHistory =
      .ok (outs, fin) →
    ∃ arrays, Build.toMarrow {} exFields [exRec "z" [], .record "R" (.cons "d" 0 (.str "z") .nil)] = .ok arrays ∧
      outs[2]? = some (convertBuilt Conv.id Conv.id exValidate exFields .recordBatch arrays) := by
  intro outs fin h
  have := (builder_reuse_one_shot {} _ _ Conv.id Conv.id exValidate exFields _ exBuilder exHistory outs fin h).2.2.2.2
  exact this 2 .recordBatch _ (by decide) (by decide)

/-- `builder_reuse_decodes` applies to it with every hypothesis discharged (identity conversions): the third build — a
record batch — holds columns that decode to the documented values of the two records of batch 2 -/
example : ∀ outs fin, runHistory exCore Conv.id Conv.id exValidate { builder := exRoot0, schema := exFields } exHistory =
      .ok (outs, fin) → ∀ b, outs[2]? = some (.ok b) →
    ∃ arrays, DecodesTo {} exFields arrays [exRec "z" [], .record "R" (.cons "d" 0 (.str "z") .nil)] := by
  intro outs fin h b hb
  obtain ⟨arrays, hd, _⟩ := builder_reuse_decodes {} _ _ Conv.id Conv.id exValidate Spec.decodeAll Spec.decodeAll
    (by intro a aa h; cases h; rfl) (by intro a aa h; cases h; rfl) exFields _ exBuilder
    (by simp [exFields, Lemmas.C03.SchemaOKF, Lemmas.C03.SchemaOK]) (by decide) exHistory
    (by unfold OpsOK; decide) (Or.inl (by unfold OpsOK; decide)) outs fin h 2
    [exRec "z" [], .record "R" (.cons "d" 0 (.str "z") .nil)] (by decide) b hb
  exact ⟨arrays, hd⟩

/-- a history the former hypothesis `OpsOK noRaw` excluded: one record arrives as an ALTERNATING raw `SerializeMap` call
stream (key, value, key, value), the build goes through `to_arrow` -/
def exRawRec : SVal := .mapRaw (.key (.str "d") (.value (.str "x") (.key (.str "l") (.value .none .nil))))
def exRawHistory : List (HOp Add) := [.add (.push exRawRec), .add (.push (exRec "y" [4])), .finish .arrow]

example : noRaw exRawRec = false ∧
    (runHistory exCore Conv.id Conv.id exValidate { builder := exRoot0, schema := exFields } exRawHistory).isOk = true :=
  ⟨by decide, by decide +kernel⟩

/-- `builder_reuse_decodes` applies to it (through `narrowRoot`): the arrow arrays of its build decode to the documented
values of both records -/
example : ∀ outs fin, runHistory exCore Conv.id Conv.id exValidate { builder := exRoot0, schema := exFields } exRawHistory =
      .ok (outs, fin) → ∀ as, outs[0]? = some (.ok (.arrow as)) →
    ∃ arrays, DecodesTo {} exFields arrays [exRawRec, exRec "y" [4]] ∧ as.map Spec.decodeAll = arrays.map Spec.decodeAll := by
  intro outs fin h as hb
  exact builder_reuse_decodes {} _ _ Conv.id Conv.id exValidate Spec.decodeAll Spec.decodeAll
    (by intro a aa h; cases h; rfl) (by intro a aa h; cases h; rfl) exFields _ exBuilder
    (by simp [exFields, Lemmas.C03.SchemaOKF, Lemmas.C03.SchemaOK]) (by decide) exRawHistory
    (by unfold OpsOK; decide) (Or.inr (by decide)) outs fin h 0 [exRawRec, exRec "y" [4]] (by decide) (.arrow as) hb

end examples

end SaModel.Props.C19
