import SaModel.Ext.Fields
import SaModel.Ext.Json
import SaModel.Lemmas.C20Perm
import SaModel.Lemmas.C20Json
/-
C20 — extension-type field helpers emit valid canonical-extension fields.
Property theorems only.  Model: SaModel/Ext/{Utils,Fields}.lean (extensions/*.rs after the four
`fix:` commits, pinned variants beside them); JSON reader (specification): SaModel/Ext/Json.lean.
-/
namespace SaModel.Props.C20
open SaModel SaModel.Ext SaModel.Ext.Json SaModel.Lemmas.C20

/-! ### accepted parameter sets -/

/-- `check_permutation` accepts exactly the rearrangements of `0..ndim` -/
theorem perm_iff (n : Nat) (p : List Nat) :
    checkPermutation n p = .ok () ↔ p.length = n ∧ p.Perm (List.range n) := by
  unfold checkPermutation
  by_cases hlen : p.length = n
  · subst hlen
    simp only [ne_eq, not_true_eq_false, if_false, true_and]
    constructor
    · intro h
      split at h
      · cases h
      · rename_i seen hm
        obtain ⟨hnd, hall, hl, hmark⟩ := markSeen_ok _ _ _ hm
        rw [List.length_replicate] at hl
        have hseen := (checkAllSeen_ok seen).mp h
        refine (List.perm_ext_iff_of_nodup hnd List.nodup_range).mpr fun a => ?_
        rw [List.mem_range]
        constructor
        · intro ha
          have := (hall a ha).1
          rwa [List.length_replicate] at this
        · intro ha
          have h1 := hseen a (by omega)
          rcases (hmark a).mp h1 with h2 | h2
          · simp [List.getElem?_replicate] at h2
          · exact h2
    · intro hp
      have hnd : p.Nodup := (hp.nodup_iff).mpr List.nodup_range
      have hall : ∀ i ∈ p, i < (List.replicate p.length false).length ∧
          (List.replicate p.length false)[i]? = some false := by
        intro i hi
        have : i < p.length := List.mem_range.mp ((hp.mem_iff).mp hi)
        simp [this]
      obtain ⟨seen, hm⟩ := markSeen_complete p _ hnd hall
      simp only [hm]
      obtain ⟨_, _, hl, hmark⟩ := markSeen_ok _ _ _ hm
      rw [List.length_replicate] at hl
      refine (checkAllSeen_ok seen).mpr fun j hj => ?_
      exact (hmark j).mpr (.inr ((hp.mem_iff).mpr (List.mem_range.mpr (by omega))))
  · simp [hlen, fail]

/-- the same with "every index below `n` occurs exactly once and nothing else occurs" -/
theorem perm_iff_count (n : Nat) (p : List Nat) :
    checkPermutation n p = .ok () ↔
      p.length = n ∧ ∀ i, p.count i = if i < n then 1 else 0 := by
  rw [perm_iff]
  refine and_congr_right fun _ => ?_
  rw [List.perm_iff_count]
  refine forall_congr' fun i => ?_
  have : (List.range n).count i = if i < n then 1 else 0 := by
    rw [List.Nodup.count List.nodup_range]
    simp [List.mem_range]
  rw [this]

/-- `check_permutation` returns `Ok` or `Err` for every input (the guarded index never unwinds) -/
theorem perm_no_panic (n : Nat) (p : List Nat) (site : String) :
    checkPermutation n p ≠ .error (.panic site) := by
  unfold checkPermutation
  split
  · simp [fail]
  · split
    · rename_i e hm
      intro h
      cases h
      exact markSeen_no_panic _ _ _ hm
    · exact checkAllSeen_no_panic _ _

/-- the pinned `check_permutation` never writes `seen`: it rejects *every* non-empty sequence,
in particular every non-empty permutation -/
theorem perm_pinned_rejects_all (n : Nat) (p : List Nat) (hp : p ≠ []) :
    checkPermutationPinned n p ≠ .ok () := by
  have hsame : ∀ (q : List Nat) (seen seen' : List Bool), markSeenPinned seen q = .ok seen' → seen' = seen := by
    intro q
    induction q with
    | nil => intro seen seen' h; simp [markSeenPinned] at h; exact h.symm
    | cons i rest ih =>
      intro seen seen' h
      simp only [markSeenPinned] at h
      split at h
      · cases h
      · split at h
        · cases h
        · cases h
        · exact ih _ _ h
  unfold checkPermutationPinned
  split
  · simp [fail]
  · split
    · simp
    · rename_i seen hm
      rw [hsame _ _ _ hm]
      cases p with
      | nil => exact absurd rfl hp
      | cons a p => simp [List.replicate, checkAllSeen, fail]

/-- witness of DESIGN.md §9 #3 -/
theorem perm_pinned_wrong :
    checkPermutationPinned 2 [1, 0] ≠ .ok () ∧ [1, 0].Perm (List.range 2) ∧
      checkPermutation 2 [1, 0] = .ok () := by
  refine ⟨by decide +kernel, ?_, by decide +kernel⟩
  exact List.Perm.swap 0 1 []

theorem dim_names_iff (n : Nat) (d : List Str) : checkDimNames n d = .ok () ↔ d.length = n := by
  unfold checkDimNames
  by_cases h : d.length = n <;> simp [h, fail]

theorem uniform_shape_iff (n : Nat) (u : List (Option Nat)) :
    VariableShapeTensorField.checkUniformShape n u = .ok () ↔ u.length = n := by
  unfold VariableShapeTensorField.checkUniformShape
  by_cases h : u.length = n <;> simp [h, fail]

/-- the setters store the value iff it is well formed, and change nothing else -/
theorem fixed_setPermutation_iff {ε} (h h' : FixedShapeTensorField ε) (v : List Nat) :
    h.setPermutation v = .ok h' ↔
      (v.length = h.shape.length ∧ v.Perm (List.range h.shape.length)) ∧ h' = { h with permutation := some v } := by
  unfold FixedShapeTensorField.setPermutation
  rw [← perm_iff]
  split
  · rename_i e he; simp [he]
  · rename_i he; simp [he, eq_comm]

theorem fixed_setDimNames_iff {ε} (h h' : FixedShapeTensorField ε) (v : List Str) :
    h.setDimNames v = .ok h' ↔ v.length = h.shape.length ∧ h' = { h with dimNames := some v } := by
  unfold FixedShapeTensorField.setDimNames
  rw [← dim_names_iff]
  split
  · rename_i e he; simp [he]
  · rename_i he; simp [he, eq_comm]

theorem variable_setPermutation_iff {ε} (h h' : VariableShapeTensorField ε) (v : List Nat) :
    h.setPermutation v = .ok h' ↔
      (v.length = h.ndim ∧ v.Perm (List.range h.ndim)) ∧ h' = { h with permutation := some v } := by
  unfold VariableShapeTensorField.setPermutation
  rw [← perm_iff]
  split
  · rename_i e he; simp [he]
  · rename_i he; simp [he, eq_comm]

theorem variable_setDimNames_iff {ε} (h h' : VariableShapeTensorField ε) (v : List Str) :
    h.setDimNames v = .ok h' ↔ v.length = h.ndim ∧ h' = { h with dimNames := some v } := by
  unfold VariableShapeTensorField.setDimNames
  rw [← dim_names_iff]
  split
  · rename_i e he; simp [he]
  · rename_i he; simp [he, eq_comm]

theorem variable_setUniformShape_iff {ε} (h h' : VariableShapeTensorField ε) (v : List (Option Nat)) :
    h.setUniformShape v = .ok h' ↔ v.length = h.ndim ∧ h' = { h with uniformShape := some v } := by
  unfold VariableShapeTensorField.setUniformShape
  rw [← uniform_shape_iff]
  split
  · rename_i e he; simp [he]
  · rename_i he; simp [he, eq_comm]

/-! ### storage types -/

/-- the number of elements of a tensor of the given shape (specification) -/
def shapeProd : List Nat → Nat
  | [] => 1
  | s :: rest => s * shapeProd rest

theorem bool8_field {ε} (h : Bool8Field) :
    (h.tryFrom : R (Field ε)) = .ok (.mk h.name h.nullable .int8
      [("ARROW:extension:metadata".toList, []), ("ARROW:extension:name".toList, "arrow.bool8".toList)]) := rfl

private theorem shapeProd_pos (l : List Nat) (h : ∀ s ∈ l, 0 < s) : 0 < shapeProd l := by
  induction l with
  | nil => simp [shapeProd]
  | cons s r ih =>
    simp only [shapeProd]
    exact Nat.mul_pos (h s (by simp)) (ih fun x hx => h x (List.mem_cons_of_mem _ hx))

private theorem shapeProd_zero (l : List Nat) (h : 0 ∈ l) : shapeProd l = 0 := by
  induction l with
  | nil => cases h
  | cons s r ih =>
    simp only [shapeProd]
    rcases List.mem_cons.mp h with h | h
    · rw [← h]; simp
    · rw [ih h]; simp

private theorem shapeProduct_zero (l : List Nat) : FixedShapeTensorField.shapeProduct 0 l = .ok 0 := by
  induction l with
  | nil => rfl
  | cons s r ih => simp [FixedShapeTensorField.shapeProduct, checkedMul, ih]

private theorem shapeProduct_pos : ∀ (l : List Nat) (acc : Nat), (∀ s ∈ l, 0 < s) → acc ≤ usizeMax →
    (acc * shapeProd l ≤ usizeMax → FixedShapeTensorField.shapeProduct acc l = .ok (acc * shapeProd l)) ∧
    (usizeMax < acc * shapeProd l → (FixedShapeTensorField.shapeProduct acc l).isErr = true) := by
  intro l
  induction l with
  | nil => intro acc _ hacc; simp [FixedShapeTensorField.shapeProduct, shapeProd]; intro h; omega
  | cons s r ih =>
    intro acc hpos _
    have hr : ∀ x ∈ r, 0 < x := fun x hx => hpos x (List.mem_cons_of_mem _ hx)
    have hp := shapeProd_pos r hr
    have hassoc : acc * s * shapeProd r = acc * (s * shapeProd r) := Nat.mul_assoc _ _ _
    have hle : acc * s ≤ acc * s * shapeProd r := Nat.le_mul_of_pos_right _ hp
    simp only [FixedShapeTensorField.shapeProduct, checkedMul, shapeProd]
    by_cases hc : acc * s ≤ usizeMax
    · simp only [hc, if_true]
      rw [← hassoc]
      exact ih (acc * s) hr hc
    · simp only [hc, if_false]
      constructor
      · intro h; omega
      · intro _; rfl

/-- fixed-shape storage: `FixedSizeList(element, ∏ shape)` with the extension name and metadata
whenever the number of elements fits `i32` … -/
theorem fixed_storage_ok {ε} (h : FixedShapeTensorField ε) (hfit : shapeProd h.shape ≤ i32Max) :
    h.tryFrom = .ok (.mk h.name h.nullable (.fixedSizeList (.element h.element) (shapeProd h.shape))
      [("ARROW:extension:metadata".toList, h.getExtMetadata),
       ("ARROW:extension:name".toList, "arrow.fixed_shape_tensor".toList)]) := by
  unfold FixedShapeTensorField.tryFrom
  by_cases hz : 0 ∈ h.shape
  · simp only [hz, if_true, shapeProduct_zero, shapeProd_zero _ hz]
    rfl
  · have hpos : ∀ s ∈ h.shape, 0 < s := by
      intro s hs
      rcases Nat.eq_zero_or_pos s with h0 | h0
      · subst h0; exact absurd hs hz
      · exact h0
    have h1 := (shapeProduct_pos h.shape 1 hpos (by decide)).1
    rw [Nat.one_mul] at h1
    have hu : shapeProd h.shape ≤ usizeMax := by
      have : i32Max ≤ usizeMax := by decide
      omega
    simp only [hz, if_false, h1 hu, usizeToI32, hfit, if_true]
    rfl

/-- … and an error (never a panic, never a wrapped product) when it does not -/
theorem fixed_storage_err {ε} (h : FixedShapeTensorField ε) (hbig : i32Max < shapeProd h.shape) :
    h.tryFrom.isErr = true := by
  unfold FixedShapeTensorField.tryFrom
  have hz : 0 ∉ h.shape := by
    intro hz
    rw [shapeProd_zero _ hz] at hbig
    omega
  have hpos : ∀ s ∈ h.shape, 0 < s := by
    intro s hs
    rcases Nat.eq_zero_or_pos s with h0 | h0
    · subst h0; exact absurd hs hz
    · exact h0
  obtain ⟨h1, h2⟩ := shapeProduct_pos h.shape 1 hpos (by decide)
  rw [Nat.one_mul] at h1 h2
  simp only [hz, if_false]
  by_cases hu : shapeProd h.shape ≤ usizeMax
  · have : ¬ shapeProd h.shape ≤ i32Max := by omega
    simp only [h1 hu, usizeToI32, this, if_false]
    rfl
  · have h3 := h2 (by omega)
    cases hsp : FixedShapeTensorField.shapeProduct 1 h.shape with
    | ok v => rw [hsp] at h3; cases h3
    | error e =>
      rw [hsp] at h3
      cases e with
      | err m => rfl
      | errCtx m a => rfl
      | panic m => cases h3

/-- "never panic" for all shapes -/
theorem fixed_storage_no_panic {ε} (h : FixedShapeTensorField ε) : h.tryFrom.isPanic = false := by
  by_cases hfit : shapeProd h.shape ≤ i32Max
  · rw [fixed_storage_ok h hfit]; rfl
  · have := fixed_storage_err h (by omega)
    revert this
    cases h.tryFrom with
    | ok v => intro; rfl
    | error e => cases e <;> simp [R.isErr, R.isPanic]

/-- the pinned product `n *= *s` unwinds (debug profile) on DESIGN.md §9 #6's shape, and on a
shape whose true element count is 0 -/
theorem fixed_storage_pinned_panics :
    (FixedShapeTensorField.tryFromPinned
      ({ name := "t", nullable := false, element := (), shape := [usizeMax, 2], dimNames := none,
         permutation := none } : FixedShapeTensorField Unit)).isPanic = true ∧
    (FixedShapeTensorField.tryFromPinned
      ({ name := "t", nullable := false, element := (), shape := [usizeMax, 2, 0], dimNames := none,
         permutation := none } : FixedShapeTensorField Unit)).isPanic = true := by
  constructor <;> decide +kernel

/-- variable-shape storage: `Struct[data: List(element), shape: FixedSizeList(Int32, ndim)]`, both
children non-nullable, exactly when `ndim` fits `i32`; an error otherwise -/
theorem variable_storage_ok {ε} (h : VariableShapeTensorField ε) (hfit : h.ndim ≤ i32Max) :
    h.tryFrom = .ok (.mk h.name h.nullable
      (.struct [
        .mk "data" false (.list (.element h.element)) [],
        .mk "shape" false (.fixedSizeList (.mk "element" false .int32 []) h.ndim) []])
      [("ARROW:extension:metadata".toList, h.getExtMetadata),
       ("ARROW:extension:name".toList, "arrow.variable_shape_tensor".toList)]) := by
  simp only [VariableShapeTensorField.tryFrom, usizeToI32, hfit, if_true]
  rfl

theorem variable_storage_err {ε} (h : VariableShapeTensorField ε) (hbig : i32Max < h.ndim) :
    h.tryFrom.isErr = true := by
  have : ¬ h.ndim ≤ i32Max := by omega
  simp only [VariableShapeTensorField.tryFrom, usizeToI32, this, if_false]
  rfl

theorem variable_storage_no_panic {ε} (h : VariableShapeTensorField ε) : h.tryFrom.isPanic = false := by
  by_cases hfit : h.ndim ≤ i32Max
  · rw [variable_storage_ok h hfit]; rfl
  · simp only [VariableShapeTensorField.tryFrom, usizeToI32, hfit, if_false]
    rfl

/-! ### extension metadata is JSON stating exactly the configured entries -/

/-- every string, whatever it contains, is written as a JSON string literal that reads back as
exactly that string (escape / unescape round trip, induction over the characters) -/
theorem json_string_round_trip (s more : Str) :
    readScalar (jsonString s ++ more) = some (.str s, more) := readScalar_jsonString s more

/-- `usize` values are written as JSON numbers with that value -/
theorem number_round_trip (n : Nat) : readValue (showNat n) = some (.scalar (.num n), []) := by
  have h := readScalar_showNat n [] trivial
  rw [List.append_nil] at h
  obtain ⟨c, ds, hc⟩ : ∃ c ds, showNat n = c :: ds := by
    rw [showNat_eq]
    split
    · exact ⟨_, _, rfl⟩
    · cases hs : showNat (n / 10) with
      | nil => exact ⟨_, _, rfl⟩
      | cons a b => exact ⟨_, _, rfl⟩
  have hne : c ≠ '[' := by
    intro hc'
    subst hc'
    rw [hc] at h
    simp [readScalar] at h
  rw [hc] at h ⊢
  simp only [readValue, hne, if_false, h]

/-- `write_list` over numbers / names / optional numbers reads back as the array of those values -/
theorem nat_list_round_trip (l : List Nat) (rest : Str) :
    readValue (writeList (l.map showNat) ++ rest) = some (.arr (l.map .num), rest) :=
  readValue_writeList showNat .num (fun n more h => readScalar_showNat n more h) l rest

theorem name_list_round_trip (l : List Str) (rest : Str) :
    readValue (writeList (l.map jsonString) ++ rest) = some (.arr (l.map .str), rest) :=
  readValue_writeList jsonString .str (fun s more _ => readScalar_jsonString s more) l rest

def optNum : Option Nat → JScalar
  | some v => .num v
  | none => .null

theorem opt_list_round_trip (l : List (Option Nat)) (rest : Str) :
    readValue (writeList (l.map VariableShapeTensorField.showOptNat) ++ rest) =
      some (.arr (l.map optNum), rest) :=
  readValue_writeList VariableShapeTensorField.showOptNat optNum
    (fun o more h => by
      cases o with
      | some v => exact readScalar_showNat v more h
      | none => exact readScalar_null more) l rest

/-- the metadata keys, spelled out (comparing string literals by unfolding is slow in the elaborator) -/
def kShape : Str := ['s', 'h', 'a', 'p', 'e']
def kPermutation : Str := ['p', 'e', 'r', 'm', 'u', 't', 'a', 't', 'i', 'o', 'n']
def kDimNames : Str := ['d', 'i', 'm', '_', 'n', 'a', 'm', 'e', 's']
def kUniformShape : Str := ['u', 'n', 'i', 'f', 'o', 'r', 'm', '_', 's', 'h', 'a', 'p', 'e']

theorem keys_spelled : kShape = "shape".toList ∧ kPermutation = "permutation".toList ∧
    kDimNames = "dim_names".toList ∧ kUniformShape = "uniform_shape".toList := by decide +kernel

/-- the object the fixed-shape metadata must state: `shape`, then the optional settings that are set -/
def fixedExpected {ε} (h : FixedShapeTensorField ε) : JObj :=
  [(kShape, .arr (h.shape.map .num))]
  ++ (match h.permutation with
      | some p => [(kPermutation, .arr (p.map .num))]
      | none => [])
  ++ (match h.dimNames with
      | some d => [(kDimNames, .arr (d.map .str))]
      | none => [])

/-- the object the variable-shape metadata must state: exactly the optional settings that are set -/
def variableExpected {ε} (h : VariableShapeTensorField ε) : JObj :=
  (match h.permutation with
   | some p => [(kPermutation, .arr (p.map .num))]
   | none => [])
  ++ (match h.dimNames with
      | some d => [(kDimNames, .arr (d.map .str))]
      | none => [])
  ++ (match h.uniformShape with
      | some u => [(kUniformShape, .arr (u.map optNum))]
      | none => [])

private def numsEntry (key : Str) (l : List Nat) : Entry :=
  { key, keyText := key, valText := writeList (l.map showNat), val := .arr (l.map .num) }
private def namesEntry (key : Str) (l : List Str) : Entry :=
  { key, keyText := key, valText := writeList (l.map jsonString), val := .arr (l.map .str) }
private def optsEntry (key : Str) (l : List (Option Nat)) : Entry :=
  { key, keyText := key, valText := writeList (l.map VariableShapeTensorField.showOptNat),
    val := .arr (l.map optNum) }

private theorem key_plain (key : Str) (h : escape key = key) (rest : Str) :
    readStr (key ++ '"' :: rest) = some (key, rest) := by
  have := readStr_escape key rest
  rwa [h] at this

private theorem esc_shape : escape kShape = kShape := by decide +kernel
private theorem esc_permutation : escape kPermutation = kPermutation := by decide +kernel
private theorem esc_dim_names : escape kDimNames = kDimNames := by decide +kernel
private theorem esc_uniform_shape : escape kUniformShape = kUniformShape := by decide +kernel

private theorem numsEntry_rt (key : Str) (hk : escape key = key) (l : List Nat) : (numsEntry key l).RT :=
  ⟨key_plain key hk, nat_list_round_trip l⟩
private theorem namesEntry_rt (key : Str) (hk : escape key = key) (l : List Str) : (namesEntry key l).RT :=
  ⟨key_plain key hk, name_list_round_trip l⟩
private theorem optsEntry_rt (key : Str) (hk : escape key = key) (l : List (Option Nat)) : (optsEntry key l).RT :=
  ⟨key_plain key hk, opt_list_round_trip l⟩

private def optNums (key : Str) : Option (List Nat) → List Entry
  | some p => [numsEntry key p]
  | none => []
private def optNames (key : Str) : Option (List Str) → List Entry
  | some d => [namesEntry key d]
  | none => []
private def optOpts (key : Str) : Option (List (Option Nat)) → List Entry
  | some u => [optsEntry key u]
  | none => []

private theorem optNums_rt (key : Str) (hk : escape key = key) (o : Option (List Nat)) :
    ∀ e ∈ optNums key o, e.RT := by
  intro e he
  cases o with
  | none => cases he
  | some p =>
    simp only [optNums, List.mem_singleton] at he
    subst he
    exact numsEntry_rt key hk p
private theorem optNames_rt (key : Str) (hk : escape key = key) (o : Option (List Str)) :
    ∀ e ∈ optNames key o, e.RT := by
  intro e he
  cases o with
  | none => cases he
  | some p =>
    simp only [optNames, List.mem_singleton] at he
    subst he
    exact namesEntry_rt key hk p
private theorem optOpts_rt (key : Str) (hk : escape key = key) (o : Option (List (Option Nat))) :
    ∀ e ∈ optOpts key o, e.RT := by
  intro e he
  cases o with
  | none => cases he
  | some p =>
    simp only [optOpts, List.mem_singleton] at he
    subst he
    exact optsEntry_rt key hk p

private theorem lit_shape : "\"shape\":".toList = '"' :: (kShape ++ ['"', ':']) := by decide +kernel
private theorem lit_c_permutation :
    ",\"permutation\":".toList = ',' :: '"' :: (kPermutation ++ ['"', ':']) := by decide +kernel
private theorem lit_c_dim_names :
    ",\"dim_names\":".toList = ',' :: '"' :: (kDimNames ++ ['"', ':']) := by decide +kernel
private theorem lit_permutation :
    "\"permutation\":".toList = '"' :: (kPermutation ++ ['"', ':']) := by decide +kernel
private theorem lit_dim_names :
    "\"dim_names\":".toList = '"' :: (kDimNames ++ ['"', ':']) := by decide +kernel
private theorem lit_uniform_shape :
    "\"uniform_shape\":".toList = '"' :: (kUniformShape ++ ['"', ':']) := by decide +kernel

private def fixedEntries {ε} (h : FixedShapeTensorField ε) : List Entry :=
  [numsEntry kShape h.shape] ++ optNums kPermutation h.permutation ++ optNames kDimNames h.dimNames

/-- **fixed-shape metadata**: for every shape (also empty), every subset of the optional settings and
all dimension names, the metadata text parses to exactly `shape`, `permutation`, `dim_names` as set -/
theorem fixed_ext_metadata_json {ε} (h : FixedShapeTensorField ε) :
    jsonParse h.getExtMetadata = some (fixedExpected h) := by
  have htext : h.getExtMetadata = '{' :: (writeMembers true (fixedEntries h) ++ ['}']) := by
    obtain ⟨name, nullable, element, shape, dimNames, permutation⟩ := h
    cases permutation <;> cases dimNames <;>
      simp only [FixedShapeTensorField.getExtMetadata, FixedShapeTensorField.getExtMetadataWith, fixedEntries,
        optNums, optNames, writeMembers, Entry.text, numsEntry, namesEntry, lit_shape, lit_c_permutation,
        lit_c_dim_names, List.append_assoc, List.cons_append, List.nil_append, List.append_nil]
  have hrt : ∀ e ∈ fixedEntries h, e.RT := by
    intro e he
    simp only [fixedEntries, List.mem_append, List.mem_singleton] at he
    rcases he with (he | he) | he
    · subst he; exact numsEntry_rt _ esc_shape _
    · exact optNums_rt _ esc_permutation _ e he
    · exact optNames_rt _ esc_dim_names _ e he
  rw [htext, jsonParse_object _ hrt]
  obtain ⟨name, nullable, element, shape, dimNames, permutation⟩ := h
  cases permutation <;> cases dimNames <;> rfl

private def variableEntries {ε} (h : VariableShapeTensorField ε) : List Entry :=
  optNums kPermutation h.permutation ++ optNames kDimNames h.dimNames ++ optOpts kUniformShape h.uniformShape

/-- **variable-shape metadata**: for every subset of the three optional settings (all 8), all
permutations, names and uniform shapes, the metadata text parses to exactly the configured entries -/
theorem variable_ext_metadata_json {ε} (h : VariableShapeTensorField ε) :
    jsonParse h.getExtMetadata = some (variableExpected h) := by
  have htext : h.getExtMetadata = '{' :: (writeMembers true (variableEntries h) ++ ['}']) := by
    obtain ⟨name, element, ndim, nullable, dimNames, permutation, uniformShape⟩ := h
    cases permutation <;> cases dimNames <;> cases uniformShape <;>
      simp only [VariableShapeTensorField.getExtMetadata, VariableShapeTensorField.getExtMetadataWith,
        VariableShapeTensorField.sep, variableEntries, optNums, optNames, optOpts, writeMembers, Entry.text,
        numsEntry, namesEntry, optsEntry, lit_permutation, lit_dim_names, lit_uniform_shape,
        List.append_assoc, List.cons_append, List.nil_append, List.append_nil, Bool.not_true, Bool.not_false,
        Bool.false_eq_true, if_true, if_false]
  have hrt : ∀ e ∈ variableEntries h, e.RT := by
    intro e he
    simp only [variableEntries, List.mem_append] at he
    rcases he with (he | he) | he
    · exact optNums_rt _ esc_permutation _ e he
    · exact optNames_rt _ esc_dim_names _ e he
    · exact optOpts_rt _ esc_uniform_shape _ e he
  rw [htext, jsonParse_object _ hrt]
  obtain ⟨name, element, ndim, nullable, dimNames, permutation, uniformShape⟩ := h
  cases permutation <;> cases dimNames <;> cases uniformShape <;> rfl

/-- bool8: the extension metadata is the empty string -/
theorem bool8_ext_metadata {ε} (h : Bool8Field) :
    ∃ dt, (h.tryFrom : R (Field ε)) = .ok (.mk h.name h.nullable dt (extMetadataMap "arrow.bool8".toList [])) :=
  ⟨_, rfl⟩

/-! ### the pinned writers did not produce JSON -/

/-- DESIGN.md §9 #4: the pinned separator logic (with correct name quoting) writes
`{,"dim_names":["x","y"]"uniform_shape":[1,null]}`; even a single entry gives `{,"permutation":[]}` -/
theorem variable_metadata_pinned_separator_wrong :
    jsonParse (VariableShapeTensorField.getExtMetadataPinnedSep
      ({ name := "t", element := (), ndim := 2, nullable := false,
         dimNames := some ["x".toList, "y".toList], permutation := none,
         uniformShape := some [some 1, none] } : VariableShapeTensorField Unit)) = none ∧
    VariableShapeTensorField.getExtMetadataPinnedSep
      ({ name := "t", element := (), ndim := 0, nullable := false, dimNames := none,
         permutation := some [], uniformShape := none } : VariableShapeTensorField Unit)
      = "{,\"permutation\":[]}".toList := by
  constructor <;> decide +kernel

/-- DESIGN.md §9 #5: `{:?}` of the name U+0001 is `"\u{1}"`, which is not a JSON string -/
theorem fixed_metadata_pinned_names_wrong :
    (FixedShapeTensorField.getExtMetadataPinned
      ({ name := "t", nullable := false, element := (), shape := [2], dimNames := some [['\x01']],
         permutation := none } : FixedShapeTensorField Unit)) = "{\"shape\":[2],\"dim_names\":[\"\\u{1}\"]}".toList ∧
    jsonParse (FixedShapeTensorField.getExtMetadataPinned
      ({ name := "t", nullable := false, element := (), shape := [2], dimNames := some [['\x01']],
         permutation := none } : FixedShapeTensorField Unit)) = none := by
  constructor <;> decide +kernel

/-! ### non-vacuity -/

example : checkPermutation 3 [2, 0, 1] = .ok () := by decide +kernel
example : (checkPermutation 3 [2, 0, 0]).isErr = true := by decide +kernel
example : (checkPermutation 3 [0, 1, 3]).isErr = true := by decide +kernel
example : (checkPermutation 3 [0, 1]).isErr = true := by decide +kernel
example : checkPermutation 0 [] = .ok () := by decide +kernel
example : jsonParse (FixedShapeTensorField.getExtMetadata
    ({ name := "t", nullable := false, element := (), shape := [2, 0], dimNames := some ["a\"\\\n\x01é".toList, []],
       permutation := some [1, 0] } : FixedShapeTensorField Unit)) =
    some [("shape".toList, .arr [.num 2, .num 0]), ("permutation".toList, .arr [.num 1, .num 0]),
          ("dim_names".toList, .arr [.str "a\"\\\n\x01é".toList, .str []])] := by decide +kernel
example : FixedShapeTensorField.getExtMetadata
    ({ name := "t", nullable := false, element := (), shape := [], dimNames := some [],
       permutation := none } : FixedShapeTensorField Unit) = "{\"shape\":[],\"dim_names\":[]}".toList := by
  decide +kernel
example : VariableShapeTensorField.getExtMetadata
    ({ name := "t", element := (), ndim := 2, nullable := false, dimNames := some ["x".toList, "\x1f\t".toList],
       permutation := some [1, 0], uniformShape := some [some 1, none] } : VariableShapeTensorField Unit)
    = "{\"permutation\":[1,0],\"dim_names\":[\"x\",\"\\u001f\\t\"],\"uniform_shape\":[1,null]}".toList := by
  decide +kernel
example : jsonParse "{}".toList = some [] := by decide +kernel
example : jsonParse "{\"a\":01}".toList = none := by decide +kernel
example : jsonParse "{\"a\":[1,]}".toList = none := by decide +kernel
example : jsonParse "{\"a\":\"\x01\"}".toList = none := by decide +kernel
example : (FixedShapeTensorField.tryFrom
    ({ name := "t", nullable := false, element := (), shape := [usizeMax, 2, 0], dimNames := none,
       permutation := none } : FixedShapeTensorField Unit)).isOk = true := by decide +kernel
example : (FixedShapeTensorField.tryFrom
    ({ name := "t", nullable := false, element := (), shape := [65536, 32768], dimNames := none,
       permutation := none } : FixedShapeTensorField Unit)).isErr = true := by decide +kernel

end SaModel.Props.C20
