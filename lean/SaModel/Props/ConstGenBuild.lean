import SaModel.Generated.ConstantsBuild
import SaModel.Build.Builder
import SaModel.Build.Push
import SaModel.Read.Reader
/-
Translation obligation (C05, C16; the readers of C02 use the same constant): `UNKNOWN_KEY` of struct_builder.rs, the inline
capacity of byte views (the literal of every `.len() <op> LITERAL` comparison of utils/array_ext.rs and of the reader in
utils/array_view_ext.rs) and the `i32::MAX` guards of the view builders, as the translator reads them out of the sources NOW
(`Generated.ConstantsBuild`), are the numbers the hand-written model uses (`Build.UNKNOWN_KEY`, `Build.viewPushValue`,
`Build.viewSeq`, `Build.I32_MAX`, `Build.packExtern`, `Read.viewBytes`): the model functions are restated with the generated
constants in place of their literals, for all arguments.
-/
namespace SaModel.Props.ConstGenBuild
open SaModel SaModel.Build SaModel.Generated

/-- `const UNKNOWN_KEY: usize = usize::MAX` (usize = 64 bit) -/
theorem gen_unknown_key : ConstantsBuild.UNKNOWN_KEY = Build.UNKNOWN_KEY := by decide +kernel

/-- where the sentinel is used: stored by `serialize_map_start`, the fall-back of the key lookup in `serialize_map_key`,
tested with `!=` and stored again by `serialize_map_value` — the four places of the model's `pushStructOps` -/
theorem gen_unknown_key_uses :
    ConstantsBuild.unknownKeyUses =
      [("serialize_map_start", "="), ("serialize_map_key", "("), ("serialize_map_value", "!="), ("serialize_map_value", "=")] := by
  decide +kernel

/-- the inline capacity of a byte view: the literal `push_scalar_value` compares `value.len()` with -/
def inlineCapacity : Nat :=
  ((ConstantsBuild.lenLiteralComparisons.find? (fun e => e.1 == "push_scalar_value" && e.2.2.1 == "<=")).map (·.2.2.2)).getD 0

/-- every comparison of a length with a literal in array_ext.rs is one of: `<= capacity` / `> capacity` (the same literal in
`end_seq`, twice in `push_scalar_value`, in the `assert!` of `pack_inline`) or the `>= 4` of `pack_extern` (the prefix) -/
theorem gen_inline_capacity_uses :
    ConstantsBuild.lenLiteralComparisons.all (fun e =>
      (e.2.2.2 == inlineCapacity && (e.2.2.1 == "<=" || e.2.2.1 == ">") &&
        (e.1 == "end_seq" || e.1 == "push_scalar_value" || e.1 == "pack_inline")) ||
      (e.1 == "pack_extern" && e.2.2.1 == ">=" && e.2.2.2 == 4)) = true ∧
    ConstantsBuild.lenLiteralComparisons.length = 5 ∧
    ConstantsBuild.lenLiteralComparisons.any (fun e => e.1 == "end_seq" && e.2.2.1 == "<=") = true ∧
    ConstantsBuild.lenLiteralComparisons.any (fun e => e.1 == "push_scalar_value" && e.2.2.1 == ">") = true := by decide +kernel

theorem gen_i32_max : ConstantsBuild.I32_MAX = Build.I32_MAX := by decide +kernel

/-- every mention of `i32::MAX` in array_ext.rs: the three guards the model has (`push_seq_elements`, `end_seq`,
`push_scalar_value` for length and offset, all `>`) and the `assert!`s of `pack_len` / `pack_extern` (`<=`) they protect -/
theorem gen_i32_guards :
    ConstantsBuild.i32MaxGuards =
      [("push_seq_elements", "len", ">"), ("end_seq", "start", ">"), ("push_scalar_value", "len", ">"),
       ("push_scalar_value", "offset", ">"), ("pack_len", "len", "<="), ("pack_extern", "data.len()", "<="),
       ("pack_extern", "buffer", "<="), ("pack_extern", "offset", "<=")] := by decide +kernel

/-- `push_scalar_value` of a view array with the constants of the source, for all states and values -/
theorem gen_view_push_value (views : List Nat) (buf0 value : Bytes) :
    viewPushValue views buf0 value =
      if value.length ≤ inlineCapacity then .ok (views ++ [packInline value], buf0)
      else if value.length > ConstantsBuild.I32_MAX ∨ buf0.length > ConstantsBuild.I32_MAX then
        fail s!"BytesView overflow: the length {value.length} or the buffer offset {buf0.length} exceeds i32::MAX"
      else .ok (views ++ [packExtern value 0 buf0.length], buf0 ++ value) := by
  have h : inlineCapacity = 12 := by decide +kernel
  rw [h]; rfl

/-- `start_seq` / `push_seq_elements`* / `end_seq` of a view array with the constants of the source -/
theorem gen_view_seq (views : List Nat) (buf0 bytes : Bytes) :
    viewSeq views buf0 bytes =
      if bytes.length > ConstantsBuild.I32_MAX then
        fail s!"BytesView overflow: the element length {ConstantsBuild.I32_MAX + 1} exceeds i32::MAX"
      else if bytes.length ≤ inlineCapacity then .ok (views ++ [packInline bytes], buf0)
      else if buf0.length > ConstantsBuild.I32_MAX then
        fail s!"BytesView overflow: the buffer offset {buf0.length} exceeds i32::MAX"
      else .ok (views ++ [packExtern bytes 0 buf0.length], buf0 ++ bytes) := by
  have h : inlineCapacity = 12 := by decide +kernel
  rw [h]; rfl

example : viewPushValue [] [] (List.replicate 12 7) = .ok ([packInline (List.replicate 12 7)], []) := by decide +kernel
example : viewPushValue [] [] (List.replicate 13 7) = .ok ([packExtern (List.replicate 13 7) 0 0], List.replicate 13 7) := by
  decide +kernel

/-- the reader of views (`BytesViewView::get`): inline iff `len <= capacity` — the SAME capacity as the builder's —, the
inline bytes start at byte 4, the buffer index and offset are the descriptor shifted by 64 and 96 -/
theorem gen_view_reader :
    ConstantsBuild.viewReader.1 = "<=" ∧ ConstantsBuild.viewReader.2.1 = inlineCapacity ∧
    ConstantsBuild.viewReader.2.2.1 = ConstantsBuild.viewReader.2.2.2.1 ∧ ConstantsBuild.viewReader.2.2.2.2 = [64, 96] := by
  decide +kernel

theorem gen_view_bytes (buffers : List Bytes) (desc : Nat) :
    Read.viewBytes buffers desc =
      (let len := desc % 4294967296
       if len ≤ ConstantsBuild.viewReader.2.1 then .ok (Spec.u128Bytes desc ConstantsBuild.viewReader.2.2.1 len)
       else
         match buffers[(desc >>> 64) % 4294967296]? with
         | none => fail "invalid state in bytes deserialization"
         | some buf =>
           let off := (desc >>> 96) % 4294967296
           if off + len ≤ buf.length then .ok ((buf.drop off).take len)
           else fail "invalid state in bytes deserialization") := rfl

/-- what the builder packs inline the reader reads back, up to the capacity of the source -/
example : Read.viewBytes [] (packInline [1, 2, 3]) = .ok [1, 2, 3] := by decide +kernel

/-- the model says `fail "Cannot push null for non-nullable array"` where the source does -/
example : setValidity none 0 false = fail "Cannot push null for non-nullable array" := by decide +kernel

end SaModel.Props.ConstGenBuild
