import SaModel.Generated.ConstantsDecimal
import SaModel.Codec.Decimal
/-
Translation obligation (C15, C05, C16): the buffer sizes, the precision range of the `Decimal128` builder, the truncation
flag of its parser and the limit of the float path, as the translator reads them out of utils/decimal.rs,
decimal_builder.rs, decimal_deserializer.rs and outer_sequence_builder.rs NOW (`Generated.ConstantsDecimal`), are the values
the hand-written model `SaModel/Codec/Decimal.lean` uses: each model function is restated with the generated constants in
place of its literals, for all arguments.
-/
namespace SaModel.Props.ConstGenDecimal
open SaModel SaModel.Decimal SaModel.Generated

/-- `BUFFER_SIZE_I128`, `FORMAT_BUFFER_SIZE_I128 = 1 + 39 + 128` -/
theorem gen_buffer_sizes :
    ConstantsDecimal.BUFFER_SIZE_I128 = Decimal.BUFFER_SIZE_I128 ∧
    ConstantsDecimal.FORMAT_BUFFER_SIZE_I128 = Decimal.FORMAT_BUFFER_SIZE_I128 := by decide +kernel

/-- the size of a buffer declared as `[0; decimal::<name>]`, with the values of the source -/
def bufferSize (name : String) : Nat :=
  if name = "BUFFER_SIZE_I128" then ConstantsDecimal.BUFFER_SIZE_I128
  else if name = "FORMAT_BUFFER_SIZE_I128" then ConstantsDecimal.FORMAT_BUFFER_SIZE_I128
  else 0

/-- the precision range `(lo ..= hi)` of the `Decimal128` arm of `build_builder` -/
theorem gen_precision_range_inclusive : ConstantsDecimal.precisionRange.2.1 = "..=" := by decide +kernel

/-- `build_builder` / `DecimalBuilder::new`: refused outside `lo ..= hi`, else the parser is
created with the `truncated` flag of the source — for every precision and scale -/
theorem gen_builder_new (precision : Nat) (scale : Int) :
    builderNew precision scale =
      if ¬ (ConstantsDecimal.precisionRange.1 ≤ precision ∧ precision ≤ ConstantsDecimal.precisionRange.2.2) then
        fail "Decimal128 only supports precisions between 1 and 38"
      else DecimalParser.new precision scale ConstantsDecimal.builderTruncates := rfl

example : builderNew 39 0 = fail "Decimal128 only supports precisions between 1 and 38" := by decide +kernel
example : (builderNew 38 2).isOk = true := by decide +kernel

/-- `serialize_str` parses into the buffer the builder allocates (`[0; decimal::BUFFER_SIZE_I128]`) -/
theorem gen_builder_buffer (precision : Nat) (scale : Int) (v : Bytes) :
    serializeStr precision scale v = (do
      let parser ← builderNew precision scale
      parser.parseDecimal128 (bufferSize ConstantsDecimal.builderBuffer) v) := by
  have h : bufferSize ConstantsDecimal.builderBuffer = Decimal.BUFFER_SIZE_I128 := by decide +kernel
  rw [h]; rfl

/-- the reader formats into the buffer it allocates (`[0; decimal::FORMAT_BUFFER_SIZE_I128]`) -/
theorem gen_reader_buffer (val scale : Int) :
    formatDecimal val scale = formatDecimalWith unsignedAbs (bufferSize ConstantsDecimal.readerBuffer) val scale := by
  have h : bufferSize ConstantsDecimal.readerBuffer = Decimal.FORMAT_BUFFER_SIZE_I128 := by decide +kernel
  rw [h]; rfl

example : serializeStr 5 2 "12.345".toUTF8.toList = .ok 1234 := by decide +kernel
example : formatDecimal 1234 2 = .ok "12.34".toUTF8.toList := by decide +kernel

/-- `scaled_float_to_decimal128`: the limit is `base.checked_pow(precision)` (none beyond u128) and the test is `>=` -/
theorem gen_float_limit_op : ConstantsDecimal.floatLimitOp = ">=" := by decide +kernel

theorem gen_float_limit (finite : Bool) (cast : Int) (precision : Nat) :
    scaledFloatToDecimal128 finite cast precision =
      if !finite then fail "Invalid decimal: cannot convert non-finite float"
      else
        let limit : Option Nat :=
          if ConstantsDecimal.floatLimitBase ^ precision < 2 ^ 128 then some (ConstantsDecimal.floatLimitBase ^ precision) else none
        match limit with
        | some l => if cast.natAbs ≥ l then fail "Invalid decimal: not enough precision" else .ok cast
        | none => .ok cast := rfl

example : scaledFloatToDecimal128 true 1000 3 = fail "Invalid decimal: not enough precision" := by decide +kernel

end SaModel.Props.ConstGenDecimal
