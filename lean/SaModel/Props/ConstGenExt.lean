import SaModel.Generated.ConstantsExt
import SaModel.Generated.ConstantsExtUtils
import SaModel.Ext.Fields
import SaModel.Lemmas.C20Gen
import SaModel.Props.C20
/-
Translation obligation (C20, C16): the metadata keys, extension names, the literal pieces of the extension metadata text,
the `"element"` name check and the child field names of schema/extensions/{bool8_field, fixed_shape_tensor_field,
variable_shape_tensor_field}.rs, as the translator reads them out of the sources NOW (`Generated.ConstantsExt`), are the
literals the hand-written model `SaModel/Ext/Fields.lean` uses: the model functions are restated with the generated texts.

Second part (`Generated.ConstantsExtUtils`): the BODIES of schema/extensions/utils.rs.  The `match` of `JsonString::fmt` as an
ordered arm table, the statements of `check_permutation` / `check_dim_names` and the pieces of `write_list`, interpreted by
`SaModel/Ext/UtilsGen.lean`, are the hand-written model `SaModel/Ext/Utils.lean` for ALL inputs; each proof is a `decide`d
criterion on the table (which a harmless rewrite of the source still satisfies) and the soundness lemma of that criterion
(`SaModel/Lemmas/C20Gen.lean`), so the theorems of `Props/C20.lean` transfer to the text the source produces.
-/
namespace SaModel.Props.ConstGenExt
open SaModel SaModel.Ext SaModel.Generated

/-- the literal value inserted under a key -/
def literalOf (tbl : List (String × String × String)) (key : Str) : Str :=
  match tbl.find? (fun e => e.1.toList == key && e.2.1 == "literal") with
  | some e => e.2.2.toList
  | none => []

/-- the two metadata keys are those of the model; the name is a literal, the metadata is `String::new()` for bool8 and the
result of `get_ext_metadata` for the tensors -/
theorem gen_metadata_keys :
    ConstantsExt.bool8Metadata.map (fun e => (e.1.toList, e.2.1)) = [(kExtName, "literal"), (kExtMetadata, "literal")] ∧
    ConstantsExt.fixedMetadata.map (fun e => (e.1.toList, e.2.1)) = [(kExtName, "literal"), (kExtMetadata, "get_ext_metadata")] ∧
    ConstantsExt.variableMetadata.map (fun e => (e.1.toList, e.2.1)) = [(kExtName, "literal"), (kExtMetadata, "get_ext_metadata")] := by
  decide +kernel

theorem literal_values :
    literalOf ConstantsExt.bool8Metadata kExtName = "arrow.bool8".toList ∧
    literalOf ConstantsExt.bool8Metadata kExtMetadata = [] ∧
    literalOf ConstantsExt.fixedMetadata kExtName = "arrow.fixed_shape_tensor".toList ∧
    literalOf ConstantsExt.variableMetadata kExtName = "arrow.variable_shape_tensor".toList := by decide +kernel

/-- `TryFrom<&Bool8Field> for Field` with the texts of the source -/
theorem gen_bool8 {ε} (h : Bool8Field) :
    (h.tryFrom : R (Field ε)) = .ok (.mk h.name h.nullable .int8
      (extMetadataMap (literalOf ConstantsExt.bool8Metadata kExtName) (literalOf ConstantsExt.bool8Metadata kExtMetadata))) := by
  rw [literal_values.1, literal_values.2.1]; rfl

/-- the field `FixedShapeTensorField` converts to, with the extension name of the source -/
theorem gen_fixed_field {ε} (h : FixedShapeTensorField ε) (n : Nat) :
    h.mkField n = .mk h.name h.nullable (.fixedSizeList (.element h.element) n)
      (extMetadataMap (literalOf ConstantsExt.fixedMetadata kExtName) h.getExtMetadata) := by
  rw [literal_values.2.2.1]; rfl

/-- … and `VariableShapeTensorField` -/
theorem gen_variable_field {ε} (h : VariableShapeTensorField ε) :
    h.tryFrom = match usizeToI32 h.ndim with
      | .error e => .error e
      | .ok ndim => .ok (.mk h.name h.nullable (VariableShapeTensorField.storage h.element ndim)
          (extMetadataMap (literalOf ConstantsExt.variableMetadata kExtName) h.getExtMetadata)) := by
  rw [literal_values.2.2.2]; rfl

example : ((Bool8Field.new "x").tryFrom : R (Field Unit)) =
    .ok (.mk "x" false .int8 [("ARROW:extension:metadata".toList, []), ("ARROW:extension:name".toList, "arrow.bool8".toList)]) := rfl

/-- a Rust format string without placeholders, as the text it writes (`{{` ↦ `{`, `}}` ↦ `}`) -/
def unbrace : List Char → List Char
  | '{' :: '{' :: r => '{' :: unbrace r
  | '}' :: '}' :: r => '}' :: unbrace r
  | c :: r => c :: unbrace r
  | [] => []

/-- the pieces `get_ext_metadata` of the fixed-shape tensor writes, in order: the model's literals -/
theorem gen_fixed_writes :
    ConstantsExt.fixedWrites.map (fun s => unbrace s.toList) =
      [['{'], "\"shape\":".toList, ",\"permutation\":".toList, ",\"dim_names\":".toList, ['}']] := by decide +kernel

/-- the model's writer with these pieces -/
theorem fixed_writer_model {ε} (nameRepr : Str → Str) (h : FixedShapeTensorField ε) :
    FixedShapeTensorField.getExtMetadataWith nameRepr h =
      (let s := ['{'] ++ "\"shape\":".toList ++ writeList (h.shape.map showNat)
       let s := match h.permutation with
         | some permutation => s ++ ",\"permutation\":".toList ++ writeList (permutation.map showNat)
         | none => s
       let s := match h.dimNames with
         | some dimNames => s ++ ",\"dim_names\":".toList ++ writeList (dimNames.map nameRepr)
         | none => s
       s ++ ['}']) := rfl

/-- the pieces of the variable-shape tensor: `{`, then per optional entry a `,` (written `if !first_field`) and the key, `}`;
`None` of the uniform shape is written `null` -/
theorem gen_variable_writes :
    ConstantsExt.variableWrites.map (fun s => unbrace s.toList) =
      [['{'], [','], "\"permutation\":".toList, [','], "\"dim_names\":".toList, [','], "\"uniform_shape\":".toList, ['}'],
       "String::from:".toList ++ VariableShapeTensorField.showOptNat none] := by decide +kernel

theorem variable_sep_model : VariableShapeTensorField.sep false = [','] ∧ VariableShapeTensorField.sep true = [] := by
  decide +kernel

/-- the name check of both constructors: `element.name != "element"` -/
theorem gen_element_check :
    ConstantsExt.fixedElementCheck.1 = "!=" ∧ ConstantsExt.variableElementCheck.1 = "!=" := by decide +kernel

theorem gen_fixed_new {ε} (name : String) (element : ε) (elementName : String) (shape : List Nat) :
    FixedShapeTensorField.new name element elementName shape =
      if elementName ≠ ConstantsExt.fixedElementCheck.2.1 then fail "The element field of FixedShapeTensorField must be named \"element\""
      else .ok { name, shape, element, nullable := false, dimNames := none, permutation := none } := rfl

theorem gen_variable_new_rejects {ε} (name : String) (element : ε) (elementName : String) (ndim : Nat)
    (h : elementName ≠ ConstantsExt.variableElementCheck.2.1) :
    VariableShapeTensorField.new name element elementName ndim = fail "The element field of FixedShapeTensorField must be named \"element\"" := by
  have h' : elementName ≠ "element" := h
  simp [VariableShapeTensorField.new, h']

example : (FixedShapeTensorField.new "t" () "item" [2, 3]).isOk = false := by decide +kernel
example : (FixedShapeTensorField.new "t" () "element" [2, 3]).isOk = true := by decide +kernel

/-- the shape product fails on overflow — a statement about the MODEL alone (no generated constant enters it, hence no
`gen_` prefix; formerly `gen_fixed_overflow`) -/
theorem fixed_overflow_model (n s : Nat) (rest : List Nat) (h : checkedMul n s = none) :
    FixedShapeTensorField.shapeProduct n (s :: rest) = fail "The number of elements of FixedShapeTensorField does not fit into i32" := by
  simp [FixedShapeTensorField.shapeProduct, h]

example : FixedShapeTensorField.shapeProduct 1 [2 ^ 40, 2 ^ 40] = fail "The number of elements of FixedShapeTensorField does not fit into i32" := by decide +kernel

/-- the storage type of the variable-shape tensor: children `data`, `shape`, and `element` below `shape` -/
theorem gen_variable_children : ConstantsExt.variableChildNames = ["data", "shape", "element"] := by decide +kernel

theorem variable_storage_model {ε} (element : ε) (ndim : Nat) :
    VariableShapeTensorField.storage element ndim = .struct [
      .mk "data" false (.list (.element element)) [],
      .mk "shape" false (.fixedSizeList (.mk "element" false .int32 []) ndim) []] := rfl

example : checkPermutation 2 [0, 0] = fail ("Invalid permutation: index" ++ " found multiple times") := by decide +kernel

/-! ### the bodies of `utils.rs` (`Generated.ConstantsExtUtils`) -/

open SaModel.Lemmas.C20Gen SaModel.Ext.Json

/-- the arm table read from `JsonString::fmt` passes the criterion (`armsOk`: literal arms and guard bounds below U+0080, a
catch-all arm that copies, and agreement with `escapeChar` on each of the 128 characters below U+0080) -/
theorem gen_escape_arms_ok : armsOk ConstantsExtUtils.jsonStringArms = true := by decide +kernel

/-- for EVERY character the arms of the source, in their order, write what the model's `escapeChar` writes -/
theorem gen_escape_char (c : Char) : escapeCharGen ConstantsExtUtils.jsonStringArms c = escapeChar c :=
  armsOk_sound _ gen_escape_arms_ok c

example : escapeCharGen ConstantsExtUtils.jsonStringArms (Char.ofNat 0x1f) = "\\u001f".toList := by decide +kernel
example : escapeCharGen ConstantsExtUtils.jsonStringArms '"' = ['\\', '"'] := by decide +kernel
example : escapeCharGen ConstantsExtUtils.jsonStringArms ' ' = [' '] := by decide +kernel
/-- the criterion is not vacuous: the table of seeded regression c20a (`c if c < '\u{1f}'`) does not pass it -/
example : armsOk [.lit '"' "\\\"", .lit '\\' "\\\\", .lit '\n' "\\n", .lit '\r' "\\r", .lit '\t' "\\t",
    .hexBelow 31 "\\u" true 4 false "", .copy] = false := by decide +kernel

theorem gen_json_string_delimiters :
    ConstantsExtUtils.jsonStringOpen.toList = ['"'] ∧ ConstantsExtUtils.jsonStringClose.toList = ['"'] := by decide +kernel

/-- `JsonString::fmt` as translated (opening text, the loop over the characters with the arm table, closing text) writes the
model's `jsonString s` for every string -/
theorem gen_json_string (s : Str) :
    jsonStringGen ConstantsExtUtils.jsonStringOpen ConstantsExtUtils.jsonStringArms ConstantsExtUtils.jsonStringClose s = jsonString s := by
  unfold jsonStringGen jsonString
  rw [gen_json_string_delimiters.1, gen_json_string_delimiters.2, escapeGen_eq _ gen_escape_arms_ok]
  rfl

/-- `Props.C20.json_string_round_trip` for the text the SOURCE's arms produce: it reads back as exactly the string -/
theorem gen_json_string_round_trip (s more : Str) :
    readScalar (jsonStringGen ConstantsExtUtils.jsonStringOpen ConstantsExtUtils.jsonStringArms ConstantsExtUtils.jsonStringClose s ++ more)
      = some (.str s, more) := by
  rw [gen_json_string]
  exact SaModel.Props.C20.json_string_round_trip s more

example : jsonStringGen ConstantsExtUtils.jsonStringOpen ConstantsExtUtils.jsonStringArms ConstantsExtUtils.jsonStringClose
    ['a', '"', Char.ofNat 1] = "\"a\\\"\\u0001\"".toList := by decide +kernel

/-- the statements read from `check_permutation` pass the criterion (`permBodyOk`: length comparison, `seen` of `len` times
`false`, loop = range guard / `seen[i]` → error / `seen[i] = true`, final loop over `seen` failing on `false`, `Ok(())`) -/
theorem gen_check_permutation_body_ok : permBodyOk ConstantsExtUtils.checkPermutationBody = true := by decide +kernel

/-- for ALL arguments the translated statements of `check_permutation` have the outcome (Ok / Err / panic) of the model -/
theorem gen_check_permutation (ndim : Nat) (p : List Nat) :
    (checkPermutationGen ConstantsExtUtils.checkPermutationBody ndim p).cls = (checkPermutation ndim p).cls :=
  permBodyOk_sound _ gen_check_permutation_body_ok ndim p

/-- `Props.C20.perm_iff` for the statements of the SOURCE: accepted iff `ndim` entries that are a rearrangement of `0..ndim` -/
theorem gen_check_permutation_iff (ndim : Nat) (p : List Nat) :
    (checkPermutationGen ConstantsExtUtils.checkPermutationBody ndim p).cls = "ok" ↔ p.length = ndim ∧ p.Perm (List.range ndim) := by
  rw [gen_check_permutation, ← SaModel.Props.C20.perm_iff]
  cases h : checkPermutation ndim p with
  | ok u => simp [R.cls]
  | error e => cases e <;> simp [R.cls]

example : checkPermutationGen ConstantsExtUtils.checkPermutationBody 3 [2, 0, 1] = .ok () := by decide +kernel
example : (checkPermutationGen ConstantsExtUtils.checkPermutationBody 3 [2, 0, 2]).cls = "err" := by decide +kernel
example : (checkPermutationGen ConstantsExtUtils.checkPermutationBody 2 [2, 0]).cls = "err" := by decide +kernel
/-- pinned defect #3 (`seen[i] = true;` missing): the statement list does not pass the criterion, and its interpretation
rejects the permutation `[1, 0]` as the pinned crate did -/
example : permBodyOk [.failIf .sliceLen .ne .ndim, .letSeen false .sliceLen,
    .forSlice [.failIf .item .ge .seenLen, .failIfSeen .item true], .forSeen false, .retOk] = false := by decide +kernel
example : (checkPermutationGen [.failIf .sliceLen .ne .ndim, .letSeen false .sliceLen,
    .forSlice [.failIf .item .ge .seenLen, .failIfSeen .item true], .forSeen false, .retOk] 2 [1, 0]).cls = "err"
    ∧ (checkPermutationPinned 2 [1, 0]).cls = "err" ∧ (checkPermutation 2 [1, 0]).cls = "ok" := by decide +kernel

theorem gen_check_dim_names_body_ok : dimBodyOk ConstantsExtUtils.checkDimNamesBody = true := by decide +kernel

/-- `check_dim_names` as translated: the outcome of the model for all arguments -/
theorem gen_check_dim_names (ndim : Nat) (names : List Str) :
    (checkDimNamesGen ConstantsExtUtils.checkDimNamesBody ndim names).cls = (checkDimNames ndim names).cls :=
  dimBodyOk_sound _ gen_check_dim_names_body_ok ndim names

example : (checkDimNamesGen ConstantsExtUtils.checkDimNamesBody 2 [['x'], ['y']]).cls = "ok" := by decide +kernel
example : (checkDimNamesGen ConstantsExtUtils.checkDimNamesBody 2 [['x']]).cls = "err" := by decide +kernel

theorem gen_write_list_body_ok : writeListOk ConstantsExtUtils.writeListBody = true := by decide +kernel

/-- `write_list` as translated (`[`, the first item bare, every later item after `,`, `]`) writes the model's text -/
theorem gen_write_list (items : List Str) : writeListGen ConstantsExtUtils.writeListBody items = writeList items :=
  writeListOk_sound _ gen_write_list_body_ok items

example : writeListGen ConstantsExtUtils.writeListBody [['1'], ['2'], ['3']] = "[1,2,3]".toList := by decide +kernel
example : writeListGen ConstantsExtUtils.writeListBody [] = "[]".toList := by decide +kernel

end SaModel.Props.ConstGenExt
