import SaModel.Generated.ConstantsExt
import SaModel.Ext.Fields
/-
Translation obligation (C20, C16): the metadata keys, extension names, the literal pieces of the extension metadata text,
the `"element"` name check and the child field names of schema/extensions/{bool8_field, fixed_shape_tensor_field,
variable_shape_tensor_field}.rs, as the translator reads them out of the sources NOW (`Generated.ConstantsExt`), are the
literals the hand-written model `SaModel/Ext/Fields.lean` uses: the model functions are restated with the generated texts.
-/
namespace SaModel.Props.ConstGenExt
open SaModel SaModel.Ext SaModel.Generated

/-- the literal value inserted under a key -/
def literalOf (tbl : List (String × String × String)) (key : Str) : Str :=
  match tbl.find? (fun e => e.1.toList == key && e.2.1 == "literal") with
  | some e => e.2.2.toList
  | none => []

/-- the two metadata keys are those of the model; the name is a literal, the metadata is `String::new()` for bool8 and the
result of `get_ext_metadata` for the tensors -/
theorem gen_metadata_keys :
    ConstantsExt.bool8Metadata.map (fun e => (e.1.toList, e.2.1)) = [(kExtName, "literal"), (kExtMetadata, "literal")] ∧
    ConstantsExt.fixedMetadata.map (fun e => (e.1.toList, e.2.1)) = [(kExtName, "literal"), (kExtMetadata, "get_ext_metadata")] ∧
    ConstantsExt.variableMetadata.map (fun e => (e.1.toList, e.2.1)) = [(kExtName, "literal"), (kExtMetadata, "get_ext_metadata")] := by
  decide +kernel

theorem literal_values :
    literalOf ConstantsExt.bool8Metadata kExtName = "arrow.bool8".toList ∧
    literalOf ConstantsExt.bool8Metadata kExtMetadata = [] ∧
    literalOf ConstantsExt.fixedMetadata kExtName = "arrow.fixed_shape_tensor".toList ∧
    literalOf ConstantsExt.variableMetadata kExtName = "arrow.variable_shape_tensor".toList := by decide +kernel

/-- `TryFrom<&Bool8Field> for Field` with the texts of the source -/
theorem gen_bool8 {ε} (h : Bool8Field) :
    (h.tryFrom : R (Field ε)) = .ok (.mk h.name h.nullable .int8
      (extMetadataMap (literalOf ConstantsExt.bool8Metadata kExtName) (literalOf ConstantsExt.bool8Metadata kExtMetadata))) := by
  rw [literal_values.1, literal_values.2.1]; rfl

/-- the field `FixedShapeTensorField` converts to, with the extension name of the source -/
theorem gen_fixed_field {ε} (h : FixedShapeTensorField ε) (n : Nat) :
    h.mkField n = .mk h.name h.nullable (.fixedSizeList (.element h.element) n)
      (extMetadataMap (literalOf ConstantsExt.fixedMetadata kExtName) h.getExtMetadata) := by
  rw [literal_values.2.2.1]; rfl

/-- … and `VariableShapeTensorField` -/
theorem gen_variable_field {ε} (h : VariableShapeTensorField ε) :
    h.tryFrom = match usizeToI32 h.ndim with
      | .error e => .error e
      | .ok ndim => .ok (.mk h.name h.nullable (VariableShapeTensorField.storage h.element ndim)
          (extMetadataMap (literalOf ConstantsExt.variableMetadata kExtName) h.getExtMetadata)) := by
  rw [literal_values.2.2.2]; rfl

example : ((Bool8Field.new "x").tryFrom : R (Field Unit)) =
    .ok (.mk "x" false .int8 [("ARROW:extension:metadata".toList, []), ("ARROW:extension:name".toList, "arrow.bool8".toList)]) := rfl

/-- a Rust format string without placeholders, as the text it writes (`{{` ↦ `{`, `}}` ↦ `}`) -/
def unbrace : List Char → List Char
  | '{' :: '{' :: r => '{' :: unbrace r
  | '}' :: '}' :: r => '}' :: unbrace r
  | c :: r => c :: unbrace r
  | [] => []

/-- the pieces `get_ext_metadata` of the fixed-shape tensor writes, in order: the model's literals -/
theorem gen_fixed_writes :
    ConstantsExt.fixedWrites.map (fun s => unbrace s.toList) =
      [['{'], "\"shape\":".toList, ",\"permutation\":".toList, ",\"dim_names\":".toList, ['}']] := by decide +kernel

/-- the model's writer with these pieces -/
theorem fixed_writer_model {ε} (nameRepr : Str → Str) (h : FixedShapeTensorField ε) :
    FixedShapeTensorField.getExtMetadataWith nameRepr h =
      (let s := ['{'] ++ "\"shape\":".toList ++ writeList (h.shape.map showNat)
       let s := match h.permutation with
         | some permutation => s ++ ",\"permutation\":".toList ++ writeList (permutation.map showNat)
         | none => s
       let s := match h.dimNames with
         | some dimNames => s ++ ",\"dim_names\":".toList ++ writeList (dimNames.map nameRepr)
         | none => s
       s ++ ['}']) := rfl

/-- the pieces of the variable-shape tensor: `{`, then per optional entry a `,` (written `if !first_field`) and the key, `}`;
`None` of the uniform shape is written `null` -/
theorem gen_variable_writes :
    ConstantsExt.variableWrites.map (fun s => unbrace s.toList) =
      [['{'], [','], "\"permutation\":".toList, [','], "\"dim_names\":".toList, [','], "\"uniform_shape\":".toList, ['}'],
       "String::from:".toList ++ VariableShapeTensorField.showOptNat none] := by decide +kernel

theorem variable_sep_model : VariableShapeTensorField.sep false = [','] ∧ VariableShapeTensorField.sep true = [] := by
  decide +kernel

/-- the name check of both constructors: `element.name != "element"` -/
theorem gen_element_check :
    ConstantsExt.fixedElementCheck.1 = "!=" ∧ ConstantsExt.variableElementCheck.1 = "!=" := by decide +kernel

theorem gen_fixed_new {ε} (name : String) (element : ε) (elementName : String) (shape : List Nat) :
    FixedShapeTensorField.new name element elementName shape =
      if elementName ≠ ConstantsExt.fixedElementCheck.2.1 then fail "The element field of FixedShapeTensorField must be named \"element\""
      else .ok { name, shape, element, nullable := false, dimNames := none, permutation := none } := rfl

theorem gen_variable_new_rejects {ε} (name : String) (element : ε) (elementName : String) (ndim : Nat)
    (h : elementName ≠ ConstantsExt.variableElementCheck.2.1) :
    VariableShapeTensorField.new name element elementName ndim = fail "The element field of FixedShapeTensorField must be named \"element\"" := by
  have h' : elementName ≠ "element" := h
  simp [VariableShapeTensorField.new, h']

example : (FixedShapeTensorField.new "t" () "item" [2, 3]).isOk = false := by decide +kernel
example : (FixedShapeTensorField.new "t" () "element" [2, 3]).isOk = true := by decide +kernel

/-- the shape product fails on overflow — a statement about the MODEL alone (no generated constant enters it, hence no
`gen_` prefix; formerly `gen_fixed_overflow`) -/
theorem fixed_overflow_model (n s : Nat) (rest : List Nat) (h : checkedMul n s = none) :
    FixedShapeTensorField.shapeProduct n (s :: rest) = fail "The number of elements of FixedShapeTensorField does not fit into i32" := by
  simp [FixedShapeTensorField.shapeProduct, h]

example : FixedShapeTensorField.shapeProduct 1 [2 ^ 40, 2 ^ 40] = fail "The number of elements of FixedShapeTensorField does not fit into i32" := by decide +kernel

/-- the storage type of the variable-shape tensor: children `data`, `shape`, and `element` below `shape` -/
theorem gen_variable_children : ConstantsExt.variableChildNames = ["data", "shape", "element"] := by decide +kernel

theorem variable_storage_model {ε} (element : ε) (ndim : Nat) :
    VariableShapeTensorField.storage element ndim = .struct [
      .mk "data" false (.list (.element element)) [],
      .mk "shape" false (.fixedSizeList (.mk "element" false .int32 []) ndim) []] := rfl

example : checkPermutation 2 [0, 0] = fail ("Invalid permutation: index" ++ " found multiple times") := by decide +kernel

end SaModel.Props.ConstGenExt
