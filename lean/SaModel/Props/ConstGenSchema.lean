import SaModel.Generated.ConstantsSchema
import SaModel.Codec.Dsl
import SaModel.Codec.SchemaJson
/-
Translation obligation (C09, C16): `MAX_TERM_DEPTH` of utils/dsl.rs with its comparison and the depths `parse_term` is called
with, and `STRATEGY_KEY` of schema/strategy.rs, as the translator reads them out of the sources NOW
(`Generated.ConstantsSchema`), are the values the hand-written model uses (`Dsl.MAX_TERM_DEPTH`, `Dsl.Term.fromStrWith`,
`SaModel.STRATEGY_KEY` in `Codec/SchemaJson.lean`, `Spec/SchemaOK.lean`, `Spec/SchemaDenote.lean`).
-/
namespace SaModel.Props.ConstGenSchema
open SaModel SaModel.Dsl SaModel.Generated

theorem gen_max_term_depth : ConstantsSchema.MAX_TERM_DEPTH = Dsl.MAX_TERM_DEPTH := by decide +kernel

/-- `parse_term(s, depth)` refuses `depth > MAX_TERM_DEPTH`; the top-level term is parsed at depth 0 and every argument one
level deeper — so a term is refused iff its nesting depth (`Term.depth`: 0 without arguments) exceeds the constant -/
theorem gen_term_depth_rule :
    ConstantsSchema.termDepthOp = ">" ∧
    ConstantsSchema.parseTermCalls = [("from_str", "0"), ("parse_arguments", "depth + 1")] := by decide +kernel

/-- `Term::from_str` of the model with the constant and the message of the source, for every text (both variants) -/
theorem gen_term_from_str (pinned : Bool) (s : Text) :
    Term.fromStrWith pinned s = (do
      let (t, rest) ← parseTerm pinned (3 * s.length + 16) s
      if t.depth > ConstantsSchema.MAX_TERM_DEPTH then fail ConstantsSchema.termDepthMessage
      else if trimStart rest = [] then pure t else fail "Trailing content in term") := rfl

example : (Term.fromStr "List(List(I8))".toList).isOk = true := by decide +kernel

/-- `STRATEGY_KEY` -/
theorem gen_strategy_key : ConstantsSchema.STRATEGY_KEY = SaModel.STRATEGY_KEY := by decide +kernel

/-- the message texts of the model that are the source's texts verbatim (dsl.rs, schema/serde/deserialize.rs, schema/mod.rs,
utils/value.rs) -/
def verbatim : List String :=
  ["Invalid unicode escape in quoted string", "Missing end quote", "Invalid escape sequence in quoted string",
   "No identifier found", "Missing ')'", "Term is nested too deeply", "Expected identifier, found quoted string",
   "Expected identifier, found call", "Expected string, found identifier", "Expected call, found quoted string",
   "Invalid children for List: expected one child", "Invalid children for LargeList: expected one child",
   "Invalid children for Dictionary: expected two children", "Invalid children for Map: expected one child",
   "Invalid FixedSizedBinary with negative number of elements", "Time32 field must have Second or Millisecond unit",
   "Time64 field must have Microsecond or Nanosecond unit", "Invalid child data type for map, expected struct with 2 fields",
   "Invalid FixedSizeList with negative number of elements", "Cannot extract string from non-string value",
   "missing field `fields`"]

theorem gen_messages : verbatim.all (fun m => ConstantsSchema.messages.any (fun t => decide (t = m))) = true := by decide +kernel

end SaModel.Props.ConstGenSchema
