import SaModel.Generated.ConstantsSchema
import SaModel.Codec.Dsl
import SaModel.Codec.SchemaJson
/-
Translation obligation (C09, C16): `MAX_TERM_DEPTH` of utils/dsl.rs with its comparison and the depths `parse_term` is called
with, and `STRATEGY_KEY` of schema/strategy.rs, as the translator reads them out of the sources NOW
(`Generated.ConstantsSchema`), are the values the hand-written model uses (`Dsl.MAX_TERM_DEPTH`, `Dsl.Term.fromStrWith`,
`SaModel.STRATEGY_KEY` in `Codec/SchemaJson.lean`, `Spec/SchemaOK.lean`, `Spec/SchemaDenote.lean`).
-/
namespace SaModel.Props.ConstGenSchema
open SaModel SaModel.Dsl SaModel.Generated

theorem gen_max_term_depth : ConstantsSchema.MAX_TERM_DEPTH = Dsl.MAX_TERM_DEPTH := by decide +kernel

/-- `parse_term(s, depth)` refuses `depth > MAX_TERM_DEPTH`; the top-level term is parsed at depth 0 and every argument one
level deeper — so a term is refused iff its nesting depth (`Term.depth`: 0 without arguments) exceeds the constant -/
theorem gen_term_depth_rule :
    ConstantsSchema.termDepthOp = ">" ∧
    ConstantsSchema.parseTermCalls = [("from_str", "0"), ("parse_arguments", "depth + 1")] := by decide +kernel

/-- `Term::from_str` of the model with the constant of the source, for every text (both variants) -/
theorem gen_term_from_str (pinned : Bool) (s : Text) :
    Term.fromStrWith pinned s = (do
      let (t, rest) ← parseTerm pinned (3 * s.length + 16) s
      if t.depth > ConstantsSchema.MAX_TERM_DEPTH then fail "Term is nested too deeply"
      else if trimStart rest = [] then pure t else fail "Trailing content in term") := rfl

example : (Term.fromStr "List(List(I8))".toList).isOk = true := by decide +kernel

/-- `STRATEGY_KEY` -/
theorem gen_strategy_key : ConstantsSchema.STRATEGY_KEY = SaModel.STRATEGY_KEY := by decide +kernel

end SaModel.Props.ConstGenSchema
