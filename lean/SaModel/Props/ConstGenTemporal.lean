import SaModel.Generated.ConstantsTemporal
import SaModel.Codec.Span
import SaModel.Codec.Time
import SaModel.Codec.Calendar
/-
Translation obligation (C14, C05, C16): the UNIT FACTORS of chrono.rs and of the date / time / timestamp builders and
readers, as the translator reads them out of the sources NOW (`Generated.ConstantsTemporal`), are the numbers the
hand-written model uses (`SaModel/Codec/Span.lean`: `TimeUnit.nsPer`, `TimeUnit.perSec`, `getSecondValue`,
`getNanosecondValue`, `buildDuration`, `formatMagnitude`; `SaModel/Codec/Time.lean`: `timeToUnits`, `timeOfString`,
`unitsToTime`, `instantUnitsValue`, `unitsToInstant`; `SaModel/Codec/Calendar.lean`: `DateTy.factor`).

Per-unit tables of the source are compared with the model's functions of the unit for EVERY arm; model functions whose body
holds a literal are restated with the generated constant, for all arguments.  Which chrono function a unit uses
(`timestamp_millis`, `from_timestamp_micros`, …) is compared with the reading of chrono's API the model is built on
(`chronoTimestampMethod`, `chronoFromTimestamp`).
-/
namespace SaModel.Props.ConstGenTemporal
open SaModel SaModel.Codec SaModel.Generated

/-- marrow's `TimeUnit` constructors by name -/
def unitOfName : String → Option TimeUnit
  | "Second" => some .second
  | "Millisecond" => some .millisecond
  | "Microsecond" => some .microsecond
  | "Nanosecond" => some .nanosecond
  | _ => none

/-! ### chrono.rs: spans -/

/-- `build_duration`: `nanoseconds_per_unit` of every arm is the model's `TimeUnit.nsPer` (four arms, one per unit: the
translator refuses anything else) -/
theorem gen_nanoseconds_per_unit :
    ConstantsTemporal.nanosecondsPerUnit.all (fun e => match unitOfName e.1 with
      | some u => u.nsPer == e.2
      | none => false) = true ∧ ConstantsTemporal.nanosecondsPerUnit.length = 4 := by decide +kernel

/-- `build_duration` with the constants of the source: `(second_value * 1_000_000_000 + nanosecond_value) /
nanoseconds_per_unit`, negated for the sign character of the source -/
theorem gen_build_duration (sign : Option Char) (secondValue nanosecondValue : Nat) (unit : TimeUnit) :
    buildDuration sign secondValue nanosecondValue unit =
      (let unsignedDuration : Int := ((secondValue * ConstantsTemporal.nanosecondsPerSecond + nanosecondValue) / unit.nsPer : Nat)
       let duration := if sign = some ConstantsTemporal.negativeSign then -unsignedDuration else unsignedDuration
       if inI64 duration then .ok duration else fail "Cannot represent the span with the requested resolution") := rfl

example : buildDuration (some '-') 90 500000000 .millisecond = .ok (-90500) := by decide +kernel

/-- seconds per span component: the product of the factors the source multiplies it with -/
def secondsPer (component : String) : Nat :=
  ((ConstantsTemporal.secondValueFactors.lookup component).getD [0]).foldl (· * ·) 1

/-- `get_second_value` has exactly the five components, in the order week, day, hour, minute, second -/
theorem gen_second_value_components :
    ConstantsTemporal.secondValueFactors.map Prod.fst = ["week", "day", "hour", "minute", "second"] := by decide +kernel

theorem secondsPer_values :
    secondsPer "week" = 604800 ∧ secondsPer "day" = 86400 ∧ secondsPer "hour" = 3600 ∧ secondsPer "minute" = 60 ∧
    secondsPer "second" = 1 := by decide +kernel

/-- `get_second_value` of the model, for every span, is the sum of the components weighted with the factors of the source -/
theorem gen_second_value (sp : Span) :
    sp.getSecondValue = (do
      let w ← getOptionalDigitValue sp.week
      let d ← getOptionalDigitValue sp.day
      let h ← getOptionalDigitValue sp.hour
      let m ← getOptionalDigitValue sp.minute
      let s ← getOptionalDigitValue sp.second
      pure (w * secondsPer "week" + d * secondsPer "day" + h * secondsPer "hour" + m * secondsPer "minute" + s * secondsPer "second")) := by
  obtain ⟨e1, e2, e3, e4, e5⟩ := secondsPer_values
  rw [e1, e2, e3, e4, e5]
  unfold Span.getSecondValue
  cases getOptionalDigitValue sp.week <;> cases getOptionalDigitValue sp.day <;> cases getOptionalDigitValue sp.hour <;>
    cases getOptionalDigitValue sp.minute <;> cases getOptionalDigitValue sp.second <;>
    simp [bind, Except.bind, pure, Except.pure] <;> omega

/-- `get_nanosecond_value`: `subsecond.get(..9)`, `value * 10.pow(9 - len)` -/
theorem gen_nanosecond_value (sp : Span) :
    sp.getNanosecondValue =
      match sp.subsecond with
      | none => .ok 0
      | some ds =>
        let ds := ds.take ConstantsTemporal.subsecondDigitsKept
        .ok (digitsVal ds * ConstantsTemporal.subsecondScale.1 ^ (ConstantsTemporal.subsecondScale.2 - ds.length)) := rfl

/-- digits after the decimal point printed per unit (`{subsecond:03}` …) -/
def padWidth : TimeUnit → Nat
  | .second => 0 | .millisecond => 3 | .microsecond => 6 | .nanosecond => 9

/-- `format_arrow_duration_as_span`: per unit the format string and the divisor / modulus are those of the model: `value`
itself for seconds, else `value / perSec`, `value % perSec` printed with `padWidth` digits -/
theorem gen_span_formats :
    ConstantsTemporal.spanFormats.all (fun e => match unitOfName e.1 with
      | some .second => e.2.1 == "{sign}PT{value}s" && e.2.2 == []
      | some u => e.2.1 == "{sign}PT{second}.{subsecond:0" ++ toString (padWidth u) ++ "}s" && e.2.2 == [u.perSec, u.perSec]
      | none => false) = true ∧ ConstantsTemporal.spanFormats.length = 4 := by decide +kernel

theorem formatMagnitude_model (value : Nat) (unit : TimeUnit) :
    formatMagnitude value unit =
      match unit with
      | .second => "PT".toList ++ natDigits value ++ ['s']
      | u => "PT".toList ++ natDigits (value / u.perSec) ++ ['.'] ++ padDigits (padWidth u) (value % u.perSec) ++ ['s'] := by
  cases unit <;> rfl

example : formatArrowDurationAsSpan (-1500) .millisecond = "-PT1.500s".toList := by decide +kernel

/-! ### time_builder.rs / time_deserializer.rs -/

/-- `(seconds_factor, nanoseconds_factor)` of every arm is `(perSec, nsPer)` of the model -/
theorem gen_time_builder_factors :
    ConstantsTemporal.timeBuilderFactors.all (fun e => match unitOfName e.1 with
      | some u => u.perSec == e.2.1 && u.nsPer == e.2.2
      | none => false) = true ∧ ConstantsTemporal.timeBuilderFactors.length = 4 ∧
    ConstantsTemporal.timeBuilderFormula =
      "i64::from(time.num_seconds_from_midnight()) * seconds_factor + i64::from(time.nanosecond()) / nanoseconds_factor" := by
  decide +kernel

/-- the model's formula for the text above -/
theorem timeToUnits_model (u : TimeUnit) (secs nanos : Nat) : timeToUnits u secs nanos = secs * u.perSec + nanos / u.nsPer := rfl

/-- the leap second test `time.nanosecond() >= 1_000_000_000` -/
theorem gen_leap_second_op : ConstantsTemporal.leapSecondTest.1 = ">=" := by decide +kernel

theorem gen_leap_second (ty : TimeTy) (u : TimeUnit) (s : List Char) :
    timeOfString ty u s = (do
      let (secs, nanos) ← parseNaiveTime s
      if nanos ≥ ConstantsTemporal.leapSecondTest.2 then fail "Cannot represent the leap second as a time since midnight" else
      let v : Int := timeToUnits u secs nanos
      if ty.inRange v then .ok v else fail "TryFromIntError") := rfl

example : timeOfString .time32 .second "23:59:60".toList = fail "Cannot represent the leap second as a time since midnight" := by
  decide +kernel

/-- the reader: `(ts, 0)` for seconds, `(ts / perSec, (ts % perSec) * nsPer)` for milli- and microseconds,
`(ts / perSec, ts % perSec)` for nanoseconds (where `nsPer = 1`) -/
theorem gen_time_reader_arms :
    ConstantsTemporal.timeReaderArms.all (fun e => match unitOfName e.1 with
      | some .second => e.2.1 == "(ts, 0)" && e.2.2 == []
      | some .nanosecond => e.2.1 == "(ts / A, ts % B)" && e.2.2 == [TimeUnit.nanosecond.perSec, TimeUnit.nanosecond.perSec]
      | some u => e.2.1 == "(ts / A, (ts % B) * C)" && e.2.2 == [u.perSec, u.perSec, u.nsPer]
      | none => false) = true ∧ ConstantsTemporal.timeReaderArms.length = 4 := by decide +kernel

/-- the model's reading of these arms (for a value in range; the range test is `u32::try_from` and chrono's) -/
theorem unitsToTime_model (u : TimeUnit) (ts : Int) (h : 0 ≤ ts ∧ ts < 86400 * (u.perSec : Int)) :
    unitsToTime u ts = some (ts.toNat / u.perSec, (ts.toNat % u.perSec) * u.nsPer) := by
  simp [unitsToTime, h]

theorem unitsToTime_second (ts : Int) (h : 0 ≤ ts ∧ ts < 86400) : unitsToTime .second ts = some (ts.toNat, 0) := by
  have h' : 0 ≤ ts ∧ ts < 86400 * ((TimeUnit.second.perSec : Nat) : Int) := by simpa [TimeUnit.perSec] using h
  rw [unitsToTime_model _ _ h']
  simp [TimeUnit.perSec, TimeUnit.nsPer, Nat.mod_one]

example : unitsToTime .millisecond 1500 = some (1, 500000000) := by decide +kernel

/-! ### timestamp_builder.rs / timestamp_deserializer.rs -/

/-- the reading of chrono's API the model is built on: which method of `DateTime<Utc>` gives the value in the unit, and
whether the crate takes it unchecked (`Ok(..)`) or checked (`timestamp_nanos_opt`, `None` ↦ error) -/
def chronoTimestampMethod : TimeUnit → String × String
  | .second => ("timestamp", "Ok")
  | .millisecond => ("timestamp_millis", "Ok")
  | .microsecond => ("timestamp_micros", "Ok")
  | .nanosecond => ("timestamp_nanos_opt", "Some=>Ok,_=>fail")

theorem gen_timestamp_builder_methods :
    ConstantsTemporal.timestampBuilderMethods.all (fun e => match unitOfName e.1 with
      | some u => decide ((e.2.1, e.2.2) = chronoTimestampMethod u)
      | none => false) = true ∧ ConstantsTemporal.timestampBuilderMethods.length = 4 := by decide +kernel

/-- the model's value of these methods: whole seconds for `timestamp()`, else seconds · perSec + nanoseconds / nsPer; only
the nanosecond arm is checked (an error), the others unwind outside i64 (chrono panics) -/
theorem instantToUnits_model (u : TimeUnit) (t : Instant) :
    instantToUnits u t =
      if inI64 (instantUnitsValue u t) then .ok (instantUnitsValue u t)
      else match (chronoTimestampMethod u).2 with
        | "Ok" => panic "chrono timestamp_millis / timestamp_micros overflow"
        | _ => fail "Timestamp cannot be converted to nanoseconds" := by
  cases u <;> simp [instantToUnits, chronoTimestampMethod]

/-- reader: `from_timestamp(ts, 0)`, `from_timestamp_millis(ts)`, `from_timestamp_micros(ts)` (all `Option`) and the total
`from_timestamp_nanos(ts)` -/
def chronoFromTimestamp : TimeUnit → String × String × String
  | .second => ("from_timestamp", "(ts, 0)", "Option")
  | .millisecond => ("from_timestamp_millis", "(ts)", "Option")
  | .microsecond => ("from_timestamp_micros", "(ts)", "Option")
  | .nanosecond => ("from_timestamp_nanos", "(ts)", "Some")

theorem gen_timestamp_reader_functions :
    ConstantsTemporal.timestampReaderFunctions.all (fun e => match unitOfName e.1 with
      | some u => decide (e.2 = chronoFromTimestamp u)
      | none => false) = true ∧ ConstantsTemporal.timestampReaderFunctions.length = 4 := by decide +kernel

/-! ### date_builder.rs / date_deserializer.rs -/

/-- the column type of a `DatePrimitive` implementation: by integer type and by `DATA_TYPE_NAME` -/
def dateTyOf : String → String → Option DateTy
  | "i32", "Date32" => some .date32
  | "i64", "Date64" => some .date64
  | _, _ => none

/-- `DAY_TO_VALUE_FACTOR` of both implementations, on both sides, is the model's `DateTy.factor`; `BITS` is the width of the
integer type -/
theorem gen_date_factors :
    ConstantsTemporal.dateBuilderImpls.all (fun e => match dateTyOf e.1 e.2.1 with
      | some d => decide (d.factor = (e.2.2 : Int))
      | none => false) = true ∧ ConstantsTemporal.dateBuilderImpls.length = 2 ∧
    ConstantsTemporal.dateReaderImpls.all (fun e => match dateTyOf e.1 e.2.1 with
      | some d => decide (d.factor = (e.2.2.1 : Int)) && decide (e.1 = "i" ++ toString e.2.2.2)
      | none => false) = true ∧ ConstantsTemporal.dateReaderImpls.length = 2 := by decide +kernel

/-- the builder multiplies the day number, the reader divides rounding toward negative infinity (`div_euclid` by a positive
factor = `Int` `/` of the model) -/
theorem gen_date_formulas :
    ConstantsTemporal.dateBuilderFormula = "days_since_epoch * I::DAY_TO_VALUE_FACTOR" ∧
    ConstantsTemporal.dateReaderDivision = "div_euclid" := by decide +kernel

theorem dateToString_model (ty : DateTy) (v : Int) :
    dateToString ty v = (let days := v / ty.factor
      if inChronoDays days then .ok (formatDays days) else fail "Unsupported date value") := rfl

example : dateToString .date64 (-1) = .ok "1969-12-31".toList := by decide +kernel

end SaModel.Props.ConstGenTemporal
