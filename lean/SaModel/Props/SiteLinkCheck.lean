import Lean
import SaModel.Generated.ArithSiteLinks
/-
The elaboration-time check behind the obligations `SaModel.Props.C16Links` (every `model:` reference of the site
inventory) and `SaModel.Props.C17Links` (the reader-side references): see the header of `Props/C16Links.lean` for what is
checked.  Meta code only (no theorem, no model definition); it runs in whatever environment the importing file has built.
`readers` mode also PRINTS (never fails on) the other direction: definitions under `SaModel.Read` that C17's headline theorems
cover, contain a `panic` branch and are named by no reference (`UNLINKED-PANIC …`).
-/
namespace SaModel.Props.SiteLinkCheck
open Lean Elab Command
open SaModel.Generated

/-- namespaces that hold theorems, helpers and generated tables — not model definitions -/
def nonModelRoots : List Name := [`SaModel.Props, `SaModel.Lemmas, `SaModel.Generated, `SaModel.Wording]

def isModelDef (n : Name) : Bool :=
  n.getRoot == `SaModel && !n.isInternalDetail && !(nonModelRoots.any fun r => r.isPrefixOf n)

/-- the value a definition unfolds to (theorems and opaque constants: none) -/
def defValue? : ConstantInfo → Option Expr
  | .defnInfo d => some d.value
  | _ => none

/-- the other definitions of the mutual block (structural mutual recursion compiles the calls between them away: the value
of `explore` does not mention the constant `exploreTys`, although it contains its body) -/
def mutualBlock : ConstantInfo → List Name
  | .defnInfo d => d.all
  | _ => []

/-- constants reachable from `start` by unfolding definitions under `SaModel` (never proofs); `own` restricts the
unfolding to the auxiliary constants of one definition (`f.match_1`, `f._unary`, …) -/
def reachable (env : Environment) (start : Array Name) (own : Option Name := none) : NameSet := Id.run do
  let mut seen : NameSet := {}
  let mut todo : Array Name := start
  let mut fuel := 2000000
  while fuel > 0 && !todo.isEmpty do
    fuel := fuel - 1
    let n := todo.back!
    todo := todo.pop
    if seen.contains n then continue
    seen := seen.insert n
    let expand : Bool := match own with
      | none => n.getRoot == `SaModel || n.getRoot == `_private
      | some f => f.isPrefixOf n
    if expand then
      if let some ci := env.find? n then
        if let some v := defValue? ci then
          for c in v.getUsedConstants do
            if !seen.contains c then todo := todo.push c
        if own.isNone then
          for c in mutualBlock ci do
            if !seen.contains c then todo := todo.push c
  return seen

/-- the headline theorems of C17 (no hypothesis on the view): construction, `deserialize_any`, every typed read -/
def readerHeadlines : List Name :=
  [`SaModel.Props.C17.new_no_panic, `SaModel.Props.C17.read_no_panic, `SaModel.Props.C17.readAs_no_panic]

structure Verdict where
  defName : Name
  thmName : Name
  direct : Bool
  hasPanic : Bool

/-- checks one row; `Except` carries the message that names what is wrong -/
def checkLink (env : Environment) (model : Array (Name × ConstantInfo)) (d th : String) (reader unwinds : Bool) :
    Except String Verdict := do
  let dn := d.toName
  let tn := th.toName
  let defs := model.filter fun (n, ci) => dn.isSuffixOf n && isModelDef n && (defValue? ci).isSome
    && !(env.isProjectionFn n)
  let thms := model.filter fun (n, ci) => tn.isSuffixOf n && (`SaModel.Props).isPrefixOf n && !n.isInternalDetail
    && (match ci with | .thmInfo _ => true | _ => false)
  let dfull ← match defs.toList with
    | [(n, _)] => pure n
    | [] => throw s!"no model definition named `{d}` under SaModel (deleted or renamed?)"
    | l => throw s!"`{d}` is ambiguous: {l.map (·.1)} — qualify it in translator/arith_sites.json"
  let (tfull, tci) ← match thms.toList with
    | [x] => pure x
    | [] => throw s!"no theorem named `{th}` under SaModel.Props (deleted or renamed?)"
    | l => throw s!"`{th}` is ambiguous: {l.map (·.1)} — qualify it in translator/arith_sites.json"
  let stmt := tci.type.getUsedConstants
  let direct := stmt.contains dfull
  if reader && !direct then
    throw s!"the statement of {tfull} does not name {dfull} (a reader-side site needs a theorem about the definition itself)"
  if !direct && !(reachable env stmt).contains dfull then
    throw s!"{tfull} is not about {dfull}: the definition is not reachable from the theorem's statement by unfolding model definitions"
  if reader then
    -- … and the definition is part of the reader the hypothesis-free headline theorems of C17 speak about
    let mut heads : Array Name := #[]
    for h in readerHeadlines do
      match env.find? h with
      | some (.thmInfo t) => heads := heads ++ t.type.getUsedConstants
      | _ => throw s!"the headline theorem {h} of the readers does not exist (deleted or renamed?)"
    if !(reachable env heads).contains dfull then
      throw s!"{dfull} is not reachable from the statements of {readerHeadlines}: it is not part of the reader model those theorems cover"
  let own := reachable env #[dfull] (own := some dfull)
  let hasPanic := own.contains `SaModel.panic || own.contains `SaModel.Fail.panic
  if unwinds && !hasPanic then
    throw s!"{dfull} has no `panic` branch, but a site that carries the reference unwinds by itself"
  return { defName := dfull, thmName := tfull, direct, hasPanic }

/-- `#check_site_links all` / `#check_site_links readers` (only the rows with a site in the readers) -/
syntax (name := checkSiteLinks) "#check_site_links " ("all" <|> "readers") : command

@[command_elab checkSiteLinks] def elabCheckSiteLinks : CommandElab := fun stx => do
  let readersOnly := stx[1].isToken "readers" || stx[1][0].isToken "readers"
  let env ← getEnv
  let model := env.constants.fold (init := #[]) fun acc n ci =>
    if n.getRoot == `SaModel then acc.push (n, ci) else acc
  let mut bad : Array String := #[]
  let mut nDirect : Nat := 0
  let mut nPanic : Nat := 0
  let rows := ArithSiteLinks.links.filter fun r => !readersOnly || r.2.2.1
  for (d, th, reader, unwinds, sites) in rows do
    match checkLink env model d th reader unwinds with
    | .ok v =>
      if v.direct then nDirect := nDirect + 1
      if v.hasPanic then nPanic := nPanic + 1
      let how := if v.direct then "named in the statement" else "reachable from the statement"
      let pb := if v.hasPanic then ", panic branch" else ""
      logInfo m!"LINK {d}@{th}: {v.defName} @ {v.thmName} {how}{pb} ({sites.length} sites)"
    | .error e =>
      bad := bad.push s!"site link `model:{d}@{th}` of translator/arith_sites.json is broken: {e}; sites: {sites}"
  if readersOnly then
    -- the other direction (informational): panic branches of the reader model that no reference names
    let mut heads : Array Name := #[]
    for h in readerHeadlines do
      if let some (.thmInfo t) := env.find? h then heads := heads ++ t.type.getUsedConstants
    let covered := reachable env heads
    let linked : List Name := rows.filterMap fun (d, _, _, _, _) =>
      (model.find? fun (n, ci) => d.toName.isSuffixOf n && isModelDef n && (defValue? ci).isSome && !(env.isProjectionFn n)).map (·.1)
    let mut unlinked : Array Name := #[]
    for (n, ci) in model do
      if (`SaModel.Read).isPrefixOf n && isModelDef n && (defValue? ci).isSome && covered.contains n && !linked.contains n
          && !ci.type.getForallBody.isProp then
        let own := reachable env #[n] (own := some n)
        if own.contains `SaModel.panic || own.contains `SaModel.Fail.panic then unlinked := unlinked.push n
    logInfo m!"UNLINKED-PANIC definitions of the reader model with a panic branch that no site reference names (branches of the pinned readers, or of a second lookup the code does not make): {unlinked.qsort (fun a b => a.toString < b.toString)}"
  if !bad.isEmpty then
    throwError "gen_arith_site_links: {bad.size} broken link(s)\n{"\n".intercalate bad.toList}"
  logInfo m!"LINKS {rows.length} references checked{if readersOnly then " (reader side)" else ""}, {nDirect} named in the statement, {nPanic} with a panic branch"


end SaModel.Props.SiteLinkCheck
