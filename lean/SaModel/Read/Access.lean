import SaModel.Basic.Outcome
/-
Model of `serde_arrow/src/internal/deserializer.rs`: `Deserializer::new`, `len`, `is_empty`,
`get`, `iter`/`into_iter`, `DeserializerIterator::{next,size_hint}` and the bulk `SeqAccess`
(`Private<DeserializerIterator>::next_element_seed`).

A record is identified by the index handed to `StructDeserializer::at(idx)`; reading it is a
pure function of `(views, idx)` (the reader model, `SaModel/Read/*`).  This file is about
*which* indices are handed out, in which order, and what the size hints say.
-/
namespace SaModel.Access

/-- `Deserializer::new(fields, views)`: returns the record count.
`checkCount = true` is the repaired code (fix: refuse a field/array count mismatch);
`checkCount = false` is the pinned code, which zipped fields and views silently. -/
def new (checkCount : Bool) (nfields : Nat) (viewLens : List Nat) : R Nat :=
  if checkCount && nfields != viewLens.length then
    fail "Cannot deserialize: number of fields and arrays differ"
  else
    let len := match viewLens with
      | [] => 0
      | l :: _ => l
    if (viewLens.take nfields).all (· == len) then .ok len
    else fail "Cannot deserialize from arrays with different lengths"

/-- `Deserializer::get(idx)`: the index passed to `at`, if any -/
def getIdx (len idx : Nat) : Option Nat :=
  if idx >= len then none else some idx

def isEmpty (len : Nat) : Bool := len == 0

/-- `DeserializerIterator` -/
structure Iter where
  len : Nat
  next : Nat
deriving Repr, BEq, DecidableEq

def Iter.new (len : Nat) : Iter := { len, next := 0 }

/-- `Iterator::next` -/
def Iter.step (it : Iter) : Option Nat × Iter :=
  if it.next >= it.len then (none, it)
  else (some it.next, { it with next := it.next + 1 })

/-- `Iterator::size_hint` of the repaired code -/
def Iter.sizeHint (it : Iter) : Nat × Option Nat :=
  let remaining := it.len - it.next
  (remaining, some remaining)

/-- `Iterator::size_hint` of the pinned code (ignores the cursor) -/
def Iter.sizeHintPinned (it : Iter) : Nat × Option Nat := (it.len, some it.len)

/-- everything the iterator will still yield (fuel = len is always enough) -/
def Iter.drain : Nat → Iter → List Nat
  | 0, _ => []
  | fuel + 1, it =>
    match it.step with
    | (none, _) => []
    | (some i, it') => i :: Iter.drain fuel it'

/-- bulk read: `visit_seq(Private(DeserializerIterator::new(..)))` driven until `None` -/
def bulk (len : Nat) : List Nat := (Iter.new len).drain len

/-! ### access histories -/

inductive Op where
  | len | isEmpty
  | get (i : Nat)
  | iterNew
  | iterNext (k : Nat)
  | iterHint (k : Nat)
  | bulk
deriving Repr, BEq, DecidableEq

inductive Out where
  | n (x : Nat)
  | b (x : Bool)
  | item (o : Option Nat)
  | hint (lo : Nat) (hi : Option Nat)
  | items (l : List Nat)
  | unit
  | noSuchIter
deriving Repr, BEq, DecidableEq

/-- model state of a history: the deserializer (immutable: just `len`) and the live iterators -/
structure St where
  len : Nat
  iters : List Iter
deriving Repr

def setAt {α} : List α → Nat → α → List α
  | [], _, _ => []
  | _ :: xs, 0, y => y :: xs
  | x :: xs, k + 1, y => x :: setAt xs k y

def step (s : St) : Op → St × Out
  | .len => (s, .n s.len)
  | .isEmpty => (s, .b (isEmpty s.len))
  | .get i => (s, .item (getIdx s.len i))
  | .iterNew => ({ s with iters := s.iters ++ [Iter.new s.len] }, .unit)
  | .iterNext k =>
    match s.iters[k]? with
    | none => (s, .noSuchIter)
    | some it =>
      let (o, it') := it.step
      ({ s with iters := setAt s.iters k it' }, .item o)
  | .iterHint k =>
    match s.iters[k]? with
    | none => (s, .noSuchIter)
    | some it => (s, .hint it.sizeHint.1 it.sizeHint.2)
  | .bulk => (s, .items (bulk s.len))

def run (s : St) : List Op → List Out
  | [] => []
  | op :: ops => (step s op).2 :: run (step s op).1 ops

/-! ### the abstract specification: a fixed sequence of `len` items with cursors -/

/-- spec state: how many times `next` was called on each iterator -/
abbrev SpecSt := List Nat

def specStep (len : Nat) (calls : SpecSt) : Op → SpecSt × Out
  | .len => (calls, .n len)
  | .isEmpty => (calls, .b (len == 0))
  | .get i => (calls, .item (if i < len then some i else none))
  | .iterNew => (calls ++ [0], .unit)
  | .iterNext k =>
    match calls[k]? with
    | none => (calls, .noSuchIter)
    | some c => (setAt calls k (c + 1), .item (if c < len then some c else none))
  | .iterHint k =>
    match calls[k]? with
    | none => (calls, .noSuchIter)
    | some c => (calls, .hint (len - c) (some (len - c)))
  | .bulk => (calls, .items (List.range len))

def specRun (len : Nat) (calls : SpecSt) : List Op → List Out
  | [] => []
  | op :: ops => (specStep len calls op).2 :: specRun len (specStep len calls op).1 ops

end SaModel.Access
