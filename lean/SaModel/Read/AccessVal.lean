import SaModel.Roundtrip.Bridge
/-
Model of `serde_arrow/src/internal/deserializer.rs` at the level of VALUES: the deserializer holds the batch it was built
from (`fields`, `arrs`: the marrow views) and every operation that hands out a `DeserializerItem` is followed by
`T::deserialize(item)` for a target `T` chosen per operation.  `SaModel/Read/Access.lean` is the index level of the same
code (which index is handed out when); this file adds WHAT reading that index gives: `DeserializerItem { deserializer,
idx }` forwards every `serde::Deserializer` method to `self.deserializer.at(self.idx)` (deserializer.rs:217-374), the
typed read `Read.readAs` of the root struct reader at `idx`.

  `Deser.new`      `Deserializer::new(fields, views)`, statement by statement (count check, `len` from the first view, then
                   per column: length check, `get_strategy_from_metadata`, `ArrayDeserializer::new`) — the ORDER of the Rust code
  `Deser.item`     `T::deserialize(DeserializerItem { idx })`
  `Iter.nth` / `Iter.rest`   the PROVIDED methods of `std::iter::Iterator` the crate does not override (`nth` =
                   `advance_by(n)` then `next`; `count` / `last` / `collect` = `next` until `None`)
  `Deser.seqLoop`  `visit_seq(Private(DeserializerIterator))` driven by `Vec<T>`'s visitor: `next_element_seed` until `None`,
                   the first failing element ends the read with its error
  `step` / `run`   access histories with several live iterators; `specStep` / `specRun`: the abstract specification — a fixed
                   sequence of `len` records `read t i`, iterators are call counters — producing SYMBOLIC outputs (target and
                   index); `SymOut.eval read` turns them into values
-/
namespace SaModel.Access

/-! ### provided `Iterator` methods (std's default bodies; the crate overrides none of them) -/

/-- `n` calls of `next`: every result, and the iterator afterwards -/
def Iter.nexts : Nat → Iter → List (Option Nat) × Iter
  | 0, it => ([], it)
  | n + 1, it =>
    let r := Iter.nexts n it.step.2
    (it.step.1 :: r.1, r.2)

/-- `Iterator::nth(n)`: `self.advance_by(n).ok()?; self.next()` — `advance_by` stops at the first `None` -/
def Iter.nth : Nat → Iter → Option Nat × Iter
  | 0, it => it.step
  | n + 1, it =>
    match it.step with
    | (none, it') => (none, it')
    | (some _, it') => Iter.nth n it'

/-- `next` until it returns `None` (`count`, `last`, `collect`, a `for` loop): the items seen, and the iterator afterwards -/
def Iter.rest (it : Iter) : List Nat × Iter :=
  if _h : it.next >= it.len then ([], it)
  else
    let r := Iter.rest { it with next := it.next + 1 }
    (it.next :: r.1, r.2)
termination_by it.len - it.next
decreasing_by simp_wf; omega

end SaModel.Access

namespace SaModel.AccessVal
open SaModel SaModel.Access

/-- `Deserializer { deserializer: StructDeserializer }`: the columns and the record count -/
structure Deser where
  fields : List Field
  arrs : List Arr
  len : Nat
deriving Repr

/-- the loop of `Deserializer::new` over `zip(fields, views)` -/
def newCols (len : Nat) : List Field → List Arr → R Unit
  | f :: fs, a :: as => do
    if Read.vlen a != len then fail "Cannot deserialize from arrays with different lengths"
    else do
      Read.strategyOk (metaOfField f).metadata
      Read.new Read.Fixes.all a
      newCols len fs as
  | _, _ => .ok ()

/-- `match views.first() { Some(view) => view.len()?, None => 0 }` (`ViewExt::len` fails only for view kinds outside `Arr`) -/
def firstLen : List Arr → Nat
  | [] => 0
  | a :: _ => Read.vlen a

/-- `Deserializer::new(fields, views)` (deserializer.rs:92-124) -/
def Deser.new (fields : List Field) (arrs : List Arr) : R Deser :=
  if fields.length != arrs.length then
    fail "Cannot deserialize: the number of fields does not match the number of arrays"
  else
    do
      newCols (firstLen arrs) fields arrs
      pure { fields, arrs, len := firstLen arrs }

/-- the root reader: `StructDeserializer::from_parts("$", columns, None, len)` -/
def Deser.root (d : Deser) : Arr := Roundtrip.rootArr d.fields d.arrs d.len

/-- `T::deserialize(DeserializerItem { deserializer, idx })`: every method forwards to `deserializer.at(idx)` -/
def Deser.item (d : Deser) (t : Read.Target) (idx : Nat) : R Read.DVal :=
  Read.readAs Read.Fixes.all t d.root idx

/-- `Private<DeserializerIterator>::next_element_seed` driven by `Vec<T>`'s `visit_seq` from cursor `next` -/
def Deser.seqLoop (d : Deser) (t : Read.Target) (next : Nat) : R (List Read.DVal) :=
  if _h : next >= d.len then .ok []
  else do
    let x ← d.item t next
    let xs ← Deser.seqLoop d t (next + 1)
    pure (x :: xs)
termination_by d.len - next
decreasing_by simp_wf; omega

/-- `Vec<T>::deserialize(deserializer)` (`deserialize_seq` → `visit_seq(Private(DeserializerIterator::new(&self)))`) -/
def Deser.bulk (d : Deser) (t : Read.Target) : R (List Read.DVal) := d.seqLoop t 0

/-! ### access histories -/

inductive Op where
  | len | isEmpty
  | get (i : Nat) (t : Read.Target)            -- `get(i).map(T::deserialize)`
  | iterNew                                    -- `iter()` / `(&deserializer).into_iter()`
  | iterNext (k : Nat) (t : Read.Target)       -- `iters[k].next().map(T::deserialize)`
  | iterNth (k n : Nat) (t : Read.Target)      -- `iters[k].nth(n).map(T::deserialize)`
  | iterCount (k : Nat)                        -- `iters[k].by_ref().count()`
  | iterLast (k : Nat) (t : Read.Target)       -- `iters[k].by_ref().last().map(T::deserialize)`
  | iterHint (k : Nat)                         -- `iters[k].size_hint()`
  | bulk (t : Read.Target)                     -- `Vec<T>::deserialize(deserializer)`
  | collectRev (t : Read.Target)               -- `iter().collect::<Vec<_>>()`, items deserialized last to first

inductive Out where
  | n (x : Nat)
  | b (x : Bool)
  | item (o : Option (R Read.DVal))
  | hint (lo : Nat) (hi : Option Nat)
  | items (r : R (List Read.DVal))
  | each (l : List (R Read.DVal))
  | unit
  | noSuchIter
deriving DecidableEq

/-- state of a history: the live iterators (the deserializer itself is immutable) -/
abbrev St := List Iter

def step (d : Deser) (s : St) : Op → St × Out
  | .len => (s, .n d.len)
  | .isEmpty => (s, .b (isEmpty d.len))
  | .get i t => (s, .item ((getIdx d.len i).map (d.item t)))
  | .iterNew => (s ++ [Iter.new d.len], .unit)
  | .iterNext k t =>
    match s[k]? with
    | none => (s, .noSuchIter)
    | some it => (setAt s k it.step.2, .item (it.step.1.map (d.item t)))
  | .iterNth k n t =>
    match s[k]? with
    | none => (s, .noSuchIter)
    | some it => (setAt s k (it.nth n).2, .item ((it.nth n).1.map (d.item t)))
  | .iterCount k =>
    match s[k]? with
    | none => (s, .noSuchIter)
    | some it => (setAt s k it.rest.2, .n it.rest.1.length)
  | .iterLast k t =>
    match s[k]? with
    | none => (s, .noSuchIter)
    | some it => (setAt s k it.rest.2, .item (it.rest.1.getLast?.map (d.item t)))
  | .iterHint k =>
    match s[k]? with
    | none => (s, .noSuchIter)
    | some it => (s, .hint it.sizeHint.1 it.sizeHint.2)
  | .bulk t => (s, .items (d.bulk t))
  | .collectRev t => (s, .each ((Iter.new d.len).rest.1.reverse.map (d.item t)))

def run (d : Deser) (s : St) : List Op → List Out
  | [] => []
  | op :: ops => (step d s op).2 :: run d (step d s op).1 ops

/-! ### the abstract specification: a fixed sequence of `len` records; symbolic outputs -/

/-- what an operation hands out, before any value is read: the target it was asked with and the record index -/
inductive SymOut where
  | n (x : Nat)
  | b (x : Bool)
  | item (o : Option (Read.Target × Nat))
  | hint (lo : Nat) (hi : Option Nat)
  | items (t : Read.Target) (l : List Nat)     -- bulk: all of them, in this order, up to the first failure
  | each (t : Read.Target) (l : List Nat)      -- every one read on its own
  | unit
  | noSuchIter

/-- spec state: how many times `next` was (in effect) called on each iterator -/
def specStep (len : Nat) (calls : SpecSt) : Op → SpecSt × SymOut
  | .len => (calls, .n len)
  | .isEmpty => (calls, .b (len == 0))
  | .get i t => (calls, .item (if i < len then some (t, i) else none))
  | .iterNew => (calls ++ [0], .unit)
  | .iterNext k t =>
    match calls[k]? with
    | none => (calls, .noSuchIter)
    | some c => (setAt calls k (c + 1), .item (if c < len then some (t, c) else none))
  | .iterNth k n t =>
    match calls[k]? with
    | none => (calls, .noSuchIter)
    | some c => (setAt calls k (c + n + 1), .item (if c + n < len then some (t, c + n) else none))
  | .iterCount k =>
    match calls[k]? with
    | none => (calls, .noSuchIter)
    | some c => (setAt calls k (max c len), .n (len - c))
  | .iterLast k t =>
    match calls[k]? with
    | none => (calls, .noSuchIter)
    | some c => (setAt calls k (max c len), .item (if c < len then some (t, len - 1) else none))
  | .iterHint k =>
    match calls[k]? with
    | none => (calls, .noSuchIter)
    | some c => (calls, .hint (len - c) (some (len - c)))
  | .bulk t => (calls, .items t (List.range len))
  | .collectRev t => (calls, .each t (List.range len).reverse)

def specRun (len : Nat) (calls : SpecSt) : List Op → List SymOut
  | [] => []
  | op :: ops => (specStep len calls op).2 :: specRun len (specStep len calls op).1 ops

/-- the value of a symbolic output under `read t i` = "record `i` of the batch read into `t`" -/
def SymOut.eval (read : Read.Target → Nat → R Read.DVal) : SymOut → Out
  | .n x => .n x
  | .b x => .b x
  | .item o => .item (o.map fun (t, i) => read t i)
  | .hint lo hi => .hint lo hi
  | .items t l => .items (l.mapM (read t))
  | .each t l => .each (l.map (read t))
  | .unit => .unit
  | .noSuchIter => .noSuchIter

end SaModel.AccessVal
