import SaModel.Read.Reader
/-
Error annotations of the random-access readers (C18, reader half): the reads of `Reader.lean` with the paths
`ArrayDeserializer::new` assembles and the `.ctx(self)` wrappers of every `impl RandomAccessDeserializer`.

  `rpath…`       the child paths as the constructors format them (`{path}.{ChildName(name)}`; map children below
                 the entries name; the dictionary reader keeps its two views, not readers)
  `rlabel`       the `data_type` each `impl Context` writes;   `rann p a` = what the reader of `a` at path `p` annotates
  `rpositions`   the (path, label) pairs of the reader tree `ArrayDeserializer::new(p, _, a)` builds, pre-order
  `readAnyA`     `deserialize_any` (trait default on `ArrayDeserializer`: wrapped in `.ctx(self)`)
  `readAsA`      the typed reads; `Target` drives them exactly as in `Reader.readAs`

Every typed entry point of every reader is `try_(|| …).ctx(self)` or `fail!(in self, …)` — except, on the tree
before the two C18 `fix:` commits, `EnumDeserializer::deserialize_enum` and
`FixedSizeListDeserializer::deserialize_seq`: `AnnFixes.all` is the code that exists, `AnnFixes.pinned` the tree
without those two wrappers.  The un-annotated model (`Reader.readAs`, the subject of the C02 / C17 theorems) is what is left when
annotations are dropped (`eraseAnn`): proved (`eraseAnn_readAnyA`, `eraseAnn_readAsA`, `eraseAnn_readRecordA` in Props/C18.lean),
and still evaluated on every read of every run by the `readann` suite.
-/
namespace SaModel.Read
open SaModel

structure AnnFixes where
  /-- `EnumDeserializer::deserialize_enum` is wrapped in `.ctx(self)` -/
  enumCtx : Bool := true
  /-- `FixedSizeListDeserializer::deserialize_seq` is wrapped in `.ctx(self)` -/
  fslCtx : Bool := true
deriving Repr, DecidableEq

def AnnFixes.all : AnnFixes := {}
def AnnFixes.pinned : AnnFixes := { enumCtx := false, fslCtx := false }

/-- `utils::ChildName` -/
def rchildName (s : String) : String := if s.isEmpty then "<empty>" else s

/-- `format!("{path}.{child}", child = ChildName(name))` -/
def rchild (p : String) (name : String) : String := p ++ "." ++ rchildName name

/-- `format!("{path}.{entries}.{keys}", …)` of `MapDeserializer::new` -/
def rmapChild (p : String) (entries name : String) : String := p ++ "." ++ rchildName entries ++ "." ++ rchildName name

def primLabel : PrimTy → String
  | .int8 => "Int8" | .int16 => "Int16" | .int32 => "Int32" | .int64 => "Int64"
  | .uint8 => "UInt8" | .uint16 => "UInt16" | .uint32 => "UInt32" | .uint64 => "UInt64"
  | .float16 => "Float16" | .float32 => "Float32" | .float64 => "Float64"
  | .date32 => "Date32" | .date64 => "Date64"

/-- the `data_type` of each `impl Context` in `deserialization/*.rs` -/
def rlabel : Arr → String
  | .null _ => "Null"
  | .boolean _ _ _ => "Boolean"
  | .prim ty _ _ => primLabel ty
  | .time ty _ _ _ => match ty with | .time32 => "Time32" | .time64 => "Time64" | .duration => "Duration(..)"
  | .timestamp _ _ _ _ => "Timestamp(..)"
  | .decimal128 _ _ _ _ => "Decimal128(..)"
  | .bytes ty _ _ _ =>
    match ty with
    | .utf8 => "Utf8" | .largeUtf8 => "LargeUtf8" | .binary => "Binary" | .largeBinary => "LargeBinary"
  | .bytesView ty _ _ _ => match ty with | .utf8View => "Utf8View" | .binaryView => "BinaryView"
  | .fixedSizeBinary _ _ _ => "FixedSizeBinary(..)"
  | .struct _ _ _ => "Struct(..)"
  | .list large _ _ _ _ => if large then "LargeList(..)" else "List(..)"
  | .fixedSizeList _ _ _ _ _ => "FixedSizeList(..)"
  | .map _ _ _ _ _ => "Map(..)"
  | .dictionary _ _ => "Dictionary(..)"
  | .union _ _ _ => "Union(..)"

/-- what the reader of `a` built at path `p` annotates (a `BTreeMap`: sorted by key) -/
def rann (p : String) (a : Arr) : List (String × String) := [("data_type", rlabel a), ("field", p)]

mutual
/-- the (path, label) pairs of the reader tree `ArrayDeserializer::new(p, _, a)` builds, pre-order -/
def rpositions (p : String) : Arr → List (String × String)
  | .struct len v fs => (p, rlabel (.struct len v fs)) :: rpositionsF p fs
  | .list large v o fm el => (p, rlabel (.list large v o fm el)) :: rpositions (rchild p fm.name) el
  | .fixedSizeList len v n fm el => (p, rlabel (.fixedSizeList len v n fm el)) :: rpositions (rchild p fm.name) el
  | .map v o mm ks vs =>
    (p, rlabel (.map v o mm ks vs)) ::
      (rpositions (rmapChild p mm.entriesName mm.keys.name) ks ++ rpositions (rmapChild p mm.entriesName mm.values.name) vs)
  | .union t o fs => (p, rlabel (.union t o fs)) :: rpositionsU p fs
  | a => [(p, rlabel a)]
def rpositionsF (p : String) : ArrFields → List (String × String)
  | .nil => []
  | .cons fm a rest => rpositions (rchild p fm.name) a ++ rpositionsF p rest
def rpositionsU (p : String) : ArrUFields → List (String × String)
  | .nil => []
  | .cons _ fm a rest => rpositions (rchild p fm.name) a ++ rpositionsU p rest
end

/-! ### `deserialize_any` -/

/-- `.ctx(self)` where the wrapper exists only after a fix -/
def ctxIf {α} (fixed : Bool) (ann : List (String × String)) (r : R α) : R α := if fixed then ctx ann r else r

mutual
/-- `deserialize_any` of the reader of `a` at path `p`: the trait default, `try_(…).ctx(self)` -/
def readAnyA (fx : Fixes) (p : String) : Arr → Nat → R DVal
  | .struct len v fs, idx =>
    ctx (rann p (.struct len v fs)) (anyAt fx (.struct len v fs) (fun idx =>
      if idx ≥ len then fail "Exhausted deserializer"
      else do pure (.map (← readAnyFieldsA fx p fs idx))) idx)
  | .list large v offs fm el, idx =>
    ctx (rann p (.list large v offs fm el)) (anyAt fx (.list large v offs fm el) (fun idx => do
      let (s, e) ← listRange fx offs idx
      pure (.seq (DVals.ofList (← readRange (readAnyA fx (rchild p fm.name) el) s (e - s))))) idx)
  | .fixedSizeList len v n fm el, idx =>
    ctx (rann p (.fixedSizeList len v n fm el)) (anyAt fx (.fixedSizeList len v n fm el) (fun idx => do
      let (s, e) ← fslRange fx len n idx
      pure (.seq (DVals.ofList (← readRange (readAnyA fx (rchild p fm.name) el) s (e - s))))) idx)
  | .map v offs mm ks vs, idx =>
    ctx (rann p (.map v offs mm ks vs)) (anyAt fx (.map v offs mm ks vs) (fun idx => do
      let (s, e) ← listRange fx offs idx
      let es ← readRange (fun j => do
        let k ← readAnyA fx (rmapChild p mm.entriesName mm.keys.name) ks j
        let v ← readAnyA fx (rmapChild p mm.entriesName mm.values.name) vs j
        pure (k, v)) s (e - s)
      pure (.map (DEntries.ofList es))) idx)
  | .union types offs fs, idx =>
    ctx (rann p (.union types offs fs)) (anyAt fx (.union types offs fs) (fun idx => do
      let (k, off) ← unionSelect fx types offs fs.length idx
      readAnyVariantA fx p fs k off) idx)
  | a, idx => ctx (rann p a) (readAny fx a idx)
def readAnyFieldsA (fx : Fixes) (p : String) : ArrFields → Nat → R DEntries
  | .nil, _ => .ok .nil
  | .cons fm a rest, idx => do
    let v ← readAnyA fx (rchild p fm.name) a idx
    let r ← readAnyFieldsA fx p rest idx
    pure (.cons (.str .transient (strBytes fm.name)) v r)
def readAnyVariantA (fx : Fixes) (p : String) : ArrUFields → Nat → Nat → R DVal
  | .nil, _, _ => panic "EnumDeserializer: variants[type_id]"
  | .cons _ fm a _, 0, off => do
    let pl ← readAnyA fx (rchild p fm.name) a off
    pure (.enum (.str .transient (strBytes fm.name)) pl)
  | .cons _ _ _ rest, k + 1, off => readAnyVariantA fx p rest k off
end

/-! ### typed reads -/

/-- `deserialize_tuple` / `deserialize_tuple_struct`: `try_(|| visitor.visit_seq(self.item(idx)?)).ctx(self)` on the
struct reader, `fail!(in self, …)` on every other one -/
def tupleVisitA (fx : Fixes) (p : String) (readFields : ArrFields → R (List DVal)) (a : Arr) (idx : Nat) : R DVal :=
  ctx (rann p a) (tupleVisit fx readFields a idx)

/-- `deserialize_struct` with a derived visitor; fields without a target field are read as `IgnoredAny` -/
def structVisitA (fx : Fixes) (p : String) (readField : Slots → FieldMeta → Arr → R (Option (Nat × DVal))) (tfs : TFields)
    (a : Arr) (idx : Nat) : R DVal :=
  ctx (rann p a) (
    match a with
    | .struct len _ fs => do
      structItem fx len idx
      let slots ← fs.toList.foldlM (fun (slots : Slots) (fm, child) => do
        match (← readField slots fm child) with
        | some kv => pure (slots ++ [kv])
        | none => do let _ ← readAnyA fx (rchild p fm.name) child idx; pure slots) []
      pure (.map (DEntries.ofList (← finishFields tfs 0 slots)))
    | _ => notImpl)

mutual
def readAsA (af : AnnFixes) (fx : Fixes) (p : String) : Target → Arr → Nat → R DVal
  | .any, a, idx => readAnyA fx p a idx
  | .ignored, a, idx => do let _ ← readAnyA fx p a idx; pure .ignored
  | .unit, a, idx => ctx (rann p a) (do accept .unit (← scalar fx .unit a idx))
  | .unitStruct, a, idx => ctx (rann p a) (do accept .unitStruct (← scalar fx .unitStruct a idx))
  | .bool, a, idx => ctx (rann p a) (do accept .bool (← scalar fx .bool a idx))
  | .int ty, a, idx => ctx (rann p a) (do accept (.int ty) (← scalar fx (.int ty) a idx))
  | .f32, a, idx => ctx (rann p a) (do accept .f32 (← scalar fx .f32 a idx))
  | .f64, a, idx => ctx (rann p a) (do accept .f64 (← scalar fx .f64 a idx))
  | .char, a, idx => ctx (rann p a) (do accept .char (← scalar fx .char a idx))
  | .string, a, idx => ctx (rann p a) (do accept .string (← scalar fx .string a idx))
  | .str, a, idx => ctx (rann p a) (do accept .str (← scalar fx .str a idx))
  | .bytes, a, idx =>
    ctx (rann p a) (
      match a with
      | .list _ _ offs _ _ => do let _ ← listRange fx offs idx; rejected
      | _ => do accept .bytes (← scalar fx .bytes a idx))
  | .byteBuf, a, idx =>
    ctx (rann p a) (
      match a with
      | .list _ _ offs fm el => do
        let (s, e) ← listRange fx offs idx
        let xs ← readRange (fun j =>
          ctx (rann (rchild p fm.name) el) (do accept (.int .u8) (← scalar fx (.int .u8) el j))) s (e - s)
        pure (.bytes .owned (xs.map fun d => match d with | .int _ v => UInt8.ofNat v.toNat | _ => 0))
      | _ => do accept .byteBuf (← scalar fx .byteBuf a idx))
  | .option t, a, idx =>
    ctx (rann p a) (do
      if (← isSome fx a idx) then pure (.some (← readAsA af fx p t a idx)) else pure .none)
  | .newtype t, a, idx => readAsA af fx p t a idx
  | .seq t, a, idx =>
    match a with
    | .list _ _ offs fm el =>
      ctx (rann p a) (do
        let (s, e) ← listRange fx offs idx
        pure (.seq (DVals.ofList (← readRange (fun j => readAsA af fx (rchild p fm.name) t el j) s (e - s)))))
    | .fixedSizeList len _ n fm el =>
      ctxIf af.fslCtx (rann p a) (do
        let (s, e) ← fslRange fx len n idx
        pure (.seq (DVals.ofList (← readRange (fun j => readAsA af fx (rchild p fm.name) t el j) s (e - s)))))
    | _ =>
      ctx (rann p a) (
        match binaryElems fx a idx with
        | some rb => do
          let b ← rb
          pure (.seq (DVals.ofList (← b.mapM (u8As t))))
        | none => notImpl)
  | .tuple ts, a, idx => tupleVisitA fx p (fun fs => readTupleFieldsA af fx p ts fs idx) a idx
  | .tupleStruct ts, a, idx => tupleVisitA fx p (fun fs => readTupleFieldsA af fx p ts fs idx) a idx
  | .map k v, a, idx =>
    ctx (rann p a) (
      match a with
      | .struct len _ fs => do
        structItem fx len idx
        let es ← fs.toList.mapM fun (fm, child) => do
          let kk ← strDeAs k fm.name
          let vv ← readAsA af fx (rchild p fm.name) v child idx
          pure (kk, vv)
        pure (.map (DEntries.ofList es))
      | .map _ offs mm ks vs => do
        let (s, e) ← listRange fx offs idx
        let es ← readRange (fun j => do
          let kk ← readAsA af fx (rmapChild p mm.entriesName mm.keys.name) k ks j
          let vv ← readAsA af fx (rmapChild p mm.entriesName mm.values.name) v vs j
          pure (kk, vv)) s (e - s)
        pure (.map (DEntries.ofList es))
      | _ => notImpl)
  | .struct tfs, a, idx =>
    structVisitA fx p (fun slots fm child => readFieldAsA af fx tfs 0 slots fm.name (rchild p fm.name) child idx) tfs a idx
  | .enum byIndex vs, a, idx =>
    match a with
    | .union types offs fs =>
      ctxIf af.enumCtx (rann p a) (do
        let (k, off) ← unionSelect fx types offs fs.length idx
        match ArrUFields.nth fs k with
        | none => panic "EnumDeserializer: variants[type_id]"
        | some (fm, child) =>
          readVariantAsA af fx vs (if byIndex then some k else none) fm.name (some (rchild p fm.name, child, off)))
    | _ =>
      ctx (rann p a) (
        match stringElem fx a idx with
        | some rs => do
          let s ← rs
          if byIndex then fail "Unsupported: EnumDeserializer does not implement deserialize_u64"
          else readVariantAsBytesA af fx vs s
        | none => notImpl)
def readTupleFieldsA (af : AnnFixes) (fx : Fixes) (p : String) : Targets → ArrFields → Nat → R (List DVal)
  | .nil, _, _ => .ok []
  | .cons t rest, fs, idx =>
    match fs with
    | .nil => fail "invalid length"
    | .cons fm a frest => do
      let v ← readAsA af fx (rchild p fm.name) t a idx
      let r ← readTupleFieldsA af fx p rest frest idx
      pure (v :: r)
def readFieldAsA (af : AnnFixes) (fx : Fixes) : TFields → Nat → Slots → String → String → Arr → Nat → R (Option (Nat × DVal))
  | .nil, _, _, _, _, _, _ => .ok none
  | .cons n t rest, pos, slots, name, cp, child, idx =>
    if n == name then
      (if (slots.get? pos).isSome then fail "duplicate field"
       else do pure (some (pos, ← readAsA af fx cp t child idx)))
    else readFieldAsA af fx rest (pos + 1) slots name cp child idx
def readVariantAsA (af : AnnFixes) (fx : Fixes) : TVariants → Option Nat → String → Option (String × Arr × Nat) → R DVal
  | .nil, _, _, _ => fail "unknown variant"
  | .cons n k rest, sel, name, src =>
    if (match sel with | some i => i == 0 | none => n == name) then do
      pure (.enum (.str .transient (strBytes n)) (← readKindA af fx k src))
    else readVariantAsA af fx rest (sel.map (· - 1)) name src
def readVariantAsBytesA (af : AnnFixes) (fx : Fixes) : TVariants → Bytes → R DVal
  | .nil, _ => fail "unknown variant"
  | .cons n k rest, s =>
    if strBytes n == s then do pure (.enum (.str .transient (strBytes n)) (← readKindA af fx k none))
    else readVariantAsBytesA af fx rest s
/-- the `VariantAccess` call: `unit_variant` = `<()>::deserialize(child.at(off))`, `newtype_variant_seed` =
`seed.deserialize(child.at(off))`, `tuple_variant` / `struct_variant` = the child's `deserialize_tuple` / `_struct` -/
def readKindA (af : AnnFixes) (fx : Fixes) : VKind → Option (String × Arr × Nat) → R DVal
  | .unit, some (cp, child, off) => ctx (rann cp child) (do accept .unit (← scalar fx .unit child off))
  | .unit, none => .ok .unit
  | .newtype t, some (cp, child, off) => readAsA af fx cp t child off
  | .tuple ts, some (cp, child, off) => tupleVisitA fx cp (fun fs => readTupleFieldsA af fx cp ts fs off) child off
  | .struct tfs, some (cp, child, off) =>
    structVisitA fx cp (fun slots fm c => readFieldAsA af fx tfs 0 slots fm.name (rchild cp fm.name) c off) tfs child off
  | _, none => fail "Unsupported: cannot deserialize enums with data from strings"
end

/-! ### the record level -/

/-- `Deserializer::new` + `get(idx)` + `T::deserialize(item)`: the root struct reader sits at `$` -/
def readRecordA (af : AnnFixes) (fx : Fixes) (t : Target) (fm : FieldMeta) (col : Arr) (idx : Nat) : Option (R DVal) :=
  if idx ≥ vlen col then none else some (readAsA af fx "$" t (record fm col) idx)

/-- drop the annotations of an outcome -/
def eraseAnn {α} : R α → R α
  | .error (.errCtx msg _) => .error (.err msg)
  | r => r

end SaModel.Read
