import SaModel.Read.ToD
/-
`cast t a lv` — the value-level meaning of reading a slot with logical value `lv` (Spec.decode) of array `a`
into the Rust type `t`, written without any reader mechanics: records by field *name*, numbers by *value*,
`Option` by null-ness.  This is the specification the typed reads are compared with by the driver (C02 typed part,
C05 "exact or error" for the reading direction).  The container part is `partial` (it recurses over the target and
the value in turn); theorems are stated about its total leaf part `castLeaf` and the `Option` layer.

  `.ok (some d)`  the read must return `d`
  `.error _`      the value has no exact representation in `t` ⇒ the read must fail
  `.ok none`      no claim (`na`): the reader does not support this pair, or the conversion is modelled elsewhere
-/
namespace SaModel.Read
open SaModel

abbrev Claim := R (Option DVal)

def na : Claim := .ok none
def must (d : DVal) : Claim := .ok (some d)
def mustFail (why : String) : Claim := fail why

def ofLeaf (x : Option (R DVal)) : Claim :=
  match x with
  | none => na
  | some (.ok d) => must d
  | some (.error e) => .error e

/-- sequence claims: a failing part makes the whole read fail, an unclaimed part makes the whole unclaimed -/
def Claim.andThen (x : Claim) (f : DVal → Claim) : Claim :=
  match x with
  | .ok (some d) => f d
  | .ok none => na
  | .error e => .error e

def claimList : List Claim → R (Option (List DVal))
  | [] => .ok (some [])
  | x :: xs =>
    match x with
    | .error e => .error e
    | .ok none => (match claimList xs with | .error e => .error e | _ => .ok none)
    | .ok (some d) =>
      match claimList xs with
      | .ok (some ds) => .ok (some (d :: ds))
      | other => other

def andThenL (x : R (Option (List DVal))) (f : List DVal → Claim) : Claim :=
  match x with
  | .ok (some d) => f d
  | .ok none => na
  | .error e => .error e

def andThenE (x : R (Option (List (DVal × DVal)))) (f : List (DVal × DVal) → Claim) : Claim :=
  match x with
  | .ok (some d) => f d
  | .ok none => na
  | .error e => .error e

def ArrFields.names : ArrFields → List String
  | .nil => []
  | .cons fm _ r => fm.name :: ArrFields.names r

/-- the child array and logical value of the struct field called `name` -/
def fieldNamed : ArrFields → LFields → String → Option (Arr × LVal)
  | .cons fm a rest, .cons _ v lrest, name => if fm.name == name then some (a, v) else fieldNamed rest lrest name
  | _, _, _ => none

def isBinaryLike : Arr → Bool
  | .bytes ty _ _ _ => !Spec.isUtf8Ty ty
  | .bytesView ty _ _ _ => !isUtf8View ty
  | .fixedSizeBinary _ _ _ => true
  | _ => false

def isStringLike : Arr → Bool
  | .bytes ty _ _ _ => Spec.isUtf8Ty ty
  | .bytesView ty _ _ _ => isUtf8View ty
  | .dictionary _ _ => true
  | _ => false

def isNullArr : Arr → Bool
  | .null _ => true
  | _ => false

mutual
partial def cast : Target → Arr → LVal → Claim
  | .any, a, lv => must (toD a lv)
  | .ignored, _, _ => must .ignored
  | .option t, a, lv =>
    match lv with
    | .null => must .none
    | lv => (cast t a lv).andThen fun d => must (.some d)
  | .newtype t, a, lv => cast t a lv
  | .seq t, a, lv =>
    match a, lv with
    | .list _ _ _ _ el, .list items => andThenL (castList t el items) fun ds => must (.seq (DVals.ofList ds))
    | .fixedSizeList _ _ _ _ el, .list items => andThenL (castList t el items) fun ds => must (.seq (DVals.ofList ds))
    | a, .bin b =>
      if isBinaryLike a then
        match claimList (b.map fun x => ofLeaf (match u8As t x with
            | .ok d => (match t with | .any | .ignored | .int _ => some (.ok d) | _ => none)
            | .error e => (match t with | .int _ => some (.error e) | _ => none))) with
        | .ok (some ds) => must (.seq (DVals.ofList ds))
        | .ok none => na
        | .error e => .error e
      else na
    | _, .null => mustFail "null into a non-Option target"
    | _, _ => na
  | .tuple ts, a, lv =>
    match a, lv with
    | .struct _ _ fs, .struct lfs => andThenL (castTuple ts fs lfs) fun ds => must (.seq (DVals.ofList ds))
    | _, .null => mustFail "null into a non-Option target"
    | _, _ => na
  | .tupleStruct ts, a, lv =>
    match a, lv with
    | .struct _ _ fs, .struct lfs => andThenL (castTuple ts fs lfs) fun ds => must (.seq (DVals.ofList ds))
    | _, .null => mustFail "null into a non-Option target"
    | _, _ => na
  | .map k v, a, lv =>
    match a, lv with
    | .struct _ _ fs, .struct lfs =>
      (match k with
       | .string | .any => andThenE (castStructAsMap k v fs lfs) fun es => must (.map (DEntries.ofList es))
       | _ => na)
    | .map _ _ _ ks vs, .map es => andThenE (castEntries k v ks vs es) fun es => must (.map (DEntries.ofList es))
    | _, .null => mustFail "null into a non-Option target"
    | _, _ => na
  | .struct tfs, a, lv =>
    match a, lv with
    | .struct _ _ fs, .struct lfs =>
      if (ArrFields.names fs).eraseDups.length != (ArrFields.names fs).length then na
      else andThenE (castFields tfs fs lfs) fun es => must (.map (DEntries.ofList es))
    | _, .null => mustFail "null into a non-Option target"
    | _, _ => na
  | .enum byIndex vs, a, lv =>
    match a, lv with
    | .union _ _ fs, .union t v =>
      (match ArrUFields.findId fs t with
       | none => na
       | some (fm, child) =>
         if byIndex then castVariant vs (some t.toNat) fm.name child v else castVariant vs none fm.name child v)
    | a, .str b => if isStringLike a && !byIndex then castVariantStr vs b else na
    | _, .null => mustFail "null into a non-Option target"
    | _, _ => na
  | t, a, lv =>
    match lv with
    | .null =>
      (match t with
       | .unit | .unitStruct => if isNullArr a then must .unit else mustFail "null into a non-Option target"
       | _ => mustFail "null into a non-Option target")
    | lv => ofLeaf (castLeaf t a lv)
partial def castList : Target → Arr → LVals → R (Option (List DVal))
  | _, _, .nil => .ok (some [])
  | t, el, .cons v r =>
    match cast t el v with
    | .error e => .error e
    | .ok none => (match castList t el r with | .error e => .error e | _ => .ok none)
    | .ok (some d) =>
      match castList t el r with
      | .ok (some ds) => .ok (some (d :: ds))
      | other => other
/-- element `i` from field `i`; too few fields ⇒ the read must fail; surplus fields are not represented in a tuple
(no claim is made about them) -/
partial def castTuple : Targets → ArrFields → LFields → R (Option (List DVal))
  | .nil, _, _ => .ok (some [])
  | .cons t rest, .cons _ a frest, .cons _ v lrest =>
    match cast t a v with
    | .error e => .error e
    | .ok none => (match castTuple rest frest lrest with | .error e => .error e | _ => .ok none)
    | .ok (some d) =>
      match castTuple rest frest lrest with
      | .ok (some ds) => .ok (some (d :: ds))
      | other => other
  | .cons _ _, _, _ => fail "tuple longer than the struct"
partial def castStructAsMap : Target → Target → ArrFields → LFields → R (Option (List (DVal × DVal)))
  | k, v, .cons fm a rest, .cons _ lv lrest =>
    let key : DVal := match k with | .string => .str .owned (strBytes fm.name) | _ => .str .transient (strBytes fm.name)
    match cast v a lv with
    | .error e => .error e
    | .ok none => (match castStructAsMap k v rest lrest with | .error e => .error e | _ => .ok none)
    | .ok (some d) =>
      match castStructAsMap k v rest lrest with
      | .ok (some ds) => .ok (some ((key, d) :: ds))
      | other => other
  | _, _, _, _ => .ok (some [])
partial def castEntries : Target → Target → Arr → Arr → LEntries → R (Option (List (DVal × DVal)))
  | _, _, _, _, .nil => .ok (some [])
  | k, v, ks, vs, .cons lk lv r =>
    match cast k ks lk, cast v vs lv with
    | .error e, _ => .error e
    | _, .error e => .error e
    | .ok (some dk), .ok (some dv) =>
      (match castEntries k v ks vs r with
       | .ok (some ds) => .ok (some ((dk, dv) :: ds))
       | other => other)
    | _, _ => (match castEntries k v ks vs r with | .error e => .error e | _ => .ok none)
/-- by name: every target field from the struct field of that name; missing ⇒ `None` for `Option`, else fail -/
partial def castFields : TFields → ArrFields → LFields → R (Option (List (DVal × DVal)))
  | .nil, _, _ => .ok (some [])
  | .cons n t rest, fs, lfs =>
    let here : Claim := match fieldNamed fs lfs n with
      | some (a, v) => cast t a v
      | none => if t.isOption then must .none else mustFail "missing field"
    match here with
    | .error e => .error e
    | .ok none => (match castFields rest fs lfs with | .error e => .error e | _ => .ok none)
    | .ok (some d) =>
      match castFields rest fs lfs with
      | .ok (some ds) => .ok (some ((.str .transient (strBytes n), d) :: ds))
      | other => other
partial def castVariant : TVariants → Option Nat → String → Arr → LVal → Claim
  | .nil, _, _, _, _ => mustFail "unknown variant"
  | .cons n k rest, sel, name, child, v =>
    if (match sel with | some i => i == 0 | none => n == name) then
      (castKind k child v).andThen fun p => must (.enum (.str .transient (strBytes n)) p)
    else castVariant rest (sel.map (· - 1)) name child v
partial def castVariantStr : TVariants → Bytes → Claim
  | .nil, _ => mustFail "unknown variant"
  | .cons n k rest, s =>
    if strBytes n == s then
      (match k with
       | .unit => must (.enum (.str .transient (strBytes n)) .unit)
       | _ => mustFail "strings carry no variant data")
    else castVariantStr rest s
partial def castKind : VKind → Arr → LVal → Claim
  | .unit, child, v => if isNullArr child && v == .null then must .unit else na
  | .newtype t, child, v => cast t child v
  | .tuple ts, child, v =>
    match child, v with
    | .struct _ _ fs, .struct lfs => andThenL (castTuple ts fs lfs) fun ds => must (.seq (DVals.ofList ds))
    | _, .null => mustFail "null into a non-Option target"
    | _, _ => na
  | .struct tfs, child, v =>
    match child, v with
    | .struct _ _ fs, .struct lfs =>
      if (ArrFields.names fs).eraseDups.length != (ArrFields.names fs).length then na
      else andThenE (castFields tfs fs lfs) fun es => must (.map (DEntries.ofList es))
    | _, .null => mustFail "null into a non-Option target"
    | _, _ => na
end

end SaModel.Read
