import SaModel.Read.ToD
/-
`cast t a lv` — the value-level meaning of reading a slot with logical value `lv` (Spec.decode) of array `a`
into the Rust type `t`, written without any reader mechanics: records by field *name*, numbers by *value*,
`Option` by null-ness.  This is the specification the typed reads are compared with by the driver (C02 typed part,
C05 "exact or error" for the reading direction).  Total: structural recursion over the target; the parts of the value
(list items, map entries, struct fields) go through non-recursive combinators (`claimVals`, `claimEntries`,
`claimStructAsMap`).  `SaModel/Props/C02.lean` (`read_typed_decode`) proves that the reader returns what `cast` demands.

  `.ok (some d)`  the read must return `d`
  `.error _`      the read must fail: the value has no exact representation in `t`, a codec refuses it, or the reader
                  does not offer this (target, column) pair (`unsupported`)
  `.ok none`      no claim (`na`).  ONLY a struct-by-name read where field names repeat (in the target — not a Rust
                  type — or among the children of the struct column) is left without a claim (`structClaim`);
                  `Props.C02.cast_ne_na`: for every target / view without repeated names `cast` is never `na`.
-/
namespace SaModel.Read
open SaModel

abbrev Claim := R (Option DVal)

def na : Claim := .ok none
def must (d : DVal) : Claim := .ok (some d)
def mustFail (why : String) : Claim := fail why

def ofLeaf (x : Option (R DVal)) : Claim :=
  match x with
  | none => na
  | some (.ok d) => must d
  | some (.error e) => .error e

/-- sequence claims: a failing part makes the whole read fail, an unclaimed part makes the whole unclaimed -/
def Claim.andThen (x : Claim) (f : DVal → Claim) : Claim :=
  match x with
  | .ok (some d) => f d
  | .ok none => na
  | .error e => .error e

/-- combine the claims about the parts of a sequence: a failing part makes the whole read fail, an unclaimed part
makes the whole unclaimed -/
def consClaim {α} (x : R (Option α)) (rest : R (Option (List α))) : R (Option (List α)) :=
  match x with
  | .error e => .error e
  | .ok none => (match rest with | .error e => .error e | _ => .ok none)
  | .ok (some d) =>
    match rest with
    | .ok (some ds) => .ok (some (d :: ds))
    | other => other

def claimList : List Claim → R (Option (List DVal))
  | [] => .ok (some [])
  | x :: xs => consClaim x (claimList xs)

def andThenL (x : R (Option (List DVal))) (f : List DVal → Claim) : Claim :=
  match x with
  | .ok (some d) => f d
  | .ok none => na
  | .error e => .error e

def andThenE (x : R (Option (List (DVal × DVal)))) (f : List (DVal × DVal) → Claim) : Claim :=
  match x with
  | .ok (some d) => f d
  | .ok none => na
  | .error e => .error e

def ArrFields.names : ArrFields → List String
  | .nil => []
  | .cons fm _ r => fm.name :: ArrFields.names r

/-- the child array and logical value of the struct field called `name` -/
def fieldNamed : ArrFields → LFields → String → Option (Arr × LVal)
  | .cons fm a rest, .cons _ v lrest, name => if fm.name == name then some (a, v) else fieldNamed rest lrest name
  | _, _, _ => none

def isBinaryLike : Arr → Bool
  | .bytes ty _ _ _ => !Spec.isUtf8Ty ty
  | .bytesView ty _ _ _ => !isUtf8View ty
  | .fixedSizeBinary _ _ _ => true
  | _ => false

def isStringLike : Arr → Bool
  | .bytes ty _ _ _ => Spec.isUtf8Ty ty
  | .bytesView ty _ _ _ => isUtf8View ty
  | .dictionary _ _ => true
  | _ => false

def LVal.isNull : LVal → Bool
  | .null => true
  | _ => false

def isNullArr : Arr → Bool
  | .null _ => true
  | _ => false

/-- no two equal names (Rust struct fields; Arrow struct children the by-name read can tell apart) -/
def nodupNames : List String → Bool
  | [] => true
  | x :: xs => !xs.contains x && nodupNames xs

def TFields.names : TFields → List String
  | .nil => []
  | .cons n _ r => n :: TFields.names r

/-- the elements of a list value, each through `f` -/
def claimVals (f : LVal → Claim) : LVals → R (Option (List DVal))
  | .nil => .ok (some [])
  | .cons v r => consClaim (f v) (claimVals f r)

/-- key and value of one map entry -/
def pairClaim (k v : Claim) : R (Option (DVal × DVal)) :=
  match k, v with
  | .error e, _ => .error e
  | _, .error e => .error e
  | .ok (some dk), .ok (some dv) => .ok (some (dk, dv))
  | _, _ => .ok none

/-- the fields of a struct as map entries: key from the field name through `key`, value through `f` -/
def claimStructAsMap (key : String → Claim) (f : Arr → LVal → Claim) : ArrFields → LFields → R (Option (List (DVal × DVal)))
  | .cons fm a rest, .cons _ lv lrest =>
    consClaim (pairClaim (key fm.name) (f a lv)) (claimStructAsMap key f rest lrest)
  | _, _ => .ok (some [])

def claimEntries (fk fv : LVal → Claim) : LEntries → R (Option (List (DVal × DVal)))
  | .nil => .ok (some [])
  | .cons lk lv r => consClaim (pairClaim (fk lk) (fv lv)) (claimEntries fk fv r)

/-- one byte of a binary column read through `U8Deserializer`: as `u8` under deserialize_any, by value into any integer
width; no other element type -/
def u8Claim (t : Target) (x : UInt8) : Claim :=
  match t with
  | .any => must (.int .u8 x.toNat)
  | .ignored => must .ignored
  | .int ty => if ty.inRange x.toNat then must (.int ty x.toNat) else mustFail "out of range"
  | _ => mustFail "unsupported (target, column) pair"

/-- a sequence target over the bytes of a binary column (`U8SliceDeserializer`) -/
def castBinSeq (t : Target) (b : Bytes) : Claim :=
  match claimList (b.map (u8Claim t)) with
  | .ok (some ds) => must (.seq (DVals.ofList ds))
  | .ok none => na
  | .error e => .error e

/-- scalar targets: `()` from a Null column, otherwise `castLeaf`; null into a non-Option target must fail -/
def castScalar (t : Target) (a : Arr) (lv : LVal) : Claim :=
  match lv with
  | .null =>
    (match t with
     | .unit | .unitStruct => if isNullArr a then must .unit else mustFail "null into a non-Option target"
     | _ => mustFail "null into a non-Option target")
  | lv => ofLeaf (castLeaf t a lv)

/-- enum from a string / dictionary column: unit variants by name -/
def castVariantStr : TVariants → Bytes → Claim
  | .nil, _ => mustFail "unknown variant"
  | .cons n k rest, s =>
    if strBytes n == s then
      (match k with
       | .unit => must (.enum (.str .transient (strBytes n)) .unit)
       | _ => mustFail "strings carry no variant data")
    else castVariantStr rest s

/-- a struct field NAME read as a map key: as a string (`String`, `ByteBuf`, deserialize_any), ignored, as `char` when
it is one character, as an enum-by-name with that unit variant; no other key type can take a field name (serde's
`StrDeserializer` hands out a transient `visit_str`: no borrowed `&str` / `&[u8]`) -/
def mapKeyClaim (k : Target) (name : String) : Claim :=
  match k with
  | .any => must (.str .transient (strBytes name))
  | .ignored => must .ignored
  | .string => must (.str .owned (strBytes name))
  | .byteBuf => must (.bytes .owned (strBytes name))
  | .char =>
    (match name.toList with
     | [c] => must (.char c.toNat)
     | _ => mustFail "not a char")
  | .enum byIndex vs => if byIndex then mustFail "unsupported (target, column) pair" else castVariantStr vs (strBytes name)
  | _ => mustFail "unsupported (target, column) pair"

/-- tuple-like targets: only a struct column answers (`visit_seq` over its fields) -/
def tupleClaim (f : ArrFields → LFields → R (Option (List DVal))) (a : Arr) (lv : LVal) : Claim :=
  match a, lv with
  | .struct _ _ fs, .struct lfs => andThenL (f fs lfs) fun ds => must (.seq (DVals.ofList ds))
  | _, .null => mustFail "null into a non-Option target"
  | _, _ => mustFail "unsupported (target, column) pair"

/-- struct targets by field name: only a struct column answers; no claim when names repeat on either side (the only
`na` of `cast`: reading by name has no value-level meaning then; the reader reports `duplicate field` when a repeated
column name is a target field and ignores the repetition otherwise — model `readFieldAs`, compared per run) -/
def structClaim (tnames : List String) (f : ArrFields → LFields → R (Option (List (DVal × DVal)))) (a : Arr) (lv : LVal) : Claim :=
  match a, lv with
  | .struct _ _ fs, .struct lfs =>
    if !nodupNames (ArrFields.names fs) || !nodupNames tnames then na
    else andThenE (f fs lfs) fun es => must (.map (DEntries.ofList es))
  | _, .null => mustFail "null into a non-Option target"
  | _, _ => mustFail "unsupported (target, column) pair"

mutual
/-- structural recursion over the target (lists, entries and struct fields of the value go through the
non-recursive combinators above) -/
def cast : Target → Arr → LVal → Claim
  | .any, a, lv => must (toD a lv)
  | .ignored, _, _ => must .ignored
  | .option t, a, lv =>
    match lv with
    | .null => must .none
    | lv => (cast t a lv).andThen fun d => must (.some d)
  | .newtype t, a, lv => cast t a lv
  | .seq t, a, lv =>
    match a, lv with
    | .list _ _ _ _ el, .list items => andThenL (claimVals (fun v => cast t el v) items) fun ds => must (.seq (DVals.ofList ds))
    | .fixedSizeList _ _ _ _ el, .list items => andThenL (claimVals (fun v => cast t el v) items) fun ds => must (.seq (DVals.ofList ds))
    | a, .bin b => if isBinaryLike a then castBinSeq t b else mustFail "unsupported (target, column) pair"
    | _, .null => mustFail "null into a non-Option target"
    | _, _ => mustFail "unsupported (target, column) pair"
  | .tuple ts, a, lv => tupleClaim (fun fs lfs => castTuple ts fs lfs) a lv
  | .tupleStruct ts, a, lv => tupleClaim (fun fs lfs => castTuple ts fs lfs) a lv
  | .map k v, a, lv =>
    match a, lv with
    | .struct _ _ fs, .struct lfs =>
      andThenE (claimStructAsMap (mapKeyClaim k) (fun c w => cast v c w) fs lfs) fun es => must (.map (DEntries.ofList es))
    | .map _ _ _ ks vs, .map es =>
      andThenE (claimEntries (fun w => cast k ks w) (fun w => cast v vs w) es) fun es => must (.map (DEntries.ofList es))
    | _, .null => mustFail "null into a non-Option target"
    | _, _ => mustFail "unsupported (target, column) pair"
  | .struct tfs, a, lv => structClaim (TFields.names tfs) (fun fs lfs => castFields tfs fs lfs) a lv
  | .enum byIndex vs, a, lv =>
    match a, lv with
    | .union _ _ fs, .union t v =>
      (match ArrUFields.findId fs t with
       | none => mustFail "unknown variant"
       | some (fm, child) =>
         if byIndex then castVariant vs (some t.toNat) fm.name child v else castVariant vs none fm.name child v)
    | a, .str b => if isStringLike a && !byIndex then castVariantStr vs b else mustFail "unsupported (target, column) pair"
    | _, .null => mustFail "null into a non-Option target"
    | _, _ => mustFail "unsupported (target, column) pair"
  | .unit, a, lv => castScalar .unit a lv
  | .unitStruct, a, lv => castScalar .unitStruct a lv
  | .bool, a, lv => castScalar .bool a lv
  | .int ty, a, lv => castScalar (.int ty) a lv
  | .f32, a, lv => castScalar .f32 a lv
  | .f64, a, lv => castScalar .f64 a lv
  | .char, a, lv => castScalar .char a lv
  | .string, a, lv => castScalar .string a lv
  | .str, a, lv => castScalar .str a lv
  | .bytes, a, lv => castScalar .bytes a lv
  | .byteBuf, a, lv =>
    match a, lv with
    | .list _ _ _ _ el, .list items =>     -- `ByteBuf` from a List / LargeList column: every element by value as `u8`
      andThenL (claimVals (fun v => castScalar (.int .u8) el v) items) fun ds => must (.bytes .owned (ds.map byteOfD))
    | a, lv => castScalar .byteBuf a lv
/-- element `i` from field `i`; too few fields ⇒ the read must fail; surplus fields are not represented in a tuple
(no claim is made about them) -/
def castTuple : Targets → ArrFields → LFields → R (Option (List DVal))
  | .nil, _, _ => .ok (some [])
  | .cons t rest, .cons _ a frest, .cons _ v lrest => consClaim (cast t a v) (castTuple rest frest lrest)
  | .cons _ _, _, _ => fail "tuple longer than the struct"
/-- by name: every target field from the struct field of that name; missing ⇒ `None` for `Option`, else fail -/
def castFields : TFields → ArrFields → LFields → R (Option (List (DVal × DVal)))
  | .nil, _, _ => .ok (some [])
  | .cons n t rest, fs, lfs =>
    let here : Claim := match fieldNamed fs lfs n with
      | some (a, v) => cast t a v
      | none => if t.isOption then must .none else mustFail "missing field"
    consClaim (match here with | .ok (some d) => .ok (some ((DVal.str .transient (strBytes n), d))) | .ok none => .ok none | .error e => .error e)
      (castFields rest fs lfs)
def castVariant : TVariants → Option Nat → String → Arr → LVal → Claim
  | .nil, _, _, _, _ => mustFail "unknown variant"
  | .cons n k rest, sel, name, child, v =>
    if (match sel with | some i => i == 0 | none => n == name) then
      (castKind k child v).andThen fun p => must (.enum (.str .transient (strBytes n)) p)
    else castVariant rest (sel.map (· - 1)) name child v
def castKind : VKind → Arr → LVal → Claim
  | .unit, child, v => if isNullArr child && LVal.isNull v then must .unit else mustFail "unsupported (target, column) pair"
  | .newtype t, child, v => cast t child v
  | .tuple ts, child, v => tupleClaim (fun fs lfs => castTuple ts fs lfs) child v
  | .struct tfs, child, v => structClaim (TFields.names tfs) (fun fs lfs => castFields tfs fs lfs) child v
end

end SaModel.Read
