import SaModel.Data.DVal
/-
Vocabulary of the reader model (serde_arrow/src/internal/deserialization/*):

* `DVal`, `Target` — what a visitor is handed / the requested Rust type: `Data/DVal.lean` (shared with the specification
             `Spec/Present.lean`; same namespace `SaModel.Read`).
* `Fixes`  — which of the `fix:` commits are applied; `Fixes.all` is the code that exists, `Fixes.pinned`
             the pinned tree.
-/
namespace SaModel.Read
open SaModel

/-- which `fix:` commits are applied (hashes: /repo main) -/
structure Fixes where
  bytesGet : Bool       -- ba3939f BytesView::get: index check off by one, unchecked data[start..end]
  enumTypeId : Bool     -- cac40f2 EnumDeserializer: variants[type_id] unchecked
  fsbZero : Bool        -- d34201c FixedSizeBinaryDeserializer::new: % 0
  bitAdd : Bool         -- 26d51d0 get_bit_buffer: idx + offset unchecked
  fslMul : Bool         -- 5e168c2 FixedSizeListDeserializer: idx * n unchecked
  offsetsOrder : Bool   -- 930ecbd list / map: decreasing offsets read as empty
  structIdx : Bool      -- 5355729 StructDeserializer typed reads: row index unchecked
  nullLen : Bool        -- f7161dc NullDeserializer: row index unchecked
deriving Repr, BEq, DecidableEq

def Fixes.all : Fixes := ⟨true, true, true, true, true, true, true, true⟩
def Fixes.pinned : Fixes := ⟨false, false, false, false, false, false, false, false⟩

def usizeMax : Nat := 18446744073709551615
def i64Max : Int := 9223372036854775807

/-! ### `std::str::from_utf8`: well-formed UTF-8 (Unicode table 3-7) -/

def isCont (b : UInt8) : Bool := 0x80 ≤ b && b ≤ 0xBF

def validUtf8 : Bytes → Bool
  | [] => true
  | b0 :: rest =>
    if b0 < 0x80 then validUtf8 rest
    else if 0xC2 ≤ b0 && b0 ≤ 0xDF then
      match rest with
      | b1 :: r => isCont b1 && validUtf8 r
      | _ => false
    else if 0xE0 ≤ b0 && b0 ≤ 0xEF then
      match rest with
      | b1 :: b2 :: r =>
        (if b0 == 0xE0 then 0xA0 ≤ b1 && b1 ≤ 0xBF
         else if b0 == 0xED then 0x80 ≤ b1 && b1 ≤ 0x9F
         else isCont b1) && isCont b2 && validUtf8 r
      | _ => false
    else if 0xF0 ≤ b0 && b0 ≤ 0xF4 then
      match rest with
      | b1 :: b2 :: b3 :: r =>
        (if b0 == 0xF0 then 0x90 ≤ b1 && b1 ≤ 0xBF
         else if b0 == 0xF4 then 0x80 ≤ b1 && b1 ≤ 0x8F
         else isCont b1) && isCont b2 && isCont b3 && validUtf8 r
      | _ => false
    else false

end SaModel.Read
