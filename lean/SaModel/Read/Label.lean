import SaModel.Data.Arr
/-
The `impl Context` of the readers (serde_arrow/src/internal/deserialization/*.rs): which reader
`ArrayDeserializer::new` builds for a view, and the `data_type` label that reader annotates its errors with.
The reader model (`Reader.lean`) works on `Arr` directly, one arm per reader family; this file gives each family
the label of its Rust `annotate`.  The table is compared with the labels extracted from the sources on every run
(`SaModel/Props/C18Gen.lean`).
-/
namespace SaModel.Read
open SaModel

/-- the constructor of `marrow::view::View` an array is seen through (the scrutinee of `ArrayDeserializer::new`) -/
def viewCtor : Arr → String
  | .null _ => "Null"
  | .boolean _ _ _ => "Boolean"
  | .prim ty _ _ =>
    match ty with
    | .int8 => "Int8" | .int16 => "Int16" | .int32 => "Int32" | .int64 => "Int64"
    | .uint8 => "UInt8" | .uint16 => "UInt16" | .uint32 => "UInt32" | .uint64 => "UInt64"
    | .float16 => "Float16" | .float32 => "Float32" | .float64 => "Float64"
    | .date32 => "Date32" | .date64 => "Date64"
  | .time ty _ _ _ => match ty with | .time32 => "Time32" | .time64 => "Time64" | .duration => "Duration"
  | .timestamp _ _ _ _ => "Timestamp"
  | .decimal128 _ _ _ _ => "Decimal128"
  | .bytes ty _ _ _ =>
    match ty with
    | .utf8 => "Utf8" | .largeUtf8 => "LargeUtf8" | .binary => "Binary" | .largeBinary => "LargeBinary"
  | .bytesView ty _ _ _ => match ty with | .utf8View => "Utf8View" | .binaryView => "BinaryView"
  | .fixedSizeBinary _ _ _ => "FixedSizeBinary"
  | .struct _ _ _ => "Struct"
  | .list large _ _ _ _ => if large then "LargeList" else "List"
  | .fixedSizeList _ _ _ _ _ => "FixedSizeList"
  | .map _ _ _ _ _ => "Map"
  | .dictionary _ _ => "Dictionary"
  | .union _ _ _ => "Union"

/-- the `data_type` label of the reader built for an array (`impl Context for …Deserializer`).  Readers of types
with parameters write `Name(..)`; unlike the builders, the list readers do too (`List(..)`, builders: `List`). -/
def label : Arr → String
  | .null _ => "Null"
  | .boolean _ _ _ => "Boolean"
  | .prim ty _ _ =>
    match ty with
    | .int8 => "Int8" | .int16 => "Int16" | .int32 => "Int32" | .int64 => "Int64"
    | .uint8 => "UInt8" | .uint16 => "UInt16" | .uint32 => "UInt32" | .uint64 => "UInt64"
    | .float16 => "Float16" | .float32 => "Float32" | .float64 => "Float64"
    | .date32 => "Date32" | .date64 => "Date64"
  | .time ty _ _ _ => match ty with | .time32 => "Time32" | .time64 => "Time64" | .duration => "Duration(..)"
  | .timestamp _ _ _ _ => "Timestamp(..)"
  | .decimal128 _ _ _ _ => "Decimal128(..)"
  | .bytes ty _ _ _ =>
    match ty with
    | .utf8 => "Utf8" | .largeUtf8 => "LargeUtf8" | .binary => "Binary" | .largeBinary => "LargeBinary"
  | .bytesView ty _ _ _ => match ty with | .utf8View => "Utf8View" | .binaryView => "BinaryView"
  | .fixedSizeBinary _ _ _ => "FixedSizeBinary(..)"
  | .struct _ _ _ => "Struct(..)"
  | .list large _ _ _ _ => if large then "LargeList(..)" else "List(..)"
  | .fixedSizeList _ _ _ _ _ => "FixedSizeList(..)"
  | .map _ _ _ _ _ => "Map(..)"
  | .dictionary _ _ => "Dictionary(..)"
  | .union _ _ _ => "Union(..)"

/-- what a reader writes into an error that carries no annotations yet (`BTreeMap`, sorted by key) -/
def ann (path : String) (a : Arr) : List (String × String) := [("data_type", label a), ("field", path)]

end SaModel.Read
