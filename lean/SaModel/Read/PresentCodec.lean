import SaModel.Spec.Present
import SaModel.Read.Reader
/-
The `TextCodec` of the reader model: the texts of temporal / decimal values as `Read/Reader.lean` renders them (`dateRepr`,
`timeRepr`, `Codec.timestampToString`, `durationRepr`, `decimalRepr` — the codec functions of C14 / C15, `Codec/*.lean`).  It is the
parameter at which the reader-side specification `Spec/Present.lean` is instantiated by the theorems
(`Lemmas/C02PresentBridge*.lean`, `Props/C02Present.lean`) and by the driver (`Driver/Suites/Read.lean`).  Not a proof file: the
driver executable links it.
-/
namespace SaModel.Read
open SaModel SaModel.Spec

def readCodec : TextCodec where
  date is64 x := (dateRepr (if is64 then .date64 else .date32) x).toOption
  time u x := (timeRepr u x).toOption
  timestamp u utc x := (do pure (charsBytes (← Codec.timestampToString (readUnit u) utc x)) : R Bytes).toOption
  duration u x := durationRepr u x
  decimal s x := decimalRepr s x

end SaModel.Read
